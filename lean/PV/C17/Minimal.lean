import PV.C17.ShortestRT
/-
  C17 — MINIMALITY of the shortest digits (core Lean only).

  `shortest_minimal`: no decimal inside the rounding interval of a finite non-zero double has fewer digits than
  `PV.Dec.shortest` returns (both tie rules).  Route:
  * `shortestAt_none_complete`: at a scale `10^k` the two candidates `shortestAt` examines (floor and ceiling of the
    scaled value) are the only multiples of `10^k` that can lie in the interval — `none` means there is none at all;
  * `shortestGo_first`: the search returns the candidate of the FIRST digit count `n0 ≤ 17` that has one;
  * a competitor `D·10^k`, `D < 10^L`, is either `≥ 10^e10` — then `e10 < L + k`, so it is a multiple of the scale of
    count `max 1 (e10 − k + 1) ≤ L` (`inside_shift_iff`) — or `< 10^e10 ≤ x`, and then `10^e10` itself lies in the
    interval (`crossing`), a one-digit candidate; either way `n0 ≤ L`;
  * the chosen candidate is `≤ 10^n0` (`topBound`), so its stripped digits are at most `n0` long
    (`strip_digits_le`; `10^n0` itself strips to the single digit `1`).
-/
namespace PV.Dec


/-- per-count completeness: if `shortestAt` finds no candidate at the scale `10^k`, then NO multiple of
    `10^k` lies in the interval (the two it examines, below and above the value, are the only possible ones) -/
theorem shortestAt_none_complete (tie : Bool) (v lo hi : Nat) (incl : Bool) (g k : Int)
    (h : shortestAt tie v lo hi incl g k = none) (h1 : lo < v) (h2 : v < hi) (d : Nat) :
    ¬ Inside lo hi incl g k d := by
  unfold shortestAt at h
  unfold Inside
  have ha : 0 < (10 ^ k.toNat * 2 ^ (-g).toNat) := Nat.mul_pos (Nat.pow_pos (by omega)) (Nat.pow_pos (by omega))
  have hb : 0 < (2 ^ g.toNat * 10 ^ (-k).toNat) := Nat.mul_pos (Nat.pow_pos (by omega)) (Nat.pow_pos (by omega))
  generalize (10 ^ k.toNat * 2 ^ (-g).toNat) = a at *
  generalize (2 ^ g.toNat * 10 ^ (-k).toNat) = b at *
  simp only at h
  have e1 := Nat.div_add_mod (v * b) a
  have e2 := Nat.mod_lt (v * b) ha
  have e3 : (v * b / a + 1) * a = a * (v * b / a) + a := by rw [Nat.add_mul, Nat.one_mul, Nat.mul_comm]
  have e4 : v * b / a * a = a * (v * b / a) := Nat.mul_comm _ _
  have l1 : lo * b < v * b := Nat.mul_lt_mul_of_pos_right h1 hb
  have l2 : v * b < hi * b := Nat.mul_lt_mul_of_pos_right h2 hb
  rw [e3, e4] at h
  -- d ≤ dLo or d ≥ dLo + 1
  have hd : d * a ≤ a * (v * b / a) ∨ a * (v * b / a) + a ≤ d * a := by
    by_cases hc : d ≤ v * b / a
    · left; rw [Nat.mul_comm a]; exact Nat.mul_le_mul_right _ hc
    · right
      have : (v * b / a + 1) * a ≤ d * a := Nat.mul_le_mul_right _ (by omega)
      rw [e3] at this; exact this
  generalize a * (v * b / a) = X at *
  generalize d * a = Y at *
  cases incl <;> simp only [Bool.false_eq_true, if_false, if_true] at h ⊢ <;>
  · split at h
    · exfalso; revert h; split <;> (try split) <;> (try split) <;> simp
    · cases h
    · cases h
    · rename_i h1 h2
      simp at h1 h2
      omega

/-- a returned candidate is the floor of the scaled value or its successor -/
theorem shortestAt_some_le (tie : Bool) (v lo hi : Nat) (incl : Bool) (g k : Int) (d : Nat)
    (h : shortestAt tie v lo hi incl g k = some d) :
    d ≤ v * (2 ^ g.toNat * 10 ^ (-k).toNat) / (10 ^ k.toNat * 2 ^ (-g).toNat) + 1 := by
  unfold shortestAt at h
  generalize (10 ^ k.toNat * 2 ^ (-g).toNat) = a at *
  generalize (2 ^ g.toNat * 10 ^ (-k).toNat) = b at *
  simp only at h
  generalize v * b / a = q at *
  split at h
  · split at h
    · cases h; omega
    · split at h
      · cases h; omega
      · split at h <;> cases h <;> omega
  · cases h; omega
  · cases h; omega
  · cases h

/-- the search stops at the FIRST digit count that has a candidate, and it stops within 17 -/
theorem shortestGo_first (tie : Bool) (v lo hi : Nat) (incl : Bool) (g e10 : Int)
    (h1 : lo < v) (h2 : v < hi)
    (hs : lo * (2 ^ g.toNat * 10 ^ (-(e10 - 16)).toNat) + (10 ^ (e10 - 16).toNat * 2 ^ (-g).toNat) <
          hi * (2 ^ g.toNat * 10 ^ (-(e10 - 16)).toNat)) :
    ∀ (fuel n : Nat), n + fuel = 18 → 1 ≤ fuel →
      ∃ n0 : Nat, n ≤ n0 ∧ n0 ≤ 17 ∧
        shortestAt tie v lo hi incl g (e10 - ((n0 : Int) - 1)) = some (shortestGo tie fuel n v lo hi incl g e10).1 ∧
        (shortestGo tie fuel n v lo hi incl g e10).2 = e10 - ((n0 : Int) - 1) ∧
        ∀ j : Nat, n ≤ j → j < n0 → shortestAt tie v lo hi incl g (e10 - ((j : Int) - 1)) = none := by
  intro fuel
  induction fuel with
  | zero => intro n _ h; omega
  | succ f ih =>
    intro n hn _
    unfold shortestGo
    simp only
    split
    · rename_i d hd
      exact ⟨n, Nat.le_refl _, by omega, hd, rfl, fun j a b => by omega⟩
    · rename_i hd
      by_cases hf : f = 0
      · exfalso
        have hn17 : n = 17 := by omega
        subst hn17
        have hk : e10 - (((17 : Nat) : Int) - 1) = e10 - 16 := by omega
        rw [hk] at hd
        have := shortestAt_none _ _ _ _ _ _ _ hd h1 h2
        omega
      · obtain ⟨n0, a1, a2, a3, a4, a5⟩ := ih (n + 1) (by omega) (by omega)
        refine ⟨n0, by omega, a2, a3, a4, ?_⟩
        intro j hj1 hj2
        by_cases hjn : j = n
        · subst hjn; exact hd
        · exact a5 j (by omega) hj2


theorem inside_shift_iff (lo hi : Nat) (incl : Bool) (g k : Int) (D z : Nat) :
    Inside lo hi incl g k (D * 10 ^ z) ↔ Inside lo hi incl g (k + z) D := by
  unfold Inside
  have r : D * 10 ^ z * (10 ^ k.toNat * 2 ^ (-g).toNat) = D * (2 ^ (-g).toNat * 10 ^ (z + k.toNat)) := by
    rw [Nat.pow_add]; ac_rfl
  have e1 : ∀ X : Nat, X * (2 ^ g.toNat * 10 ^ (-k).toNat) ≤ D * 10 ^ z * (10 ^ k.toNat * 2 ^ (-g).toNat) ↔
      X * (2 ^ g.toNat * 10 ^ (-(k + z)).toNat) ≤ D * (10 ^ (k + z).toNat * 2 ^ (-g).toNat) := by
    intro X
    rw [r, Nat.mul_comm (10 ^ (k + z).toNat)]
    exact le_rescale _ _ _ _ _ _ _ _ _ _ (by omega) (by omega)
  have e2 : ∀ X : Nat, D * 10 ^ z * (10 ^ k.toNat * 2 ^ (-g).toNat) ≤ X * (2 ^ g.toNat * 10 ^ (-k).toNat) ↔
      D * (10 ^ (k + z).toNat * 2 ^ (-g).toNat) ≤ X * (2 ^ g.toNat * 10 ^ (-(k + z)).toNat) := by
    intro X
    rw [r, Nat.mul_comm (10 ^ (k + z).toNat)]
    exact le_rescale _ _ _ _ _ _ _ _ _ _ (by omega) (by omega)
  have e3 : ∀ X : Nat, X * (2 ^ g.toNat * 10 ^ (-k).toNat) < D * 10 ^ z * (10 ^ k.toNat * 2 ^ (-g).toNat) ↔
      X * (2 ^ g.toNat * 10 ^ (-(k + z)).toNat) < D * (10 ^ (k + z).toNat * 2 ^ (-g).toNat) := by
    intro X
    rw [r, Nat.mul_comm (10 ^ (k + z).toNat)]
    exact lt_rescale _ _ _ _ _ _ _ _ _ _ (by omega) (by omega)
  have e4 : ∀ X : Nat, D * 10 ^ z * (10 ^ k.toNat * 2 ^ (-g).toNat) < X * (2 ^ g.toNat * 10 ^ (-k).toNat) ↔
      D * (10 ^ (k + z).toNat * 2 ^ (-g).toNat) < X * (2 ^ g.toNat * 10 ^ (-(k + z)).toNat) := by
    intro X
    rw [r, Nat.mul_comm (10 ^ (k + z).toNat)]
    exact lt_rescale _ _ _ _ _ _ _ _ _ _ (by omega) (by omega)
  cases incl
  · simp only [Bool.false_eq_true, if_false, e3, e4]
  · simp only [if_true, e1, e2]

theorem natDigits_pow10 (n : Nat) : natDigits (10 ^ n) = 1 :: List.replicate n 0 := by
  induction n with
  | zero => decide
  | succ n ih =>
    rw [Nat.pow_succ, natDigits_mul10 _ (Nat.pow_pos (by omega)), ih, List.replicate_succ']
    rfl

theorem strip_one_zeros (n : Nat) : stripTrailingZeros (1 :: List.replicate n 0) = [1] := by
  unfold stripTrailingZeros
  rw [List.reverse_cons, List.reverse_replicate]
  have : ∀ n : Nat, (List.replicate n 0 ++ [1]).dropWhile (· == 0) = [1] := by
    intro n
    induction n with
    | zero => rfl
    | succ n ih => rw [List.replicate_succ, List.cons_append, List.dropWhile_cons]; simp [ih]
  rw [this]; rfl

theorem strip_length_le (ds : List Nat) : (stripTrailingZeros ds).length ≤ ds.length := by
  obtain ⟨z, hz⟩ := stripTrailingZeros_split ds
  have := congrArg List.length hz
  rw [List.length_append] at this
  omega

/-- the stripped digits of a number `≤ 10^n` are at most `n` long (`10^n` itself strips to `1`) -/
theorem strip_digits_le (d n : Nat) (hn : 1 ≤ n) (hd : d ≤ 10 ^ n) :
    (stripTrailingZeros (natDigits d)).length ≤ n := by
  by_cases h : d = 10 ^ n
  · rw [h, natDigits_pow10, strip_one_zeros]; exact hn
  · have hlt : d < 10 ^ n := by omega
    apply Nat.le_trans (strip_length_le _)
    by_cases h0 : d = 0
    · subst h0; exact hn
    · obtain ⟨a, b, c⟩ := natDigits_length_spec d (by omega)
      generalize (natDigits d).length = l at *
      have : 10 ^ (l - 1) < 10 ^ n := by omega
      have := (Nat.pow_lt_pow_iff_right (a := 10) (by omega)).1 this
      omega

/-! ### the value against powers of ten -/

/-- `x < 10^(e10+1)`, at the scale of digit count `n`: the floor candidate has at most `n` digits -/
theorem topBound (m : Nat) (e : Int) (hm : 0 < m) (n : Nat) (hn : 1 ≤ n) :
    let k := ilog10 (ratOf m e).1 (ratOf m e).2 - ((n : Int) - 1)
    let g := e - 2
    (4 * m) * (2 ^ g.toNat * 10 ^ (-k).toNat) < 10 ^ n * (10 ^ k.toNat * 2 ^ (-g).toNat) := by
  intro k g
  obtain ⟨hn', hd⟩ := ratOf_pos m e hm
  have h := (ilog10_spec _ _ hn' hd).2
  rw [scale10_eq, ratOf_eq] at h
  simp only [Int.neg_neg] at h
  generalize he10 : ilog10 (m * 2 ^ e.toNat) (2 ^ (-e).toNat) = e10 at h
  have hk : k = e10 - ((n : Int) - 1) := by simp only [k, ratOf_eq, he10]
  have h' : m * (2 ^ e.toNat * 10 ^ (-e10).toNat) < 1 * (2 ^ (-e).toNat * 10 ^ (e10.toNat + 1)) := by
    rw [Nat.one_mul, Nat.pow_add, Nat.pow_one, ← Nat.mul_assoc m]
    calc m * 2 ^ e.toNat * 10 ^ (-e10).toNat < 10 * (2 ^ (-e).toNat * 10 ^ e10.toNat) := h
      _ = _ := by ac_rfl
  rw [lt_rescale m 1 _ _ _ _ (g.toNat + 2) (-k).toNat (-g).toNat (k.toNat + n) (by omega) (by omega)] at h'
  rw [Nat.pow_add, Nat.pow_add] at h'
  calc (4 * m) * (2 ^ g.toNat * 10 ^ (-k).toNat) = m * (2 ^ g.toNat * 2 ^ 2 * 10 ^ (-k).toNat) := by
        rw [show (2 : Nat) ^ 2 = 4 from rfl]; ac_rfl
    _ < 1 * (2 ^ (-g).toNat * (10 ^ k.toNat * 10 ^ n)) := h'
    _ = _ := by ac_rfl

/-- `10^e10 ≤ x` at the scale of one digit -/
theorem lowBound (m : Nat) (e : Int) (hm : 0 < m) :
    let k := ilog10 (ratOf m e).1 (ratOf m e).2
    let g := e - 2
    1 * (10 ^ k.toNat * 2 ^ (-g).toNat) ≤ (4 * m) * (2 ^ g.toNat * 10 ^ (-k).toNat) := by
  intro k g
  obtain ⟨hn', hd⟩ := ratOf_pos m e hm
  have h := (ilog10_spec _ _ hn' hd).1
  rw [scale10_eq, ratOf_eq] at h
  simp only [Int.neg_neg] at h
  generalize he10 : ilog10 (m * 2 ^ e.toNat) (2 ^ (-e).toNat) = e10 at h
  have hk : k = e10 := by simp only [k, ratOf_eq, he10]
  rw [hk]
  have h' : 1 * (2 ^ (-e).toNat * 10 ^ e10.toNat) ≤ m * (2 ^ e.toNat * 10 ^ (-e10).toNat) := by
    rw [Nat.one_mul, ← Nat.mul_assoc]; exact h
  rw [le_rescale 1 m _ _ _ _ (-g).toNat e10.toNat (g.toNat + 2) (-e10).toNat (by omega) (by omega)] at h'
  rw [Nat.pow_add] at h'
  calc 1 * (10 ^ e10.toNat * 2 ^ (-g).toNat) = 1 * (2 ^ (-g).toNat * 10 ^ e10.toNat) := by ac_rfl
    _ ≤ m * (2 ^ g.toNat * 2 ^ 2 * 10 ^ (-e10).toNat) := h'
    _ = _ := by rw [show (2 : Nat) ^ 2 = 4 from rfl]; ac_rfl

/-- a decimal of the interval below `10^e10 ≤ x`: then `10^e10` itself is in the interval -/
theorem crossing (lo hi v : Nat) (incl : Bool) (g k e10 : Int) (D : Nat) (hv : v < hi)
    (h : Inside lo hi incl g k D)
    (hy : D * (10 ^ k.toNat * 10 ^ (-e10).toNat) < 10 ^ e10.toNat * 10 ^ (-k).toNat)
    (hx : 1 * (10 ^ e10.toNat * 2 ^ (-g).toNat) ≤ v * (2 ^ g.toNat * 10 ^ (-e10).toNat)) :
    Inside lo hi incl g e10 1 := by
  have hlo : lo * (2 ^ g.toNat * 10 ^ (-k).toNat) ≤ D * (10 ^ k.toNat * 2 ^ (-g).toNat) := by
    unfold Inside at h
    cases incl <;> simp only [Bool.false_eq_true, if_false, if_true] at h <;> omega
  have hb : 0 < 2 ^ g.toNat * 10 ^ (-e10).toNat := pos210 _ _
  have hhi : 1 * (10 ^ e10.toNat * 2 ^ (-g).toNat) < hi * (2 ^ g.toNat * 10 ^ (-e10).toNat) :=
    Nat.lt_of_le_of_lt hx (Nat.mul_lt_mul_of_pos_right hv hb)
  have hlo' : lo * (2 ^ g.toNat * 10 ^ (-e10).toNat) < 1 * (10 ^ e10.toNat * 2 ^ (-g).toNat) := by
    have s1 : lo * (2 ^ g.toNat * 10 ^ (-k).toNat) * (10 ^ k.toNat * 10 ^ (-e10).toNat) ≤
        D * (10 ^ k.toNat * 2 ^ (-g).toNat) * (10 ^ k.toNat * 10 ^ (-e10).toNat) := Nat.mul_le_mul_right _ hlo
    have s2 : (10 ^ k.toNat * 2 ^ (-g).toNat) * (D * (10 ^ k.toNat * 10 ^ (-e10).toNat)) <
        (10 ^ k.toNat * 2 ^ (-g).toNat) * (10 ^ e10.toNat * 10 ^ (-k).toNat) :=
      Nat.mul_lt_mul_of_pos_left hy (Nat.mul_pos (Nat.pow_pos (by omega)) (Nat.pow_pos (by omega)))
    have s3 : lo * (2 ^ g.toNat * 10 ^ ((-k).toNat + k.toNat + (-e10).toNat)) <
        1 * (2 ^ (-g).toNat * 10 ^ (k.toNat + e10.toNat + (-k).toNat)) := by
      rw [Nat.pow_add, Nat.pow_add, Nat.pow_add, Nat.pow_add]
      calc lo * (2 ^ g.toNat * (10 ^ (-k).toNat * 10 ^ k.toNat * 10 ^ (-e10).toNat))
          = lo * (2 ^ g.toNat * 10 ^ (-k).toNat) * (10 ^ k.toNat * 10 ^ (-e10).toNat) := by ac_rfl
        _ ≤ D * (10 ^ k.toNat * 2 ^ (-g).toNat) * (10 ^ k.toNat * 10 ^ (-e10).toNat) := s1
        _ = (10 ^ k.toNat * 2 ^ (-g).toNat) * (D * (10 ^ k.toNat * 10 ^ (-e10).toNat)) := by ac_rfl
        _ < (10 ^ k.toNat * 2 ^ (-g).toNat) * (10 ^ e10.toNat * 10 ^ (-k).toNat) := s2
        _ = _ := by ac_rfl
    rw [lt_rescale lo 1 _ _ _ _ g.toNat (-e10).toNat (-g).toNat e10.toNat (by omega) (by omega)] at s3
    rw [Nat.mul_comm (10 ^ e10.toNat)]; exact s3
  unfold Inside
  cases incl <;> simp only [Bool.false_eq_true, if_false, if_true]
  · exact ⟨hlo', hhi⟩
  · exact ⟨Nat.le_of_lt hlo', Nat.le_of_lt hhi⟩

theorem ofDigits_lt (ds : List Nat) (h : ∀ d ∈ ds, d < 10) : ofDigits ds < 10 ^ ds.length := by
  have key : ∀ (ds : List Nat), (∀ d ∈ ds, d < 10) → ∀ acc : Nat,
      ds.foldl (fun a d => 10 * a + d) acc + 1 ≤ (acc + 1) * 10 ^ ds.length := by
    intro ds
    induction ds with
    | nil => intro _ acc; simp
    | cons x xs ih =>
      intro hx acc
      have h1 := ih (fun d hd => hx d (by simp [hd])) (10 * acc + x)
      have h2 : x < 10 := hx x (by simp)
      simp only [List.foldl_cons, List.length_cons]
      have h3 : (10 * acc + x + 1) * 10 ^ xs.length ≤ (acc + 1) * 10 ^ (xs.length + 1) := by
        rw [Nat.pow_succ, Nat.mul_comm (10 ^ xs.length) 10, ← Nat.mul_assoc]
        exact Nat.mul_le_mul_right _ (by omega)
      omega
  have := key ds h 0
  unfold ofDigits
  omega


/-! ### minimality -/

/-- decimal exponent of the value of a double, as `shortestInt` computes it -/
def dexp (bits : Nat) : Int :=
  ilog10 (ratOf (decompose bits).2.1 (decompose bits).2.2).1 (ratOf (decompose bits).2.1 (decompose bits).2.2).2

theorem shortestInt_eq (bits : Nat) (tie : Bool) :
    shortestInt bits tie =
      shortestGo tie 17 1 (ivV bits) (ivLo bits) (ivHi bits) (ivIncl bits) (ivG bits) (dexp bits) := by
  unfold shortestInt ivLo ivHi ivV ivG ivIncl dexp
  rfl

/-- at 17 digits the decimal grid is finer than the rounding interval -/
theorem search_suff (bits : Nat) (hz : isZero bits = false) :
    ivLo bits * (2 ^ (ivG bits).toNat * 10 ^ (-(dexp bits - 16)).toNat) +
        (10 ^ (dexp bits - 16).toNat * 2 ^ (-(ivG bits)).toNat) <
      ivHi bits * (2 ^ (ivG bits).toNat * 10 ^ (-(dexp bits - 16)).toNat) := by
  have hm := mant_pos bits hz
  have hlt := mant_lt bits
  have hg := grid17 (decompose bits).2.1 (decompose bits).2.2 hm
  simp only at hg
  unfold dexp
  generalize ilog10 _ _ = e10 at *
  unfold ivLo ivHi ivV ivG
  generalize hA : 10 ^ (e10 - 16).toNat * 2 ^ (-((decompose bits).2.2 - 2)).toNat = A at *
  generalize hB : 2 ^ ((decompose bits).2.2 - 2).toNat * 10 ^ (-(e10 - 16)).toNat = B at *
  have hB0 : 0 < B := by rw [← hB]; exact Nat.mul_pos (Nat.pow_pos (by omega)) (Nat.pow_pos (by omega))
  split
  · rename_i hbd
    have hm52 := mant_boundary bits hbd
    rw [hm52] at hg ⊢
    have : A < 3 * B := by
      apply Nat.lt_of_mul_lt_mul_right (a := 10 ^ 16)
      have : 4 * 2 ^ 52 * B < 3 * B * 10 ^ 16 := by omega
      omega
    have e2 : (4 * 2 ^ 52 + 2) * B = (4 * 2 ^ 52 - 1) * B + 3 * B := by
      rw [← Nat.add_mul]
    omega
  · generalize (decompose bits).2.1 = m at *
    have : A < 4 * B := by
      apply Nat.lt_of_mul_lt_mul_right (a := 10 ^ 16)
      have h3 : m * B < 2 ^ 53 * B := Nat.mul_lt_mul_of_pos_right hlt hB0
      have e3 : 4 * m * B = 4 * (m * B) := Nat.mul_assoc _ _ _
      omega
    have e2 : (4 * m + 2) * B = (4 * m - 2) * B + 4 * B := by
      rw [← Nat.add_mul]; congr 1; omega
    omega

/-- the search stops at a digit count `n0` that no decimal of the interval can beat -/
theorem shortestInt_minimal (bits : Nat) (tie : Bool) (hz : isZero bits = false)
    (D : Nat) (k : Int) (L : Nat) (hL : 1 ≤ L) (hD : D < 10 ^ L) (h : InIvl bits D k) :
    ∃ n0 : Nat, 1 ≤ n0 ∧ n0 ≤ L ∧ n0 ≤ 17 ∧ (shortestInt bits tie).1 ≤ 10 ^ n0 := by
  have hm := mant_pos bits hz
  have h1 : ivLo bits < ivV bits := by unfold ivLo ivV; split <;> omega
  have h2 : ivV bits < ivHi bits := by unfold ivHi; omega
  obtain ⟨n0, a1, a2, a3, _, a5⟩ := shortestGo_first tie _ _ _ (ivIncl bits) _ _ h1 h2 (search_suff bits hz) 17 1
    (by omega) (by omega)
  rw [← shortestInt_eq] at a3
  have hlow := lowBound (decompose bits).2.1 (decompose bits).2.2 hm
  have htop := topBound (decompose bits).2.1 (decompose bits).2.2 hm n0 a1
  simp only at hlow htop
  have hv : ivV bits = 4 * (decompose bits).2.1 := rfl
  have hgd : ivG bits = (decompose bits).2.2 - 2 := rfl
  have hed : dexp bits = ilog10 (ratOf (decompose bits).2.1 (decompose bits).2.2).1
      (ratOf (decompose bits).2.1 (decompose bits).2.2).2 := rfl
  rw [← hv, ← hgd, ← hed] at hlow htop
  unfold InIvl at h
  generalize ivV bits = v at *
  generalize ivLo bits = lo at *
  generalize ivHi bits = hi at *
  generalize ivG bits = g at *
  generalize dexp bits = e10 at *
  generalize ivIncl bits = incl at *
  refine ⟨n0, a1, ?_, a2, ?_⟩
  · apply Nat.le_of_not_gt
    intro hgt
    by_cases hy : D * (10 ^ k.toNat * 10 ^ (-e10).toNat) < 10 ^ e10.toNat * 10 ^ (-k).toNat
    · have hc := crossing lo hi v incl g k e10 D h2 h hy hlow
      have hnone := a5 1 (Nat.le_refl _) (by omega)
      rw [show e10 - (((1 : Nat) : Int) - 1) = e10 by omega] at hnone
      exact shortestAt_none_complete _ _ _ _ _ _ _ hnone h1 h2 1 hc
    · have hp : 0 < 10 ^ k.toNat * 10 ^ (-e10).toNat := Nat.mul_pos (Nat.pow_pos (by omega)) (Nat.pow_pos (by omega))
      have q1 : D * (10 ^ k.toNat * 10 ^ (-e10).toNat) < 10 ^ L * (10 ^ k.toNat * 10 ^ (-e10).toNat) :=
        Nat.mul_lt_mul_of_pos_right hD hp
      have q2 : 10 ^ (e10.toNat + (-k).toNat) < 10 ^ (L + (k.toNat + (-e10).toNat)) := by
        rw [Nat.pow_add, Nat.pow_add 10 L, Nat.pow_add 10 k.toNat]; omega
      have q3 := (Nat.pow_lt_pow_iff_right (a := 10) (by omega)).1 q2
      -- e10 < L + k
      by_cases hk : e10 ≤ k
      · -- a multiple of 10^e10: one digit
        have hnone := a5 1 (Nat.le_refl _) (by omega)
        rw [show e10 - (((1 : Nat) : Int) - 1) = e10 by omega] at hnone
        have hi' : Inside lo hi incl g (e10 + ((k - e10).toNat : Int)) D := by
          rw [show e10 + ((k - e10).toNat : Int) = k by omega]; exact h
        exact shortestAt_none_complete _ _ _ _ _ _ _ hnone h1 h2 _ ((inside_shift_iff _ _ _ _ _ _ _).2 hi')
      · have hj : (e10 - k + 1).toNat ≤ L := by omega
        have hnone := a5 (e10 - k + 1).toNat (by omega) (by omega)
        rw [show e10 - ((((e10 - k + 1).toNat : Nat) : Int) - 1) = k by omega] at hnone
        exact shortestAt_none_complete _ _ _ _ _ _ _ hnone h1 h2 D h
  · have hle := shortestAt_some_le _ _ _ _ _ _ _ _ a3
    have ha : 0 < 10 ^ (e10 - ((n0 : Int) - 1)).toNat * 2 ^ (-g).toNat :=
      Nat.mul_pos (Nat.pow_pos (by omega)) (Nat.pow_pos (by omega))
    have := (Nat.div_lt_iff_lt_mul ha).2 htop
    omega

/-- MINIMALITY of the shortest digits: no decimal `ds × 10^k` (digits `< 10`, any exponent, leading zeros
    allowed) inside the rounding interval of a finite non-zero double has fewer digits than `shortest`
    returns — for both tie rules. -/
theorem shortest_minimal (bits : Nat) (tie : Bool) (hz : isZero bits = false)
    (ds : List Nat) (k : Int) (hne : ds ≠ []) (hlt : ∀ d ∈ ds, d < 10)
    (h : InIvl bits (ofDigits ds) k) : (shortest bits tie).1.length ≤ ds.length := by
  have hL : 1 ≤ ds.length := List.length_pos_iff.2 hne
  obtain ⟨n0, b1, b2, _, b4⟩ := shortestInt_minimal bits tie hz (ofDigits ds) k ds.length hL (ofDigits_lt ds hlt) h
  have hs := strip_digits_le (shortestInt bits tie).1 n0 b1 b4
  unfold shortest
  simp only [hz, Bool.false_eq_true, if_false]
  rw [show shortestInt bits tie = ((shortestInt bits tie).1, (shortestInt bits tie).2) from rfl]
  simp only
  split
  · simp; omega
  · omega


-- 1/3: the 16 digits are minimal; e.g. neither 15-digit neighbour is in the interval, and at 15 digits the search
-- finds nothing, hence (completeness) no multiple of 10^-15 at all is in the interval
example : (shortest 0x3FD5555555555555).1.length = 16 := by decide +kernel
example : ¬ InIvl 0x3FD5555555555555 333333333333333 (-15) ∧ ¬ InIvl 0x3FD5555555555555 333333333333334 (-15) := by
  decide +kernel
example : shortestAt false (ivV 0x3FD5555555555555) (ivLo 0x3FD5555555555555) (ivHi 0x3FD5555555555555)
    (ivIncl 0x3FD5555555555555) (ivG 0x3FD5555555555555) (-15) = none := by decide +kernel
example (d : Nat) : ¬ InIvl 0x3FD5555555555555 d (-15) :=
  shortestAt_none_complete false (ivV 0x3FD5555555555555) _ _ _ _ _ (by decide +kernel) (by decide +kernel)
    (by decide +kernel) d
-- 0.1: its exact 55-digit expansion is a competitor inside the interval; `shortest` has 1 digit
example : (shortest 0x3FB999999999999A).1.length ≤ 55 :=
  shortest_minimal 0x3FB999999999999A false (by decide +kernel)
    [1,0,0,0,0,0,0,0,0,0,0,0,0,0,0,0,0,5,5,5,1,1,1,5,1,2,3,1,2,5,7,8,2,7,0,2,1,1,8,1,5,8,3,4,0,4,5,4,1,0,1,5,6,2,5]
    (-55) (by decide) (by decide) (by decide +kernel)
-- 1e23 (not representable; the double below prints as `1e+23`): the 17-digit competitor 9.9999999999999992e22
example : (shortest 0x44B52D02C7E14AF6).1 = [1] ∧
    InIvl 0x44B52D02C7E14AF6 (ofDigits [9,9,9,9,9,9,9,9,9,9,9,9,9,9,9,9,2]) 6 := by decide +kernel
-- 5e-324 and f64::MAX with CPython's tie rule
example : (shortest 1 true).1.length ≤ 3 :=
  shortest_minimal 1 true (by decide +kernel) [4,9,4] (-326) (by decide) (by decide) (by decide +kernel)
example : (shortest 0x7FEFFFFFFFFFFFFF true).1.length ≤ 17 :=
  shortest_minimal 0x7FEFFFFFFFFFFFFF true (by decide +kernel) [1,7,9,7,6,9,3,1,3,4,8,6,2,3,1,5,7] 292
    (by decide) (by decide) (by decide +kernel)

end PV.Dec
