import PV.C17.Model
import PV.C17.Spec
import PV.C17.Lemmas
namespace PV.C17
end PV.C17
