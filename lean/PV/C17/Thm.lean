import PV.C17.Model
import PV.C17.Spec
import PV.C17.Lemmas
import PV.C17.Clamp
/-
  C17 — property theorems.  Helper lemmas live in `PV/C17/Lemmas.lean`.
-/
namespace PV.C17
open PV.Dec PV.C17.Spec

/-! ### underscore stripping -/

/-- `strip_underlines` succeeds exactly on texts whose underscores all stand between two digits,
    and then returns the text without them. -/
theorem strip_underlines_spec (s t : List Nat) :
    stripUnderlines s = some t ↔ (UnderscoresOk s ∧ t = s.filter (· ≠ 95)) := by
  unfold stripUnderlines UnderscoresOk
  rw [stripGo_spec]
  cases s with
  | nil => simp [pairsOk]
  | cons a rest =>
    simp [pairsOk, adjOk_def, List.getLast?_cons_cons]
    have : isDigit 0 = false := by decide
    simp [this]
    constructor
    · rintro ⟨⟨h1, h2⟩, h3, h4⟩; exact ⟨⟨h2, h1, h3⟩, h4⟩
    · rintro ⟨⟨h2, h1, h3⟩, h4⟩; exact ⟨⟨h1, h2⟩, h3, h4⟩
example : stripUnderlines [49, 95, 48, 46, 53] = some [49, 48, 46, 53] := by decide
example : stripUnderlines [49, 95, 46, 53] = none := by decide

/-! ### parsing: the two entry points -/

/-- On ASCII input `parse_bytes` and `parse_str` agree (both strip space, `\t \n \x0b \x0c \r`;
    the vertical tab since commit 03089a4). -/
theorem parse_bytes_eq_parse_str (bs : List Nat) (h : ∀ b ∈ bs, b < 128) :
    parseBytes bs = parseStr bs := by
  unfold parseBytes parseStr
  have hw : ∀ c ∈ bs, isAsciiWhitespace c = isWhitespace c := by
    intro c hc
    have h1 := h c hc
    simp only [isAsciiWhitespace, isWhitespace]
    by_cases a : c = 32 <;> by_cases b : c = 9 <;> by_cases d : c = 10 <;> by_cases e : c = 12 <;>
      by_cases f : c = 13 <;> by_cases g : c = 11 <;> simp [*] <;> omega
  rw [trimWith_congr bs hw, utf8Encode_ascii]
  intro c hc
  exact h c (mem_trimWith hc)

example : parseBytes [32, 49, 95, 48, 46, 53, 10] = parseStr [32, 49, 95, 48, 46, 53, 10] :=
  parse_bytes_eq_parse_str _ (by decide)
example : parseStr [32, 49, 95, 48, 46, 53, 10] = some 0x4025000000000000 := by decide +kernel
example : parseBytes [11, 49, 11] = some 0x3FF0000000000000 := by decide +kernel     -- b"\x0b1\x0b"

/-! ### repr: special values and shape -/

/-- NaN and the infinities render as Python's `nan`, `inf`, `-inf`. -/
theorem repr_special (bits : Nat) (h : isFinite bits = false) :
    toString bits = if isNan bits then [110, 97, 110]
      else (if isNeg bits then [45] else []) ++ [105, 110, 102] := by
  have hinf : isNan bits = false → isInf bits = true := by
    simp only [isFinite, isNan, isInf] at *
    simp at h
    simp [h]
  unfold toString shortestFixedL
  simp only [h]
  by_cases hn : isNan bits = true
  · simp [hn, toLower]
  · simp only [Bool.not_eq_true] at hn
    simp only [hn, hinf hn]
    by_cases hs : isNeg bits = true <;> simp [hs, toLower]


example : toString 0x7FF8000000000000 = [110, 97, 110] := by decide +kernel
example : toString 0xFFF0000000000000 = [45, 105, 110, 102] := by decide +kernel

/-- Shape of the repr-style rendering of a finite double: exponent notation with a signed
    exponent of at least two digits when the decimal exponent is outside `[-4, 16)`, otherwise
    fixed notation with a `.` and at least one digit on both sides. -/
theorem repr_shape (bits : Nat) (hf : isFinite bits = true) :
    (¬ ((shortest bits).2 < 16 ∧ (shortest bits).2 > -5) → ExpShape (toString bits)) ∧
    (((shortest bits).2 < 16 ∧ (shortest bits).2 > -5) → (isInteger bits = false → FracDigits bits) →
      FixedShape (toString bits)) := by
  unfold toString
  simp only [hf, if_true]
  rw [show (shortestExpL bits) = ((shortestExpL bits).1, (shortestExpL bits).2) from rfl]
  simp only [shortestExpL_snd]
  constructor
  · intro h
    simp only [h, if_false]
    have := exp_shape bits
    rw [shortestExpL_snd] at this
    exact this
  · intro h hfd
    simp only [h]
    by_cases hi : isInteger bits = true
    · simp only [hi, if_true]; exact toFixedL_one_shape bits hf
    · simp only [hi]; exact shortestFixedL_shape bits hf (hfd (by simpa using hi))


-- 1e16 → "1e+16", 1e15 → "1000000000000000.0", 1.5e-7 → "1.5e-07", 0.0001 → "0.0001"
example : toString 0x4341C37937E08000 = [49, 101, 43, 49, 54] := by decide +kernel
example : toString 0x430C6BF526340000 = [49,48,48,48,48,48,48,48,48,48,48,48,48,48,48,48,46,48] := by decide +kernel
example : toString 0x3E8421F5F40D8376 = [49, 46, 53, 101, 45, 48, 55] := by decide +kernel
example : FracDigits 0x3F1A36E2EB1C432D := by decide +kernel

/-- "fixed notation with a `.0` for integers": a finite double whose value is the integer `n`
    and whose decimal exponent is in [-4, 16) is rendered as the digits of `n` followed by `.0`. -/
theorem repr_integer_dot_zero (bits n : Nat) (hf : isFinite bits = true)
    (hn : (ratOf (decompose bits).2.1 (decompose bits).2.2).1 = n * (ratOf (decompose bits).2.1 (decompose bits).2.2).2)
    (hr : (shortest bits).2 < 16 ∧ (shortest bits).2 > -5) :
    toString bits = (if isNeg bits then [45] else []) ++ showDigits (natDigits n) ++ [46, 48] := by
  unfold toString
  simp only [hf, if_true]
  rw [show (shortestExpL bits) = ((shortestExpL bits).1, (shortestExpL bits).2) from rfl]
  simp only [shortestExpL_snd, hr, and_self, if_true, isInteger_of_integer bits n hf hn]
  exact fixed1_of_integer bits n hf hn

example : toString 0x40FE240000000000 = [49, 50, 51, 52, 53, 54, 46, 48] := by decide +kernel   -- 123456.0


/-! ### `is_integer` is exact -/

/-- A finite double passes `is_integer` exactly when its value is an integer. -/
theorem isInteger_iff_integer (bits : Nat) (hf : isFinite bits = true) :
    isInteger bits = true ↔
      ∃ n, (ratOf (decompose bits).2.1 (decompose bits).2.2).1 =
        n * (ratOf (decompose bits).2.1 (decompose bits).2.2).2 :=
  ⟨exists_integer_of_isInteger bits hf, fun ⟨n, hn⟩ => isInteger_of_integer bits n hf hn⟩

example : isInteger 0x3FEFFFFFFFFFFFFF = false := by decide +kernel     -- 0.9999999999999999
example : isInteger 0x3FF0000000000001 = false := by decide +kernel     -- 1.0000000000000002
example : isInteger 0x4341C37937E08000 = true := by decide +kernel      -- 1e16

/-! ### repr: round trip -/

/-- Unconditional round trip for integer-valued doubles in the fixed-notation range (|n| < 10^16):
    `parse_str(to_string(x)) = x`, proved down to the bits, digit generation included. -/
theorem repr_roundtrip_integer (bits n : Nat) (hb : bits < 2 ^ 64) (hf : isFinite bits = true)
    (hn : (ratOf (decompose bits).2.1 (decompose bits).2.2).1 = n * (ratOf (decompose bits).2.1 (decompose bits).2.2).2)
    (hr : (shortest bits).2 < 16 ∧ (shortest bits).2 > -5) :
    parseStr (toString bits) = some bits := by
  rw [repr_integer_dot_zero bits n hf hn hr]
  have hd := natDigits_lt10 n
  have hne := natDigits_ne_nil n
  have hshape : (if isNeg bits = true then [45] else []) ++ showDigits (natDigits n) ++ [46, 48] =
      (if isNeg bits = true then [45] else []) ++ showDigits (natDigits n) ++ 46 :: showDigits [0] := rfl
  rw [hshape]
  have h0 : ∀ d ∈ [0], d < 10 := by intro d hd; simp at hd; omega
  have hplain : Plain ((if isNeg bits = true then [45] else []) ++ showDigits (natDigits n) ++ 46 :: showDigits [0]) :=
    plain_append (plain_append (plain_sign _) (plain_showDigits _ hd)) (plain_cons (by omega) (plain_showDigits _ h0))
  rw [parseStr_plain _ hplain, lexicalParse_fixed _ _ _ hne hd h0]
  refine congrArg some ?_
  unfold ofDecimal
  have hdig : ofDigits (natDigits n ++ [0]) = 10 * n := by
    rw [ofDigits_snoc, ofDigits_natDigits, Nat.add_zero]
  simp only [hdig, List.length_singleton]
  by_cases hz : n = 0
  · subst hz
    simp only [Nat.mul_zero, beq_self_eq_true, if_true]
    -- value 0: both fields are zero
    have hbf := bits_fields bits hb
    have hfr := fracField_lt bits
    unfold decompose ratOf at hn
    simp only [Nat.zero_mul] at hn
    by_cases he0 : expField bits = 0
    · simp only [he0, beq_self_eq_true, if_true] at hn
      have : ¬ ((-1074 : Int) ≥ 0) := by decide
      simp only [this, if_false] at hn
      rw [he0, hn] at hbf
      generalize (if isNeg bits = true then 2 ^ 63 else 0) = sg at *
      omega
    · exfalso
      have hb0 : (expField bits == 0) = false := by simpa using he0
      simp only [hb0, Bool.false_eq_true, if_false] at hn
      split at hn
      · have : 0 < 2 ^ ((expField bits : Int) - 1075).toNat := Nat.pow_pos (by omega)
        have := Nat.mul_pos (show 0 < fracField bits + 2 ^ 52 by omega) this
        omega
      · omega
  · have hpos : 0 < n := by omega
    have hne0 : ¬ (10 * n = 0) := by omega
    simp only [beq_iff_eq, hne0, if_false]
    have g1 : ¬ ((-((1 : Nat) : Int)) > 310) := by omega
    have g2 : ¬ (((natDigits (10 * n)).length : Int) + -((1 : Nat) : Int) < -330) := by omega
    simp only [g1, g2, if_false]
    have hs : scale10 (10 * n) 1 (-((1 : Nat) : Int)) = (10 * n, 10) := by
      unfold scale10; simp
    rw [hs]
    exact ofRat_ten_bits bits n hb hf hpos hn

example : parseStr (toString 0x40FE240000000000) = some 0x40FE240000000000 :=
  repr_roundtrip_integer _ 123456 (by decide) (by decide +kernel) (by decide +kernel) (by decide +kernel)


/-- Round trip of the repr-style rendering: `parse_str(to_string(x)) = x`, bit for bit, for every
    finite double; integer-valued doubles in fixed notation need no hypothesis, the others the two
    digit-generation facts `DecFacts` (shortest digits round back; a non-integer has fraction digits). -/
theorem repr_roundtrip_partial (bits : Nat) (hb : bits < 2 ^ 64) (hf : isFinite bits = true)
    (h : DecFacts bits) : parseStr (toString bits) = some bits := by
  by_cases hr : (shortest bits).2 < 16 ∧ (shortest bits).2 > -5
  · by_cases hi : isInteger bits = true
    · obtain ⟨n, hn⟩ := exists_integer_of_isInteger bits hf hi
      exact repr_roundtrip_integer bits n hb hf hn hr
    · have hi' : isInteger bits = false := by simpa using hi
      unfold toString
      simp only [hf, if_true]
      rw [show (shortestExpL bits) = ((shortestExpL bits).1, (shortestExpL bits).2) from rfl]
      simp only [shortestExpL_snd, hr, and_self, if_true, hi', Bool.false_eq_true, if_false]
      exact roundtrip_shortestFixed bits hf h (h.2 hi')
  · unfold toString
    simp only [hf, if_true]
    rw [show (shortestExpL bits) = ((shortestExpL bits).1, (shortestExpL bits).2) from rfl]
    simp only [shortestExpL_snd, hr, if_false]
    have := roundtrip_exp bits h
    rw [shortestExpL_snd] at this
    exact this

-- 1/3, 1e22, 5e-324, 123456.0 and 0.9999999999999999 all satisfy the hypothesis
example : DecFacts 0x3FD5555555555555 := by decide +kernel
example : DecFacts 0x4480F0CF064DD592 := by decide +kernel
example : DecFacts 1 := by decide +kernel
example : DecFacts 0x40FE240000000000 := by decide +kernel
example : DecFacts 0x3FEFFFFFFFFFFFFF := by decide +kernel
-- the value that `is_integer`'s former EPSILON window rounded to "1.0" (fixed by 5be0365)
example : toString 0x3FEFFFFFFFFFFFFF = [48,46,57,57,57,57,57,57,57,57,57,57,57,57,57,57,57,57] := by decide +kernel
example : parseStr (toString 0x3FEFFFFFFFFFFFFF) = some 0x3FEFFFFFFFFFFFFF :=
  repr_roundtrip_partial _ (by decide) (by decide +kernel) (by decide +kernel)

/-! ### hexadecimal text -/

/-- `to_hex` prints exactly `float.hex()`, for every double (subnormals included since 8617a1f). -/
theorem hex_eq_py (bits : Nat) : toHex bits = pyHex bits := by
  have hf := fracField_lt bits
  unfold toHex pyHex
  rw [hexMantExp_eq]
  simp only [isZero, isInf, isNan]
  by_cases he : expField bits = 0
  · by_cases hz : fracField bits = 0
    · simp [he, hz]
    · have hdiv : fracField bits / 2 ^ 52 = 0 := by omega
      have hmod : fracField bits % 2 ^ 52 = fracField bits := by omega
      have h0 : hexNat 0 = [48] := by decide
      simp only [he, if_true, hdiv, hmod, h0, hex13_eq _ hf, showSigned]
      simp [hz]
  · by_cases h2 : expField bits = 2047
    · by_cases hz : fracField bits = 0 <;> simp [h2, hz, sInf, sNan]
    · have hdiv : (fracField bits + 2 ^ 52) / 2 ^ 52 = 1 := by omega
      have hmod : (fracField bits + 2 ^ 52) % 2 ^ 52 = fracField bits := by omega
      have h1 : hexNat 1 = [49] := by decide
      simp only [he, if_false, hdiv, hmod, h1, hex13_eq _ hf, showSigned]
      have : ((expField bits : Int) - 1075 + 52) = (expField bits : Int) - 1023 := by omega
      simp [this, he, h2]

example : toHex 0x3FF8000000000000 = pyHex 0x3FF8000000000000 := hex_eq_py _
-- 5e-324: "0x0.0000000000001p-1022"
example : toHex 1 = [48,120,48,46,48,48,48,48,48,48,48,48,48,48,48,48,49,112,45,49,48,50,50] := by decide +kernel

/-- Hex round trip for every finite non-zero double on which hexf's conversion behaves
    (`HexFacts`): the scanner recovers `to_hex`'s mantissa digits and exponent exactly. -/
theorem hex_roundtrip_partial (bits : Nat) (hf : isFinite bits = true) (hz : isZero bits = false)
    (h : HexFacts bits) : fromHex (toHex bits) = some bits := by
  have hfr := fracField_lt bits
  have hexp : expField bits < 2048 := Nat.mod_lt _ (by omega)
  have hfin : expField bits ≠ 2047 := by simpa [isFinite] using hf
  unfold HexFacts at h
  unfold toHex
  simp only [hz, finite_not_inf hf, finite_not_nan hf, Bool.false_eq_true, if_false]
  have hid0 := hexMantExp_eq bits
  generalize hid : hexMantExp bits = id at *
  obtain ⟨mant, ex⟩ := id
  simp only at h ⊢
  have hmant : mant = if expField bits = 0 then fracField bits else fracField bits + 2 ^ 52 :=
    congrArg Prod.fst hid0
  have hex : ex = if expField bits = 0 then -1074 else (expField bits : Int) - 1075 :=
    congrArg Prod.snd hid0
  have hm0 : mant ≠ 0 := by
    rw [hmant]
    split
    · rename_i he
      simp only [isZero, he, beq_self_eq_true, Bool.true_and, beq_eq_false_iff_ne] at hz
      omega
    · omega
  have hlead : mant / 2 ^ 52 ≤ 1 := by rw [hmant]; split <;> omega
  have hnat : hexNat (mant / 2 ^ 52) = [48 + mant / 2 ^ 52] := by
    have : mant / 2 ^ 52 = 0 ∨ mant / 2 ^ 52 = 1 := by omega
    rcases this with e | e <;> rw [e] <;> decide
  have hf' : mant % 2 ^ 52 < 2 ^ 52 := Nat.mod_lt _ (by omega)
  rw [hnat, hex13_eq _ hf', hexFixed_eq_map]
  obtain ⟨sgn, ds, s1, s2, s3, s4, s5, s6⟩ := showSigned_value (ex + 52)
  rw [s1]
  have hbound : ofDigits ds ≤ isizeMax := by
    rw [s5, hex]; simp only [isizeMax]; split <;> omega
  have e16 : (16 : Nat) ^ 13 = 2 ^ 52 := by decide
  have hval : mant / 2 ^ 52 * 16 ^ 13 + ofHex (hexVals 13 (mant % 2 ^ 52)) = mant := by
    rw [ofHex_hexVals 13 _ (by rw [e16]; exact hf'), e16]
    have := Nat.div_add_mod mant (2 ^ 52)
    rw [Nat.mul_comm]; exact this
  obtain ⟨acc', nf', nz', a1, a2, a3⟩ := parseHexf64_shape (isNeg bits) (mant / 2 ^ 52) hlead
    (hexVals 13 (mant % 2 ^ 52)) (hexVals_lt16 13 _) (hexVals_length 13 _) sgn s2 ds s3 s4 hbound
    (by rw [hval]; exact hm0)
  have hshape : (if isNeg bits = true then [45] else []) ++ [48, 120] ++ [48 + mant / 2 ^ 52] ++ [46] ++
      List.map hexDig (hexVals 13 (mant % 2 ^ 52)) ++ [112] ++ sgn :: showDigits ds =
      (if isNeg bits = true then [45] else []) ++
        48 :: 120 :: (48 + mant / 2 ^ 52) :: 46 :: (List.map hexDig (hexVals 13 (mant % 2 ^ 52)) ++ 112 :: sgn :: showDigits ds) := by
    simp
  rw [hshape]
  unfold fromHex
  rw [a3, s6]
  rw [hval] at a1
  have hpos : 0 < 16 ^ nz' := Nat.pow_pos (by omega)
  have hk := h nz' (by omega) (by rw [← a1]; exact Nat.mul_mod_left _ _)
  have hdiv : mant / 16 ^ nz' = acc' := by rw [← a1]; exact Nat.mul_div_cancel _ hpos
  rw [hdiv] at hk
  have hexeq : ex + 52 - 4 * (nf' : Int) = ex + 4 * (nz' : Int) := by omega
  rw [hexeq, hk]


example : HexFacts 0x3FF8000000000000 := by decide +kernel
example : HexFacts 1 := by decide +kernel
example : HexFacts 0x7FEFFFFFFFFFFFFF := by decide +kernel
example : fromHex (toHex 0x000FFFFFFFFFFFFF) = some 0x000FFFFFFFFFFFFF := by decide +kernel


/-- zeros and infinities round-trip through hex unconditionally -/
theorem hex_roundtrip_zero_inf (bits : Nat) (hb : bits < 2 ^ 64)
    (h : isZero bits = true ∨ isInf bits = true) : fromHex (toHex bits) = some bits := by
  have hcases : bits = 0 ∨ bits = 2 ^ 63 ∨ bits = 0x7FF0000000000000 ∨ bits = 0xFFF0000000000000 := by
    simp only [isZero, isInf, expField, fracField, Bool.and_eq_true, beq_iff_eq] at h
    omega
  rcases hcases with rfl | rfl | rfl | rfl <;> decide +kernel


/-- `from_hex(to_hex(x)) = x` for every double that is not a NaN. -/
theorem hex_roundtrip (bits : Nat) (hb : bits < 2 ^ 64) (hn : isNan bits = false) :
    fromHex (toHex bits) = some bits := by
  by_cases hf : isFinite bits = true
  · by_cases hz : isZero bits = true
    · exact hex_roundtrip_zero_inf bits hb (Or.inl hz)
    · have hz' : isZero bits = false := by simpa using hz
      exact hex_roundtrip_partial bits hf hz' (hexFacts_all bits hb hf hz')
  · have : isInf bits = true := not_finite_nan_or_inf (by simpa using hf) hn
    exact hex_roundtrip_zero_inf bits hb (Or.inr this)


example : fromHex (toHex 0x3FB999999999999A) = some 0x3FB999999999999A := hex_roundtrip _ (by decide) (by decide)

/-! ### exponent suffix -/

/-- The exponent suffix written by `to_string`, `format_exponent` and `format_general`
    (`{exponent:+#03}`) is an explicit sign followed by at least two digits spelling `|e|`. -/
theorem exponent_two_digits (e : Int) :
    ∃ sgn ds, expSuffix e = sgn :: showDigits ds ∧ (sgn = 43 ∨ sgn = 45) ∧ 2 ≤ ds.length ∧
      (∀ d ∈ ds, d < 10) ∧ (sgn = 45 ↔ e < 0) ∧ ofDigits ds = e.natAbs :=
  expSuffix_shape e

/-- it is Python's/C's exponent spelling -/
theorem exponent_eq_py (e : Int) : expSuffix e = pyExp e := expSuffix_eq_pyExp e

/-- and the parser's exponent reader inverts it -/
theorem exponent_reads_back (e : Int) : parseExponent (101 :: expSuffix e) = some e :=
  parseExponent_expSuffix e

example : expSuffix 5 = [43, 48, 53] := by decide +kernel
example : expSuffix (-324) = [45, 51, 50, 52] := by decide +kernel

/-! ### printf-style renderers -/

/-! #### no precision is too large (fix 1c70d07)

`format!` takes a `u16` precision and panics above it, so `float.rs` asks it for at most
`MAX_FLOAT_DIGITS = 1100` digits and writes the rest as `'0'`.  That is exact: -/

/-- Beyond the 1074th decimal a double has only zeros: Rust's `{:.p$}` is `{:.L$}` plus `p - L` zeros
    for every `p ≥ L ≥ 1074` (every finite double). -/
theorem fixed_digits_beyond_1074_are_zeros (bits L p : Nat) (hf : isFinite bits = true)
    (hL : 1074 ≤ L) (hp : L ≤ p) :
    toFixedL bits p = toFixedL bits L ++ List.replicate (p - L) 48 :=
  toFixedL_clamp bits L p hf hL hp

/-- Beyond the 1100th digit after the leading one a double has only zeros, and the decimal exponent
    does not move: Rust's `{:.p$e}` is `{:.L$e}` with `p - L` zeros appended to the mantissa, for every
    `p ≥ L ≥ 1100` (every double). -/
theorem exp_digits_beyond_1100_are_zeros (bits L p : Nat) (hL : 1100 ≤ L) (hp : L ≤ p) :
    toExpL bits p = ((toExpL bits L).1 ++ List.replicate (p - L) 48, (toExpL bits L).2) :=
  toExpL_clamp' bits L p hL hp

/-- Hence the clamped renderers print what an unbounded `format!` precision would: `format_fixed`,
    `format_exponent` for every precision and double, `format_general` for every precision and
    non-negative double (both callers pass `abs`). -/
theorem format_clamp_invisible (precision bits : Nat) (upper alt asf : Bool) :
    (formatFixed precision bits upper alt =
      if isFinite bits then toFixedL bits precision ++ decimalPointOrEmpty precision alt
      else if isNan bits then formatNan upper else formatInf upper) ∧
    (formatExponent precision bits upper alt =
      if isFinite bits then
        (toExpL bits precision).1 ++ decimalPointOrEmpty precision alt ++ [eChar upper] ++
          expSuffix (toExpL bits precision).2
      else if isNan bits then formatNan upper else formatInf upper) ∧
    (isNeg bits = false → isFinite bits = true →
      formatGeneralCore precision bits upper alt asf =
        if (toExpL bits (precision - 1)).2 < -4 ∨
            (toExpL bits (precision - 1)).2 + (if asf then 1 else 0) ≥ (precision : Int) then
          maybeRemoveTrailingRedundantChars ((toExpL bits (precision - 1)).1.take (precision + 1)) alt ++
            decimalPointOrEmpty (precision - 1) alt ++ [eChar upper] ++ expSuffix (toExpL bits (precision - 1)).2
        else
          maybeRemoveTrailingRedundantChars
            (toFixedL bits ((precision : Int) - 1 - (toExpL bits (precision - 1)).2).toNat) alt ++
            decimalPointOrEmpty ((precision : Int) - 1 - (toExpL bits (precision - 1)).2).toNat alt ++
            (if asf ∧ !(maybeRemoveTrailingRedundantChars
                (toFixedL bits ((precision : Int) - 1 - (toExpL bits (precision - 1)).2).toNat) alt).contains 46
              then [46, 48] else [])) := by
  refine ⟨formatFixed_unclamped _ _ _ _, formatExponent_unclamped _ _ _ _, ?_⟩
  intro hs hf
  rw [formatGeneralCore_unclamped precision bits upper alt asf hs]
  simp only [hf, if_true]

-- '%.1200f' % 1.5 is "1.5" and 1199 zeros; '%.1200e' % 1.5 is "1.5", 1199 zeros, "e+00"
example : formatFixed 1200 0x3FF8000000000000 false false = [49, 46, 53] ++ List.replicate 1199 48 := by
  decide +kernel
example : formatExponent 1200 0x3FF8000000000000 false false =
    [49, 46, 53] ++ List.replicate 1199 48 ++ [101, 43, 48, 48] := by decide +kernel
-- the smallest subnormal has its last non-zero decimal at position 1074: '%.1074f' % 5e-324 ends in "…625"
example : (formatFixed 1074 1 false false).reverse.take 3 = [53, 50, 54] ∧
    (formatFixed 1075 1 false false).reverse.take 4 = [48, 53, 50, 54] := by decide +kernel

/-- `format_fixed` is C's `%.{prec}f` / `%#.{prec}f` as Python prints it. -/
theorem format_fixed_eq_printf (prec bits : Nat) (upper alt : Bool)
    (h : isFinite bits = true ∨ isNeg bits = false) :
    formatFixed prec bits upper alt = cPrintfF prec bits upper alt := by
  rw [formatFixed_unclamped]
  unfold cPrintfF
  by_cases hf : isFinite bits = true
  · simp only [hf, if_true, Bool.not_true, Bool.false_eq_true, if_false]
    unfold toFixedL decimalPointOrEmpty
    simp only [finite_not_nan hf, finite_not_inf hf, Bool.false_eq_true, if_false]
    generalize List.replicate (prec + 1 - (natDigits (fixedInt bits prec)).length) 0 ++
      natDigits (fixedInt bits prec) = ds
    by_cases hp : prec = 0
    · subst hp; cases alt <;> simp [showDigits]
    · have : 0 < prec := by omega
      simp [hp, this]
  · have hs : isNeg bits = false := by rcases h with h | h; exact absurd h hf; exact h
    simp only [Bool.not_eq_true] at hf
    simp only [hf, Bool.false_eq_true, if_false, Bool.not_false, if_true]
    exact special_eq bits upper hf hs

/-- `format_exponent` is C's `%.{prec}e` / `%#.{prec}e` as Python prints it. -/
theorem format_exponent_eq_printf (prec bits : Nat) (upper alt : Bool)
    (h : isFinite bits = true ∨ isNeg bits = false) :
    formatExponent prec bits upper alt = cPrintfE prec bits upper alt := by
  rw [formatExponent_unclamped]
  unfold cPrintfE
  by_cases hf : isFinite bits = true
  · simp only [hf, if_true, Bool.not_true, Bool.false_eq_true, if_false]
    unfold toExpL decimalPointOrEmpty eChar
    have hl := expDigits_length bits prec
    generalize expDigits bits prec = ed at *
    obtain ⟨ds, x⟩ := ed
    simp only at hl ⊢
    rw [expSuffix_eq_pyExp]
    match ds, hl with
    | d :: rest, hl =>
      simp only [List.length_cons] at hl
      by_cases hp : prec = 0
      · subst hp
        have : rest = [] := by cases rest with
          | nil => rfl
          | cons a b => simp at hl
        subst this
        cases alt <;> cases upper <;> simp [showDigits]
      · have : 0 < prec := by omega
        cases upper <;> simp [hp, this, showDigits]
  · have hs : isNeg bits = false := by rcases h with h | h; exact absurd h hf; exact h
    simp only [Bool.not_eq_true] at hf
    simp only [hf, Bool.false_eq_true, if_false, Bool.not_false, if_true]
    exact special_eq bits upper hf hs


-- '%.2f' % 2.675 = "2.67" (the double is below 2.675), '%.0f' % 2.5 = "2", '%#.0e' % 5.0 = "5.e+00"
example : formatFixed 2 0x4005666666666666 false false = [50, 46, 54, 55] := by decide +kernel
example : formatFixed 0 0x4004000000000000 false false = [50] := by decide +kernel
example : formatExponent 0 0x4014000000000000 false true = [53, 46, 101, 43, 48, 48] := by decide +kernel

/-- the body of `format_general` is `%g` for every precision ≥ 1 -/
theorem general_core_eq_printf (prec bits : Nat) (upper alt : Bool) (hp : 1 ≤ prec) (hs : isNeg bits = false) :
    formatGeneralCore prec bits upper alt false = cPrintfG prec bits upper alt := by
  rw [formatGeneralCore_unclamped prec bits upper alt false hs]
  unfold cPrintfG
  by_cases hf : isFinite bits = true
  · have hp0 : ¬ prec = 0 := by omega
    simp only [hf, if_true, Bool.not_true, Bool.false_eq_true, if_false, hp0, hs]
    unfold toExpL
    have hl := expDigits_length bits (prec - 1)
    generalize expDigits bits (prec - 1) = ed at *
    obtain ⟨ds, x⟩ := ed
    simp only at hl ⊢
    simp only [hs, Bool.false_eq_true, if_false, List.nil_append, Int.add_zero]
    match ds, hl with
    | d :: rest, hl =>
      simp only [List.length_cons] at hl
      by_cases hc : x < -4 ∨ x ≥ (prec : Int)
      · have hc' : ¬ (x < (prec : Int) ∧ x ≥ -4) := by omega
        simp only [hc, hc', if_true, if_false]
        rw [expSuffix_eq_pyExp]
        unfold decimalPointOrEmpty eChar
        by_cases h1 : prec - 1 = 0
        · have : rest = [] := by
            cases rest with
            | nil => rfl
            | cons a b => simp at hl; omega
          subst this
          have e1 : ([48 + d] : List Nat) = showDigits [d] := rfl
          simp only [h1, beq_self_eq_true, if_true]
          rw [show List.take (prec + 1) [48 + d] = [48 + d] by
            cases prec with
            | zero => omega
            | succ n => simp]
          rw [e1, maybeRemove_nopoint]
          cases alt <;> cases upper <;> simp [showDigits, dropTrailingZeroDigits]
        · have hb : ((prec - 1 == 0) = false) := by simpa using h1
          simp only [hb, Bool.false_eq_true, if_false, h1, false_and]
          have ht : List.take (prec + 1) ((48 + d) :: 46 :: showDigits rest) = (48 + d) :: 46 :: showDigits rest := by
            apply List.take_of_length_le
            simp [showDigits]; omega
          rw [ht]
          have := maybeRemove_point [d] rest alt
          simp only [showDigits, List.map_cons, List.map_nil, List.cons_append, List.nil_append] at this
          simp only [showDigits] at *
          rw [this]
          cases alt <;> cases upper <;> simp
          all_goals (split <;> simp_all)
      · have hc' : (x < (prec : Int) ∧ x ≥ -4) := by omega
        simp only [hc, hc', if_true, if_false, and_self]
        unfold toFixedL decimalPointOrEmpty
        simp only [finite_not_nan hf, finite_not_inf hf, hs, Bool.false_eq_true, if_false, List.nil_append]
        generalize ((prec : Int) - 1 - x).toNat = fprec
        generalize List.replicate (fprec + 1 - (natDigits (fixedInt bits fprec)).length) 0 ++
          natDigits (fixedInt bits fprec) = fds
        by_cases h0 : fprec = 0
        · subst h0
          simp only [beq_self_eq_true, if_true, Nat.sub_zero, List.take_length, List.drop_length,
            List.append_nil, true_and]
          rw [maybeRemove_nopoint]
          cases alt <;> simp [showDigits, dropTrailingZeroDigits]
        · have hb : ((fprec == 0) = false) := by simpa using h0
          simp only [hb, Bool.false_eq_true, if_false, h0, false_and, List.append_nil]
          rw [maybeRemove_point]
          cases alt <;> simp
          all_goals (split <;> simp_all [showDigits])
  · simp only [Bool.not_eq_true] at hf
    simp only [hf, Bool.false_eq_true, if_false, Bool.not_false, if_true]
    exact special_eq bits upper hf hs


-- '%.3g' % 100000.0 = "1e+05", '%.6g' % 100000.0 = "100000", '%#.3g' % 1.0 = "1.00"
example : formatGeneral 3 0x40F86A0000000000 false false false = [49, 101, 43, 48, 53] := by decide +kernel
example : formatGeneral 6 0x40F86A0000000000 false false false = [49, 48, 48, 48, 48, 48] := by decide +kernel
example : formatGeneral 3 0x3FF0000000000000 false true false = [49, 46, 48, 48] := by decide +kernel

/-- `format_general` (with `always_shows_fract = false`) is C's `%.{prec}g` / `%#.{prec}g` for EVERY
    precision (0 is treated as 1 on both sides since 668a737) and every non-negative double: same
    `e`/`f` decision (`X < -4 ∨ X ≥ P`), same digits, same removal of trailing zeros and of a
    trailing point. -/
theorem general_decision_eq_printf (prec bits : Nat) (upper alt : Bool) (hs : isNeg bits = false) :
    formatGeneral prec bits upper alt false = cPrintfG prec bits upper alt := by
  unfold formatGeneral
  rw [general_core_eq_printf (max prec 1) bits upper alt (Nat.le_max_right _ _) hs]
  unfold cPrintfG
  by_cases h0 : prec = 0
  · subst h0; rfl
  · have : max prec 1 = prec := Nat.max_eq_left (by omega)
    rw [this]

-- '%.0g' % 5.0 = "5", '%#.0g' % 0.0 = "0."
example : formatGeneral 0 0x4014000000000000 false false false = [53] := by decide +kernel
example : formatGeneral 0 0 true true false = [48, 46] := by decide +kernel

/-! ### `from_hex`: inexact input (known finding) -/

/-- `from_hex` rejects a text whose value needs rounding (`float.fromhex` returns 1.0 / 0.0). -/
theorem from_hex_inexact_rejected :
    fromHex [48,120,49,46,48,48,48,48,48,48,48,48,48,48,48,48,48,48,49,112,48] = none ∧
    fromHex [48, 120, 49, 112, 45, 49, 48, 55, 53] = none := by decide +kernel

example : fromHex [48, 120, 49, 46, 56, 112, 49] = some 0x4008000000000000 := by decide +kernel
example : fromHex [45, 49, 46, 56] = some 0xBFF8000000000000 := by decide +kernel

end PV.C17
