import PV.C17.Minimal
import PV.C17.OfRatRT
/-
  C17 — soundness of the decimal parser (converse of `ofDecimal_of_mem`), core Lean only.

  `ofRat_cases`: whatever `PV.Dec.ofRat` returns, it is assembled from a canonical mantissa/exponent pair `(M, e)`
  whose rounding interval CONTAINS the input fraction (`roundHalfEven_sound`: the rounded mantissa is within half a unit,
  strictly when it is odd; `ilog2_spec`: `M ≤ 2^53`, and `2^52 ≤ M` unless the exponent is clamped to -1074; at the
  renormalisation `M = 2^53 → (2^52, e+1)` the input is ≥ `(2^54 − 1)·2^(e−1)`, the narrow lower end point).
  `ofDecimal_sound`: a decimal that parses to a finite non-zero double lies in that double's rounding interval — i.e.
  a decimal OUTSIDE the interval parses to something else.  With `ofDecimal_of_mem`: `ofDecimal_iff`.
  `shortest_minimal_all`: no digit string that parses back to the double is shorter than `shortest`'s digits.
-/
namespace PV.Dec

theorem roundHalfEven_sound (n d : Nat) (hd : 0 < d) :
    (2 * roundHalfEven n d - 1) * d ≤ 2 * n ∧ 2 * n ≤ (2 * roundHalfEven n d + 1) * d ∧
    (roundHalfEven n d % 2 = 1 →
      (2 * roundHalfEven n d - 1) * d < 2 * n ∧ 2 * n < (2 * roundHalfEven n d + 1) * d) := by
  have h3 := Nat.div_add_mod n d
  have h4 := Nat.mod_lt n hd
  unfold roundHalfEven
  simp only
  generalize n / d = q at *
  generalize n % d = r at *
  split
  · have e1 : (2 * (q + 1) - 1) * d = 2 * (d * q) + d := by
      rw [show 2 * (q + 1) - 1 = 2 * q + 1 by omega, Nat.add_mul, Nat.one_mul, Nat.mul_assoc, Nat.mul_comm q d]
    have e2 : (2 * (q + 1) + 1) * d = 2 * (d * q) + 3 * d := by
      rw [show 2 * (q + 1) + 1 = 2 * q + 3 by omega, Nat.add_mul, Nat.mul_assoc, Nat.mul_comm q d]
    rw [e1, e2]
    refine ⟨by omega, by omega, fun h => by omega⟩
  · have e2 : (2 * q + 1) * d = 2 * (d * q) + d := by
      rw [Nat.add_mul, Nat.one_mul, Nat.mul_assoc, Nat.mul_comm q d]
    rw [e2]
    by_cases hq : q = 0
    · subst hq
      simp only [Nat.mul_zero, Nat.zero_sub, Nat.zero_mul] at *
      refine ⟨by omega, by omega, fun h => by omega⟩
    · have e1 : (2 * q - 1) * d = 2 * (d * q) - d := by
        rw [Nat.sub_mul, Nat.one_mul, Nat.mul_assoc, Nat.mul_comm q d]
      have : d ≤ d * q := Nat.le_mul_of_pos_right _ (by omega)
      rw [e1]
      refine ⟨by omega, by omega, fun h => by omega⟩

theorem geq_half_iff (X : Nat) (e : Int) (num den : Nat) :
    GeQ X (e - 1) num den ↔ X * (den * 2 ^ e.toNat) ≤ 2 * (num * 2 ^ (-e).toNat) := by
  unfold GeQ
  rw [show X * (den * 2 ^ (e - 1).toNat) = (X * den) * 2 ^ (e - 1).toNat by ac_rfl,
    show X * (den * 2 ^ e.toNat) = (X * den) * 2 ^ e.toNat by ac_rfl,
    show 2 * (num * 2 ^ (-e).toNat) = num * 2 ^ (1 + (-e).toNat) by rw [Nat.pow_add, Nat.pow_one]; ac_rfl]
  exact le_rescale2 _ _ _ _ _ _ (by omega)

theorem leq_half_iff (X : Nat) (e : Int) (num den : Nat) :
    LeQ X (e - 1) num den ↔ 2 * (num * 2 ^ (-e).toNat) ≤ X * (den * 2 ^ e.toNat) := by
  unfold LeQ
  rw [show X * (den * 2 ^ (e - 1).toNat) = (X * den) * 2 ^ (e - 1).toNat by ac_rfl,
    show X * (den * 2 ^ e.toNat) = (X * den) * 2 ^ e.toNat by ac_rfl,
    show 2 * (num * 2 ^ (-e).toNat) = num * 2 ^ (1 + (-e).toNat) by rw [Nat.pow_add, Nat.pow_one]; ac_rfl]
  exact le_rescale2 _ _ _ _ _ _ (by omega)

/-- what `ofRat` computes: a mantissa/exponent pair in canonical form whose rounding interval contains the input -/
theorem ofRat_cases (neg : Bool) (num den : Nat) (hn : 0 < num) (hd : 0 < den) :
    ∃ (M : Nat) (e : Int), -1074 ≤ e ∧ (2 ^ 52 ≤ M ∨ e = -1074) ∧ M < 2 ^ 53 ∧
      ofRat neg num den = (if neg then 2 ^ 63 else 0) +
        (if M < 2 ^ 52 then M else if (e + 1075).toNat ≥ 2047 then posInf
          else (e + 1075).toNat * 2 ^ 52 + (M - 2 ^ 52)) ∧
      GeQ (4 * M - 2) (e - 2) num den ∧ LeQ (4 * M + 2) (e - 2) num den ∧
      (M = 2 ^ 52 ∧ -1074 < e → GeQ (4 * M - 1) (e - 2) num den) ∧
      (M % 2 = 1 → ¬ LeQ (4 * M - 2) (e - 2) num den ∧ ¬ GeQ (4 * M + 2) (e - 2) num den) := by
  obtain ⟨s1, s2⟩ := ilog2_spec num den hn hd
  have hn0 : ¬ (num = 0) := by omega
  unfold ofRat
  simp only [beq_iff_eq, hn0, if_false]
  generalize ilog2 num den = s at *
  generalize he : (if s - 52 < -1074 then (-1074 : Int) else s - 52) = e
  have he1 : -1074 ≤ e := by rw [← he]; split <;> omega
  have he2 : s - 52 ≤ e := by rw [← he]; split <;> omega
  have he3 : -1074 < e → e = s - 52 := by rw [← he]; split <;> omega
  rw [scale2_eq]
  simp only [Int.neg_neg]
  have hd2 : 0 < den * 2 ^ e.toNat := Nat.mul_pos hd (Nat.pow_pos (by omega))
  obtain ⟨r1, r2, r3⟩ := roundHalfEven_sound (num * 2 ^ (-e).toNat) (den * 2 ^ e.toNat) hd2
  -- upper bound on the rounded mantissa
  have u1 : ¬ GeQ 1 (e + 53) num den := fun h => s2 (GeQ_anti h (by omega))
  have u2 : ¬ GeQ (1 * 2 ^ 54) (e - 1) num den := fun h => u1 ((GeQ_shift' 54 (by omega)).2 h)
  have u3 := u2
  rw [geq_half_iff] at u3
  have hM53 : roundHalfEven (num * 2 ^ (-e).toNat) (den * 2 ^ e.toNat) ≤ 2 ^ 53 :=
    roundHalfEven_le _ _ _ hd2 (by omega)
  -- lower bound when the exponent is not clamped
  have l1 : -1074 < e → GeQ (1 * 2 ^ 53) (e - 1) num den := fun h =>
    (GeQ_shift' 53 (by have := he3 h; omega)).1 s1
  have hM52 : -1074 < e → 2 ^ 52 ≤ roundHalfEven (num * 2 ^ (-e).toNat) (den * 2 ^ e.toNat) := fun h => by
    have := l1 h
    rw [geq_half_iff] at this
    exact le_roundHalfEven _ _ _ hd2 (by omega)
  have r3' : roundHalfEven (num * 2 ^ (-e).toNat) (den * 2 ^ e.toNat) % 2 = 1 →
      ¬ LeQ (2 * roundHalfEven (num * 2 ^ (-e).toNat) (den * 2 ^ e.toNat) - 1) (e - 1) num den ∧
      ¬ GeQ (2 * roundHalfEven (num * 2 ^ (-e).toNat) (den * 2 ^ e.toNat) + 1) (e - 1) num den := fun h =>
    ⟨by rw [leq_half_iff]; have := (r3 h).1; omega, by rw [geq_half_iff]; have := (r3 h).2; omega⟩
  clear r3
  rw [← geq_half_iff] at r1
  rw [← leq_half_iff] at r2
  generalize roundHalfEven (num * 2 ^ (-e).toNat) (den * 2 ^ e.toNat) = M0 at *
  have sh : ∀ X : Nat, GeQ X (e - 1) num den ↔ GeQ (X * 2 ^ 1) (e - 2) num den := fun X =>
    GeQ_shift' 1 (by omega)
  have sh' : ∀ X : Nat, LeQ X (e - 1) num den ↔ LeQ (X * 2 ^ 1) (e - 2) num den := fun X =>
    LeQ_shift' 1 (by omega)
  by_cases hc : M0 ≥ 2 ^ 53
  · have hM : M0 = 2 ^ 53 := by omega
    subst hM
    refine ⟨2 ^ 52, e + 1, by omega, Or.inl (Nat.le_refl _), by decide, ?_, ?_, ?_, ?_, ?_⟩
    · simp only [hc, if_true]
      have : (2 : Nat) ^ 53 / 2 = 2 ^ 52 := by decide
      rw [this]
      generalize (if neg = true then 2 ^ 63 else 0) = sg
      by_cases b : (e + 1 + 1075).toNat ≥ 2047 <;>
        simp only [b, if_true, if_false, Nat.lt_irrefl] <;> omega
    · rw [show e + 1 - 2 = e - 1 by omega]; exact GeQ_mono r1 (by omega)
    · rw [show e + 1 - 2 = e - 1 by omega]; exact LeQ_mono (LeQ_of_not_GeQ u2) (by omega)
    · intro _; rw [show e + 1 - 2 = e - 1 by omega]; exact GeQ_mono r1 (by omega)
    · intro h; exact absurd h (by decide)
  · refine ⟨M0, e, he1, ?_, by omega, ?_, ?_, ?_, ?_, ?_⟩
    · by_cases h : -1074 < e
      · exact Or.inl (hM52 h)
      · exact Or.inr (by omega)
    · simp only [hc, if_false]
      generalize (if neg = true then 2 ^ 63 else 0) = sg
      by_cases a : M0 < 2 ^ 52 <;> by_cases b : (e + 1075).toNat ≥ 2047 <;>
        simp only [a, b, if_true, if_false] <;> omega
    · exact GeQ_mono ((sh _).1 r1) (by omega)
    · exact LeQ_mono ((sh' _).1 r2) (by omega)
    · intro ⟨hm, h⟩
      have := (GeQ_shift' (t := e - 2) 54 (by have := he3 h; omega)).1 s1
      exact GeQ_mono this (by omega)
    · intro h
      obtain ⟨t1, t2⟩ := r3' h
      constructor
      · intro hh; exact t1 ((sh' _).2 (LeQ_mono hh (by omega)))   -- placeholder
      · intro hh; exact t2 ((sh _).2 (GeQ_mono hh (by omega)))

theorem fields_of_parts (neg : Bool) (ef f : Nat) (hef : ef < 2048) (hf : f < 2 ^ 52) :
    expField ((if neg then 2 ^ 63 else 0) + ef * 2 ^ 52 + f) = ef ∧
    fracField ((if neg then 2 ^ 63 else 0) + ef * 2 ^ 52 + f) = f := by
  unfold expField fracField
  cases neg <;> simp only [Bool.false_eq_true, if_false, if_true] <;> omega

/-- (converse of `ofDecimal_of_mem`) a decimal that parses to a finite non-zero double lies in its rounding
    interval: decimals OUTSIDE the interval do not parse to the double -/
theorem ofDecimal_sound (bits : Nat) (neg : Bool) (ds : List Nat) (k : Int)
    (h : ofDecimal neg ds k = bits) (hf : isFinite bits = true) (hz : isZero bits = false) :
    InIvl bits (ofDigits ds) k := by
  have z0 : ∀ b : Bool, isZero (if b then 2 ^ 63 else 0) = true := by intro b; cases b <;> decide
  have i0 : ∀ b : Bool, isFinite ((if b then 2 ^ 63 else 0) + posInf) = false := by intro b; cases b <;> decide
  unfold ofDecimal at h
  simp only [beq_iff_eq] at h
  generalize ofDigits ds = D at *
  by_cases hD : D = 0
  · simp only [hD, if_true] at h
    rw [← h, z0] at hz; cases hz
  simp only [hD, if_false] at h
  by_cases g1 : k > 310
  · simp only [g1, if_true] at h
    rw [← h, i0] at hf; cases hf
  simp only [g1, if_false] at h
  by_cases g2 : ((natDigits D).length : Int) + k < -330
  · simp only [g2, if_true] at h
    rw [← h, z0] at hz; cases hz
  simp only [g2, if_false] at h
  rw [scale10_eq] at h
  simp only at h
  have hn : 0 < D * 10 ^ k.toNat := Nat.mul_pos (by omega) (Nat.pow_pos (by omega))
  have hd : 0 < 1 * 10 ^ (-k).toNat := Nat.mul_pos (by omega) (Nat.pow_pos (by omega))
  obtain ⟨M, e, he1, hcanon, hM53, hres, c1, c2, c3, c4⟩ := ofRat_cases neg _ _ hn hd
  rw [h] at hres
  -- decode the fields of `bits`
  have hdec : (decompose bits).2.1 = M ∧ (decompose bits).2.2 = e ∧
      ((fracField bits == 0 && decide (expField bits > 1)) = true ↔ (M = 2 ^ 52 ∧ -1074 < e)) := by
    by_cases hsub : M < 2 ^ 52
    · simp only [hsub, if_true] at hres
      have := fields_of_parts neg 0 M (by omega) hsub
      rw [Nat.zero_mul, Nat.add_zero, ← hres] at this
      have he : e = -1074 := by omega
      unfold decompose
      simp [this.1, this.2, he]
    · simp only [hsub, if_false] at hres
      by_cases hinf : (e + 1075).toNat ≥ 2047
      · simp only [hinf, if_true] at hres
        rw [hres, i0] at hf; cases hf
      · simp only [hinf, if_false] at hres
        have := fields_of_parts neg (e + 1075).toNat (M - 2 ^ 52) (by omega) (by omega)
        rw [← Nat.add_assoc] at hres
        rw [← hres] at this
        have hcan : 2 ^ 52 ≤ M := by omega
        unfold decompose
        have hne : ¬ ((e + 1075).toNat = 0) := by
          intro h0
          -- then e = -1075?? impossible: -1074 ≤ e
          omega
        simp [this.1, this.2, hne]
        refine ⟨by omega, by omega, by omega⟩
  obtain ⟨d1, d2, d3⟩ := hdec
  unfold InIvl
  rw [inside_iff]
  unfold ivLo ivHi ivV ivG ivIncl
  rw [d1, d2]
  by_cases hev : M % 2 = 0
  · have : (M % 2 == 0) = true := by simpa using hev
    simp only [this, if_true]
    refine ⟨?_, c2⟩
    split
    · rename_i hb; exact c3 (d3.1 hb)
    · exact c1
  · have : (M % 2 == 0) = false := by simpa using hev
    simp only [this, Bool.false_eq_true, if_false]
    have hnb : ¬ ((fracField bits == 0 && decide (expField bits > 1)) = true) := by
      intro hb
      have := (d3.1 hb).1
      omega
    simp only [hnb]
    exact c4 (by omega)

/-- "a shortest such rendering": no digit string that parses back to the double — at any exponent — is shorter than
    the digits `shortest` returns (both tie rules) -/
theorem shortest_minimal_all (bits : Nat) (tie : Bool) (hf : isFinite bits = true) (hz : isZero bits = false)
    (neg : Bool) (ds : List Nat) (k : Int) (hne : ds ≠ []) (hlt : ∀ d ∈ ds, d < 10)
    (h : ofDecimal neg ds k = bits) : (shortest bits tie).1.length ≤ ds.length :=
  shortest_minimal bits tie hz ds k hne hlt (ofDecimal_sound bits neg ds k h hf hz)


/-- parsing to a finite non-zero double = lying in its rounding interval -/
theorem ofDecimal_iff (bits : Nat) (hb : bits < 2 ^ 64) (hf : isFinite bits = true) (hz : isZero bits = false)
    (ds : List Nat) (k : Int) : ofDecimal (isNeg bits) ds k = bits ↔ InIvl bits (ofDigits ds) k :=
  ⟨fun h => ofDecimal_sound bits _ ds k h hf hz, ofDecimal_of_mem bits hb hf hz ds k⟩

-- the tie 2^53 + 1 parses to 2^53 (even mantissa), hence lies in its (closed) interval and not in that of 2^53 + 2
example : InIvl 0x4340000000000000 (ofDigits [9,0,0,7,1,9,9,2,5,4,7,4,0,9,9,3]) 0 :=
  ofDecimal_sound _ false _ _ (by decide +kernel) (by decide +kernel) (by decide +kernel)
-- a decimal outside the interval does not parse to the double: 2^53 + 1 is not read as 2^53 + 2
example : ofDecimal false [9,0,0,7,1,9,9,2,5,4,7,4,0,9,9,3] 0 ≠ 0x4340000000000001 := fun h =>
  (by decide +kernel : ¬ InIvl 0x4340000000000001 (ofDigits [9,0,0,7,1,9,9,2,5,4,7,4,0,9,9,3]) 0)
    (ofDecimal_sound _ _ _ _ h (by decide +kernel) (by decide +kernel))
-- 0.1: its exact 55-digit expansion parses back; `shortest` is not longer (it has one digit)
example : (shortest 0x3FB999999999999A).1.length ≤ 55 :=
  shortest_minimal_all 0x3FB999999999999A false (by decide +kernel) (by decide +kernel) false
    [1,0,0,0,0,0,0,0,0,0,0,0,0,0,0,0,0,5,5,5,1,1,1,5,1,2,3,1,2,5,7,8,2,7,0,2,1,1,8,1,5,8,3,4,0,4,5,4,1,0,1,5,6,2,5]
    (-55) (by decide) (by decide) (by decide +kernel)
-- 5e-324 with CPython's tie rule: "494e-326" parses back, three digits
example : (shortest 1 true).1.length ≤ 3 :=
  shortest_minimal_all 1 true (by decide +kernel) (by decide +kernel) false [4,9,4] (-326) (by decide) (by decide)
    (by decide +kernel)
example : roundHalfEven 5 2 = 2 ∧ (2 * 2 - 1) * 2 ≤ 2 * 5 ∧ 2 * 5 ≤ (2 * 2 + 1) * 2 := by decide

end PV.Dec
