import PV.Common.Proto
import PV.C17.Dec
/-
  C17 — executable model of `literal/src/float.rs` (RustPython/Parser).

  Doubles are 64-bit patterns (`bits : Nat`), text is `List Nat` of bytes (all produced text is
  ASCII).  Digit generation and decimal→binary rounding are `PV.Dec` (the contract of Rust's
  `format!("{:e}")`, `{:.N}`, `{:.Ne}`, `Display`, and of lexical's / hexf's conversions); everything
  else — notation decisions, the `is_integer` test, exponent suffix, trailing-zero removal,
  underscore stripping, trimming, the special names, hex assembly and the hexf grammar — is
  modelled line by line, quirks included.

  `none` = the Rust function returns `None`.  None of these functions panics.
-/
namespace PV.C17
open PV.Dec

/-! ## small text helpers -/

def isDigit (b : Nat) : Bool := 48 ≤ b && b ≤ 57
def toLower (b : Nat) : Nat := if 65 ≤ b ∧ b ≤ 90 then b + 32 else b
def toUpper (b : Nat) : Nat := if 97 ≤ b ∧ b ≤ 122 then b - 32 else b

/-- `format!("{exponent:+#03}")` on an integer: explicit sign, then at least two digits. -/
def expSuffix (e : Int) : List Nat :=
  let ds := natDigits e.natAbs
  (if e < 0 then 45 else 43) :: showDigits (if ds.length < 2 then 0 :: ds else ds)

/-! ## repr: `to_string`, `is_integer` -/

/-- `is_integer(v) = (v.fract() == 0.0)`: `fract = v - v.trunc()` is exact in binary64, so the test
    is "finite with no fractional part"; `inf.fract()` and `NaN.fract()` are NaN, which compares false.
    (Before commit 5be0365 this was an EPSILON window that also admitted `1 - 2^-53`.) -/
def isInteger (bits : Nat) : Bool :=
  if !isFinite bits then false else
  let (_, m, e) := decompose bits
  if e ≥ 0 then true else m % 2 ^ (-e).toNat == 0

/-- `to_string(value)` -/
def toString (bits : Nat) : List Nat :=
  if isFinite bits then
    -- `format!("{value:e}")` contains an `e`
    let (significand, exponent) := shortestExpL bits
    if exponent < 16 ∧ exponent > -5 then
      if isInteger bits then toFixedL bits 1          -- `format!("{value:.1?}")`
      else shortestFixedL bits                        -- `value.to_string()`
    else significand ++ [101] ++ expSuffix exponent
  else (shortestFixedL bits).map toLower              -- `inf`, `-inf`, `NaN` → lower case

/-! ## underscore stripping and parsing -/

/-- the loop of `strip_underlines`; first argument is `prev` -/
def stripGo : Nat → List Nat → Option (List Nat)
  | prev, [] => if prev = 95 then none else some []
  | prev, p :: rest =>
    if p = 95 then
      if isDigit prev then stripGo p rest else none
    else if prev = 95 ∧ isDigit p = false then none
    else (stripGo p rest).map (p :: ·)

def stripUnderlines (l : List Nat) : Option (List Nat) := stripGo 0 l

def spanDigits : List Nat → List Nat × List Nat
  | [] => ([], [])
  | b :: rest => if isDigit b then let (a, r) := spanDigits rest; (b :: a, r) else ([], b :: rest)

def digitVals (l : List Nat) : List Nat := l.map (· - 48)

def splitSign : List Nat → Bool × List Nat
  | 43 :: r => (false, r)
  | 45 :: r => (true, r)
  | s => (false, s)

def sNan : List Nat := [110, 97, 110]
def sInf : List Nat := [105, 110, 102]
def sInfinity : List Nat := [105, 110, 102, 105, 110, 105, 116, 121]

/-- exponent part after the mantissa: empty, or `e`/`E`, optional sign, one or more digits, end -/
def parseExponent : List Nat → Option Int
  | [] => some 0
  | c :: r =>
    if c = 101 ∨ c = 69 then
      let (neg, r) := splitSign r
      let (ds, rest) := spanDigits r
      if ds.isEmpty ∨ !rest.isEmpty then none
      else
        let v : Int := ofDigits (digitVals ds)
        some (if neg then -v else v)
    else none

/-- Contract of `f64::from_lexical_with_options::<PYTHON_STRING>` on underscore-free bytes:
    optional sign; `nan` / `inf` / `infinity` in any case; or digits with an optional `.`
    (at least one digit on either side), optional exponent; the whole input must be consumed.
    The value is correctly rounded (`Dec.ofDecimal`). -/
def lexicalParse (s : List Nat) : Option Nat :=
  let (neg, body) := splitSign s
  let low := body.map toLower
  if low = sNan then some (mkBits neg 2047 (2 ^ 51))
  else if low = sInf ∨ low = sInfinity then some (if neg then negInf else posInf)
  else
    let (ip, r1) := spanDigits body
    let (fp, r2) := match r1 with
      | 46 :: r => spanDigits r
      | _ => ([], r1)
    if ip.isEmpty ∧ fp.isEmpty then none
    else match parseExponent r2 with
      | none => none
      | some e => some (ofDecimal neg (digitVals (ip ++ fp)) (e - fp.length))

/-- `parse_inner` -/
def parseInner (s : List Nat) : Option Nat :=
  match stripUnderlines s with
  | none => none
  | some t => lexicalParse t

/-- `char::is_whitespace` (Unicode `White_Space`), on scalar values -/
def isWhitespace (c : Nat) : Bool :=
  (9 ≤ c && c ≤ 13) || c = 32 || c = 0x85 || c = 0xA0 || c = 0x1680 || (0x2000 ≤ c && c ≤ 0x200A) ||
  c = 0x2028 || c = 0x2029 || c = 0x202F || c = 0x205F || c = 0x3000

/-- the trim predicate of `parse_bytes`: `b.is_ascii_whitespace() || b == 0x0b`, i.e. space, `\t`,
    `\n`, `\x0B`, `\x0C`, `\r` (the vertical tab was added by commit 03089a4) -/
def isAsciiWhitespace (b : Nat) : Bool := b = 32 || b = 9 || b = 10 || b = 12 || b = 13 || b = 11

def trimWith (p : Nat → Bool) (l : List Nat) : List Nat :=
  ((l.dropWhile p).reverse.dropWhile p).reverse

/-- `parse_str` on the scalar values of the `&str` -/
def parseStr (cs : List Nat) : Option Nat := parseInner (PV.utf8Encode (trimWith isWhitespace cs))

/-- `parse_bytes` -/
def parseBytes (bs : List Nat) : Option Nat := parseInner (trimWith isAsciiWhitespace bs)

/-! ## printf-style renderers -/

def formatNan (upper : Bool) : List Nat := if upper then [78, 65, 78] else [110, 97, 110]
def formatInf (upper : Bool) : List Nat := if upper then [73, 78, 70] else [105, 110, 102]

def decimalPointOrEmpty (precision : Nat) (alt : Bool) : List Nat :=
  if precision = 0 ∧ alt then [46] else []

def eChar (upper : Bool) : Nat := if upper then 69 else 101

/-- `MAX_FLOAT_DIGITS`: a finite double has at most 1074 digits after the point and fewer than 1100
    significant digits, so `format!` is never asked for more (its precision argument is a `u16`; a
    larger one panics).  The digits beyond are the `zeros` string.  (`Clamp.lean` proves that this is
    exactly what an unbounded `{:.N}` / `{:.Ne}` would print: `fixedClamped_eq`, `toExpL_clamp`.) -/
def maxFloatDigits : Nat := 1100

/-- `format!("{magnitude:.digits$}{zeros}")` of `format_fixed`, `digits = precision.min(MAX_FLOAT_DIGITS)`,
    `zeros = "0".repeat(precision - digits)` -/
def fixedClamped (bits precision : Nat) : List Nat :=
  let digits := min precision maxFloatDigits
  toFixedL bits digits ++ List.replicate (precision - digits) 48

/-- `format_fixed` -/
def formatFixed (precision bits : Nat) (upper alt : Bool) : List Nat :=
  if isFinite bits then fixedClamped bits precision ++ decimalPointOrEmpty precision alt
  else if isNan bits then formatNan upper
  else formatInf upper

/-- `format_exponent`: `{magnitude:.digits$e}` split at the `e`, then `{base}{zeros}{point}{e}{exponent:+#03}` -/
def formatExponent (precision bits : Nat) (upper alt : Bool) : List Nat :=
  if isFinite bits then
    let digits := min precision maxFloatDigits
    let zeros := List.replicate (precision - digits) 48
    let (base, exponent) := toExpL bits digits
    base ++ zeros ++ decimalPointOrEmpty precision alt ++ [eChar upper] ++ expSuffix exponent
  else if isNan bits then formatNan upper
  else formatInf upper

def removeTrailingZeros (s : List Nat) : List Nat := (s.reverse.dropWhile (· = 48)).reverse

def removeTrailingDecimalPoint (s : List Nat) : List Nat :=
  match s.reverse with
  | 46 :: r => r.reverse
  | _ => s

/-- `maybe_remove_trailing_redundant_chars` -/
def maybeRemoveTrailingRedundantChars (s : List Nat) (alt : Bool) : List Nat :=
  if !alt ∧ s.contains 46 then removeTrailingDecimalPoint (removeTrailingZeros s) else s

/-- body of `format_general` after its first line (`precision ≥ 1` here).
    `format!("{:.*}{zeros}", digits + 2, base)` truncates the *string* `base` to `digits + 2`
    characters — all of it, unless `base` carries a `-`, when a digit is cut (both callers pass
    `abs`) — and the fixed branch calls `format_fixed(precision, magnitude, case, false)`. -/
def formatGeneralCore (precision bits : Nat) (upper alt alwaysShowsFract : Bool) : List Nat :=
  if isFinite bits then
    let digits := min (precision - 1) maxFloatDigits
    let zeros := List.replicate (precision - 1 - digits) 48
    let (base, exponent) := toExpL bits digits
    if exponent < -4 ∨ exponent + (if alwaysShowsFract then 1 else 0) ≥ (precision : Int) then
      let magnitude := base.take (digits + 2) ++ zeros
      let base := maybeRemoveTrailingRedundantChars magnitude alt
      base ++ decimalPointOrEmpty (precision - 1) alt ++ [eChar upper] ++ expSuffix exponent
    else
      let precision' := ((precision : Int) - 1 - exponent).toNat
      let magnitude := formatFixed precision' bits upper false
      let base := maybeRemoveTrailingRedundantChars magnitude alt
      -- 6610c77: like repr, the no-type presentation keeps ".0" on an integral result
      let dotZero := if alwaysShowsFract ∧ !base.contains 46 then [46, 48] else []
      base ++ decimalPointOrEmpty precision' alt ++ dotZero
  else if isNan bits then formatNan upper
  else formatInf upper

/-- `format_general`: `let precision = precision.max(1);` (commit 668a737: C and Python treat a
    precision of 0 as 1 for `%g`), then the body above. -/
def formatGeneral (precision bits : Nat) (upper alt alwaysShowsFract : Bool) : List Nat :=
  formatGeneralCore (max precision 1) bits upper alt alwaysShowsFract

/-! ## hexadecimal -/

def hexDigitL (n : Nat) : Nat := if n < 10 then 48 + n else 87 + n

def hexDigitsGo : Nat → Nat → List Nat → List Nat
  | 0, _, acc => acc
  | fuel + 1, n, acc =>
    if n < 16 then hexDigitL n :: acc else hexDigitsGo fuel (n / 16) (hexDigitL (n % 16) :: acc)

/-- lower-case hex of `n`, no padding (`{:x}`) -/
def hexNat (n : Nat) : List Nat := hexDigitsGo (Nat.log2 n + 1) n []

/-- `{:013x}` -/
def hex13 (n : Nat) : List Nat :=
  let h := hexNat n
  List.replicate (13 - h.length) 48 ++ h

/-- `{:+}` on an integer -/
def showSigned (i : Int) : List Nat :=
  (if i < 0 then 45 else 43) :: showDigits (natDigits i.natAbs)

/-- `num_traits::Float::integer_decode`: `(mantissa, exponent)`; subnormals get `frac << 1`
    with exponent `-1075`. -/
def integerDecode (bits : Nat) : Nat × Int :=
  let e := expField bits
  let mant := if e = 0 then fracField bits * 2 else fracField bits + 2 ^ 52
  (mant, (e : Int) - 1075)

/-- the pair `to_hex` prints in its last arm: `integer_decode`, with the doubling of a subnormal's
    mantissa undone (`if value.is_normal() { .. } else { (mantissa >> 1, exponent + 1) }`, commit
    8617a1f; in that arm "not normal" means subnormal, i.e. exponent field 0). -/
def hexMantExp (bits : Nat) : Nat × Int :=
  let (mantissa, exponent) := integerDecode bits
  if expField bits = 0 then (mantissa / 2, exponent + 1) else (mantissa, exponent)

/-- `to_hex` -/
def toHex (bits : Nat) : List Nat :=
  let (mantissa, exponent) := hexMantExp bits
  let sign := if isNeg bits then [45] else []
  if isZero bits then sign ++ [48, 120, 48, 46, 48, 112, 43, 48]        -- 0x0.0p+0
  else if isInf bits then sign ++ sInf
  else if isNan bits then sNan
  else sign ++ [48, 120] ++ hexNat (mantissa / 2 ^ 52) ++ [46] ++ hex13 (mantissa % 2 ^ 52) ++
    [112] ++ showSigned (exponent + 52)

def hexVal (c : Nat) : Option Nat :=
  if 48 ≤ c ∧ c ≤ 57 then some (c - 48)
  else if 97 ≤ c ∧ c ≤ 102 then some (c - 87)
  else if 65 ≤ c ∧ c ≤ 70 then some (c - 55)
  else none

def u64Lim : Nat := 2 ^ 64
def isizeMax : Nat := 2 ^ 63 - 1

/-- integer-part loop of `hexf_parse::parse`: `acc` is a `u64`; `none` = `Err(INEXACT)`.
    Returns `(acc, digitSeen, rest)`. -/
def hexfInt : List Nat → Nat → Bool → Option (Nat × Bool × List Nat)
  | [], acc, seen => some (acc, seen, [])
  | c :: rest, acc, seen =>
    match hexVal c with
    | some d => if acc / 2 ^ 60 ≠ 0 then none else hexfInt rest ((acc * 16) % u64Lim + d) true
    | none => some (acc, seen, c :: rest)

/-- fraction loop: state `(acc, nfracs, nzeroes, seen)`; `none` = `Err(INEXACT)` -/
def hexfFrac : List Nat → Nat → Nat → Nat → Bool → Option (Nat × Nat × Bool × List Nat)
  | [], acc, nfracs, _, seen => some (acc, nfracs, seen, [])
  | c :: rest, acc, nfracs, nzeroes, seen =>
    match hexVal c with
    | some 0 => hexfFrac rest acc nfracs (nzeroes + 1) true
    | some d =>
      let nnew := nzeroes + 1
      if acc ≠ 0 then
        if nnew ≥ 16 ∨ acc / 2 ^ (64 - nnew * 4) ≠ 0 then none
        else hexfFrac rest (acc * 2 ^ (nnew * 4) + d) (nfracs + nnew) 0 true
      else hexfFrac rest d (nfracs + nnew) 0 true
    | none => some (acc, nfracs, seen, c :: rest)

/-- exponent digit loop: `some (some e)` ok, `some none` = INEXACT (isize overflow), `none` = INVALID -/
def hexfExp : List Nat → Nat → Bool → Bool → Option (Option Nat)
  | [], e, seen, _ => if seen then some (some e) else none
  | c :: rest, e, _, accNonZero =>
    if isDigit c then
      if accNonZero then
        let e' := e * 10 + (c - 48)
        if e' > isizeMax then some none else hexfExp rest e' true accNonZero
      else hexfExp rest e true accNonZero
    else none

/-- `u64::trailing_zeros` of a non-zero value below `2^fuel` -/
def trailingZeros : Nat → Nat → Nat
  | 0, _ => 0
  | fuel + 1, n => if n % 2 = 1 then 0 else 1 + trailingZeros fuel (n / 2)

/-- `convert_hexf64`: exact conversion or `none` (INEXACT).  The product
    `mantissa as f64 * 2f64.powf(exponent)` is exact whenever the checks pass. -/
def hexfConvert (neg : Bool) (mantissa : Nat) (exponent : Int) : Option Nat :=
  if exponent < -0xffff ∨ exponent > 0xffff then none
  else if mantissa = 0 then some (if neg then 2 ^ 63 else 0)
  else
    -- strip trailing zero bits (`u64::trailing_zeros`)
    let tz := trailingZeros 64 mantissa
    let m := mantissa / 2 ^ tz
    let e := exponent + tz
    let normalexp := e + (Nat.log2 m : Int)
    if normalexp < -1074 then none
    else
      let size : Int := if normalexp < -1022 then normalexp + 1075 else 53
      if normalexp ≥ 1024 then none
      else if m / 2 ^ size.toNat = 0 then
        let (num, den) := scale2 m 1 e
        some (ofRat neg num den)
      else none

/-- `hexf_parse::parse_hexf64(s, false)`; `none` for every error -/
def parseHexf64 (s : List Nat) : Option Nat :=
  if s.isEmpty then none else
  let (neg, s) := splitSign s
  match s with
  | 48 :: x :: s =>
    if x ≠ 120 ∧ x ≠ 88 then none else
    match hexfInt s 0 false with
    | none => none
    | some (acc, seen, s) =>
      let fr : Option (Nat × Nat × Bool × List Nat) := match s with
        | 46 :: r => hexfFrac r acc 0 0 false
        | _ => some (acc, 0, false, s)
      match fr with
      | none => none
      | some (acc, nfracs, fseen, s) =>
        if !(seen || fseen) then none else
        match s with
        | p :: s =>
          if p ≠ 112 ∧ p ≠ 80 then none else
          if s.isEmpty then none else
          let (eneg, s) := splitSign s
          match hexfExp s 0 false (acc ≠ 0) with
          | none => none
          | some none => none
          | some (some e) =>
            if acc = 0 then some (if neg then 2 ^ 63 else 0)
            else
              let e : Int := if eneg then -(e : Int) else e
              hexfConvert neg acc (e - 4 * (nfracs : Int))
        | [] => none
  | _ => none

def isInfix (pat : List Nat) : List Nat → Bool
  | [] => pat.isEmpty
  | c :: rest => pat.isPrefixOf (c :: rest) || isInfix pat rest

/-- the `for (index, ch) in value.chars().enumerate()` loop of `from_hex` -/
def fromHexBody (hasDot : Bool) (start : Nat) : Nat → List Nat → List Nat
  | _, [] => []
  | i, ch :: rest =>
    (if ch = 112 then (if hasDot then [112] else [46, 112])
     else if i ≥ start then [ch] else []) ++ fromHexBody hasDot start (i + 1) rest

/-- `from_hex` (on the bytes of the `&str`; index arithmetic only ever skips one ASCII sign) -/
def fromHex (s : List Nat) : Option Nat :=
  match parseHexf64 s with
  | some f => some f
  | none =>
    let value := s.map toLower
    if value = sNan ∨ value = 43 :: sNan ∨ value = 45 :: sNan then some quietNan
    else if value = sInf ∨ value = sInfinity ∨ value = 43 :: sInf ∨ value = 43 :: sInfinity then some posInf
    else if value = 45 :: sInf ∨ value = 45 :: sInfinity then some negInf
    else
      let has0x := isInfix [48, 120] value
      let hasP := value.contains 112
      let hasDot := value.contains 46
      let (pre, start) : List Nat × Nat :=
        if !has0x ∧ value.head? = some 45 then ([45, 48, 120], 1)
        else if !has0x then ([48, 120], if value.head? = some 43 then 1 else 0)
        else ([], 0)
      let tail : List Nat :=
        if !hasP ∧ hasDot then [112, 48]
        else if !hasP ∧ !hasDot then [46, 112, 48]
        else []
      parseHexf64 (pre ++ fromHexBody hasDot start 0 value ++ tail)

/-! ## digit-generation facts used by the round-trip theorem -/

/-- digits past the decimal point exist (what `is_integer = false` means for the shortest digits) -/
def FracDigits (bits : Nat) : Prop :=
  (shortest bits).2 + 1 ≤ 0 ∨ ((shortest bits).2 + 1).toNat < (shortest bits).1.length

/-- digits printed by `toFixedL bits prec` (integer and fraction part together) -/
def fixedDigits (bits prec : Nat) : List Nat :=
  List.replicate (prec + 1 - (natDigits (fixedInt bits prec)).length) 0 ++ natDigits (fixedInt bits prec)

/-- What the round trip of a NON-integer (or exponent-notation) double needs from digit generation
    (`PV.Dec`): the shortest digits denote a decimal that rounds back to the double, and a value
    that is not an integer has digits after the point.  (Integer-valued doubles in fixed notation
    need nothing: `repr_roundtrip_integer`.)  Evaluated on every sampled double by the check
    (driver op `decfacts`), not proved in general. -/
def DecFacts (bits : Nat) : Prop :=
  ofSci (isNeg bits) (shortest bits).1 (shortest bits).2 = bits ∧
  (isInteger bits = false → FracDigits bits)

instance (bits : Nat) : Decidable (FracDigits bits) := by unfold FracDigits; infer_instance
instance (bits : Nat) : Decidable (DecFacts bits) := by unfold DecFacts; infer_instance

/-- What the hex round trip needs from hexf's conversion (`convert_hexf64`), per double: the
    mantissa/exponent pair that the scanner recovers from `to_hex`'s text (the integer mantissa with
    `k` trailing zero hex digits dropped) converts exactly to the double.  Evaluated on every
    sampled double by the check (driver op `hexfacts`), not proved in general. -/
def HexFacts (bits : Nat) : Prop :=
  ∀ k : Nat, k ≤ 13 → (hexMantExp bits).1 % 16 ^ k = 0 →
    hexfConvert (isNeg bits) ((hexMantExp bits).1 / 16 ^ k) ((hexMantExp bits).2 + 4 * (k : Int)) = some bits

instance (bits : Nat) : Decidable (HexFacts bits) := by unfold HexFacts; infer_instance

end PV.C17
