import PV.C17.Model
import PV.C17.Spec
namespace PV.C17
end PV.C17
