import PV.C17.Model
import PV.C17.Spec
/-
  C17 — helper lemmas: decimal digit lists, rounding, text read-back, underscore stripping.
-/
namespace PV.Dec

/-! ### decimal digits -/

theorem natDigitsGo_lt10 (fuel : Nat) : ∀ (n : Nat) (acc : List Nat),
    (∀ d ∈ acc, d < 10) → n < 10 ^ fuel → ∀ d ∈ natDigitsGo fuel n acc, d < 10 := by
  induction fuel with
  | zero => intro n acc hacc _; simpa [natDigitsGo] using hacc
  | succ f ih =>
    intro n acc hacc hn
    unfold natDigitsGo
    split
    · intro d hd
      simp at hd
      rcases hd with rfl | hd
      · assumption
      · exact hacc d hd
    · apply ih
      · intro d hd
        simp at hd
        rcases hd with rfl | hd
        · omega
        · exact hacc d hd
      · rw [Nat.pow_succ] at hn; omega

theorem lt_ten_pow_log2 (n : Nat) : n < 10 ^ (Nat.log2 n + 1) := by
  have h1 : n < 2 ^ (Nat.log2 n + 1) := Nat.lt_log2_self
  have h2 : 2 ^ (Nat.log2 n + 1) ≤ 10 ^ (Nat.log2 n + 1) := Nat.pow_le_pow_left (by omega) _
  omega

theorem natDigits_lt10 (n : Nat) : ∀ d ∈ natDigits n, d < 10 :=
  natDigitsGo_lt10 _ n [] (by simp) (lt_ten_pow_log2 n)

theorem natDigitsGo_acc (fuel : Nat) : ∀ (n : Nat) (acc : List Nat),
    natDigitsGo fuel n acc = natDigitsGo fuel n [] ++ acc := by
  induction fuel with
  | zero => intro n acc; simp [natDigitsGo]
  | succ f ih =>
    intro n acc
    unfold natDigitsGo
    split
    · simp
    · rw [ih (n / 10) (n % 10 :: acc), ih (n / 10) [n % 10]]; simp

theorem ofDigits_snoc (xs : List Nat) (d : Nat) : ofDigits (xs ++ [d]) = 10 * ofDigits xs + d := by
  simp [ofDigits, List.foldl_append]

theorem natDigitsGo_value (fuel : Nat) : ∀ (n : Nat), n < 10 ^ fuel →
    ofDigits (natDigitsGo fuel n []) = n := by
  induction fuel with
  | zero => intro n hn; simp at hn; subst hn; simp [natDigitsGo, ofDigits]
  | succ f ih =>
    intro n hn
    unfold natDigitsGo
    split
    · simp [ofDigits]
    · rw [natDigitsGo_acc, ofDigits_snoc, ih]
      · omega
      · rw [Nat.pow_succ] at hn; omega

theorem ofDigits_natDigits (n : Nat) : ofDigits (natDigits n) = n :=
  natDigitsGo_value _ n (lt_ten_pow_log2 n)

theorem natDigits_ne_nil (n : Nat) : natDigits n ≠ [] := by
  unfold natDigits natDigitsGo
  split
  · simp
  · rw [natDigitsGo_acc]; simp


/-! ### rounding -/

/-- `roundHalfEven num den` is within half a unit of `num / den`. -/
theorem roundHalfEven_half_unit (num den : Nat) (hd : 0 < den) :
    2 * (roundHalfEven num den * den) ≤ 2 * num + den ∧ 2 * num ≤ 2 * (roundHalfEven num den * den) + den := by
  have h1 := Nat.div_add_mod num den
  have h2 := Nat.mod_lt num hd
  unfold roundHalfEven
  simp only
  split
  · rw [Nat.add_mul, Nat.mul_comm (num / den) den]; omega
  · rw [Nat.mul_comm (num / den) den]; omega

/-- on an exact tie the even neighbour is taken -/
theorem roundHalfEven_tie_even (num den : Nat) (h : 2 * (num % den) = den) :
    roundHalfEven num den % 2 = 0 := by
  unfold roundHalfEven
  simp only
  split <;> omega

/-- exact quotients are returned unchanged -/
theorem roundHalfEven_exact (n den : Nat) (hd : 0 < den) : roundHalfEven (n * den) den = n := by
  unfold roundHalfEven
  simp [Nat.mul_mod_left, Nat.mul_div_cancel _ hd]
  omega

/-- `toFixedL`'s integer is within half a unit in the last place of the exact value:
    `|mant·2^exp·10^prec − N| ≤ 1/2`, stated on the fraction `num/den = |value|`. -/
theorem fixedInt_half_unit (bits prec : Nat) :
    let r := ratOf (decompose bits).2.1 (decompose bits).2.2
    2 * (fixedInt bits prec * r.2) ≤ 2 * (r.1 * 10 ^ prec) + r.2 ∧
    2 * (r.1 * 10 ^ prec) ≤ 2 * (fixedInt bits prec * r.2) + r.2 := by
  intro r
  have hd : 0 < r.2 := by
    simp only [r, ratOf]
    split
    · simp
    · exact Nat.pow_pos (by omega)
  exact roundHalfEven_half_unit _ _ hd


/-! ### digit count -/

theorem natDigitsGo_length (fuel : Nat) : ∀ n, 0 < n → n < 10 ^ fuel →
    1 ≤ (natDigitsGo fuel n []).length ∧
    10 ^ ((natDigitsGo fuel n []).length - 1) ≤ n ∧ n < 10 ^ (natDigitsGo fuel n []).length := by
  induction fuel with
  | zero => intro n h0 hn; simp at hn; omega
  | succ f ih =>
    intro n h0 hn
    unfold natDigitsGo
    split
    · simp; omega
    · rename_i h10
      rw [natDigitsGo_acc]
      have hq : n / 10 < 10 ^ f := by rw [Nat.pow_succ] at hn; omega
      obtain ⟨h1, h2, h3⟩ := ih (n / 10) (by omega) hq
      simp only [List.length_append, List.length_singleton, Nat.add_sub_cancel]
      generalize (natDigitsGo f (n / 10) []).length = l at *
      obtain ⟨l', rfl⟩ : ∃ l', l = l' + 1 := ⟨l - 1, by omega⟩
      simp only [Nat.add_sub_cancel] at h2
      rw [Nat.pow_succ] at h3 ⊢
      rw [Nat.pow_succ]
      refine ⟨by omega, by omega, by omega⟩

theorem natDigits_length_spec (n : Nat) (h0 : 0 < n) :
    1 ≤ (natDigits n).length ∧ 10 ^ ((natDigits n).length - 1) ≤ n ∧ n < 10 ^ (natDigits n).length :=
  natDigitsGo_length _ n h0 (lt_ten_pow_log2 n)

/-- a positive number in `[10^k, 10^(k+1))` has exactly `k + 1` digits -/
theorem natDigits_length_of_bounds (n k : Nat) (h1 : 10 ^ k ≤ n) (h2 : n < 10 ^ (k + 1)) :
    (natDigits n).length = k + 1 := by
  have h0 : 0 < n := Nat.lt_of_lt_of_le (Nat.pow_pos (by omega)) h1
  obtain ⟨a, b, c⟩ := natDigits_length_spec n h0
  generalize (natDigits n).length = l at *
  have hlt1 : 10 ^ (l - 1) < 10 ^ (k + 1) := by omega
  have hlt2 : 10 ^ k < 10 ^ l := by omega
  have e1 := (Nat.pow_lt_pow_iff_right (a := 10) (by omega)).1 hlt1
  have e2 := (Nat.pow_lt_pow_iff_right (a := 10) (by omega)).1 hlt2
  omega

/-! ### decimal exponent -/

theorem negLog10Go_spec (den fuel : Nat) : ∀ n j, n < den → den ≤ n * 10 ^ fuel →
    ∃ t, negLog10Go fuel n den j = j + t + 1 ∧ den ≤ n * 10 ^ (t + 1) ∧ n * 10 ^ t < den := by
  induction fuel with
  | zero => intro n j h1 h2; simp at h2; omega
  | succ f ih =>
    intro n j h1 h2
    unfold negLog10Go
    split
    · exact ⟨0, by simp, by simpa using ‹n * 10 ≥ den›, by simpa using h1⟩
    · rename_i hlt
      have h2' : den ≤ n * 10 * 10 ^ f := by
        rw [Nat.pow_succ, Nat.mul_comm (10 ^ f) 10, ← Nat.mul_assoc] at h2; exact h2
      obtain ⟨t, e1, e2, e3⟩ := ih (n * 10) (j + 1) (by omega) h2'
      refine ⟨t + 1, by omega, ?_, ?_⟩
      · rw [Nat.pow_succ, Nat.mul_comm (10 ^ (t + 1)) 10, ← Nat.mul_assoc]; exact e2
      · rw [Nat.pow_succ, Nat.mul_comm (10 ^ t) 10, ← Nat.mul_assoc]; exact e3

/-- `ilog10` is the decimal exponent: dividing by `10^ilog10` lands in `[1, 10)`. -/
theorem ilog10_spec (num den : Nat) (hn : 0 < num) (hd : 0 < den) :
    (scale10 num den (-(ilog10 num den))).2 ≤ (scale10 num den (-(ilog10 num den))).1 ∧
    (scale10 num den (-(ilog10 num den))).1 < 10 * (scale10 num den (-(ilog10 num den))).2 := by
  unfold ilog10
  split
  · rename_i hge
    have hq : 0 < num / den := Nat.div_pos hge hd
    obtain ⟨a, b, c⟩ := natDigits_length_spec (num / den) hq
    generalize (natDigits (num / den)).length = l at *
    obtain ⟨l', rfl⟩ : ∃ l', l = l' + 1 := ⟨l - 1, by omega⟩
    simp only [Nat.add_sub_cancel] at b
    have b' : 10 ^ l' * den ≤ num := (Nat.le_div_iff_mul_le hd).1 b
    have c' : num < 10 ^ (l' + 1) * den := (Nat.div_lt_iff_lt_mul hd).1 c
    rw [Nat.pow_succ] at c'
    unfold scale10
    by_cases hl : l' = 0
    · subst hl; simp at b' c' ⊢; omega
    · have : ¬ (-(((l' + 1 : Nat) : Int) - 1) ≥ 0) := by omega
      simp only [this, if_false]
      have e : (-(-(((l' + 1 : Nat) : Int) - 1))).toNat = l' := by omega
      rw [e]
      constructor
      · rw [Nat.mul_comm]; exact b'
      · rw [Nat.mul_comm den, ← Nat.mul_assoc, Nat.mul_comm 10]; exact c'
  · rename_i hlt
    have hlt : num < den := by omega
    have hfuel : den ≤ num * 10 ^ (Nat.log2 den + 2) := by
      have h1 : den < 2 ^ (Nat.log2 den + 1) := Nat.lt_log2_self
      have h2 : 2 ^ (Nat.log2 den + 1) ≤ 10 ^ (Nat.log2 den + 1) := Nat.pow_le_pow_left (by omega) _
      have h3 : 10 ^ (Nat.log2 den + 1) ≤ 10 ^ (Nat.log2 den + 2) := Nat.pow_le_pow_right (by omega) (by omega)
      have h4 : 10 ^ (Nat.log2 den + 2) ≤ num * 10 ^ (Nat.log2 den + 2) := Nat.le_mul_of_pos_left _ hn
      omega
    obtain ⟨t, e1, e2, e3⟩ := negLog10Go_spec den _ num 0 hlt hfuel
    rw [e1]
    unfold scale10
    have : (- -(((0 + t + 1 : Nat)) : Int)) ≥ 0 := by omega
    simp only [this, if_true]
    have e : (- -(((0 + t + 1 : Nat)) : Int)).toNat = t + 1 := by omega
    rw [e]
    refine ⟨e2, ?_⟩
    rw [Nat.pow_succ, ← Nat.mul_assoc]; omega

/-! ### monotonicity of rounding -/

theorem le_roundHalfEven (num den a : Nat) (hd : 0 < den) (h : a * den ≤ num) :
    a ≤ roundHalfEven num den := by
  have : a ≤ num / den := (Nat.le_div_iff_mul_le hd).2 h
  unfold roundHalfEven; simp only; split <;> omega

theorem roundHalfEven_le (num den b : Nat) (hd : 0 < den) (h : num ≤ b * den) :
    roundHalfEven num den ≤ b := by
  have h1 := Nat.div_add_mod num den
  have h2 := Nat.mod_lt num hd
  have hq : num / den ≤ b := by
    have := Nat.div_le_div_right (c := den) h
    rwa [Nat.mul_div_cancel _ hd] at this
  unfold roundHalfEven; simp only
  split
  · rename_i hup
    by_cases hb : num / den = b
    · rw [hb] at h1; rw [Nat.mul_comm] at h; omega
    · omega
  · exact hq


/-! ### `expDigits` is well-formed -/

theorem ratOf_pos (m : Nat) (e : Int) (hm : 0 < m) : 0 < (ratOf m e).1 ∧ 0 < (ratOf m e).2 := by
  unfold ratOf
  split
  · exact ⟨Nat.mul_pos hm (Nat.pow_pos (by omega)), by omega⟩
  · exact ⟨hm, Nat.pow_pos (by omega)⟩

theorem scale10_den_pos (num den : Nat) (k : Int) (hd : 0 < den) : 0 < (scale10 num den k).2 := by
  unfold scale10
  split
  · exact hd
  · exact Nat.mul_pos hd (Nat.pow_pos (by omega))

/-- the rounded significand of `expDigits` before digit extraction -/
def expRound (num den prec : Nat) : Nat :=
  roundHalfEven ((scale10 num den (-(ilog10 num den))).1 * 10 ^ prec) (scale10 num den (-(ilog10 num den))).2

theorem expRound_bounds (num den prec : Nat) (hn : 0 < num) (hd : 0 < den) :
    10 ^ prec ≤ expRound num den prec ∧ expRound num den prec ≤ 10 ^ (prec + 1) := by
  obtain ⟨h1, h2⟩ := ilog10_spec num den hn hd
  have hd1 := scale10_den_pos num den (-(ilog10 num den)) hd
  unfold expRound
  generalize (scale10 num den (-(ilog10 num den))).1 = n1 at *
  generalize (scale10 num den (-(ilog10 num den))).2 = d1 at *
  constructor
  · apply le_roundHalfEven _ _ _ hd1
    rw [Nat.mul_comm (10 ^ prec) d1]
    exact Nat.mul_le_mul_right _ h1
  · apply roundHalfEven_le _ _ _ hd1
    rw [Nat.pow_succ, Nat.mul_comm (10 ^ prec) 10, Nat.mul_assoc, Nat.mul_comm (10 ^ prec) d1, ← Nat.mul_assoc]
    exact Nat.mul_le_mul_right _ (Nat.le_of_lt h2)

theorem expDigits_eq (bits prec : Nat) :
    expDigits bits prec =
      if (decompose bits).2.1 = 0 then (List.replicate (prec + 1) 0, 0) else
      let r := expRound (ratOf (decompose bits).2.1 (decompose bits).2.2).1 (ratOf (decompose bits).2.1 (decompose bits).2.2).2 prec
      let e10 := ilog10 (ratOf (decompose bits).2.1 (decompose bits).2.2).1 (ratOf (decompose bits).2.1 (decompose bits).2.2).2
      if r ≥ 10 ^ (prec + 1) then (natDigits (r / 10), e10 + 1) else (natDigits r, e10) := by
  unfold expDigits expRound
  simp only [beq_iff_eq]

/-- `expDigits` always yields exactly `prec + 1` decimal digits. -/
theorem expDigits_length (bits prec : Nat) : (expDigits bits prec).1.length = prec + 1 := by
  rw [expDigits_eq]
  split
  · simp
  · rename_i hm
    obtain ⟨hn, hd⟩ := ratOf_pos (decompose bits).2.1 (decompose bits).2.2 (by omega)
    obtain ⟨b1, b2⟩ := expRound_bounds _ _ prec hn hd
    simp only
    generalize expRound _ _ prec = r at *
    split
    · have : r = 10 ^ (prec + 1) := by omega
      subst this
      have e : 10 ^ (prec + 1) / 10 = 10 ^ prec := by
        rw [Nat.pow_succ, Nat.mul_div_cancel _ (by omega : 0 < 10)]
      rw [e]
      apply natDigits_length_of_bounds
      · exact Nat.le_refl _
      · exact Nat.pow_lt_pow_right (by omega) (by omega)
    · apply natDigits_length_of_bounds <;> omega

theorem expDigits_lt10 (bits prec : Nat) : ∀ d ∈ (expDigits bits prec).1, d < 10 := by
  rw [expDigits_eq]
  split
  · intro d hd; simp at hd; omega
  · simp only
    split <;> exact natDigits_lt10 _


/-! ### `ofRat` is exact on representable values -/

theorem log2_mul_two_pow (m k : Nat) (hm : m ≠ 0) : Nat.log2 (m * 2 ^ k) = Nat.log2 m + k := by
  have hne : m * 2 ^ k ≠ 0 := Nat.mul_ne_zero hm (Nat.pos_iff_ne_zero.1 (Nat.pow_pos (by omega)))
  rw [Nat.log2_eq_iff hne]
  have h1 := Nat.log2_self_le hm
  have h2 : m < 2 ^ (m.log2 + 1) := Nat.lt_log2_self
  constructor
  · rw [Nat.pow_add]; exact Nat.mul_le_mul_right _ h1
  · rw [show m.log2 + k + 1 = (m.log2 + 1) + k by omega, Nat.pow_add]
    exact Nat.mul_lt_mul_of_pos_right h2 (Nat.pow_pos (by omega))

/-- `ilog2` of a dyadic fraction `m·2^e` is exact -/
theorem ilog2_scale2 (m : Nat) (e : Int) (hm : m ≠ 0) :
    ilog2 (scale2 m 1 e).1 (scale2 m 1 e).2 = (Nat.log2 m : Int) + e := by
  have h1 := Nat.log2_self_le hm
  unfold scale2 ilog2
  by_cases he : e ≥ 0
  · simp only [he, if_true]
    rw [log2_mul_two_pow m _ hm]
    have : Nat.log2 1 = 0 := by decide
    simp only [this]
    have hs : ((m.log2 + e.toNat : Nat) : Int) - ((0 : Nat) : Int) ≥ 0 := by omega
    simp only [hs, if_true]
    have hge : m * 2 ^ e.toNat ≥ 1 * 2 ^ (((m.log2 + e.toNat : Nat) : Int) - ((0 : Nat) : Int)).toNat := by
      have : (((m.log2 + e.toNat : Nat) : Int) - ((0 : Nat) : Int)).toNat = m.log2 + e.toNat := by omega
      rw [this, Nat.one_mul, Nat.pow_add]
      exact Nat.mul_le_mul_right _ h1
    simp only [hge, decide_true, if_true]
    omega
  · simp only [he, if_false, Nat.one_mul]
    rw [Nat.log2_two_pow]
    by_cases hs : ((m.log2 : Nat) : Int) - (((-e).toNat : Nat) : Int) ≥ 0
    · simp only [hs, if_true]
      have hge : m ≥ 2 ^ (-e).toNat * 2 ^ (((m.log2 : Nat) : Int) - (((-e).toNat : Nat) : Int)).toNat := by
        rw [← Nat.pow_add]
        have : (-e).toNat + (((m.log2 : Nat) : Int) - (((-e).toNat : Nat) : Int)).toNat = m.log2 := by omega
        rw [this]; exact h1
      simp only [hge, decide_true, if_true]
      omega
    · simp only [hs, if_false]
      have hge : m * 2 ^ (-(((m.log2 : Nat) : Int) - (((-e).toNat : Nat) : Int))).toNat ≥ 2 ^ (-e).toNat := by
        generalize hj : (-(((m.log2 : Nat) : Int) - (((-e).toNat : Nat) : Int))).toNat = j
        have : (-e).toNat = m.log2 + j := by omega
        rw [this, Nat.pow_add]
        exact Nat.mul_le_mul_right _ h1
      simp only [hge, decide_true, if_true]
      omega

theorem scale2_scale2_exact (mm : Nat) (ee E : Int) (h : E ≤ ee) :
    (scale2 (scale2 mm 1 ee).1 (scale2 mm 1 ee).2 (-E)).1 =
      mm * 2 ^ (ee - E).toNat * (scale2 (scale2 mm 1 ee).1 (scale2 mm 1 ee).2 (-E)).2 ∧
    0 < (scale2 (scale2 mm 1 ee).1 (scale2 mm 1 ee).2 (-E)).2 := by
  unfold scale2
  by_cases h1 : ee ≥ 0
  · simp only [h1, if_true]
    by_cases h2 : -E ≥ 0
    · simp only [h2, if_true, Nat.mul_one]
      refine ⟨?_, by omega⟩
      rw [Nat.mul_assoc, ← Nat.pow_add]
      congr 2; omega
    · simp only [h2, if_false, Nat.one_mul]
      refine ⟨?_, Nat.pow_pos (by omega)⟩
      rw [Nat.mul_assoc, ← Nat.pow_add]
      congr 2; omega
  · simp only [h1, if_false, Nat.one_mul]
    have h2 : -E ≥ 0 := by omega
    simp only [h2, if_true]
    refine ⟨?_, Nat.pow_pos (by omega)⟩
    rw [Nat.mul_assoc, ← Nat.pow_add]
    congr 2; omega

/-- `ofRat` is exact on representable dyadic values: for `m·2^e = M·2^E` with `(M, E)` in canonical
    form (`2^52 ≤ M < 2^53`, or `M < 2^52` with `E = -1074`) it assembles exactly those fields. -/
theorem ofRat_pow2 (neg : Bool) (mm : Nat) (ee : Int) (M : Nat) (E : Int)
    (hm : mm ≠ 0) (hE1 : -1074 ≤ E) (hE2 : E ≤ 971) (heE : E ≤ ee)
    (hM : M = mm * 2 ^ (ee - E).toNat) (hM53 : M < 2 ^ 53) (hcanon : 2 ^ 52 ≤ M ∨ E = -1074) :
    ofRat neg (scale2 mm 1 ee).1 (scale2 mm 1 ee).2 =
      (if neg then 2 ^ 63 else 0) +
        (if M < 2 ^ 52 then M else (E + 1075).toNat * 2 ^ 52 + (M - 2 ^ 52)) := by
  have hM0 : M ≠ 0 := by
    rw [hM]; exact Nat.mul_ne_zero hm (Nat.pos_iff_ne_zero.1 (Nat.pow_pos (by omega)))
  have hlog : (Nat.log2 M : Int) = Nat.log2 mm + (ee - E) := by
    rw [hM, log2_mul_two_pow mm _ hm]; omega
  have hlogM : Nat.log2 M ≤ 52 := by
    have := (Nat.log2_lt hM0 (k := 53)).2 hM53; omega
  have hnum0 : (scale2 mm 1 ee).1 ≠ 0 := by
    unfold scale2; split
    · exact Nat.mul_ne_zero hm (Nat.pos_iff_ne_zero.1 (Nat.pow_pos (by omega)))
    · exact hm
  obtain ⟨hx1, hx2⟩ := scale2_scale2_exact mm ee E heE
  have hil := ilog2_scale2 mm ee hm
  unfold ofRat
  simp only [beq_iff_eq, hnum0, if_false]
  rw [hil]
  have hsel : (if (Nat.log2 mm : Int) + ee - 52 < -1074 then (-1074 : Int) else (Nat.log2 mm : Int) + ee - 52) = E := by
    rcases hcanon with hc | hc
    · have : Nat.log2 M = 52 := by
        have := (Nat.le_log2 hM0 (k := 52)).2 hc; omega
      split <;> omega
    · split <;> omega
  rw [hsel]
  rw [show (scale2 (scale2 mm 1 ee).1 (scale2 mm 1 ee).2 (-E)) =
    ((scale2 (scale2 mm 1 ee).1 (scale2 mm 1 ee).2 (-E)).1, (scale2 (scale2 mm 1 ee).1 (scale2 mm 1 ee).2 (-E)).2) from rfl]
  simp only
  rw [hx1, ← hM, roundHalfEven_exact M _ hx2]
  have hn53 : ¬ (M ≥ 2 ^ 53) := by omega
  simp only [hn53, if_false]
  by_cases hsub : M < 2 ^ 52
  · simp only [hsub, if_true]
  · simp only [hsub, if_false]
    have : ¬ ((E + 1075).toNat ≥ 2047) := by omega
    simp only [this, if_false]
    omega


/-! ### digits of `10·n` -/

theorem natDigitsGo_indep (f1 : Nat) : ∀ (f2 n : Nat), 0 < f1 → 0 < f2 → n < 10 ^ f1 → n < 10 ^ f2 →
    natDigitsGo f1 n [] = natDigitsGo f2 n [] := by
  induction f1 with
  | zero => intro f2 n h; omega
  | succ g ih =>
    intro f2 n _ h2 hn1 hn2
    obtain ⟨g2, rfl⟩ : ∃ g2, f2 = g2 + 1 := ⟨f2 - 1, by omega⟩
    unfold natDigitsGo
    split
    · rfl
    · rename_i h10
      rw [natDigitsGo_acc g, natDigitsGo_acc g2]
      have hg : 0 < g := by
        cases g with
        | zero => simp at hn1; omega
        | succ _ => omega
      have hg2 : 0 < g2 := by
        cases g2 with
        | zero => simp at hn2; omega
        | succ _ => omega
      rw [ih g2 (n / 10) hg hg2 (by rw [Nat.pow_succ] at hn1; omega) (by rw [Nat.pow_succ] at hn2; omega)]

theorem natDigits_mul10 (n : Nat) (h : 0 < n) : natDigits (n * 10) = natDigits n ++ [0] := by
  unfold natDigits
  have hlt := lt_ten_pow_log2 (n * 10)
  generalize Nat.log2 (n * 10) = l at *
  unfold natDigitsGo
  have : ¬ (n * 10 < 10) := by omega
  simp only [this, if_false]
  rw [natDigitsGo_acc, Nat.mul_div_cancel _ (by omega : 0 < 10), Nat.mul_mod_left]
  congr 1
  have hl : 0 < l := by
    cases l with
    | zero => simp at hlt; omega
    | succ _ => omega
  exact natDigitsGo_indep l _ n hl (by omega) (by rw [Nat.pow_succ] at hlt; omega) (lt_ten_pow_log2 n)


/-! ### `ofRat` on `10n / 10` -/

/-- `⌊log2 (10n / 10)⌋ = ⌊log2 n⌋`, computed by `ilog2` without cancelling the factor -/
theorem ilog2_ten (n : Nat) (hn : 0 < n) : ilog2 (10 * n) 10 = (Nat.log2 n : Int) := by
  have hn0 : n ≠ 0 := by omega
  have h1 := Nat.log2_self_le hn0
  have h2 : n < 2 ^ (n.log2 + 1) := Nat.lt_log2_self
  have h10 : Nat.log2 10 = 3 := by decide
  have hne : 10 * n ≠ 0 := by omega
  generalize hL : n.log2 = L at *
  have hlo : 2 ^ (L + 3) ≤ 10 * n := by
    rw [Nat.pow_add]; simp only [Nat.reducePow]; omega
  have hhi : 10 * n < 2 ^ (L + 5) := by
    rw [show L + 5 = (L + 1) + 4 by omega, Nat.pow_add]; simp only [Nat.reducePow]; omega
  have hl3 : L + 3 ≤ (10 * n).log2 := (Nat.le_log2 hne).2 hlo
  have hl5 : (10 * n).log2 < L + 5 := (Nat.log2_lt hne).2 hhi
  unfold ilog2
  rw [h10]
  by_cases hc : (10 * n).log2 = L + 3
  · rw [hc]
    have hs : ((L + 3 : Nat) : Int) - ((3 : Nat) : Int) ≥ 0 := by omega
    have ht : (((L + 3 : Nat) : Int) - ((3 : Nat) : Int)).toNat = L := by omega
    simp only [hs, if_true, ht]
    have : 10 * n ≥ 10 * 2 ^ L := by omega
    simp only [this, decide_true, if_true]
    omega
  · have hc4 : (10 * n).log2 = L + 4 := by omega
    rw [hc4]
    have hs : ((L + 4 : Nat) : Int) - ((3 : Nat) : Int) ≥ 0 := by omega
    have ht : (((L + 4 : Nat) : Int) - ((3 : Nat) : Int)).toNat = L + 1 := by omega
    simp only [hs, if_true, ht]
    have : ¬ (10 * n ≥ 10 * 2 ^ (L + 1)) := by omega
    simp only [this, decide_false, Bool.false_eq_true, if_false]
    omega


/-- correctly rounded conversion of `10n / 10` for a representable positive integer `n` -/
theorem ofRat_ten (neg : Bool) (n M : Nat) (hn : 0 < n) (hL : Nat.log2 n ≤ 1023)
    (hM : if Nat.log2 n ≤ 52 then M = n * 2 ^ (52 - Nat.log2 n) else n = M * 2 ^ (Nat.log2 n - 52)) :
    ofRat neg (10 * n) 10 =
      (if neg then 2 ^ 63 else 0) + ((Nat.log2 n + 1023) * 2 ^ 52 + (M - 2 ^ 52)) := by
  have hn0 : n ≠ 0 := by omega
  have h1 := Nat.log2_self_le hn0
  have h2 : n < 2 ^ (n.log2 + 1) := Nat.lt_log2_self
  have hil := ilog2_ten n hn
  unfold ofRat
  have hne : ¬ (10 * n = 0) := by omega
  simp only [beq_iff_eq, hne, if_false, hil]
  generalize hLd : n.log2 = L at *
  have hsel : ¬ ((L : Int) - 52 < -1074) := by omega
  simp only [hsel, if_false]
  have hMb : 2 ^ 52 ≤ M ∧ M < 2 ^ 53 := by
    by_cases hc : L ≤ 52
    · simp only [hc, if_true] at hM
      have e1 : 2 ^ 52 = 2 ^ L * 2 ^ (52 - L) := by rw [← Nat.pow_add]; congr 1; omega
      have e2 : 2 ^ 53 = 2 ^ (L + 1) * 2 ^ (52 - L) := by rw [← Nat.pow_add]; congr 1; omega
      have hp : 0 < 2 ^ (52 - L) := Nat.pow_pos (by omega)
      rw [hM, e1, e2]
      exact ⟨Nat.mul_le_mul_right _ h1, Nat.mul_lt_mul_of_pos_right h2 hp⟩
    · simp only [hc, if_false] at hM
      have e1 : 2 ^ L = 2 ^ 52 * 2 ^ (L - 52) := by rw [← Nat.pow_add]; congr 1; omega
      have e2 : 2 ^ (L + 1) = 2 ^ 53 * 2 ^ (L - 52) := by rw [← Nat.pow_add]; congr 1; omega
      have hp : 0 < 2 ^ (L - 52) := Nat.pow_pos (by omega)
      rw [hM, e1] at h1
      rw [hM, e2] at h2
      exact ⟨Nat.le_of_mul_le_mul_right h1 hp, Nat.lt_of_mul_lt_mul_right h2⟩
  have hrhe : roundHalfEven (scale2 (10 * n) 10 (-((L : Int) - 52))).1 (scale2 (10 * n) 10 (-((L : Int) - 52))).2 = M := by
    unfold scale2
    by_cases hc : L ≤ 52
    · simp only [hc, if_true] at hM
      have : -((L : Int) - 52) ≥ 0 := by omega
      simp only [this, if_true]
      have e : (-((L : Int) - 52)).toNat = 52 - L := by omega
      rw [e, Nat.mul_comm 10 n, Nat.mul_assoc, Nat.mul_comm 10, ← Nat.mul_assoc, ← hM]
      exact roundHalfEven_exact M 10 (by omega)
    · simp only [hc, if_false] at hM
      have : ¬ (-((L : Int) - 52) ≥ 0) := by omega
      simp only [this, if_false]
      have e : (-(-((L : Int) - 52))).toNat = L - 52 := by omega
      rw [e]
      have : 10 * n = M * (10 * 2 ^ (L - 52)) := by
        rw [hM]; rw [Nat.mul_comm 10 (M * _), Nat.mul_assoc, Nat.mul_comm _ 10]
      rw [this]
      exact roundHalfEven_exact M _ (Nat.mul_pos (by omega) (Nat.pow_pos (by omega)))
  rw [show scale2 (10 * n) 10 (-((L : Int) - 52)) =
    ((scale2 (10 * n) 10 (-((L : Int) - 52))).1, (scale2 (10 * n) 10 (-((L : Int) - 52))).2) from rfl]
  simp only [hrhe]
  have a1 : ¬ (M ≥ 2 ^ 53) := by omega
  have a2 : ¬ (M < 2 ^ 52) := by omega
  simp only [a1, a2, if_false]
  have a3 : ((L : Int) - 52 + 1075).toNat = L + 1023 := by omega
  have a4 : ¬ (L + 1023 ≥ 2047) := by omega
  simp only [a3, a4, if_false]
  omega

end PV.Dec

namespace PV.C17
open PV.Dec PV.C17.Spec

/-! ### underscore stripping -/

theorem adjOk_def (a b : Nat) :
    adjOk a b = ((b != 95 || isDigit a) && (a != 95 || isDigit b)) := rfl
theorem isDigit_95 : isDigit 95 = false := by decide

theorem stripGo_spec (s : List Nat) : ∀ (prev : Nat) (t : List Nat),
    stripGo prev s = some t ↔
      (pairsOk (prev :: s) = true ∧ (prev :: s).getLast? ≠ some 95 ∧ t = s.filter (· ≠ 95)) := by
  induction s with
  | nil =>
    intro prev t
    simp [stripGo, pairsOk]
  | cons p rest ih =>
    intro prev t
    unfold stripGo
    by_cases hp : p = 95
    · subst hp
      by_cases hd : isDigit prev = true
      · simp [hd, ih, pairsOk, adjOk_def, List.getLast?_cons_cons]
        intro _ _ _
        left; intro h; rw [h] at hd; simp [isDigit_95] at hd
      · simp [hd, pairsOk, adjOk_def]
    · simp only [hp, if_false]
      by_cases hq : prev = 95 ∧ isDigit p = false
      · simp [hq, pairsOk, adjOk_def]
      · simp only [hq, if_false, Option.map_eq_some_iff, ih]
        have : adjOk prev p = true := by
          simp [adjOk_def, hp]
          by_cases h : prev = 95
          · right; simpa [h] using hq
          · left; exact h
        simp [pairsOk, this, List.getLast?_cons_cons, hp]
        constructor
        · rintro ⟨a, ⟨h1, h2, h3⟩, rfl⟩
          exact ⟨h1, h2, by simp [h3]⟩
        · rintro ⟨h1, h2, rfl⟩
          exact ⟨_, ⟨h1, h2, rfl⟩, rfl⟩


/-! ### reading rendered digits back -/

theorem isDigit_show (d : Nat) (h : d < 10) : isDigit (48 + d) = true := by
  simp [isDigit]; omega

theorem digitVals_showDigits (ds : List Nat) : digitVals (showDigits ds) = ds := by
  induction ds with
  | nil => rfl
  | cons d ds ih => simp [digitVals, showDigits] at ih ⊢; exact ih

/-- `spanDigits` reads back a rendered digit list up to the first non-digit -/
theorem spanDigits_showDigits (ds : List Nat) (h : ∀ d ∈ ds, d < 10) (rest : List Nat)
    (hr : ∀ c, rest.head? = some c → isDigit c = false) :
    spanDigits (showDigits ds ++ rest) = (showDigits ds, rest) := by
  induction ds with
  | nil =>
    simp [showDigits]
    cases rest with
    | nil => simp [spanDigits]
    | cons c r => simp [spanDigits, hr c rfl]
  | cons d ds ih =>
    have hd : isDigit (48 + d) = true := isDigit_show d (h d (by simp))
    have := ih (fun x hx => h x (by simp [hx]))
    simp [showDigits] at this ⊢
    simp [spanDigits, hd, this]

theorem ofDigits_cons_zero (ds : List Nat) : ofDigits (0 :: ds) = ofDigits ds := by
  simp [ofDigits]

theorem all_lt10_expDigits (n : Nat) :
    ∀ d ∈ (if (natDigits n).length < 2 then 0 :: natDigits n else natDigits n), d < 10 := by
  intro d hd
  split at hd
  · simp at hd; rcases hd with rfl | hd
    · omega
    · exact natDigits_lt10 n d hd
  · exact natDigits_lt10 n d hd

/-- the exponent suffix is a sign followed by at least two digits, and reads back as `e` -/
theorem expSuffix_shape (e : Int) :
    ∃ sgn ds, expSuffix e = sgn :: showDigits ds ∧ (sgn = 43 ∨ sgn = 45) ∧ 2 ≤ ds.length ∧
      (∀ d ∈ ds, d < 10) ∧ (sgn = 45 ↔ e < 0) ∧ ofDigits ds = e.natAbs := by
  refine ⟨if e < 0 then 45 else 43, _, rfl, ?_, ?_, all_lt10_expDigits _, ?_, ?_⟩
  · split <;> simp
  · split
    · have := natDigits_ne_nil e.natAbs
      simp; cases h : natDigits e.natAbs with
      | nil => exact absurd h this
      | cons a b => simp
    · omega
  · split <;> simp [*]
  · split
    · rw [ofDigits_cons_zero, ofDigits_natDigits]
    · rw [ofDigits_natDigits]

theorem parseExponent_expSuffix (e : Int) : parseExponent (101 :: expSuffix e) = some e := by
  obtain ⟨sgn, ds, h1, h2, h3, h4, h5, h6⟩ := expSuffix_shape e
  have hne : showDigits ds ≠ [] := by
    cases ds with
    | nil => simp at h3
    | cons a b => simp [showDigits]
  have hs := spanDigits_showDigits ds h4 [] (by simp)
  simp at hs
  rw [h1]
  unfold parseExponent
  rcases h2 with rfl | rfl
  · have : ¬ e < 0 := by intro h; have := h5.2 h; omega
    simp [splitSign, hs, hne, digitVals_showDigits, h6]
    omega
  · have : e < 0 := h5.1 rfl
    simp [splitSign, hs, hne, digitVals_showDigits, h6]
    omega


/-! ### hexadecimal digits -/

theorem hexDigitL_eq (n : Nat) : hexDigitL n = hexDig n := rfl

theorem hexFixed_zero (k : Nat) : hexFixed k 0 = List.replicate k 48 := by
  induction k with
  | zero => rfl
  | succ k ih => simp [hexFixed, ih, hexDig, List.replicate_succ']

theorem hexDigitsGo_acc (fuel : Nat) : ∀ (n : Nat) (acc : List Nat),
    hexDigitsGo fuel n acc = hexDigitsGo fuel n [] ++ acc := by
  induction fuel with
  | zero => intro n acc; simp [hexDigitsGo]
  | succ f ih =>
    intro n acc
    unfold hexDigitsGo
    split
    · simp
    · rw [ih (n / 16) (_ :: acc), ih (n / 16) [_]]; simp

theorem hexDigitsGo_fixed (fuel : Nat) : ∀ (k n : Nat), n < 16 ^ fuel → n < 16 ^ k → 1 ≤ k →
    List.replicate (k - (hexDigitsGo fuel n []).length) 48 ++ hexDigitsGo fuel n [] = hexFixed k n := by
  induction fuel with
  | zero =>
    intro k n hn _ _
    simp at hn; subst hn
    simp [hexDigitsGo, hexFixed_zero]
  | succ f ih =>
    intro k n hn hk h1
    obtain ⟨k', rfl⟩ : ∃ k', k = k' + 1 := ⟨k - 1, by omega⟩
    unfold hexDigitsGo
    split
    · rename_i h16
      simp [hexFixed, Nat.div_eq_of_lt h16, Nat.mod_eq_of_lt h16, hexFixed_zero, hexDigitL_eq]
    · rename_i h16
      rw [hexDigitsGo_acc]
      have hk' : 1 ≤ k' := by
        cases k' with
        | zero => simp at hk; omega
        | succ j => omega
      have hn' : n / 16 < 16 ^ f := by rw [Nat.pow_succ] at hn; omega
      have hk2 : n / 16 < 16 ^ k' := by rw [Nat.pow_succ] at hk; omega
      have := ih k' (n / 16) hn' hk2 hk'
      simp only [hexFixed, List.length_append, List.length_singleton, hexDigitL_eq]
      rw [← this]
      simp

theorem lt_sixteen_pow_log2 (n : Nat) : n < 16 ^ (Nat.log2 n + 1) := by
  have h1 : n < 2 ^ (Nat.log2 n + 1) := Nat.lt_log2_self
  have h2 : 2 ^ (Nat.log2 n + 1) ≤ 16 ^ (Nat.log2 n + 1) := Nat.pow_le_pow_left (by omega) _
  omega

theorem hex13_eq (n : Nat) (h : n < 2 ^ 52) : hex13 n = hexFixed 13 n :=
  hexDigitsGo_fixed _ 13 n (lt_sixteen_pow_log2 n) (by omega) (by omega)

theorem fracField_lt (bits : Nat) : fracField bits < 2 ^ 52 := Nat.mod_lt _ (by omega)

/-- the pair printed by `to_hex`: the canonical mantissa and exponent of the double -/
theorem hexMantExp_eq (bits : Nat) :
    hexMantExp bits = (if expField bits = 0 then fracField bits else fracField bits + 2 ^ 52,
      if expField bits = 0 then -1074 else (expField bits : Int) - 1075) := by
  unfold hexMantExp integerDecode
  by_cases h : expField bits = 0
  · simp only [h, if_true]
    congr 1
    · omega
  · simp only [h, if_false]


/-! ### digit lists produced by PV.Dec -/

theorem isDig_show (d : Nat) (h : d < 10) : isDig (48 + d) = true := by
  simp [isDig]; omega

theorem allDigits_showDigits (ds : List Nat) (hne : ds ≠ []) (h : ∀ d ∈ ds, d < 10) :
    allDigits (showDigits ds) = true := by
  simp only [allDigits, showDigits, Bool.and_eq_true, Bool.not_eq_true', List.all_eq_true]
  constructor
  · cases ds with
    | nil => exact absurd rfl hne
    | cons a b => simp
  · intro x hx
    simp at hx
    obtain ⟨d, hd, rfl⟩ := hx
    exact isDig_show d (h d hd)

theorem mem_stripTrailingZeros {ds : List Nat} {x : Nat} (h : x ∈ stripTrailingZeros ds) : x ∈ ds := by
  unfold stripTrailingZeros at h
  rw [List.mem_reverse] at h
  have := (List.dropWhile_sublist (fun x => x == 0) (l := ds.reverse)).subset h
  simpa using this

theorem shortest_digits_ok (bits : Nat) (tie : Bool) :
    (shortest bits tie).1 ≠ [] ∧ ∀ d ∈ (shortest bits tie).1, d < 10 := by
  unfold shortest
  split
  · simp
  · simp only
    split
    · simp
    · rename_i h
      constructor
      · intro h2; simp [h2] at h
      · intro d hd
        exact natDigits_lt10 _ d (mem_stripTrailingZeros hd)


/-! ### shapes of the three repr layouts -/

theorem shortestExpL_snd (bits : Nat) : (shortestExpL bits).2 = (shortest bits).2 := by
  unfold shortestExpL; rfl

theorem signOk (b : Bool) : (if b = true then [45] else ([] : List Nat)) = [] ∨
    (if b = true then [45] else ([] : List Nat)) = [45] := by cases b <;> simp

theorem toFixedL_one_shape (bits : Nat) (hf : isFinite bits = true) : FixedShape (toFixedL bits 1) := by
  have hn : isNan bits = false := by
    simp only [isFinite, isNan] at *; simp at hf; simp [hf]
  have hi : isInf bits = false := by
    simp only [isFinite, isInf] at *; simp at hf; simp [hf]
  unfold toFixedL
  simp only [hn, hi]
  generalize hds : List.replicate (1 + 1 - (natDigits (fixedInt bits 1)).length) 0 ++ natDigits (fixedInt bits 1) = ds
  have hlen : 2 ≤ ds.length := by rw [← hds]; simp; omega
  have hall : ∀ d ∈ ds, d < 10 := by
    intro d hd; rw [← hds] at hd; simp at hd
    rcases hd with ⟨_, rfl⟩ | hd
    · omega
    · exact natDigits_lt10 _ d hd
  refine ⟨(if isNeg bits = true then [45] else []), showDigits (ds.take (ds.length - 1)), showDigits (ds.drop (ds.length - 1)), ?_, signOk _, ?_, ?_⟩
  · simp
  · apply allDigits_showDigits
    · intro h; have := congrArg List.length h; simp at this; omega
    · intro d hd; exact hall d (List.mem_of_mem_take hd)
  · apply allDigits_showDigits
    · intro h; have := congrArg List.length h; simp at this; omega
    · intro d hd; exact hall d (List.mem_of_mem_drop hd)

theorem shortestFixedL_shape (bits : Nat) (hf : isFinite bits = true) (hfd : FracDigits bits) :
    FixedShape (shortestFixedL bits) := by
  have hn : isNan bits = false := by
    simp only [isFinite, isNan] at *; simp at hf; simp [hf]
  have hi : isInf bits = false := by
    simp only [isFinite, isInf] at *; simp at hf; simp [hf]
  obtain ⟨hne, hall⟩ := shortest_digits_ok bits false
  unfold shortestFixedL
  simp only [hn, hi]
  unfold FracDigits at hfd
  generalize shortest bits = sh at *
  obtain ⟨ds, e10⟩ := sh
  simp only at hne hall hfd ⊢
  by_cases hp : e10 + 1 ≤ 0
  · simp only [hp, if_true]
    refine ⟨(if isNeg bits = true then [45] else []), [48], List.replicate (-(e10 + 1)).toNat 48 ++ showDigits ds, ?_, signOk _, by decide, ?_⟩
    · simp
    · have := allDigits_showDigits ds hne hall
      simp only [allDigits, Bool.and_eq_true, Bool.not_eq_true', List.all_eq_true] at this ⊢
      constructor
      · cases ds with
        | nil => exact absurd rfl hne
        | cons a b => simp [showDigits]
      · intro x hx
        simp at hx
        rcases hx with ⟨_, rfl⟩ | hx
        · decide
        · exact this.2 x (by simpa using hx)
  · have hlt : (e10 + 1).toNat < ds.length := by omega
    simp only [hp, hlt, if_true, if_false]
    refine ⟨(if isNeg bits = true then [45] else []), showDigits (ds.take (e10 + 1).toNat), showDigits (ds.drop (e10 + 1).toNat), ?_, signOk _, ?_, ?_⟩
    · simp
    · apply allDigits_showDigits
      · intro h; have := congrArg List.length h
        rw [List.length_take, List.length_nil] at this; omega
      · intro d hd; exact hall d (List.mem_of_mem_take hd)
    · apply allDigits_showDigits
      · intro h; have := congrArg List.length h
        rw [List.length_drop, List.length_nil] at this; omega
      · intro d hd; exact hall d (List.mem_of_mem_drop hd)

theorem exp_shape (bits : Nat) : ExpShape ((shortestExpL bits).1 ++ [101] ++ expSuffix (shortestExpL bits).2) := by
  obtain ⟨hne, hall⟩ := shortest_digits_ok bits false
  obtain ⟨sgn, xs, h1, h2, h3, h4, _, _⟩ := expSuffix_shape (shortestExpL bits).2
  rw [h1]
  unfold shortestExpL
  generalize shortest bits = sh at *
  obtain ⟨ds, e10⟩ := sh
  simp only at hne hall ⊢
  have hx : allDigits (showDigits xs) = true :=
    allDigits_showDigits xs (by intro h; simp [h] at h3) h4
  match ds, hne, hall with
  | [d], _, hall =>
    refine ⟨(if isNeg bits = true then [45] else []), 48 + d, [], sgn, showDigits xs, by simp, signOk _, isDig_show d (hall d (by simp)),
      Or.inl rfl, h2, hx, by simpa [showDigits] using h3⟩
  | d :: d2 :: rest, _, hall =>
    refine ⟨(if isNeg bits = true then [45] else []), 48 + d, 46 :: showDigits (d2 :: rest), sgn, showDigits xs, by simp, signOk _,
      isDig_show d (hall d (by simp)), Or.inr ⟨_, rfl, ?_⟩, h2, hx, by simpa [showDigits] using h3⟩
    exact allDigits_showDigits _ (by simp) (fun x hx => hall x (by simp at hx ⊢; right; exact hx))


/-! ### printf-style renderers -/


theorem expSuffix_eq_pyExp (e : Int) : expSuffix e = pyExp e := by
  unfold expSuffix pyExp
  have hne := natDigits_ne_nil e.natAbs
  simp only
  congr 2
  split
  · rename_i h
    have : (natDigits e.natAbs).length = 1 := by
      cases hh : natDigits e.natAbs with
      | nil => exact absurd hh hne
      | cons a b => rw [hh] at h; simp only [List.length_cons] at h ⊢; omega
    rw [this]; rfl
  · rename_i h
    have : 2 - (natDigits e.natAbs).length = 0 := by omega
    rw [this]; rfl

theorem finite_not_nan {bits : Nat} (hf : isFinite bits = true) : isNan bits = false := by
  simp only [isFinite, isNan] at *; simp at hf; simp [hf]
theorem finite_not_inf {bits : Nat} (hf : isFinite bits = true) : isInf bits = false := by
  simp only [isFinite, isInf] at *; simp at hf; simp [hf]
theorem not_finite_nan_or_inf {bits : Nat} (hf : isFinite bits = false) :
    isNan bits = false → isInf bits = true := by
  simp only [isFinite, isNan, isInf] at *
  simp at hf
  simp [hf]

theorem special_eq (bits : Nat) (upper : Bool) (_hf : isFinite bits = false) (hs : isNeg bits = false) :
    (if isNan bits then formatNan upper else formatInf upper) = special bits upper := by
  unfold special formatNan formatInf
  by_cases hn : isNan bits = true
  · cases upper <;> simp [hn, hs]
  · cases upper <;> simp [hn, hs]


theorem showDigits_append (a b : List Nat) : showDigits (a ++ b) = showDigits a ++ showDigits b := by
  simp [showDigits]
theorem showDigits_reverse (a : List Nat) : showDigits a.reverse = (showDigits a).reverse := by
  simp [showDigits]

/-- dropping `'0'` characters from the reversed text = dropping zero digits -/
theorem dropWhile_zero_chars (fr : List Nat) (tail : List Nat) :
    (showDigits fr ++ 46 :: tail).dropWhile (· = 48) =
      showDigits (fr.dropWhile (· == 0)) ++ 46 :: tail := by
  induction fr with
  | nil => simp [showDigits]
  | cons d r ih =>
    by_cases hd : d = 0
    · subst hd; simpa [showDigits] using ih
    · have : ¬ (48 + d = 48) := by omega
      simp [showDigits, hd]

theorem strip_with_point (A fp : List Nat) :
    removeTrailingDecimalPoint (removeTrailingZeros (A ++ 46 :: showDigits fp)) =
      A ++ (if (dropTrailingZeroDigits fp).isEmpty then [] else 46 :: showDigits (dropTrailingZeroDigits fp)) := by
  unfold removeTrailingZeros dropTrailingZeroDigits
  have h1 : (A ++ 46 :: showDigits fp).reverse = showDigits fp.reverse ++ 46 :: A.reverse := by
    simp [showDigits_reverse]
  rw [h1, dropWhile_zero_chars]
  generalize fp.reverse.dropWhile (· == 0) = s
  cases s with
  | nil => simp [showDigits, removeTrailingDecimalPoint]
  | cons d r =>
    have : ¬ (48 + d = 46) := by omega
    simp [showDigits, removeTrailingDecimalPoint, List.reverse_cons]
    rw [show (List.map (fun x => 48 + x) r).reverse ++ [48 + d] = ((48 + d) :: (List.map (fun x => 48 + x) r)).reverse by simp]
    split
    · rename_i heq; simp at heq; omega
    · simp

theorem showDigits_no_point (ds : List Nat) : (showDigits ds).contains 46 = false := by
  induction ds with
  | nil => rfl
  | cons d r ih =>
    have : ¬ (46 = 48 + d) := by omega
    simp only [showDigits, List.map_cons, List.contains_cons, Bool.or_eq_false_iff] at ih ⊢
    exact ⟨by simpa using this, ih⟩

theorem contains_point (A B : List Nat) : (A ++ 46 :: B).contains 46 = true := by
  simp

/-- `maybe_remove_trailing_redundant_chars` on digits-point-digits text, in terms of digits -/
theorem maybeRemove_point (ip fp : List Nat) (alt : Bool) :
    maybeRemoveTrailingRedundantChars (showDigits ip ++ 46 :: showDigits fp) alt =
      if alt then showDigits ip ++ 46 :: showDigits fp
      else showDigits ip ++
        (if (dropTrailingZeroDigits fp).isEmpty then [] else 46 :: showDigits (dropTrailingZeroDigits fp)) := by
  unfold maybeRemoveTrailingRedundantChars
  cases alt
  · simp only [Bool.not_false, contains_point, and_self, if_true, Bool.false_eq_true, if_false]
    exact strip_with_point _ _
  · simp

theorem maybeRemove_nopoint (ip : List Nat) (alt : Bool) :
    maybeRemoveTrailingRedundantChars (showDigits ip) alt = showDigits ip := by
  unfold maybeRemoveTrailingRedundantChars
  rw [showDigits_no_point]
  simp


/-! ### parsing rendered text back -/

/-- characters that occur in rendered finite floats -/
def Plain (t : List Nat) : Prop :=
  ∀ c ∈ t, c = 45 ∨ c = 43 ∨ c = 46 ∨ c = 101 ∨ (48 ≤ c ∧ c ≤ 57)

theorem dropWhile_none {p : Nat → Bool} {l : List Nat} (h : ∀ c ∈ l, p c = false) :
    l.dropWhile p = l := by
  cases l with
  | nil => rfl
  | cons a b => simp [h a (by simp)]

theorem trimWith_none {p : Nat → Bool} {l : List Nat} (h : ∀ c ∈ l, p c = false) :
    trimWith p l = l := by
  unfold trimWith
  rw [dropWhile_none h, dropWhile_none (by intro c hc; exact h c (by simpa using hc))]
  simp

theorem utf8Encode_ascii (l : List Nat) (h : ∀ c ∈ l, c < 128) : PV.utf8Encode l = l := by
  induction l with
  | nil => rfl
  | cons a b ih =>
    have ha : a < 128 := h a (by simp)
    have := ih (fun c hc => h c (by simp [hc]))
    simp only [PV.utf8Encode, List.flatMap_cons] at this ⊢
    rw [this]
    simp [PV.utf8EncodeNat, ha]

theorem stripGo_plain (l : List Nat) : ∀ prev, prev ≠ 95 → (∀ c ∈ l, c ≠ 95) → stripGo prev l = some l := by
  induction l with
  | nil => intro prev hp _; simp [stripGo, hp]
  | cons a b ih =>
    intro prev hp h
    have ha : a ≠ 95 := h a (by simp)
    unfold stripGo
    simp only [ha, if_false, hp, false_and]
    rw [ih a ha (fun c hc => h c (by simp [hc]))]
    rfl

theorem Plain.props {t : List Nat} (h : Plain t) :
    (∀ c ∈ t, isWhitespace c = false) ∧ (∀ c ∈ t, c < 128) ∧ (∀ c ∈ t, c ≠ 95) := by
  refine ⟨?_, ?_, ?_⟩ <;> intro c hc <;> rcases h c hc with h | h | h | h | h
  all_goals first | (subst h; decide) | omega | skip
  · simp [isWhitespace]; omega

theorem parseStr_plain (t : List Nat) (h : Plain t) : parseStr t = lexicalParse t := by
  obtain ⟨h1, h2, h3⟩ := h.props
  unfold parseStr parseInner stripUnderlines
  rw [trimWith_none h1, utf8Encode_ascii t h2, stripGo_plain t 0 (by omega) h3]


theorem showDigits_cons (d : Nat) (r : List Nat) : showDigits (d :: r) = (48 + d) :: showDigits r := rfl

theorem toLower_digit (c : Nat) (h : isDigit c = true) : toLower c = c := by
  simp [isDigit] at h; unfold toLower; split <;> omega

/-- text starting with a digit is none of the special names -/
theorem not_special (c : Nat) (r : List Nat) (h : isDigit c = true) :
    let low := (c :: r).map toLower
    ¬ low = sNan ∧ ¬ (low = sInf ∨ low = sInfinity) := by
  simp only [List.map_cons, toLower_digit c h, sNan, sInf, sInfinity]
  simp [isDigit] at h
  refine ⟨?_, ?_⟩
  · intro hh; injection hh with h1 _; omega
  · rintro (hh | hh) <;> (injection hh with h1 _; omega)

theorem splitSign_digit (c : Nat) (r : List Nat) (h : isDigit c = true) :
    splitSign (c :: r) = (false, c :: r) := by
  simp [isDigit] at h
  unfold splitSign
  split
  · rename_i heq; injection heq with h1 _; omega
  · rename_i heq; injection heq with h1 _; omega
  · rfl

theorem splitSign_sign (neg : Bool) (c : Nat) (r : List Nat) (h : isDigit c = true) :
    splitSign ((if neg then [45] else []) ++ c :: r) = (neg, c :: r) := by
  cases neg
  · simpa using splitSign_digit c r h
  · simp [splitSign]

/-- fixed notation reads back as its digits scaled by the number of fraction digits -/
theorem lexicalParse_fixed (neg : Bool) (ipd fpd : List Nat) (hne : ipd ≠ [])
    (hi : ∀ d ∈ ipd, d < 10) (hf : ∀ d ∈ fpd, d < 10) :
    lexicalParse ((if neg then [45] else []) ++ showDigits ipd ++ 46 :: showDigits fpd) =
      some (ofDecimal neg (ipd ++ fpd) (-(fpd.length : Int))) := by
  obtain ⟨d0, ir, rfl⟩ : ∃ d0 ir, ipd = d0 :: ir := by
    cases ipd with
    | nil => exact absurd rfl hne
    | cons a b => exact ⟨a, b, rfl⟩
  have hd0 : isDigit (48 + d0) = true := isDigit_show d0 (hi d0 (by simp))
  unfold lexicalParse
  rw [showDigits_cons, List.append_assoc, List.cons_append, splitSign_sign neg _ _ hd0]
  obtain ⟨n1, n2⟩ := not_special (48 + d0) (showDigits ir ++ 46 :: showDigits fpd) hd0
  simp only [n1, n2, if_false]
  have hs1 := spanDigits_showDigits (d0 :: ir) hi (46 :: showDigits fpd) (by intro c hc; simp at hc; subst hc; decide)
  rw [showDigits_cons, List.cons_append] at hs1
  have hs2 := spanDigits_showDigits fpd hf [] (by simp)
  simp only [List.append_nil] at hs2
  simp only [hs1, hs2]
  simp [parseExponent, showDigits, digitVals]
  congr 1
  · rw [← List.map_append]
    have := digitVals_showDigits (ir ++ fpd)
    simp only [digitVals, showDigits, List.map_map] at this
    simpa using this


/-- exponent notation reads back as its digits and exponent -/
theorem lexicalParse_exp (neg : Bool) (d : Nat) (rest : List Nat) (e : Int) (hd : d < 10)
    (hr : ∀ x ∈ rest, x < 10) :
    lexicalParse ((if neg then [45] else []) ++
        ((48 + d) :: (if rest.isEmpty then [] else 46 :: showDigits rest)) ++ [101] ++ expSuffix e) =
      some (ofDecimal neg (d :: rest) (e - (rest.length : Int))) := by
  have hd0 : isDigit (48 + d) = true := isDigit_show d hd
  unfold lexicalParse
  rw [List.append_assoc, List.append_assoc, List.cons_append, splitSign_sign neg _ _ hd0]
  obtain ⟨n1, n2⟩ := not_special (48 + d) ((if rest.isEmpty then [] else 46 :: showDigits rest) ++ ([101] ++ expSuffix e)) hd0
  simp only [n1, n2, if_false]
  have hpe := parseExponent_expSuffix e
  cases rest with
  | nil =>
    have hs1 := spanDigits_showDigits [d] (by intro x hx; simp at hx; subst hx; exact hd) (101 :: expSuffix e)
      (by intro c hc; simp at hc; subst hc; decide)
    simp only [showDigits, List.map_cons, List.map_nil, List.cons_append, List.nil_append] at hs1
    simp only [List.isEmpty_nil, if_true, List.nil_append, List.cons_append, hs1, hpe]
    simp [digitVals]
  | cons r0 rs =>
    have hs1 := spanDigits_showDigits [d] (by intro x hx; simp at hx; subst hx; exact hd)
      (46 :: showDigits (r0 :: rs) ++ 101 :: expSuffix e) (by intro c hc; simp at hc; subst hc; decide)
    simp only [showDigits, List.map_cons, List.map_nil, List.cons_append, List.nil_append] at hs1
    have hs2 := spanDigits_showDigits (r0 :: rs) hr (101 :: expSuffix e) (by intro c hc; simp at hc; subst hc; decide)
    simp only [showDigits, List.map_cons, List.cons_append] at hs2
    simp only [List.isEmpty_cons, Bool.false_eq_true, if_false, List.cons_append, List.nil_append,
      showDigits, List.map_cons, hs1, hs2, hpe]
    have := digitVals_showDigits (r0 :: rs)
    simp only [digitVals, showDigits, List.map_cons, List.map_map] at this
    simp [digitVals]
    simp at this
    rw [this]


/-! ### the three repr layouts read back -/

theorem ofDigits_zeros (z : Nat) (ds : List Nat) : ofDigits (List.replicate z 0 ++ ds) = ofDigits ds := by
  induction z with
  | zero => simp
  | succ n ih => rw [List.replicate_succ, List.cons_append, ofDigits_cons_zero, ih]

theorem ofDecimal_congr (neg : Bool) (a b : List Nat) (e : Int) (h : ofDigits a = ofDigits b) :
    ofDecimal neg a e = ofDecimal neg b e := by
  unfold ofDecimal; rw [h]

theorem plain_showDigits (ds : List Nat) (h : ∀ d ∈ ds, d < 10) : Plain (showDigits ds) := by
  intro c hc
  simp [showDigits] at hc
  obtain ⟨d, hd, rfl⟩ := hc
  have := h d hd
  omega

theorem plain_append {a b : List Nat} (ha : Plain a) (hb : Plain b) : Plain (a ++ b) := by
  intro c hc
  rcases List.mem_append.1 hc with h | h
  · exact ha c h
  · exact hb c h

theorem plain_sign (b : Bool) : Plain (if b then [45] else []) := by
  intro c hc; cases b <;> simp at hc; omega

theorem plain_expSuffix (e : Int) : Plain (expSuffix e) := by
  obtain ⟨sgn, xs, h1, h2, _, h4, _, _⟩ := expSuffix_shape e
  rw [h1]
  intro c hc
  simp at hc
  rcases hc with rfl | hc
  · omega
  · exact plain_showDigits xs h4 c hc

theorem plain_cons {c : Nat} {t : List Nat}
    (hc : c = 45 ∨ c = 43 ∨ c = 46 ∨ c = 101 ∨ (48 ≤ c ∧ c ≤ 57)) (ht : Plain t) : Plain (c :: t) := by
  intro x hx
  simp at hx
  rcases hx with rfl | hx
  · exact hc
  · exact ht x hx


theorem roundtrip_exp (bits : Nat) (h : DecFacts bits) :
    parseStr ((shortestExpL bits).1 ++ [101] ++ expSuffix (shortestExpL bits).2) = some bits := by
  obtain ⟨hne, hall⟩ := shortest_digits_ok bits false
  have hsci := h.1
  unfold ofSci at hsci
  unfold shortestExpL
  generalize shortest bits = sh at *
  obtain ⟨ds, e10⟩ := sh
  simp only at hne hall hsci ⊢
  obtain ⟨d, rest, rfl⟩ : ∃ d rest, ds = d :: rest := by
    cases ds with
    | nil => exact absurd rfl hne
    | cons a b => exact ⟨a, b, rfl⟩
  have hd : d < 10 := hall d (by simp)
  have hr : ∀ x ∈ rest, x < 10 := fun x hx => hall x (by simp [hx])
  cases rest with
  | nil =>
    simp only []
    have hplain : Plain ((if isNeg bits = true then [45] else []) ++
        ((48 + d) :: (if ([] : List Nat).isEmpty then [] else 46 :: showDigits [])) ++ [101] ++ expSuffix e10) := by
      apply plain_append
      · apply plain_append
        · exact plain_append (plain_sign _) (plain_cons (by omega) (by intro c hc; simp at hc))
        · exact plain_cons (by omega) (by intro c hc; simp at hc)
      · exact plain_expSuffix e10
    have := lexicalParse_exp (isNeg bits) d [] e10 hd hr
    rw [← parseStr_plain _ hplain] at this
    simp only [List.isEmpty_nil, if_true] at this
    rw [this]
    refine congrArg some (Eq.trans ?_ hsci)
    congr 1
  | cons r0 rs =>
    simp only []
    have hplain : Plain ((if isNeg bits = true then [45] else []) ++
        ((48 + d) :: (if (r0 :: rs).isEmpty then [] else 46 :: showDigits (r0 :: rs))) ++ [101] ++ expSuffix e10) := by
      apply plain_append
      · apply plain_append
        · exact plain_append (plain_sign _) (plain_cons (by omega) (plain_cons (by omega) (plain_showDigits _ hr)))
        · exact plain_cons (by omega) (by intro c hc; simp at hc)
      · exact plain_expSuffix e10
    have := lexicalParse_exp (isNeg bits) d (r0 :: rs) e10 hd hr
    rw [← parseStr_plain _ hplain] at this
    simp only [List.isEmpty_cons, Bool.false_eq_true, if_false] at this
    rw [this]
    refine congrArg some (Eq.trans ?_ hsci)
    congr 1
    simp only [List.length_cons]
    omega

theorem roundtrip_fixed1 (bits : Nat) (hf : isFinite bits = true)
    (h : ofDecimal (isNeg bits) (fixedDigits bits 1) (-1) = bits) :
    parseStr (toFixedL bits 1) = some bits := by
  unfold toFixedL
  simp only [finite_not_nan hf, finite_not_inf hf, Bool.false_eq_true, if_false]
  unfold fixedDigits at h
  generalize hds : List.replicate (1 + 1 - (natDigits (fixedInt bits 1)).length) 0 ++ natDigits (fixedInt bits 1) = ds at *
  have hlen : 2 ≤ ds.length := by rw [← hds]; simp; omega
  have hall : ∀ d ∈ ds, d < 10 := by
    intro d hd; rw [← hds] at hd; simp at hd
    rcases hd with ⟨_, rfl⟩ | hd
    · omega
    · exact natDigits_lt10 _ d hd
  have hi : ∀ d ∈ ds.take (ds.length - 1), d < 10 := fun d hd => hall d (List.mem_of_mem_take hd)
  have hfp : ∀ d ∈ ds.drop (ds.length - 1), d < 10 := fun d hd => hall d (List.mem_of_mem_drop hd)
  have hne : ds.take (ds.length - 1) ≠ [] := by
    intro hh; have := congrArg List.length hh
    rw [List.length_take, List.length_nil] at this; omega
  have e1 : ((1 : Nat) == 0) = false := rfl
  simp only [e1, Bool.false_eq_true, if_false]
  have hplain : Plain ((if isNeg bits = true then [45] else []) ++ showDigits (List.take (ds.length - 1) ds) ++
      46 :: showDigits (List.drop (ds.length - 1) ds)) := by
    apply plain_append (plain_append (plain_sign _) (plain_showDigits _ hi))
    exact plain_cons (by omega) (plain_showDigits _ hfp)
  rw [parseStr_plain _ hplain, lexicalParse_fixed _ _ _ hne hi hfp, List.take_append_drop]
  have : ((List.drop (ds.length - 1) ds).length : Int) = 1 := by
    rw [List.length_drop]; omega
  rw [this, h]

theorem roundtrip_shortestFixed (bits : Nat) (hf : isFinite bits = true) (h : DecFacts bits)
    (hfd : FracDigits bits) : parseStr (shortestFixedL bits) = some bits := by
  obtain ⟨hne, hall⟩ := shortest_digits_ok bits false
  have hsci := h.1
  unfold ofSci at hsci
  unfold FracDigits at hfd
  unfold shortestFixedL
  simp only [finite_not_nan hf, finite_not_inf hf, Bool.false_eq_true, if_false]
  generalize shortest bits = sh at *
  obtain ⟨ds, e10⟩ := sh
  simp only at hne hall hsci hfd ⊢
  by_cases hp : e10 + 1 ≤ 0
  · simp only [hp, if_true]
    have hz : ∀ d ∈ List.replicate (-(e10 + 1)).toNat 0 ++ ds, d < 10 := by
      intro d hd; simp at hd
      rcases hd with ⟨_, rfl⟩ | hd
      · omega
      · exact hall d hd
    have e48 : ([48, 46] : List Nat) ++ List.replicate (-(e10 + 1)).toNat 48 ++ showDigits ds =
        showDigits [0] ++ 46 :: showDigits (List.replicate (-(e10 + 1)).toNat 0 ++ ds) := by
      simp [showDigits]
    rw [List.append_assoc, ← List.append_assoc [48, 46] _ (showDigits ds), e48]
    have hplain : Plain ((if isNeg bits = true then [45] else []) ++
        (showDigits [0] ++ 46 :: showDigits (List.replicate (-(e10 + 1)).toNat 0 ++ ds))) := by
      apply plain_append (plain_sign _)
      apply plain_append (plain_showDigits _ (by intro d hd; simp at hd; omega))
      exact plain_cons (by omega) (plain_showDigits _ hz)
    rw [parseStr_plain _ hplain, ← List.append_assoc,
      lexicalParse_fixed _ [0] _ (by simp) (by intro d hd; simp at hd; omega) hz]
    rw [ofDecimal_congr _ ([0] ++ (List.replicate (-(e10 + 1)).toNat 0 ++ ds)) ds _
      (by rw [List.singleton_append, ofDigits_cons_zero, ofDigits_zeros])]
    refine congrArg some (Eq.trans ?_ hsci)
    congr 1
    simp only [List.length_append, List.length_replicate]
    omega
  · have hlt : (e10 + 1).toNat < ds.length := by omega
    simp only [hp, hlt, if_true, if_false]
    have hi : ∀ d ∈ ds.take (e10 + 1).toNat, d < 10 := fun d hd => hall d (List.mem_of_mem_take hd)
    have hfp : ∀ d ∈ ds.drop (e10 + 1).toNat, d < 10 := fun d hd => hall d (List.mem_of_mem_drop hd)
    have hne' : ds.take (e10 + 1).toNat ≠ [] := by
      intro hh; have := congrArg List.length hh
      rw [List.length_take, List.length_nil] at this; omega
    have hplain : Plain ((if isNeg bits = true then [45] else []) ++
        (showDigits (List.take (e10 + 1).toNat ds) ++ [46] ++ showDigits (List.drop (e10 + 1).toNat ds))) := by
      apply plain_append (plain_sign _)
      apply plain_append (plain_append (plain_showDigits _ hi) (plain_cons (by omega) (by intro c hc; simp at hc)))
      exact plain_showDigits _ hfp
    rw [parseStr_plain _ hplain]
    rw [show (if isNeg bits = true then [45] else []) ++
        (showDigits (List.take (e10 + 1).toNat ds) ++ [46] ++ showDigits (List.drop (e10 + 1).toNat ds)) =
        (if isNeg bits = true then [45] else []) ++ showDigits (List.take (e10 + 1).toNat ds) ++
          46 :: showDigits (List.drop (e10 + 1).toNat ds) by simp]
    rw [lexicalParse_fixed _ _ _ hne' hi hfp, List.take_append_drop]
    refine congrArg some (Eq.trans ?_ hsci)
    congr 1
    rw [List.length_drop]
    omega


/-! ### trimming -/


theorem dropWhile_congr {p q : Nat → Bool} (l : List Nat) (h : ∀ c ∈ l, p c = q c) :
    l.dropWhile p = l.dropWhile q := by
  induction l with
  | nil => rfl
  | cons a b ih =>
    simp only [List.dropWhile_cons, h a (by simp)]
    split
    · exact ih (fun c hc => h c (by simp [hc]))
    · rfl

theorem trimWith_congr {p q : Nat → Bool} (l : List Nat) (h : ∀ c ∈ l, p c = q c) :
    trimWith p l = trimWith q l := by
  unfold trimWith
  rw [dropWhile_congr l h]
  rw [dropWhile_congr (List.dropWhile q l).reverse]
  intro c hc
  exact h c ((List.dropWhile_sublist q).subset (by simpa using hc))

theorem mem_trimWith {p : Nat → Bool} {l : List Nat} {c : Nat} (h : c ∈ trimWith p l) : c ∈ l := by
  unfold trimWith at h
  rw [List.mem_reverse] at h
  have h1 := (List.dropWhile_sublist p).subset h
  rw [List.mem_reverse] at h1
  exact (List.dropWhile_sublist p).subset h1


/-! ### hexf: reading rendered hex digits back -/

theorem hexVal_hexDig (v : Nat) (h : v < 16) : hexVal (hexDig v) = some v := by
  unfold hexVal hexDig
  by_cases h10 : v < 10
  · simp only [h10, if_true]
    have : 48 ≤ 48 + v ∧ 48 + v ≤ 57 := by omega
    simp only [this, and_self, if_true]
    congr 1; omega
  · simp only [h10, if_false]
    have a : ¬ (48 ≤ 87 + v ∧ 87 + v ≤ 57) := by omega
    have b : 97 ≤ 87 + v ∧ 87 + v ≤ 102 := by omega
    simp only [a, b, and_self, if_true, if_false]
    congr 1; omega

/-- value of a list of hex digit values, most significant first -/
def ofHex (vs : List Nat) : Nat := vs.foldl (fun a v => 16 * a + v) 0

theorem ofHex_cons (v : Nat) (vs : List Nat) : ofHex (v :: vs) = v * 16 ^ vs.length + ofHex vs := by
  unfold ofHex
  have gen : ∀ (l : List Nat) (a : Nat), l.foldl (fun a v => 16 * a + v) a = a * 16 ^ l.length + l.foldl (fun a v => 16 * a + v) 0 := by
    intro l
    induction l with
    | nil => intro a; simp
    | cons x xs ih =>
      intro a
      simp only [List.foldl_cons, List.length_cons]
      rw [ih (16 * a + x), ih (16 * 0 + x), Nat.pow_succ]
      simp only [Nat.mul_zero, Nat.zero_add, Nat.add_mul]
      rw [Nat.mul_comm (16 ^ xs.length) 16, ← Nat.mul_assoc, Nat.mul_comm a 16]
      omega
  simp only [List.foldl_cons, Nat.mul_zero, Nat.zero_add]
  exact gen vs v

theorem pow16 (n : Nat) : 16 ^ n = 2 ^ (4 * n) := by
  rw [Nat.pow_mul]

/-- The fraction loop of hexf over rendered hex digits: the accumulated mantissa times the pending
    zero digits is the positional value of everything read. -/
theorem hexfFrac_digits (vs : List Nat) (rest : List Nat)
    (hrest : ∀ c, rest.head? = some c → hexVal c = none) :
    ∀ (acc nf nz : Nat) (seen : Bool), (∀ v ∈ vs, v < 16) →
      acc * 16 ^ nz < 2 * 16 ^ (nf + nz) → nf + nz + vs.length ≤ 13 →
      ∃ acc' nf' nz' seen', hexfFrac (vs.map hexDig ++ rest) acc nf nz seen = some (acc', nf', seen', rest) ∧
        acc' * 16 ^ nz' = acc * 16 ^ nz * 16 ^ vs.length + ofHex vs ∧ nf' + nz' = nf + nz + vs.length ∧
        (seen' = (seen || !vs.isEmpty)) := by
  induction vs with
  | nil =>
    intro acc nf nz seen _ _ _
    refine ⟨acc, nf, nz, seen, ?_, by simp [ofHex], by simp, by simp⟩
    cases rest with
    | nil => simp [hexfFrac]
    | cons c r =>
      have := hrest c rfl
      simp [hexfFrac, this]
  | cons v vs ih =>
    intro acc nf nz seen hv hb hl
    have hv16 : v < 16 := hv v (by simp)
    have hvs : ∀ x ∈ vs, x < 16 := fun x hx => hv x (by simp [hx])
    simp only [List.length_cons] at hl
    simp only [List.map_cons, List.cons_append]
    unfold hexfFrac
    rw [hexVal_hexDig v hv16]
    have hpos : 0 < 16 ^ nz := Nat.pow_pos (by omega)
    by_cases hv0 : v = 0
    · subst hv0
      simp only
      have hb' : acc * 16 ^ (nz + 1) < 2 * 16 ^ (nf + (nz + 1)) := by
        rw [Nat.pow_succ, ← Nat.add_assoc, Nat.pow_succ, ← Nat.mul_assoc, ← Nat.mul_assoc]
        omega
      obtain ⟨a', f', z', s', e1, e2, e3, e4⟩ := ih acc nf (nz + 1) true hvs hb' (by omega)
      refine ⟨a', f', z', s', e1, ?_, by simp only [List.length_cons]; omega, by simp [e4]⟩
      rw [e2, ofHex_cons]
      simp only [List.length_cons, Nat.zero_mul, Nat.zero_add]
      rw [Nat.pow_succ 16 nz, Nat.pow_succ 16 vs.length]
      rw [Nat.mul_assoc, Nat.mul_assoc, Nat.mul_assoc, Nat.mul_comm 16 (16 ^ vs.length)]
    · have hacc : acc < 2 * 16 ^ nf := by
        rw [Nat.pow_add, ← Nat.mul_assoc] at hb
        exact Nat.lt_of_mul_lt_mul_right hb
      have hnew : (acc * 16 ^ (nz + 1) + v) * 16 ^ 0 < 2 * 16 ^ (nf + (nz + 1) + 0) := by
        simp only [Nat.pow_zero, Nat.mul_one, Nat.add_zero]
        rw [Nat.pow_succ, ← Nat.add_assoc, Nat.pow_succ, ← Nat.mul_assoc, ← Nat.mul_assoc]
        omega
      obtain ⟨a', f', z', s', e1, e2, e3, e4⟩ := ih (acc * 16 ^ (nz + 1) + v) (nf + (nz + 1)) 0 true hvs hnew (by omega)
      have hres : acc * 16 ^ nz * 16 ^ (v :: vs).length + ofHex (v :: vs) =
          (acc * 16 ^ (nz + 1) + v) * 16 ^ 0 * 16 ^ vs.length + ofHex vs := by
        rw [ofHex_cons]
        simp only [List.length_cons, Nat.pow_zero, Nat.mul_one]
        rw [Nat.pow_succ 16 nz, Nat.pow_succ 16 vs.length, Nat.add_mul]
        rw [Nat.mul_assoc, Nat.mul_assoc, Nat.mul_assoc, Nat.mul_comm 16 (16 ^ vs.length)]
        omega
      cases v with
      | zero => exact absurd rfl hv0
      | succ w =>
        simp only
        by_cases hz : acc = 0
        · subst hz
          simp only [ne_eq, not_true_eq_false, if_false]
          simp only [Nat.zero_mul, Nat.zero_add] at e1 e2 hres ⊢
          exact ⟨a', f', z', s', e1, by rw [e2]; simp [hres], by simp only [List.length_cons]; omega, by simp [e4]⟩
        · have hsmall : acc / 2 ^ (64 - (nz + 1) * 4) = 0 := by
            apply Nat.div_eq_of_lt
            have : 2 * 16 ^ nf ≤ 2 ^ (64 - (nz + 1) * 4) := by
              rw [pow16, ← Nat.pow_succ']
              exact Nat.pow_le_pow_right (by omega) (by omega)
            omega
          have hn16 : ¬ (nz + 1 ≥ 16) := by omega
          simp only [ne_eq, hz, not_false_eq_true, if_true, hn16, hsmall, not_true_eq_false, or_self, if_false]
          rw [show 2 ^ ((nz + 1) * 4) = 16 ^ (nz + 1) by rw [pow16, Nat.mul_comm]]
          exact ⟨a', f', z', s', e1, by rw [e2, hres], by simp only [List.length_cons]; omega, by simp [e4]⟩


/-- hex digit values of `n` in `k` positions, most significant first -/
def hexVals : Nat → Nat → List Nat
  | 0, _ => []
  | k + 1, n => hexVals k (n / 16) ++ [n % 16]

theorem hexFixed_eq_map (k : Nat) : ∀ n, hexFixed k n = (hexVals k n).map hexDig := by
  induction k with
  | zero => intro n; rfl
  | succ k ih => intro n; simp [hexFixed, hexVals, ih]

theorem hexVals_length (k : Nat) : ∀ n, (hexVals k n).length = k := by
  induction k with
  | zero => intro n; rfl
  | succ k ih => intro n; simp [hexVals, ih]

theorem hexVals_lt16 (k : Nat) : ∀ n, ∀ v ∈ hexVals k n, v < 16 := by
  induction k with
  | zero => intro n v hv; simp [hexVals] at hv
  | succ k ih =>
    intro n v hv
    simp only [hexVals, List.mem_append, List.mem_singleton] at hv
    rcases hv with hv | rfl
    · exact ih _ v hv
    · omega

theorem ofHex_snoc (xs : List Nat) (v : Nat) : ofHex (xs ++ [v]) = 16 * ofHex xs + v := by
  simp [ofHex, List.foldl_append]

theorem ofHex_hexVals (k : Nat) : ∀ n, n < 16 ^ k → ofHex (hexVals k n) = n := by
  induction k with
  | zero => intro n hn; simp at hn; subst hn; rfl
  | succ k ih =>
    intro n hn
    rw [Nat.pow_succ] at hn
    rw [hexVals, ofHex_snoc, ih (n / 16) (by omega)]
    omega

theorem foldl_dec_ge (ds : List Nat) : ∀ e, e ≤ ds.foldl (fun a d => 10 * a + d) e := by
  induction ds with
  | nil => intro e; exact Nat.le_refl _
  | cons d r ih =>
    intro e
    simp only [List.foldl_cons]
    have := ih (10 * e + d)
    omega

/-- exponent loop of hexf over rendered decimal digits -/
theorem hexfExp_digits (ds : List Nat) (h : ∀ d ∈ ds, d < 10) :
    ∀ (e : Nat) (seen : Bool), (seen = true ∨ ds ≠ []) →
      ds.foldl (fun a d => 10 * a + d) e ≤ isizeMax →
      hexfExp (showDigits ds) e seen true = some (some (ds.foldl (fun a d => 10 * a + d) e)) := by
  induction ds with
  | nil =>
    intro e seen hs _
    have : seen = true := by rcases hs with h | h; exact h; exact absurd rfl h
    simp [hexfExp, showDigits, this]
  | cons d r ih =>
    intro e seen _ hb
    have hd : isDigit (48 + d) = true := isDigit_show d (h d (by simp))
    simp only [showDigits_cons, List.foldl_cons] at hb ⊢
    unfold hexfExp
    simp only [hd, if_true]
    have e1 : e * 10 + (48 + d - 48) = 10 * e + d := by omega
    rw [e1]
    have hle : 10 * e + d ≤ isizeMax := Nat.le_trans (foldl_dec_ge r _) hb
    have : ¬ (10 * e + d > isizeMax) := by omega
    simp only [this, if_false]
    exact ih (fun x hx => h x (by simp [hx])) (10 * e + d) true (Or.inl rfl) hb


theorem parseHexf64_shape (neg : Bool) (lead : Nat) (hl : lead ≤ 1) (vs : List Nat)
    (hvs : ∀ v ∈ vs, v < 16) (hlen : vs.length = 13) (sgn : Nat) (hsgn : sgn = 43 ∨ sgn = 45)
    (ds : List Nat) (hds : ∀ d ∈ ds, d < 10) (hne : ds ≠ []) (hbound : ofDigits ds ≤ isizeMax)
    (hM : lead * 16 ^ 13 + ofHex vs ≠ 0) :
    ∃ acc' nf' nz' : Nat, acc' * 16 ^ nz' = lead * 16 ^ 13 + ofHex vs ∧ nf' + nz' = 13 ∧
      parseHexf64 ((if neg then [45] else []) ++
          48 :: 120 :: (48 + lead) :: 46 :: (vs.map hexDig ++ 112 :: sgn :: showDigits ds)) =
        hexfConvert neg acc' ((if sgn = 45 then -(ofDigits ds : Int) else (ofDigits ds : Int)) - 4 * (nf' : Int)) := by
  have hrest : ∀ c, (112 :: sgn :: showDigits ds).head? = some c → hexVal c = none := by
    intro c hc; simp at hc; subst hc; decide
  obtain ⟨acc', nf', nz', seen', e1, e2, e3, _⟩ :=
    hexfFrac_digits vs (112 :: sgn :: showDigits ds) hrest lead 0 0 false hvs (by simp; omega) (by omega)
  simp only [Nat.pow_zero, Nat.mul_one, Nat.zero_add, hlen] at e2 e3
  refine ⟨acc', nf', nz', e2, e3, ?_⟩
  have hacc : acc' ≠ 0 := by
    intro h; rw [h] at e2; simp at e2; omega
  unfold parseHexf64
  have hnonempty : ((if neg then [45] else []) ++
      48 :: 120 :: (48 + lead) :: 46 :: (vs.map hexDig ++ 112 :: sgn :: showDigits ds)).isEmpty = false := by
    cases neg <;> simp
  rw [hnonempty]
  simp only [Bool.false_eq_true, if_false]
  rw [splitSign_sign neg 48 _ (by decide)]
  simp only
  have hlv : hexVal (48 + lead) = some lead := by
    have : lead = 0 ∨ lead = 1 := by omega
    rcases this with rfl | rfl <;> decide
  have hint : hexfInt ((48 + lead) :: 46 :: (vs.map hexDig ++ 112 :: sgn :: showDigits ds)) 0 false =
      some (lead, true, 46 :: (vs.map hexDig ++ 112 :: sgn :: showDigits ds)) := by
    unfold hexfInt
    simp only [hlv]
    unfold hexfInt
    have : hexVal 46 = none := by decide
    simp [this, u64Lim]
  simp only [show ¬ ((120 : Nat) ≠ 120 ∧ (120 : Nat) ≠ 88) by decide, if_false, hint, e1]
  simp only [Bool.true_or, Bool.not_true, Bool.false_eq_true, if_false]
  simp only [show ¬ ((112 : Nat) ≠ 112 ∧ (112 : Nat) ≠ 80) by decide, if_false]
  have hs : (sgn :: showDigits ds).isEmpty = false := rfl
  simp only [hs, Bool.false_eq_true, if_false]
  have hexp := hexfExp_digits ds hds 0 false (Or.inr hne) (by simpa [ofDigits] using hbound)
  have hacc' : decide (acc' ≠ 0) = true := by simpa using hacc
  rcases hsgn with rfl | rfl
  · simp only [splitSign, hacc', hexp, hacc, if_false]
    simp [ofDigits]
  · simp only [splitSign, hacc', hexp, hacc, if_false]
    simp [ofDigits]


theorem showSigned_value (x : Int) :
    ∃ sgn ds, showSigned x = sgn :: showDigits ds ∧ (sgn = 43 ∨ sgn = 45) ∧ (∀ d ∈ ds, d < 10) ∧ ds ≠ [] ∧
      ofDigits ds = x.natAbs ∧ (if sgn = 45 then -(ofDigits ds : Int) else (ofDigits ds : Int)) = x := by
  refine ⟨if x < 0 then 45 else 43, natDigits x.natAbs, rfl, ?_, natDigits_lt10 _, natDigits_ne_nil _,
    ofDigits_natDigits _, ?_⟩
  · split <;> simp
  · rw [ofDigits_natDigits]
    split <;> simp <;> omega


/-! ### hexf conversion -/

theorem trailingZeros_spec (fuel : Nat) : ∀ n, 0 < n → n < 2 ^ fuel →
    n = n / 2 ^ trailingZeros fuel n * 2 ^ trailingZeros fuel n ∧ (n / 2 ^ trailingZeros fuel n) % 2 = 1 := by
  induction fuel with
  | zero => intro n h0 hn; simp at hn; omega
  | succ f ih =>
    intro n h0 hn
    unfold trailingZeros
    split
    · rename_i hodd; simp [hodd]
    · rename_i hev
      have hn2 : n / 2 < 2 ^ f := by rw [Nat.pow_succ] at hn; omega
      obtain ⟨a, b⟩ := ih (n / 2) (by omega) hn2
      generalize trailingZeros f (n / 2) = t at *
      have e1 : n / 2 ^ (1 + t) = n / 2 / 2 ^ t := by
        rw [Nat.add_comm, Nat.pow_succ, Nat.mul_comm, ← Nat.div_div_eq_div_mul]
      rw [e1]
      refine ⟨?_, b⟩
      rw [Nat.add_comm 1 t, Nat.pow_succ, ← Nat.mul_assoc, ← a]
      omega

/-- hexf's conversion is exact on a representable value `mantissa·2^exponent = M·2^E`
    (`(M, E)` canonical; the equation is stated after scaling both sides by `2^1075`). -/
theorem hexfConvert_exact (neg : Bool) (mantissa : Nat) (exponent : Int) (M : Nat) (E : Int)
    (hm0 : mantissa ≠ 0) (hm64 : mantissa < 2 ^ 64) (hex : -1075 ≤ exponent ∧ exponent ≤ 0xffff)
    (hE1 : -1074 ≤ E) (hE2 : E ≤ 971)
    (hval : mantissa * 2 ^ (exponent + 1075).toNat = M * 2 ^ (E + 1075).toNat)
    (hM53 : M < 2 ^ 53) (hcanon : 2 ^ 52 ≤ M ∨ E = -1074) :
    hexfConvert neg mantissa exponent = some ((if neg then 2 ^ 63 else 0) +
        (if M < 2 ^ 52 then M else (E + 1075).toNat * 2 ^ 52 + (M - 2 ^ 52))) := by
  obtain ⟨t1, t2⟩ := trailingZeros_spec 64 mantissa (by omega) hm64
  unfold hexfConvert
  have hr : ¬ (exponent < -0xffff ∨ exponent > 0xffff) := by omega
  simp only [hr, hm0, if_false]
  generalize trailingZeros 64 mantissa = tz at *
  generalize hmm : mantissa / 2 ^ tz = m at *
  have hmne : m ≠ 0 := by intro h; rw [h] at t2; simp at t2
  generalize ha : (exponent + 1075).toNat = a at hval
  generalize hbb : (E + 1075).toNat = b at hval
  have hval' : m * 2 ^ (tz + a) = M * 2 ^ b := by
    rw [Nat.pow_add, ← Nat.mul_assoc, ← t1]; exact hval
  have hle : b ≤ tz + a := by
    apply Classical.byContradiction
    intro hnot
    have hsplit : 2 ^ b = 2 ^ (b - (tz + a)) * 2 ^ (tz + a) := by
      rw [← Nat.pow_add]; congr 1; omega
    rw [hsplit, ← Nat.mul_assoc] at hval'
    have hcancel := Nat.eq_of_mul_eq_mul_right (Nat.pow_pos (by omega)) hval'
    have : 2 ^ (b - (tz + a)) = 2 * 2 ^ (b - (tz + a) - 1) := by
      rw [← Nat.pow_succ']; congr 1; omega
    rw [this] at hcancel
    rw [hcancel, ← Nat.mul_assoc, Nat.mul_comm M 2, Nat.mul_assoc] at t2
    omega
  have hM' : M = m * 2 ^ (exponent + tz - E).toNat := by
    have hsplit : 2 ^ (tz + a) = 2 ^ (tz + a - b) * 2 ^ b := by
      rw [← Nat.pow_add]; congr 1; omega
    rw [hsplit, ← Nat.mul_assoc] at hval'
    have hcancel := Nat.eq_of_mul_eq_mul_right (Nat.pow_pos (by omega)) hval'
    rw [← hcancel]
    congr 2; omega
  have hM0 : M ≠ 0 := by
    rw [hM']; exact Nat.mul_ne_zero hmne (Nat.pos_iff_ne_zero.1 (Nat.pow_pos (by omega)))
  have hlog : (Nat.log2 M : Int) = Nat.log2 m + (exponent + tz - E) := by
    rw [hM', log2_mul_two_pow m _ hmne]; omega
  have hlogM : Nat.log2 M ≤ 52 := by
    have := (Nat.log2_lt hM0 (k := 53)).2 hM53; omega
  have hmle : m ≤ M := by
    rw [hM']; exact Nat.le_mul_of_pos_right _ (Nat.pow_pos (by omega))
  have hn1 : ¬ (exponent + (tz : Int) + (Nat.log2 m : Int) < -1074) := by omega
  have hn2 : ¬ (exponent + (tz : Int) + (Nat.log2 m : Int) ≥ 1024) := by omega
  simp only [hn1, hn2, if_false]
  have hsize : m / 2 ^ (if exponent + (tz : Int) + (Nat.log2 m : Int) < -1022
      then exponent + (tz : Int) + (Nat.log2 m : Int) + 1075 else 53).toNat = 0 := by
    apply Nat.div_eq_of_lt
    split
    · rename_i hlt
      have hE : E = -1074 := by
        rcases hcanon with hc | hc
        · have : Nat.log2 M = 52 := by
            have := (Nat.le_log2 hM0 (k := 52)).2 hc; omega
          omega
        · exact hc
      have : (exponent + (tz : Int) + (Nat.log2 m : Int) + 1075).toNat = Nat.log2 M + 1 := by omega
      rw [this]
      exact Nat.lt_of_le_of_lt hmle Nat.lt_log2_self
    · exact Nat.lt_of_le_of_lt hmle hM53
  simp only [hsize, if_true]
  rw [show scale2 m 1 (exponent + (tz : Int)) = ((scale2 m 1 (exponent + (tz : Int))).1, (scale2 m 1 (exponent + (tz : Int))).2) from rfl]
  simp only
  rw [ofRat_pow2 neg m (exponent + tz) M E hmne hE1 hE2 (by omega) hM' hM53 hcanon, hbb]


theorem bits_fields (bits : Nat) (hb : bits < 2 ^ 64) :
    bits = (if isNeg bits then 2 ^ 63 else 0) + expField bits * 2 ^ 52 + fracField bits := by
  unfold isNeg expField fracField
  by_cases h : bits / 2 ^ 63 % 2 = 1
  · simp only [h, beq_self_eq_true, if_true]; omega
  · have : (bits / 2 ^ 63 % 2 == 1) = false := by simpa using h
    simp only [this, Bool.false_eq_true, if_false]; omega

/-- hexf's conversion recovers every finite non-zero double from the pair read off `to_hex`'s text -/
theorem hexFacts_all (bits : Nat) (hb : bits < 2 ^ 64) (hf : isFinite bits = true)
    (hz : isZero bits = false) : HexFacts bits := by
  have hfr := fracField_lt bits
  have hexp : expField bits < 2048 := Nat.mod_lt _ (by omega)
  have hfin : expField bits ≠ 2047 := by simpa [isFinite] using hf
  have hbf := bits_fields bits hb
  intro k hk hdiv
  rw [hexMantExp_eq] at hdiv ⊢
  simp only at hdiv ⊢
  generalize hmant : (if expField bits = 0 then fracField bits else fracField bits + 2 ^ 52) = mant at *
  have h16 : 0 < 16 ^ k := Nat.pow_pos (by omega)
  have hq : mant = mant / 16 ^ k * 16 ^ k := by
    have := Nat.div_add_mod mant (16 ^ k)
    rw [hdiv, Nat.add_zero, Nat.mul_comm] at this; exact this.symm
  have hmant0 : mant ≠ 0 := by
    rw [← hmant]
    split
    · rename_i he
      simp only [isZero, he, beq_self_eq_true, Bool.true_and, beq_eq_false_iff_ne] at hz
      omega
    · omega
  have hq0 : mant / 16 ^ k ≠ 0 := by
    intro h; rw [h, Nat.zero_mul] at hq; exact hmant0 hq
  have hmant53 : mant < 2 ^ 53 := by rw [← hmant]; split <;> omega
  have hq64 : mant / 16 ^ k < 2 ^ 64 := by
    have := Nat.div_le_self mant (16 ^ k); omega
  by_cases he : expField bits = 0
  · -- subnormal: M = frac, E = -1074
    simp only [he, if_true] at hmant ⊢
    have := hexfConvert_exact (isNeg bits) (mant / 16 ^ k) ((-1074 : Int) + 4 * (k : Int))
      (fracField bits) (-1074) hq0 hq64 (by omega) (by omega) (by omega)
      (by
        have e1 : ((-1074 : Int) + 4 * (k : Int) + 1075).toNat = 4 * k + 1 := by omega
        have e2 : ((-1074 : Int) + 1075).toNat = 1 := by decide
        rw [e1, e2, Nat.pow_succ, Nat.pow_mul, show (2 : Nat) ^ 4 = 16 by decide, ← Nat.mul_assoc, ← hq, hmant])
      (by omega) (Or.inr rfl)
    rw [this]
    have : fracField bits < 2 ^ 52 := hfr
    simp only [this, if_true]
    congr 1
    rw [he] at hbf; omega
  · simp only [he, if_false] at hmant ⊢
    have := hexfConvert_exact (isNeg bits) (mant / 16 ^ k) ((expField bits : Int) - 1075 + 4 * (k : Int))
      (fracField bits + 2 ^ 52) ((expField bits : Int) - 1075) hq0 hq64 (by omega) (by omega) (by omega)
      (by
        have e1 : ((expField bits : Int) - 1075 + 4 * (k : Int) + 1075).toNat = expField bits + 4 * k := by omega
        have e2 : ((expField bits : Int) - 1075 + 1075).toNat = expField bits := by omega
        rw [e1, e2, Nat.pow_add, Nat.pow_mul, show (2 : Nat) ^ 4 = 16 by decide]
        rw [Nat.mul_comm (2 ^ expField bits), ← Nat.mul_assoc, ← hq, hmant])
      (by omega) (Or.inl (by omega))
    rw [this]
    have : ¬ (fracField bits + 2 ^ 52 < 2 ^ 52) := by omega
    simp only [this, if_false]
    refine congrArg some ?_
    have e2 : ((expField bits : Int) - 1075 + 1075).toNat = expField bits := by omega
    rw [e2]
    generalize (if isNeg bits = true then 2 ^ 63 else 0) = sg at *
    omega


/-! ### integers in fixed notation -/

/-- A double whose exact value is the integer `n` is rendered by the `is_integer` path of
    `to_string` (`{:.1?}`) as the decimal digits of `n` followed by `.0`. -/
theorem fixed1_of_integer (bits n : Nat) (hf : isFinite bits = true)
    (hn : (ratOf (decompose bits).2.1 (decompose bits).2.2).1 = n * (ratOf (decompose bits).2.1 (decompose bits).2.2).2) :
    toFixedL bits 1 = (if isNeg bits then [45] else []) ++ showDigits (natDigits n) ++ [46, 48] := by
  have hden : 0 < (ratOf (decompose bits).2.1 (decompose bits).2.2).2 := by
    unfold ratOf; split
    · simp
    · exact Nat.pow_pos (by omega)
  have hfix : fixedInt bits 1 = n * 10 := by
    unfold fixedInt
    rw [show (decompose bits) = ((decompose bits).1, (decompose bits).2.1, (decompose bits).2.2) from rfl]
    simp only
    rw [show ratOf (decompose bits).2.1 (decompose bits).2.2 =
      ((ratOf (decompose bits).2.1 (decompose bits).2.2).1, (ratOf (decompose bits).2.1 (decompose bits).2.2).2) from rfl]
    simp only
    rw [hn, Nat.pow_one, Nat.mul_assoc, Nat.mul_comm _ 10, ← Nat.mul_assoc]
    exact roundHalfEven_exact _ _ hden
  unfold toFixedL
  simp only [finite_not_nan hf, finite_not_inf hf, Bool.false_eq_true, if_false, hfix]
  have e1 : ((1 : Nat) == 0) = false := rfl
  simp only [e1, Bool.false_eq_true, if_false]
  by_cases h0 : n = 0
  · subst h0
    have : natDigits 0 = [0] := by decide
    simp [this, showDigits]
  · have hpos : 0 < n := by omega
    rw [natDigits_mul10 n hpos]
    have hne := natDigits_ne_nil n
    have hlen : 1 ≤ (natDigits n).length := by
      cases h : natDigits n with
      | nil => exact absurd h hne
      | cons a b => simp
    have : 1 + 1 - (natDigits n ++ [0]).length = 0 := by simp; omega
    rw [this]
    simp [showDigits]

theorem isInteger_of_integer (bits n : Nat) (hf : isFinite bits = true)
    (hn : (ratOf (decompose bits).2.1 (decompose bits).2.2).1 = n * (ratOf (decompose bits).2.1 (decompose bits).2.2).2) :
    isInteger bits = true := by
  unfold isInteger
  simp only [hf, Bool.not_true, Bool.false_eq_true, if_false]
  rw [show (decompose bits) = ((decompose bits).1, (decompose bits).2.1, (decompose bits).2.2) from rfl]
  simp only
  generalize (decompose bits).2.1 = m at *
  generalize (decompose bits).2.2 = e at *
  by_cases he : e ≥ 0
  · simp [he]
  · simp only [he, if_false]
    unfold ratOf at hn
    simp only [he, if_false] at hn
    have hmod : m % 2 ^ (-e).toNat = 0 := by rw [hn]; exact Nat.mul_mod_left _ _
    simp [hmod]


theorem exists_integer_of_isInteger (bits : Nat) (hf : isFinite bits = true) (h : isInteger bits = true) :
    ∃ n, (ratOf (decompose bits).2.1 (decompose bits).2.2).1 =
      n * (ratOf (decompose bits).2.1 (decompose bits).2.2).2 := by
  unfold isInteger at h
  simp only [hf, Bool.not_true, Bool.false_eq_true, if_false] at h
  rw [show (decompose bits) = ((decompose bits).1, (decompose bits).2.1, (decompose bits).2.2) from rfl] at h
  simp only at h
  generalize (decompose bits).2.1 = m at *
  generalize (decompose bits).2.2 = e at *
  unfold ratOf
  by_cases he : e ≥ 0
  · simp only [he, if_true]
    exact ⟨m * 2 ^ e.toNat, by simp⟩
  · simp only [he, if_false, beq_iff_eq] at h ⊢
    refine ⟨m / 2 ^ (-e).toNat, ?_⟩
    have := Nat.div_add_mod m (2 ^ (-e).toNat)
    rw [h, Nat.add_zero, Nat.mul_comm] at this
    exact this.symm

/-- the integer-valued double `n ≥ 1` is recovered by correctly rounded conversion of `10n/10` -/
theorem ofRat_ten_bits (bits n : Nat) (hb : bits < 2 ^ 64) (hf : isFinite bits = true) (hpos : 0 < n)
    (hn : (ratOf (decompose bits).2.1 (decompose bits).2.2).1 = n * (ratOf (decompose bits).2.1 (decompose bits).2.2).2) :
    ofRat (isNeg bits) (10 * n) 10 = bits := by
  have hfr := fracField_lt bits
  have hexp : expField bits < 2048 := Nat.mod_lt _ (by omega)
  have hfin : expField bits ≠ 2047 := by simpa [isFinite] using hf
  have hbf := bits_fields bits hb
  have hn0 : n ≠ 0 := by omega
  unfold decompose ratOf at hn
  simp only at hn
  by_cases he0 : expField bits = 0
  · -- subnormal or zero: value < 1, cannot be a positive integer
    exfalso
    simp only [he0, beq_self_eq_true, if_true] at hn
    have : ¬ ((-1074 : Int) ≥ 0) := by decide
    simp only [this, if_false] at hn
    generalize hK : (-(-1074 : Int)).toNat = K at hn
    have hK' : 52 ≤ K := by rw [← hK]; decide
    have hbig : 2 ^ 52 ≤ 2 ^ K := Nat.pow_le_pow_right (by omega) hK'
    have : 2 ^ K ≤ n * 2 ^ K := Nat.le_mul_of_pos_left _ hpos
    generalize 2 ^ K = B at *
    omega
  · have hb0 : (expField bits == 0) = false := by simpa using he0
    simp only [hb0, Bool.false_eq_true, if_false] at hn
    have hm52 : 2 ^ 52 ≤ fracField bits + 2 ^ 52 := by omega
    have hm53 : fracField bits + 2 ^ 52 < 2 ^ 53 := by omega
    have hm0 : fracField bits + 2 ^ 52 ≠ 0 := by omega
    have hlogm : Nat.log2 (fracField bits + 2 ^ 52) = 52 := (Nat.log2_eq_iff hm0).2 ⟨hm52, hm53⟩
    by_cases hge : (expField bits : Int) - 1075 ≥ 0
    · simp only [hge, if_true, Nat.mul_one] at hn
      generalize hk : ((expField bits : Int) - 1075).toNat = k at hn
      have hlog : Nat.log2 n = 52 + k := by rw [← hn, log2_mul_two_pow _ _ hm0, hlogm]
      have := ofRat_ten (isNeg bits) n (fracField bits + 2 ^ 52) hpos (by omega)
        (by
          rw [hlog]
          by_cases hk0 : k = 0
          · subst hk0; simp at hn ⊢; omega
          · have : ¬ (52 + k ≤ 52) := by omega
            simp only [this, if_false]
            rw [show 52 + k - 52 = k by omega]; exact hn.symm)
      rw [this, hlog]
      generalize (if isNeg bits = true then 2 ^ 63 else 0) = sg at *
      have : 52 + k + 1023 = expField bits := by omega
      rw [this]; omega
    · simp only [hge, if_false] at hn
      generalize hk : (-((expField bits : Int) - 1075)).toNat = k at hn
      have hlog : 52 = Nat.log2 n + k := by rw [← hlogm, hn, log2_mul_two_pow _ _ hn0]
      have := ofRat_ten (isNeg bits) n (fracField bits + 2 ^ 52) hpos (by omega)
        (by
          have : Nat.log2 n ≤ 52 := by omega
          simp only [this, if_true]
          rw [show 52 - Nat.log2 n = k by omega]; exact hn)
      rw [this]
      generalize (if isNeg bits = true then 2 ^ 63 else 0) = sg at *
      have : Nat.log2 n + 1023 = expField bits := by omega
      rw [this]; omega


end PV.C17
