import PV.C17.Lemmas
/-
  C17 — the digit-generation facts behind the repr round trip, part 1 (core Lean only).

  (i)  `shortestInt_mem` / `shortest_mem`: the decimal `d·10^k` chosen by `PV.Dec.shortest` lies in the
       rounding interval of the double (`InIvl`): every candidate returned by `shortestAt` passes its
       `inside` test, and the search never runs out of fuel because at 17 significant digits the
       decimal grid (`grid17`, from `ilog10_spec`) is finer than the interval, so a candidate exists.
  (b)  `fracDigits_of_not_integer`: a double that is not an integer has shortest digits after the point
       (an integer inside the rounding interval of `m·2^e`, `e < 0`, would have to equal it).
-/
namespace PV.Dec


theorem cross_le (X Y A B P Q : Nat) (hP : 0 < P) (hQ : 0 < Q) (key : A * P = B * Q) :
    X * A ≤ Y * Q ↔ X * B ≤ Y * P := by
  have e1 : X * A * P = X * B * Q := by rw [Nat.mul_assoc, key, Nat.mul_assoc]
  have e2 : Y * Q * P = Y * P * Q := Nat.mul_right_comm _ _ _
  rw [← Nat.mul_le_mul_right_iff hP, e1, e2, Nat.mul_le_mul_right_iff hQ]

theorem cross_lt (X Y A B P Q : Nat) (hP : 0 < P) (hQ : 0 < Q) (key : A * P = B * Q) :
    X * A < Y * Q ↔ X * B < Y * P := by
  have e1 : X * A * P = X * B * Q := by rw [Nat.mul_assoc, key, Nat.mul_assoc]
  have e2 : Y * Q * P = Y * P * Q := Nat.mul_right_comm _ _ _
  rw [← Nat.mul_lt_mul_right hP, e1, e2, Nat.mul_lt_mul_right hQ]

theorem pow_key (a1 b1 c1 d1 a2 b2 c2 d2 : Nat) (h2 : a1 + c2 = a2 + c1) (h10 : b1 + d2 = b2 + d1) :
    (2 ^ a1 * 10 ^ b1) * (2 ^ c2 * 10 ^ d2) = (2 ^ a2 * 10 ^ b2) * (2 ^ c1 * 10 ^ d1) := by
  have e1 : 2 ^ a1 * 2 ^ c2 = 2 ^ a2 * 2 ^ c1 := by rw [← Nat.pow_add, ← Nat.pow_add, h2]
  have e2 : 10 ^ b1 * 10 ^ d2 = 10 ^ b2 * 10 ^ d1 := by rw [← Nat.pow_add, ← Nat.pow_add, h10]
  calc (2 ^ a1 * 10 ^ b1) * (2 ^ c2 * 10 ^ d2) = (2 ^ a1 * 2 ^ c2) * (10 ^ b1 * 10 ^ d2) := by ac_rfl
    _ = (2 ^ a2 * 2 ^ c1) * (10 ^ b2 * 10 ^ d1) := by rw [e1, e2]
    _ = _ := by ac_rfl

theorem pos210 (a b : Nat) : 0 < 2 ^ a * 10 ^ b := Nat.mul_pos (Nat.pow_pos (by omega)) (Nat.pow_pos (by omega))

/-- `X·2^a1·10^b1 ≤ Y·2^c1·10^d1` only depends on the exponent differences -/
theorem le_rescale (X Y a1 b1 c1 d1 a2 b2 c2 d2 : Nat) (h2 : a1 + c2 = a2 + c1) (h10 : b1 + d2 = b2 + d1) :
    X * (2 ^ a1 * 10 ^ b1) ≤ Y * (2 ^ c1 * 10 ^ d1) ↔ X * (2 ^ a2 * 10 ^ b2) ≤ Y * (2 ^ c2 * 10 ^ d2) :=
  cross_le _ _ _ _ _ _ (pos210 _ _) (pos210 _ _) (pow_key _ _ _ _ _ _ _ _ h2 h10)

theorem lt_rescale (X Y a1 b1 c1 d1 a2 b2 c2 d2 : Nat) (h2 : a1 + c2 = a2 + c1) (h10 : b1 + d2 = b2 + d1) :
    X * (2 ^ a1 * 10 ^ b1) < Y * (2 ^ c1 * 10 ^ d1) ↔ X * (2 ^ a2 * 10 ^ b2) < Y * (2 ^ c2 * 10 ^ d2) :=
  cross_lt _ _ _ _ _ _ (pos210 _ _) (pos210 _ _) (pow_key _ _ _ _ _ _ _ _ h2 h10)
theorem ratOf_eq (m : Nat) (e : Int) : ratOf m e = (m * 2 ^ e.toNat, 2 ^ (-e).toNat) := by
  unfold ratOf
  split
  · have : (-e).toNat = 0 := by omega
    simp [this]
  · have : e.toNat = 0 := by omega
    simp [this]

theorem scale10_eq (num den : Nat) (k : Int) :
    scale10 num den k = (num * 10 ^ k.toNat, den * 10 ^ (-k).toNat) := by
  unfold scale10
  split
  · have : (-k).toNat = 0 := by omega
    simp [this]
  · have : k.toNat = 0 := by omega
    simp [this]

theorem scale2_eq (num den : Nat) (k : Int) :
    scale2 num den k = (num * 2 ^ k.toNat, den * 2 ^ (-k).toNat) := by
  unfold scale2
  split
  · have : (-k).toNat = 0 := by omega
    simp [this]
  · have : k.toNat = 0 := by omega
    simp [this]

/-- at 17 significant digits the decimal grid is finer than the double's quarter-ulp times `4m/10^16` -/
theorem grid17 (m : Nat) (e : Int) (hm : 0 < m) :
    let k := ilog10 (ratOf m e).1 (ratOf m e).2 - 16
    let g := e - 2
    (10 ^ k.toNat * 2 ^ (-g).toNat) * 10 ^ 16 ≤ (4 * m) * (2 ^ g.toNat * 10 ^ (-k).toNat) := by
  intro k g
  obtain ⟨hn, hd⟩ := ratOf_pos m e hm
  have h := (ilog10_spec _ _ hn hd).1
  rw [scale10_eq, ratOf_eq] at h
  simp only [Int.neg_neg] at h
  generalize he10 : ilog10 (m * 2 ^ e.toNat) (2 ^ (-e).toNat) = e10 at h
  have hk : k = e10 - 16 := by simp only [k, ratOf_eq, he10]
  have h' : 1 * (2 ^ (-e).toNat * 10 ^ e10.toNat) ≤ m * (2 ^ e.toNat * 10 ^ (-e10).toNat) := by
    rw [Nat.one_mul, ← Nat.mul_assoc]; exact h
  rw [le_rescale 1 m _ _ _ _ (-g).toNat (k.toNat + 16) (g.toNat + 2) (-k).toNat (by omega) (by omega)] at h'
  rw [Nat.pow_add, Nat.pow_add] at h'
  calc (10 ^ k.toNat * 2 ^ (-g).toNat) * 10 ^ 16 = 1 * (2 ^ (-g).toNat * (10 ^ k.toNat * 10 ^ 16)) := by ac_rfl
    _ ≤ m * (2 ^ g.toNat * 2 ^ 2 * 10 ^ (-k).toNat) := h'
    _ = _ := by
      rw [show (2:Nat) ^ 2 = 4 from rfl]; ac_rfl


/-- the test `inside` of `shortestAt`, as a proposition -/
def Inside (lo hi : Nat) (incl : Bool) (g k : Int) (d : Nat) : Prop :=
  if incl then
    lo * (2 ^ g.toNat * 10 ^ (-k).toNat) ≤ d * (10 ^ k.toNat * 2 ^ (-g).toNat) ∧
    d * (10 ^ k.toNat * 2 ^ (-g).toNat) ≤ hi * (2 ^ g.toNat * 10 ^ (-k).toNat)
  else
    lo * (2 ^ g.toNat * 10 ^ (-k).toNat) < d * (10 ^ k.toNat * 2 ^ (-g).toNat) ∧
    d * (10 ^ k.toNat * 2 ^ (-g).toNat) < hi * (2 ^ g.toNat * 10 ^ (-k).toNat)

instance (lo hi : Nat) (incl : Bool) (g k : Int) (d : Nat) : Decidable (Inside lo hi incl g k d) := by
  unfold Inside; infer_instance

theorem shortestAt_inside (tie : Bool) (v lo hi : Nat) (incl : Bool) (g k : Int) (d : Nat)
    (h : shortestAt tie v lo hi incl g k = some d) : Inside lo hi incl g k d := by
  unfold shortestAt at h
  unfold Inside
  generalize (10 ^ k.toNat * 2 ^ (-g).toNat) = a at *
  generalize (2 ^ g.toNat * 10 ^ (-k).toNat) = b at *
  simp only at h
  cases incl <;> simp only [Bool.false_eq_true, if_false, if_true] at h ⊢ <;>
  · split at h
    · rename_i h1 h2
      simp only [Bool.and_eq_true, decide_eq_true_eq] at h1 h2
      split at h
      · cases h; exact h1
      · split at h
        · cases h; exact h2
        · split at h <;> cases h
          · exact h1
          · exact h2
    · rename_i h1 h2
      simp only [Bool.and_eq_true, decide_eq_true_eq] at h1
      cases h; exact h1
    · rename_i h1 h2
      simp only [Bool.and_eq_true, decide_eq_true_eq] at h2
      cases h; exact h2
    · cases h

theorem shortestAt_none (tie : Bool) (v lo hi : Nat) (incl : Bool) (g k : Int)
    (h : shortestAt tie v lo hi incl g k = none) (h1 : lo < v) (h2 : v < hi) :
    hi * (2 ^ g.toNat * 10 ^ (-k).toNat) ≤
      lo * (2 ^ g.toNat * 10 ^ (-k).toNat) + (10 ^ k.toNat * 2 ^ (-g).toNat) := by
  unfold shortestAt at h
  have ha : 0 < (10 ^ k.toNat * 2 ^ (-g).toNat) := Nat.mul_pos (Nat.pow_pos (by omega)) (Nat.pow_pos (by omega))
  have hb : 0 < (2 ^ g.toNat * 10 ^ (-k).toNat) := Nat.mul_pos (Nat.pow_pos (by omega)) (Nat.pow_pos (by omega))
  generalize (10 ^ k.toNat * 2 ^ (-g).toNat) = a at *
  generalize (2 ^ g.toNat * 10 ^ (-k).toNat) = b at *
  simp only at h
  have e1 := Nat.div_add_mod (v * b) a
  have e2 := Nat.mod_lt (v * b) ha
  have e3 : (v * b / a + 1) * a = a * (v * b / a) + a := by rw [Nat.add_mul, Nat.one_mul, Nat.mul_comm]
  have e4 : v * b / a * a = a * (v * b / a) := Nat.mul_comm _ _
  have l1 : lo * b < v * b := Nat.mul_lt_mul_of_pos_right h1 hb
  have l2 : v * b < hi * b := Nat.mul_lt_mul_of_pos_right h2 hb
  rw [e3, e4] at h
  generalize a * (v * b / a) = X at *
  cases incl <;> simp only [Bool.false_eq_true, if_false, if_true] at h <;>
  · split at h
    · exfalso; revert h; split <;> (try split) <;> (try split) <;> simp
    · cases h
    · cases h
    · rename_i h1 h2
      simp at h1 h2
      omega

theorem shortestGo_inside (tie : Bool) (v lo hi : Nat) (incl : Bool) (g e10 : Int)
    (h1 : lo < v) (h2 : v < hi)
    (hs : lo * (2 ^ g.toNat * 10 ^ (-(e10 - 16)).toNat) + (10 ^ (e10 - 16).toNat * 2 ^ (-g).toNat) <
          hi * (2 ^ g.toNat * 10 ^ (-(e10 - 16)).toNat)) :
    ∀ fuel n, n + fuel = 18 → 1 ≤ fuel →
      Inside lo hi incl g (shortestGo tie fuel n v lo hi incl g e10).2
        (shortestGo tie fuel n v lo hi incl g e10).1 := by
  intro fuel
  induction fuel with
  | zero => intro n _ h; omega
  | succ f ih =>
    intro n hn _
    unfold shortestGo
    simp only
    split
    · rename_i d hd
      exact shortestAt_inside _ _ _ _ _ _ _ _ hd
    · rename_i hd
      by_cases hf : f = 0
      · exfalso
        have hn17 : n = 17 := by omega
        subst hn17
        have hk : e10 - (((17 : Nat) : Int) - 1) = e10 - 16 := by omega
        rw [hk] at hd
        have := shortestAt_none _ _ _ _ _ _ _ hd h1 h2
        omega
      · exact ih (n + 1) (by omega) (by omega)

/-- interval data of a finite non-zero double (the arguments `shortestInt` passes to the search) -/
def ivV (bits : Nat) : Nat := 4 * (decompose bits).2.1
def ivLo (bits : Nat) : Nat :=
  if (fracField bits == 0 && decide (expField bits > 1)) then ivV bits - 1 else ivV bits - 2
def ivHi (bits : Nat) : Nat := ivV bits + 2
def ivG (bits : Nat) : Int := (decompose bits).2.2 - 2
def ivIncl (bits : Nat) : Bool := (decompose bits).2.1 % 2 == 0

/-- `d·10^k` lies in the rounding interval of `bits` -/
def InIvl (bits d : Nat) (k : Int) : Prop := Inside (ivLo bits) (ivHi bits) (ivIncl bits) (ivG bits) k d

instance (bits d : Nat) (k : Int) : Decidable (InIvl bits d k) := by unfold InIvl; infer_instance

theorem mant_pos (bits : Nat) (hz : isZero bits = false) : 0 < (decompose bits).2.1 := by
  unfold decompose isZero at *
  simp only
  split
  · rename_i h
    simp only [h, Bool.true_and] at hz
    simp at hz; simp; omega
  · simp

theorem mant_lt (bits : Nat) : (decompose bits).2.1 < 2 ^ 53 := by
  have := Nat.mod_lt bits (show 0 < 2 ^ 52 by decide)
  unfold decompose fracField
  simp only
  split <;> simp <;> omega

theorem mant_boundary (bits : Nat) (h : (fracField bits == 0 && decide (expField bits > 1)) = true) :
    (decompose bits).2.1 = 2 ^ 52 := by
  simp at h
  unfold decompose
  simp only
  have : ¬ (expField bits = 0) := by omega
  simp [this, h.1]

theorem shortestInt_mem (bits : Nat) (tie : Bool) (hz : isZero bits = false) :
    InIvl bits (shortestInt bits tie).1 (shortestInt bits tie).2 := by
  have hm := mant_pos bits hz
  have hlt := mant_lt bits
  have hg := grid17 (decompose bits).2.1 (decompose bits).2.2 hm
  simp only at hg
  unfold InIvl
  have e : shortestInt bits tie = shortestGo tie 17 1 (ivV bits) (ivLo bits) (ivHi bits) (ivIncl bits) (ivG bits)
      (ilog10 (ratOf (decompose bits).2.1 (decompose bits).2.2).1 (ratOf (decompose bits).2.1 (decompose bits).2.2).2) := by
    unfold shortestInt ivLo ivHi ivV ivG ivIncl
    rfl
  rw [e]
  refine shortestGo_inside _ _ _ _ _ _ _ ?_ ?_ ?_ 17 1 (by omega) (by omega)
  · unfold ivLo ivV; split <;> omega
  · unfold ivHi; omega
  · generalize ilog10 _ _ = e10 at *
    unfold ivLo ivHi ivV ivG
    generalize hA : 10 ^ (e10 - 16).toNat * 2 ^ (-((decompose bits).2.2 - 2)).toNat = A at *
    generalize hB : 2 ^ ((decompose bits).2.2 - 2).toNat * 10 ^ (-(e10 - 16)).toNat = B at *
    have hB0 : 0 < B := by rw [← hB]; exact Nat.mul_pos (Nat.pow_pos (by omega)) (Nat.pow_pos (by omega))
    split
    · rename_i hbd
      have hm52 := mant_boundary bits hbd
      rw [hm52] at hg ⊢
      -- A * 10^16 ≤ 4 * 2^52 * B < 3 * 10^16 * B
      have : A < 3 * B := by
        apply Nat.lt_of_mul_lt_mul_right (a := 10 ^ 16)
        have : 4 * 2 ^ 52 * B < 3 * B * 10 ^ 16 := by omega
        omega
      have e1 : (4 * 2 ^ 52 - 1) * B = (4 * 2 ^ 52 - 1) * B := rfl
      have e2 : (4 * 2 ^ 52 + 2) * B = (4 * 2 ^ 52 - 1) * B + 3 * B := by
        rw [← Nat.add_mul]
      omega
    · generalize (decompose bits).2.1 = m at *
      have : A < 4 * B := by
        apply Nat.lt_of_mul_lt_mul_right (a := 10 ^ 16)
        have h3 : m * B < 2 ^ 53 * B := Nat.mul_lt_mul_of_pos_right hlt hB0
        have e3 : 4 * m * B = 4 * (m * B) := Nat.mul_assoc _ _ _
        omega
      have e2 : (4 * m + 2) * B = (4 * m - 2) * B + 4 * B := by
        rw [← Nat.add_mul]; congr 1; omega
      omega

/-! ### stripping trailing zeros keeps the value -/

theorem dropWhile_zero_split (l : List Nat) :
    ∃ z, l = List.replicate z 0 ++ l.dropWhile (· == 0) := by
  induction l with
  | nil => exact ⟨0, rfl⟩
  | cons x xs ih =>
    by_cases hx : x = 0
    · subst hx
      obtain ⟨z, hz⟩ := ih
      refine ⟨z + 1, ?_⟩
      simp only [List.dropWhile_cons, beq_self_eq_true, if_true, List.replicate_succ, List.cons_append]
      rw [← hz]
    · refine ⟨0, ?_⟩
      simp [hx]

theorem stripTrailingZeros_split (ds : List Nat) :
    ∃ z, ds = stripTrailingZeros ds ++ List.replicate z 0 := by
  obtain ⟨z, hz⟩ := dropWhile_zero_split ds.reverse
  refine ⟨z, ?_⟩
  have := congrArg List.reverse hz
  rw [List.reverse_reverse, List.reverse_append, List.reverse_replicate] at this
  exact this

theorem ofDigits_append_zeros (xs : List Nat) (z : Nat) :
    ofDigits (xs ++ List.replicate z 0) = ofDigits xs * 10 ^ z := by
  induction z with
  | zero => simp
  | succ n ih =>
    rw [List.replicate_succ', ← List.append_assoc, ofDigits_snoc, ih, Nat.pow_succ]
    rw [Nat.add_zero, Nat.mul_comm 10, Nat.mul_assoc]

/-- moving `z` trailing zeros of the digits into the exponent does not change membership -/
theorem inside_shift (lo hi : Nat) (incl : Bool) (g k : Int) (D z : Nat)
    (h : Inside lo hi incl g k (D * 10 ^ z)) : Inside lo hi incl g (k + z) D := by
  unfold Inside at *
  have e1 : ∀ X : Nat, X * (2 ^ g.toNat * 10 ^ (-k).toNat) ≤ D * 10 ^ z * (10 ^ k.toNat * 2 ^ (-g).toNat) ↔
      X * (2 ^ g.toNat * 10 ^ (-(k + z)).toNat) ≤ D * (10 ^ (k + z).toNat * 2 ^ (-g).toNat) := by
    intro X
    rw [show D * 10 ^ z * (10 ^ k.toNat * 2 ^ (-g).toNat) = D * (2 ^ (-g).toNat * 10 ^ (z + k.toNat)) by
      rw [Nat.pow_add]; ac_rfl]
    rw [Nat.mul_comm (10 ^ (k + z).toNat)]
    exact le_rescale _ _ _ _ _ _ _ _ _ _ (by omega) (by omega)
  have e2 : ∀ X : Nat, D * 10 ^ z * (10 ^ k.toNat * 2 ^ (-g).toNat) ≤ X * (2 ^ g.toNat * 10 ^ (-k).toNat) ↔
      D * (10 ^ (k + z).toNat * 2 ^ (-g).toNat) ≤ X * (2 ^ g.toNat * 10 ^ (-(k + z)).toNat) := by
    intro X
    rw [show D * 10 ^ z * (10 ^ k.toNat * 2 ^ (-g).toNat) = D * (2 ^ (-g).toNat * 10 ^ (z + k.toNat)) by
      rw [Nat.pow_add]; ac_rfl]
    rw [Nat.mul_comm (10 ^ (k + z).toNat)]
    exact le_rescale _ _ _ _ _ _ _ _ _ _ (by omega) (by omega)
  have e3 : ∀ X : Nat, X * (2 ^ g.toNat * 10 ^ (-k).toNat) < D * 10 ^ z * (10 ^ k.toNat * 2 ^ (-g).toNat) ↔
      X * (2 ^ g.toNat * 10 ^ (-(k + z)).toNat) < D * (10 ^ (k + z).toNat * 2 ^ (-g).toNat) := by
    intro X
    rw [show D * 10 ^ z * (10 ^ k.toNat * 2 ^ (-g).toNat) = D * (2 ^ (-g).toNat * 10 ^ (z + k.toNat)) by
      rw [Nat.pow_add]; ac_rfl]
    rw [Nat.mul_comm (10 ^ (k + z).toNat)]
    exact lt_rescale _ _ _ _ _ _ _ _ _ _ (by omega) (by omega)
  have e4 : ∀ X : Nat, D * 10 ^ z * (10 ^ k.toNat * 2 ^ (-g).toNat) < X * (2 ^ g.toNat * 10 ^ (-k).toNat) ↔
      D * (10 ^ (k + z).toNat * 2 ^ (-g).toNat) < X * (2 ^ g.toNat * 10 ^ (-(k + z)).toNat) := by
    intro X
    rw [show D * 10 ^ z * (10 ^ k.toNat * 2 ^ (-g).toNat) = D * (2 ^ (-g).toNat * 10 ^ (z + k.toNat)) by
      rw [Nat.pow_add]; ac_rfl]
    rw [Nat.mul_comm (10 ^ (k + z).toNat)]
    exact lt_rescale _ _ _ _ _ _ _ _ _ _ (by omega) (by omega)
  cases incl
  · simp only [Bool.false_eq_true, if_false] at h ⊢
    exact ⟨(e3 lo).1 h.1, (e4 hi).1 h.2⟩
  · simp only [if_true] at h ⊢
    exact ⟨(e1 lo).1 h.1, (e2 hi).1 h.2⟩

/-! ### `shortest` = `shortestInt` with the trailing zeros moved into the exponent -/

theorem inside_pos (lo hi : Nat) (incl : Bool) (g k : Int) (d : Nat) (hlo : 0 < lo)
    (h : Inside lo hi incl g k d) : 0 < d := by
  unfold Inside at h
  have hb : 0 < lo * (2 ^ g.toNat * 10 ^ (-k).toNat) :=
    Nat.mul_pos hlo (Nat.mul_pos (Nat.pow_pos (by omega)) (Nat.pow_pos (by omega)))
  rcases Nat.eq_zero_or_pos d with h0 | h0
  · subst h0
    cases incl <;> simp only [Bool.false_eq_true, if_false, if_true, Nat.zero_mul] at h <;> omega
  · exact h0

theorem ivLo_pos (bits : Nat) (hz : isZero bits = false) : 0 < ivLo bits := by
  have := mant_pos bits hz
  unfold ivLo ivV; split <;> omega

/-- the digits and exponent of `shortest` denote a decimal in the rounding interval -/
theorem shortest_mem (bits : Nat) (tie : Bool) (hz : isZero bits = false) :
    (shortest bits tie).1 ≠ [] ∧
    InIvl bits (ofDigits (shortest bits tie).1)
      ((shortest bits tie).2 - (((shortest bits tie).1.length : Int) - 1)) := by
  have hmem := shortestInt_mem bits tie hz
  have hd := inside_pos _ _ _ _ _ _ (ivLo_pos bits hz) hmem
  unfold shortest
  simp only [hz, Bool.false_eq_true, if_false]
  rw [show shortestInt bits tie = ((shortestInt bits tie).1, (shortestInt bits tie).2) from rfl]
  simp only
  generalize (shortestInt bits tie).1 = d at *
  generalize (shortestInt bits tie).2 = k at *
  obtain ⟨z, hz'⟩ := stripTrailingZeros_split (natDigits d)
  have hval : d = ofDigits (stripTrailingZeros (natDigits d)) * 10 ^ z := by
    rw [← ofDigits_append_zeros, ← hz', ofDigits_natDigits]
  have hlen : (natDigits d).length = (stripTrailingZeros (natDigits d)).length + z := by
    have := congrArg List.length hz'
    rw [List.length_append, List.length_replicate] at this
    exact this
  generalize stripTrailingZeros (natDigits d) = sig at *
  have hne : sig ≠ [] := by
    intro h; subst h
    simp [ofDigits] at hval; omega
  have hemp : sig.isEmpty = false := by
    cases sig with
    | nil => exact absurd rfl hne
    | cons a b => rfl
  simp only [hemp, Bool.false_eq_true, if_false]
  refine ⟨hne, ?_⟩
  have hk : k + ((natDigits d).length : Int) - 1 - ((sig.length : Int) - 1) = k + (z : Int) := by
    rw [hlen]; push_cast; omega
  rw [hk]
  unfold InIvl at *
  rw [hval] at hmem
  exact inside_shift _ _ _ _ _ _ _ hmem

-- 1/3, 5e-324, 2^-25 (exact tie between two 17-digit candidates, both tie rules), f64::MAX
example : InIvl 0x3FD5555555555555 (shortestInt 0x3FD5555555555555).1 (shortestInt 0x3FD5555555555555).2 :=
  shortestInt_mem _ _ (by decide +kernel)
example : shortestInt 0x3FD5555555555555 = (3333333333333333, -16) := by decide +kernel
example : shortestInt 1 = (5, -324) := by decide +kernel
example : shortestInt 0x3E60000000000000 = (29802322387695313, -24) ∧
    shortestInt 0x3E60000000000000 true = (29802322387695312, -24) := by decide +kernel
example : InIvl 0x3E60000000000000 29802322387695313 (-24) ∧ InIvl 0x3E60000000000000 29802322387695312 (-24) ∧
    ¬ InIvl 0x3E60000000000000 2980232238769531 (-23) ∧ ¬ InIvl 0x3E60000000000000 2980232238769532 (-23) := by
  decide +kernel
example : isZero 0x7FEFFFFFFFFFFFFF = false ∧ shortest 0x7FEFFFFFFFFFFFFF = ([1,7,9,7,6,9,3,1,3,4,8,6,2,3,1,5,7], 308) := by
  decide +kernel

/-! ### (b) a double that is not an integer has shortest digits after the point -/

theorem fracDigits_of_mem (bits D : Nat) (k : Int) (hf : isFinite bits = true)
    (hi : PV.C17.isInteger bits = false) (h : InIvl bits D k) : k < 0 := by
  refine Int.lt_of_not_ge (fun hk => ?_)
  unfold PV.C17.isInteger at hi
  simp only [hf, Bool.not_true, Bool.false_eq_true, if_false] at hi
  rw [show decompose bits = ((decompose bits).1, (decompose bits).2.1, (decompose bits).2.2) from rfl] at hi
  simp only at hi
  unfold InIvl Inside ivLo ivHi ivV ivG at h
  generalize (decompose bits).2.1 = m at *
  generalize (decompose bits).2.2 = e at *
  by_cases he : e ≥ 0
  · simp [he] at hi
  · simp only [he, if_false, beq_eq_false_iff_ne, ne_eq] at hi
    have e1 : (e - 2).toNat = 0 := by omega
    have e2 : (-k).toNat = 0 := by omega
    have e3 : (-(e - 2)).toNat = (-e).toNat + 2 := by omega
    rw [e1, e2, e3, Nat.pow_add] at h
    simp only [Nat.pow_zero, Nat.mul_one] at h
    have e4 : D * (10 ^ k.toNat * (2 ^ (-e).toNat * 2 ^ 2)) = 4 * (D * 10 ^ k.toNat * 2 ^ (-e).toNat) := by
      rw [show (2:Nat) ^ 2 = 4 from rfl]; ac_rfl
    rw [e4] at h
    have hY : D * 10 ^ k.toNat * 2 ^ (-e).toNat = m := by
      generalize D * 10 ^ k.toNat * 2 ^ (-e).toNat = Y at *
      split at h <;> split at h <;> omega
    apply hi
    rw [← hY, Nat.mul_mod_left]

end PV.Dec

namespace PV.C17
open PV.Dec

/-- (b) a finite double that is not an integer has shortest digits after the decimal point -/
theorem fracDigits_of_not_integer (bits : Nat) (hf : isFinite bits = true)
    (hi : isInteger bits = false) : FracDigits bits := by
  have hz : isZero bits = false := by
    cases hzz : isZero bits with
    | false => rfl
    | true =>
      exfalso
      unfold isZero at hzz
      simp at hzz
      unfold isInteger decompose at hi
      simp only [hf, hzz.1, hzz.2, Bool.not_true, Bool.false_eq_true, if_false, beq_self_eq_true, if_true,
        Nat.zero_mod] at hi
      revert hi; decide
  obtain ⟨hne, hmem⟩ := shortest_mem bits false hz
  have hk := fracDigits_of_mem bits _ _ hf hi hmem
  unfold FracDigits
  have hl : 0 < (shortest bits).1.length := List.length_pos_iff.2 hne
  omega


-- 0.0001 = 1e-4 (fixed notation, not an integer), 4503599627370495.5 (largest double with a fraction)
example : FracDigits 0x3F1A36E2EB1C432D := fracDigits_of_not_integer _ (by decide +kernel) (by decide +kernel)
example : FracDigits 0x432FFFFFFFFFFFFF := fracDigits_of_not_integer _ (by decide +kernel) (by decide +kernel)
example : shortest 0x432FFFFFFFFFFFFF = ([4,5,0,3,5,9,9,6,2,7,3,7,0,4,9,5,5], 15) := by decide +kernel

end PV.C17
