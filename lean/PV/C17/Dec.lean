/-
  PV.Dec — exact binary ↔ decimal arithmetic on IEEE-754 doubles (shared by C17, C18, C19, C06).

  A double is given by its 64-bit pattern `bits : Nat` (as produced by `f64::to_bits`).
  All functions are total, computable, core Lean only, and use exact big-`Nat` arithmetic:
  a finite double is `(-1)^neg × mant × 2^exp` (see `decompose`), every rounding below is decided on
  that exact rational value, never on an approximation.

  Text is `List Nat` of ASCII codes (kernel-friendly); `String` wrappers are provided for drivers.

  What the functions stand for (each is the *definition* of "correctly rounded" used by the
  theorems, and is sampled against the real Rust primitive by the C17 correspondence streams):

    toFixedL bits prec      = Rust `format!("{:.prec$}", f)`            (finite f)
    toExpL bits prec        = Rust `format!("{:.prec$e}", f)` split at 'e'  (finite f)
    shortest bits           = digits/exponent of Rust `format!("{:e}", f)` = Python `repr` digits
    ofDecimal neg ds e10    = `f64::from_str` / lexical / CPython `float()` on the numeral
                              (-1)^neg × (ds as integer) × 10^e10, round-to-nearest-even
-/
namespace PV.Dec

/-! ## bit fields -/

def expField (bits : Nat) : Nat := (bits / 2 ^ 52) % 2048
def fracField (bits : Nat) : Nat := bits % 2 ^ 52

/-- sign bit set (also true for `-0.0` and negative NaNs) -/
def isNeg (bits : Nat) : Bool := (bits / 2 ^ 63) % 2 == 1
def isNan (bits : Nat) : Bool := expField bits == 2047 && fracField bits != 0
def isInf (bits : Nat) : Bool := expField bits == 2047 && fracField bits == 0
def isZero (bits : Nat) : Bool := expField bits == 0 && fracField bits == 0
def isFinite (bits : Nat) : Bool := expField bits != 2047

/-- `decompose bits = (neg, mant, exp)` with `|value| = mant × 2^exp` for finite `bits`
    (`mant < 2^53`; subnormals and zero have `exp = -1074`, normals `mant ≥ 2^52`).
    For inf/NaN the result is the same formula applied to the fields (meaningless). -/
def decompose (bits : Nat) : Bool × Nat × Int :=
  let e := expField bits
  let f := fracField bits
  if e == 0 then (isNeg bits, f, -1074) else (isNeg bits, f + 2 ^ 52, (e : Int) - 1075)

/-- assemble a bit pattern from sign, biased exponent field and fraction field -/
def mkBits (neg : Bool) (e f : Nat) : Nat := (if neg then 2 ^ 63 else 0) + e * 2 ^ 52 + f

def posInf : Nat := 0x7FF0000000000000
def negInf : Nat := 0xFFF0000000000000
/-- the NaN produced by Rust's `f64::NAN` / a parsed "nan" -/
def quietNan : Nat := 0x7FF8000000000000

/-- `|value|` as a fraction `num / den` (`den` a power of two). -/
def ratOf (mant : Nat) (exp : Int) : Nat × Nat :=
  if exp ≥ 0 then (mant * 2 ^ exp.toNat, 1) else (mant, 2 ^ (-exp).toNat)

/-! ## integer helpers -/

/-- `num / den` rounded to the nearest integer, ties to the even integer (`den > 0`). -/
def roundHalfEven (num den : Nat) : Nat :=
  let q := num / den
  let r := num % den
  if 2 * r > den ∨ (2 * r = den ∧ q % 2 = 1) then q + 1 else q

def natDigitsGo : Nat → Nat → List Nat → List Nat
  | 0, _, acc => acc
  | fuel + 1, n, acc =>
    if n < 10 then n :: acc else natDigitsGo fuel (n / 10) (n % 10 :: acc)

/-- decimal digits of `n`, most significant first; `natDigits 0 = [0]` -/
def natDigits (n : Nat) : List Nat := natDigitsGo (Nat.log2 n + 1) n []

/-- the integer written by a digit list (most significant first) -/
def ofDigits (ds : List Nat) : Nat := ds.foldl (fun a d => 10 * a + d) 0

def stripTrailingZeros (ds : List Nat) : List Nat :=
  (ds.reverse.dropWhile (· == 0)).reverse

/-- ASCII of a digit list -/
def showDigits (ds : List Nat) : List Nat := ds.map (48 + ·)

/-- ASCII decimal of an `Int` with `-` for negatives (Rust `{}` on an integer) -/
def showInt (i : Int) : List Nat :=
  if i < 0 then 45 :: showDigits (natDigits i.natAbs) else showDigits (natDigits i.natAbs)

def negLog10Go : Nat → Nat → Nat → Nat → Nat
  | 0, _, _, j => j
  | fuel + 1, num, den, j => if num * 10 ≥ den then j + 1 else negLog10Go fuel (num * 10) den (j + 1)

/-- `⌊log10 (num / den)⌋` for `num, den > 0`. -/
def ilog10 (num den : Nat) : Int :=
  if num ≥ den then ((natDigits (num / den)).length : Int) - 1
  else - (negLog10Go (Nat.log2 den + 2) num den 0 : Int)

/-- `⌊log2 (num / den)⌋` for `num, den > 0`. -/
def ilog2 (num den : Nat) : Int :=
  let s : Int := (Nat.log2 num : Int) - (Nat.log2 den : Int)
  let ge : Bool := if s ≥ 0 then num ≥ den * 2 ^ s.toNat else num * 2 ^ (-s).toNat ≥ den
  if ge then s else s - 1

/-- multiply the fraction `num/den` by `10^k` (`k` may be negative) -/
def scale10 (num den : Nat) (k : Int) : Nat × Nat :=
  if k ≥ 0 then (num * 10 ^ k.toNat, den) else (num, den * 10 ^ (-k).toNat)

/-- multiply the fraction `num/den` by `2^k` (`k` may be negative) -/
def scale2 (num den : Nat) (k : Int) : Nat × Nat :=
  if k ≥ 0 then (num * 2 ^ k.toNat, den) else (num, den * 2 ^ (-k).toNat)

/-! ## fixed notation: Rust `{:.prec$}` -/

/-- The integer `N` nearest (ties-to-even) to `|value| × 10^prec`. -/
def fixedInt (bits prec : Nat) : Nat :=
  let (_, m, e) := decompose bits
  let (num, den) := ratOf m e
  roundHalfEven (num * 10 ^ prec) den

/-- `toFixedL bits prec` is the ASCII text Rust's `format!("{:.prec$}", f)` prints for the double
    `f = f64::from_bits(bits)`: sign `-` whenever the sign bit is set (so `-0.0 → "-0.00"`, and
    `-0.001` at precision 2 is `"-0.00"`), integer part without leading zeros (at least one
    digit), then, iff `prec > 0`, a `.` and exactly `prec` digits.  The digits are those of
    `|f| × 10^prec` rounded to the nearest integer, ties to even, decided on the exact value.
    Non-finite: `inf`, `-inf`, `NaN` (as Rust prints them). -/
def toFixedL (bits prec : Nat) : List Nat :=
  if isNan bits then [78, 97, 78]
  else if isInf bits then (if isNeg bits then [45] else []) ++ [105, 110, 102]
  else
    let n := fixedInt bits prec
    let ds := natDigits n
    let ds := List.replicate (prec + 1 - ds.length) 0 ++ ds
    let ip := ds.take (ds.length - prec)
    let fp := ds.drop (ds.length - prec)
    (if isNeg bits then [45] else []) ++ showDigits ip ++
      (if prec == 0 then [] else 46 :: showDigits fp)

/-! ## exponent notation: Rust `{:.prec$e}` -/

/-- `(digits, exp)`: `prec + 1` digits `d0 d1 … dprec` and decimal exponent such that
    `d0.d1…dprec × 10^exp` is `|value|` rounded to `prec + 1` significant digits, ties to even on
    the exact value (`d0 ≠ 0` unless the value is zero, for which digits are all `0`, `exp = 0`). -/
def expDigits (bits prec : Nat) : List Nat × Int :=
  let (_, m, e) := decompose bits
  if m == 0 then (List.replicate (prec + 1) 0, 0) else
  let (num, den) := ratOf m e
  let e10 := ilog10 num den
  let (n1, d1) := scale10 num den (-e10)          -- n1/d1 = |value| / 10^e10 ∈ [1, 10)
  let r := roundHalfEven (n1 * 10 ^ prec) d1
  if r ≥ 10 ^ (prec + 1) then (natDigits (r / 10), e10 + 1) else (natDigits r, e10)

/-- `toExpL bits prec = (text, exp)` where Rust's `format!("{:.prec$e}", f)` prints
    `text ++ "e" ++ exp` (`exp` in plain decimal, `-` if negative, no padding):
    `text` = optional `-` (sign bit), one digit, and iff `prec > 0` a `.` and `prec` digits.
    Only meaningful for finite `bits`. -/
def toExpL (bits prec : Nat) : List Nat × Int :=
  let (ds, e10) := expDigits bits prec
  let body := match ds with
    | [] => []
    | d :: rest => (48 + d) :: (if prec == 0 then [] else 46 :: showDigits rest)
  ((if isNeg bits then [45] else []) ++ body, e10)

/-! ## shortest round-trip digits: Rust `{}` / `{:e}` / `{:?}`, Python `repr` -/

/-- One step of the shortest search with `n` significant digits.  `v lo hi` are the value and the
    rounding-interval end points in units of `2^g`; `k` is the decimal exponent of the last digit.
    Returns the chosen `n`-digit integer `d` (value `d × 10^k`) if one lies in the interval. -/
def shortestAt (tieEven : Bool) (v lo hi : Nat) (incl : Bool) (g k : Int) : Option Nat :=
  -- d × 10^k  vs  x × 2^g   ⟺   d × a  vs  x × b
  let a := 10 ^ k.toNat * 2 ^ (-g).toNat
  let b := 2 ^ g.toNat * 10 ^ (-k).toNat
  let dLo := v * b / a
  let dHi := dLo + 1
  let inside (d : Nat) : Bool :=
    if incl then lo * b ≤ d * a && d * a ≤ hi * b else lo * b < d * a && d * a < hi * b
  match inside dLo, inside dHi with
  | true, true =>
    let below := v * b - dLo * a
    let above := dHi * a - v * b
    if below < above then some dLo
    else if above < below then some dHi
    else if tieEven && dLo % 2 == 0 then some dLo else some dHi
  | true, false => some dLo
  | false, true => some dHi
  | false, false => none

def shortestGo (tieEven : Bool) : Nat → Nat → Nat → Nat → Nat → Bool → Int → Int → Nat × Int
  | 0, _, v, _, _, _, g, e10 =>
    -- unreachable for doubles (17 digits always suffice): nearest 17-digit value
    let k := e10 - 16
    (roundHalfEven (v * (2 ^ g.toNat * 10 ^ (-k).toNat)) (10 ^ k.toNat * 2 ^ (-g).toNat), k)
  | fuel + 1, n, v, lo, hi, incl, g, e10 =>
    let k := e10 - ((n : Int) - 1)
    match shortestAt tieEven v lo hi incl g k with
    | some d => (d, k)
    | none => shortestGo tieEven fuel (n + 1) v lo hi incl g e10

/-- `shortestInt bits = (d, k)`: the shortest decimal `d × 10^k` (fewest significant digits, and
    among those the one nearest to the exact value) that lies in the rounding interval of the
    finite non-zero double `|f|`, i.e. that `ofDecimal` maps back to `bits`.  The interval is
    the set of reals nearer to `f` than to its neighbours, end points included iff the mantissa
    is even (round-half-even), with the narrower lower half below a power of two.
    When two candidates of the minimal length are exactly equally near (e.g. `2^-25 =
    2.98023223876953125e-8` between `…12` and `…13`), Rust's Grisu/Dragon takes the upper one
    (`tieEven = false`, the default), CPython's `repr` (David Gay's dtoa mode 0) the one with the
    even last digit (`tieEven = true`). -/
def shortestInt (bits : Nat) (tieEven : Bool := false) : Nat × Int :=
  let (_, m, e) := decompose bits
  let boundary := fracField bits == 0 && expField bits > 1
  let v := 4 * m
  let lo := if boundary then v - 1 else v - 2
  let hi := v + 2
  let g := e - 2
  let (num, den) := ratOf m e
  shortestGo tieEven 17 1 v lo hi (m % 2 == 0) g (ilog10 num den)

/-- `shortest bits = (digits, exp)`: shortest round-trip digits of the finite double (sign
    ignored) in scientific convention, `|f| ≈ d0.d1d2… × 10^exp`; no trailing zeros, `d0 ≠ 0`.
    Zero gives `([0], 0)`.  These are the digits of Rust `format!("{:e}", f)` (which prints
    `d0.d1d2…e<exp>`, or `d0e<exp>` for a single digit); with `tieEven := true` those of Python's
    `repr(f)` (the two differ only in the last digit of exact ties, see `shortestInt`). -/
def shortest (bits : Nat) (tieEven : Bool := false) : List Nat × Int :=
  if isZero bits then ([0], 0) else
  let (d, k) := shortestInt bits tieEven
  let ds := natDigits d
  let sig := stripTrailingZeros ds
  -- `d > 0`, so `sig` is never empty; the guard makes that hold by construction
  (if sig.isEmpty then [0] else sig, k + (ds.length : Int) - 1)

/-- Rust `format!("{:e}", f)` for finite `f`, split at the `e`: `(text, exp)`. -/
def shortestExpL (bits : Nat) : List Nat × Int :=
  let (ds, e10) := shortest bits
  let body := match ds with
    | [] => []
    | [d] => [48 + d]
    | d :: rest => (48 + d) :: 46 :: showDigits rest
  ((if isNeg bits then [45] else []) ++ body, e10)

/-- Rust `format!("{}", f)` (`Display`, also `f64::to_string`) for every `f`: shortest digits laid
    out positionally, never an exponent; integers print without a fraction (`1e21` prints
    `1000000000000000000000`, `0.5` prints `0.5`, `-0.0` prints `-0`); `inf`, `-inf`, `NaN`. -/
def shortestFixedL (bits : Nat) : List Nat :=
  if isNan bits then [78, 97, 78]
  else if isInf bits then (if isNeg bits then [45] else []) ++ [105, 110, 102]
  else
    let (ds, e10) := shortest bits
    let sign := if isNeg bits then [45] else []
    let n := ds.length
    -- value = 0.ds × 10^p
    let p : Int := e10 + 1
    let body :=
      if p ≤ 0 then [48, 46] ++ List.replicate (-p).toNat 48 ++ showDigits ds
      else if p.toNat < n then
        showDigits (ds.take p.toNat) ++ [46] ++ showDigits (ds.drop p.toNat)
      else showDigits ds ++ List.replicate (p.toNat - n) 48
    sign ++ body

/-! ## decimal → double: `f64::from_str`, lexical, CPython `float()` -/

/-- `ofRat neg num den` is the bit pattern of the double nearest to `(-1)^neg × num / den`
    (`den > 0`), ties to the even mantissa; magnitudes that round to `2^1024` or more give ±inf,
    tiny ones round to subnormals or ±0 (sign kept). -/
def ofRat (neg : Bool) (num den : Nat) : Nat :=
  let sign := if neg then 2 ^ 63 else 0
  if num == 0 then sign else
  let e0 := ilog2 num den - 52
  let e := if e0 < -1074 then -1074 else e0
  let (n2, d2) := scale2 num den (-e)
  let m := roundHalfEven n2 d2
  let (m, e) := if m ≥ 2 ^ 53 then (m / 2, e + 1) else (m, e)
  if m < 2 ^ 52 then sign + m                          -- subnormal (e = -1074)
  else
    let ef := (e + 1075).toNat
    if ef ≥ 2047 then sign + posInf else sign + ef * 2 ^ 52 + (m - 2 ^ 52)

/-- `ofDecimal neg digits exp10` is the bit pattern of the double nearest to
    `(-1)^neg × D × 10^exp10`, where `D = ofDigits digits` (integer convention: `exp10` is the
    exponent of the LAST digit; leading and trailing zeros in `digits` are allowed).  Ties go to the
    even mantissa; results too large for a finite double (≥ 2^1024 − 2^970) give ±inf; tiny values
    round to subnormals or ±0 (sign kept).  Exponents of any size are handled without building
    huge powers. -/
def ofDecimal (neg : Bool) (digits : List Nat) (exp10 : Int) : Nat :=
  let d := ofDigits digits
  let sign := if neg then 2 ^ 63 else 0
  if d == 0 then sign
  else
    let nd : Int := (natDigits d).length
    if exp10 > 310 then sign + posInf                      -- d ≥ 1 ⇒ value ≥ 10^311
    else if nd + exp10 < -330 then sign                    -- value < 10^-330 < 2^-1075
    else
      let (num, den) := scale10 d 1 exp10
      ofRat neg num den

/-- sci-convention front end: value `d0.d1d2… × 10^exp` (as returned by `shortest`) -/
def ofSci (neg : Bool) (digits : List Nat) (exp : Int) : Nat :=
  ofDecimal neg digits (exp - ((digits.length : Int) - 1))

/-! ## `String` wrappers for drivers -/

def str (l : List Nat) : String := String.ofList (l.map Char.ofNat)

def toFixed (bits prec : Nat) : String := str (toFixedL bits prec)
def toExp (bits prec : Nat) : String × Int := let (t, e) := toExpL bits prec; (str t, e)

end PV.Dec
