import PV.C17.Thm
import PV.C17.OfRatRT
/-
  C17 — the repr round trip without hypotheses: `DecFacts` is a theorem.
-/
namespace PV.C17
open PV.Dec

/-- (a) the shortest digits of every finite double denote a decimal that parses back to the double -/
theorem shortest_roundtrip (bits : Nat) (hb : bits < 2 ^ 64) (hf : isFinite bits = true) :
    ofSci (isNeg bits) (shortest bits).1 (shortest bits).2 = bits := by
  cases hz : isZero bits with
  | true =>
    have hbf := bits_fields bits hb
    unfold isZero at hz
    simp only [Bool.and_eq_true, beq_iff_eq] at hz
    rw [hz.1, hz.2] at hbf
    have hs : shortest bits = ([0], 0) := by
      unfold shortest isZero
      simp [hz.1, hz.2]
    rw [hs]
    unfold ofSci ofDecimal
    simp only [ofDigits, List.foldl, beq_self_eq_true, if_true]
    omega
  | false =>
    obtain ⟨_, hmem⟩ := shortest_mem bits false hz
    unfold ofSci
    exact ofDecimal_of_mem bits hb hf hz _ _ hmem

/-- the digit-generation hypothesis of `repr_roundtrip_partial` holds for every finite double -/
theorem decFacts_all (bits : Nat) (hb : bits < 2 ^ 64) (hf : isFinite bits = true) : DecFacts bits :=
  ⟨shortest_roundtrip bits hb hf, fracDigits_of_not_integer bits hf⟩

/-- Round trip of the repr-style rendering: `parse_str(to_string(x)) = x`, bit for bit, for EVERY finite
    double, with no hypothesis about digit generation. -/
theorem repr_roundtrip (bits : Nat) (hb : bits < 2 ^ 64) (hf : isFinite bits = true) :
    parseStr (toString bits) = some bits :=
  repr_roundtrip_partial bits hb hf (decFacts_all bits hb hf)

/-- Shape of the repr-style rendering of a finite double, without the digit-generation hypothesis of
    `repr_shape`: exponent notation outside the decimal exponents `[-4, 16)`, fixed notation inside. -/
theorem repr_shape_full (bits : Nat) (hf : isFinite bits = true) :
    (¬ ((shortest bits).2 < 16 ∧ (shortest bits).2 > -5) → Spec.ExpShape (toString bits)) ∧
    (((shortest bits).2 < 16 ∧ (shortest bits).2 > -5) → Spec.FixedShape (toString bits)) :=
  ⟨(repr_shape bits hf).1, fun h => (repr_shape bits hf).2 h (fracDigits_of_not_integer bits hf)⟩

-- 1/3, 5e-324, the largest subnormal, f64::MAX, -2^-25 (an exact tie of the shortest digits), 0.0, -0.0
example : parseStr (toString 0x3FD5555555555555) = some 0x3FD5555555555555 := repr_roundtrip _ (by decide) (by decide +kernel)
example : parseStr (toString 1) = some 1 := repr_roundtrip _ (by decide) (by decide +kernel)
example : parseStr (toString 0x000FFFFFFFFFFFFF) = some 0x000FFFFFFFFFFFFF := repr_roundtrip _ (by decide) (by decide +kernel)
example : parseStr (toString 0x7FEFFFFFFFFFFFFF) = some 0x7FEFFFFFFFFFFFFF := repr_roundtrip _ (by decide) (by decide +kernel)
example : parseStr (toString 0xBE60000000000000) = some 0xBE60000000000000 := repr_roundtrip _ (by decide) (by decide +kernel)
example : parseStr (toString 0x8000000000000000) = some 0x8000000000000000 := repr_roundtrip _ (by decide) (by decide +kernel)
example : isFinite 0x3FD5555555555555 = true ∧ isInteger 0x3FD5555555555555 = false := by decide +kernel

end PV.C17
