import PV.C17.Dec
/-
  C17 — reference definitions, written from Python's documentation / the C standard, not from
  the Rust control flow.  Executable, so that `drv_c17` can run them next to CPython 3.11
  (spec validation: a difference there is a defect of this file, never of /repo).

    pyRepr          float.__repr__   (CPython `float_repr` → `PyOS_double_to_string(x,'r',0,Py_DTSF_ADD_DOT_0)`)
    ReprShape       the shape demanded by the property text
    pyFloatGrammar  the `floatvalue` grammar of the `float()` documentation, as a regular expression
    cPrintfF/E/G    ISO C `%f %e %g` (with `#`), digits correctly rounded
    pyHex           float.hex()
-/
namespace PV.C17.Spec
open PV.Dec

/-! ## repr -/

/-- exponent as Python/C print it: sign, at least two digits -/
def pyExp (e : Int) : List Nat :=
  let ds := natDigits e.natAbs
  (if e < 0 then 45 else 43) :: showDigits (List.replicate (2 - ds.length) 0 ++ ds)

/-- Python's `repr` layout of shortest digits `ds` (no trailing zeros) with the decimal point
    after `decpt` digits: fixed notation when `-4 < decpt ≤ 16`, else exponent notation;
    `.0` is appended to an integer in fixed notation. -/
def layoutRepr (neg : Bool) (ds : List Nat) (decpt : Int) : List Nat :=
  let sign := if neg then [45] else []
  if -4 < decpt ∧ decpt ≤ 16 then
    if decpt ≤ 0 then sign ++ [48, 46] ++ List.replicate (-decpt).toNat 48 ++ showDigits ds
    else if decpt.toNat < ds.length then
      sign ++ showDigits (ds.take decpt.toNat) ++ [46] ++ showDigits (ds.drop decpt.toNat)
    else sign ++ showDigits ds ++ List.replicate (decpt.toNat - ds.length) 48 ++ [46, 48]
  else
    let mant := match ds with
      | [] => []
      | [d] => [48 + d]
      | d :: rest => (48 + d) :: 46 :: showDigits rest
    sign ++ mant ++ [101] ++ pyExp (decpt - 1)

/-- `repr(float)`; `tieEven = true` is CPython (see `Dec.shortestInt`). -/
def pyRepr (bits : Nat) (tieEven : Bool := true) : List Nat :=
  if isNan bits then [110, 97, 110]
  else if isInf bits then (if isNeg bits then [45] else []) ++ [105, 110, 102]
  else
    let (ds, e10) := shortest bits tieEven
    layoutRepr (isNeg bits) ds (e10 + 1)

def isDig (b : Nat) : Bool := 48 ≤ b && b ≤ 57

/-- `s` is one or more ASCII digits -/
def allDigits (s : List Nat) : Bool := !s.isEmpty && s.all isDig

/-- fixed notation of the property: optional `-`, digits, `.`, digits -/
def FixedShape (s : List Nat) : Prop :=
  ∃ sign ip fp, s = sign ++ ip ++ [46] ++ fp ∧ (sign = [] ∨ sign = [45]) ∧
    allDigits ip = true ∧ allDigits fp = true

/-- exponent notation of the property: optional `-`, digit, optional `.digits`, `e`, sign,
    at least two digits -/
def ExpShape (s : List Nat) : Prop :=
  ∃ sign d frac esign ex, s = sign ++ [d] ++ frac ++ [101] ++ [esign] ++ ex ∧
    (sign = [] ∨ sign = [45]) ∧ isDig d = true ∧
    (frac = [] ∨ ∃ fp, frac = 46 :: fp ∧ allDigits fp = true) ∧
    (esign = 43 ∨ esign = 45) ∧ allDigits ex = true ∧ 2 ≤ ex.length

/-! ## underscores in numerals -/

/-- an adjacent pair `a b` is fine when an underscore has a digit on its other side -/
def adjOk (a b : Nat) : Bool := (b != 95 || isDig a) && (a != 95 || isDig b)

def pairsOk : List Nat → Bool
  | a :: b :: rest => adjOk a b && pairsOk (b :: rest)
  | _ => true

/-- "underscores only between digits": every `_` has a digit immediately before and after it
    (in particular the text neither starts nor ends with `_`). -/
def UnderscoresOk (s : List Nat) : Prop :=
  pairsOk s = true ∧ s.head? ≠ some 95 ∧ s.getLast? ≠ some 95

/-! ## `float()` grammar as a regular expression (Brzozowski derivatives) -/

inductive Re where
  | empty : Re                       -- matches nothing
  | eps : Re                         -- matches the empty string
  | set : (Nat → Bool) → Re          -- one byte from a class
  | cat : Re → Re → Re
  | alt : Re → Re → Re
  | star : Re → Re

namespace Re

def nullable : Re → Bool
  | empty => false
  | eps => true
  | set _ => false
  | cat a b => a.nullable && b.nullable
  | alt a b => a.nullable || b.nullable
  | star _ => true

def isEmpty : Re → Bool
  | empty => true
  | _ => false

def isEps : Re → Bool
  | eps => true
  | _ => false

/-- smart constructors keep derivatives small -/
def mkCat (a b : Re) : Re :=
  if a.isEmpty || b.isEmpty then empty else if a.isEps then b else if b.isEps then a else cat a b

def mkAlt (a b : Re) : Re :=
  if a.isEmpty then b else if b.isEmpty then a else alt a b

def deriv (c : Nat) : Re → Re
  | empty => empty
  | eps => empty
  | set p => if p c then eps else empty
  | cat a b =>
    if a.nullable then mkAlt (mkCat (a.deriv c) b) (b.deriv c) else mkCat (a.deriv c) b
  | alt a b => mkAlt (a.deriv c) (b.deriv c)
  | star a => mkCat (a.deriv c) (star a)

def accepts (r : Re) (s : List Nat) : Bool := (s.foldl (fun r c => r.deriv c) r).nullable

def opt (a : Re) : Re := alt eps a
def plus (a : Re) : Re := cat a (star a)
def byte (b : Nat) : Re := set (· == b)
/-- one letter, either case (`b` is the lower-case code) -/
def ci (b : Nat) : Re := set (fun c => c == b || c + 32 == b)
def word : List Nat → Re
  | [] => eps
  | b :: rest => cat (ci b) (word rest)

end Re

open Re in
/-- The documented grammar of `float(str)`:
    ```
    sign        ::= "+" | "-"
    infinity    ::= "Infinity" | "inf"          nan ::= "nan"          (any case)
    digitpart   ::= digit (["_"] digit)*
    number      ::= [digitpart] "." digitpart | digitpart ["."]
    exponent    ::= ("e" | "E") [sign] digitpart
    floatvalue  ::= [sign] (number [exponent] | infinity | nan)
    ```
    surrounded by optional whitespace (ASCII: space, `\t`, `\n`, `\v`, `\f`, `\r`). -/
def pyFloatRe (ws : Nat → Bool) : Re :=
  let digit := set isDig
  let digitpart := cat digit (star (cat (opt (byte 95)) digit))
  let number := alt (cat (opt digitpart) (cat (byte 46) digitpart)) (cat digitpart (opt (byte 46)))
  let sign := alt (byte 43) (byte 45)
  let exponent := cat (ci 101) (cat (opt sign) digitpart)
  let special := alt (word [105, 110, 102]) (alt (word [105, 110, 102, 105, 110, 105, 116, 121]) (word [110, 97, 110]))
  let value := cat (opt sign) (alt (cat number (opt exponent)) special)
  cat (star (set ws)) (cat value (star (set ws)))

/-- whitespace stripped by `float(str)` within ASCII -/
def pyWs (b : Nat) : Bool := (9 ≤ b && b ≤ 13) || b == 32

def pyFloatGrammar (s : List Nat) : Bool := (pyFloatRe pyWs).accepts s

/-- value of an accepted numeral: drop whitespace and underscores, read sign, digits, point and
    exponent positionally, round correctly.  (`none` when the grammar rejects.) -/
def pyFloat (s : List Nat) : Option Nat :=
  if !pyFloatGrammar s then none else
  let t := (s.filter (fun b => !pyWs b && b != 95)).map (fun b => if 65 ≤ b && b ≤ 90 then b + 32 else b)
  let (neg, t) := match t with
    | 45 :: r => (true, r)
    | 43 :: r => (false, r)
    | _ => (false, t)
  if t.head? == some 110 then some quietNan          -- nan
  else if t.head? == some 105 then some (if neg then negInf else posInf)
  else
    let mant := t.takeWhile (· != 101)
    let ex := (t.dropWhile (· != 101)).drop 1
    let ip := mant.takeWhile (· != 46)
    let fp := (mant.dropWhile (· != 46)).drop 1
    let (eneg, ex) := match ex with
      | 45 :: r => (true, r)
      | 43 :: r => (false, r)
      | _ => (false, ex)
    let e : Int := ofDigits (ex.map (· - 48))
    some (ofDecimal neg ((ip ++ fp).map (· - 48)) ((if eneg then -e else e) - fp.length))

/-! ## ISO C printf conversions as Python produces them (`'%.*e' % (p, x)` etc.) -/

def special (bits : Nat) (upper : Bool) : List Nat :=
  let s := if isNan bits then [110, 97, 110] else [105, 110, 102]
  (if isNeg bits && !isNan bits then [45] else []) ++ (if upper then s.map (· - 32) else s)

/-- `%.{prec}f` / `%#.{prec}f`: digits of the value rounded to `prec` decimals; a point iff
    `prec > 0` or `#`. -/
def cPrintfF (prec bits : Nat) (upper alt : Bool) : List Nat :=
  if !isFinite bits then special bits upper else
  let ds := natDigits (fixedInt bits prec)
  let ds := List.replicate (prec + 1 - ds.length) 0 ++ ds
  (if isNeg bits then [45] else []) ++ showDigits (ds.take (ds.length - prec)) ++
    (if prec > 0 ∨ alt then [46] else []) ++ showDigits (ds.drop (ds.length - prec))

/-- `%.{prec}e`: one digit, point iff `prec > 0` or `#`, `prec` digits, `e`, sign, ≥ 2 digits -/
def cPrintfE (prec bits : Nat) (upper alt : Bool) : List Nat :=
  if !isFinite bits then special bits upper else
  let (ds, x) := expDigits bits prec
  (if isNeg bits then [45] else []) ++ showDigits (ds.take 1) ++
    (if prec > 0 ∨ alt then [46] else []) ++ showDigits (ds.drop 1) ++
    [if upper then 69 else 101] ++ pyExp x

/-- strip the zeros at the end of a fraction digit list -/
def dropTrailingZeroDigits (ds : List Nat) : List Nat := (ds.reverse.dropWhile (· == 0)).reverse

/-- `%.{prec}g` (C11 7.21.6.1): let `P = prec`, or 1 if `prec = 0`; `X` the exponent an `%e`
    conversion would show.  If `P > X ≥ -4` use style `f` with precision `P - 1 - X`, otherwise
    style `e` with precision `P - 1`.  Unless `#` is given, trailing zeros are removed from the
    fractional portion and the point is removed when no fraction remains. -/
def cPrintfG (prec bits : Nat) (upper alt : Bool) : List Nat :=
  if !isFinite bits then special bits upper else
  let P := if prec = 0 then 1 else prec
  let (eds, x) := expDigits bits (P - 1)
  let sign := if isNeg bits then [45] else []
  if x < (P : Int) ∧ x ≥ -4 then
    let fprec := ((P : Int) - 1 - x).toNat
    let ds := natDigits (fixedInt bits fprec)
    let ds := List.replicate (fprec + 1 - ds.length) 0 ++ ds
    let ip := ds.take (ds.length - fprec)
    let fp := ds.drop (ds.length - fprec)
    let fp := if alt then fp else dropTrailingZeroDigits fp
    sign ++ showDigits ip ++ (if !fp.isEmpty ∨ alt then [46] else []) ++ showDigits fp
  else
    let fp := eds.drop 1
    let fp := if alt then fp else dropTrailingZeroDigits fp
    sign ++ showDigits (eds.take 1) ++ (if !fp.isEmpty ∨ alt then [46] else []) ++ showDigits fp ++
      [if upper then 69 else 101] ++ pyExp x

/-! ## float.hex() -/

def hexDig (n : Nat) : Nat := if n < 10 then 48 + n else 87 + n

/-- `k` lower-case hex digits of `n`, most significant first -/
def hexFixed : Nat → Nat → List Nat
  | 0, _ => []
  | k + 1, n => hexFixed k (n / 16) ++ [hexDig (n % 16)]

/-- `float.hex()`: `[-]0x1.<13 hex digits of the fraction>p<±exponent>` for normal numbers,
    `[-]0x0.<13 hex digits>p-1022` for subnormals, `[-]0x0.0p+0` for zero, `inf`, `-inf`, `nan`. -/
def pyHex (bits : Nat) : List Nat :=
  let sign := if isNeg bits then [45] else []
  if isNan bits then [110, 97, 110]
  else if isInf bits then sign ++ [105, 110, 102]
  else if isZero bits then sign ++ [48, 120, 48, 46, 48, 112, 43, 48]
  else
    let e := expField bits
    let lead := if e = 0 then 48 else 49
    let ex : Int := if e = 0 then -1022 else (e : Int) - 1023
    sign ++ [48, 120, lead, 46] ++ hexFixed 13 (fracField bits) ++ [112] ++
      (if ex < 0 then 45 else 43) :: showDigits (natDigits ex.natAbs)

end PV.C17.Spec
