import PV.C19.Defs
import PV.C19.Lemmas
/-
  C19 — property theorems: printf-style (%) template parsing and formatting equal Python's.

  Model  (`Model.lean`): `parseTemplate`, `formatNumber`, `formatString`, `formatChar`, `formatBytes`,
                         `formatFloat` mirror `format/src/cformat.rs`.
  Spec   (`Spec.lean`):  `pySplit`, `pyFormatInt`, `pyFormatStr`, `pyFormatChar`, `pyFormatBytes`,
                         `pyLayout` say what CPython's `%` does.
  Vocabulary (`Defs.lean`): `erase` reads a model split as a reference split (indices dropped, lone
  `.` = precision 0), `resolve` reads a quantity (`*` is left to the caller by the library and counts
  as absent), `InDomain` is a length bound (templates shorter than 2^31-1 characters).
  All four former deviations are repaired in /repo (86620af `format_bytes`, 1c70d07 float precision,
  4850e50 widths as `isize`, d7ac332 `%b` in text templates): every theorem below is unconditional
  on its domain, the former witnesses are regression facts.
-/
namespace PV.C19
open Spec

/-! ## splitting a template -/

/-- **The splitter equals Python's on every template of the domain, text and bytes**: same literal
    pieces (`%%` merged in), same conversion specifiers (key with nested parentheses, flag set, width,
    precision, ignored length modifier, type), same rejections (incomplete and unsupported specifiers,
    `%b` in a text template, a width above `isize::MAX`, a precision above `i32::MAX`), same index for an
    unsupported character; and it never panics there.  The domain is a length bound only.
    (Before d7ac332 / 4850e50 the text parser accepted `%b` and both parsers rejected widths above `i32::MAX`: this was
    `split_eq_bytes` on a smaller domain plus `split_eq_text_partial` with a hypothesis.) -/
theorem split_eq (m : Mode) (t : List Nat) (h : InDomain t) :
    erase (parseTemplate (m == .text) t) = some (pySplit m t) := by
  have hlen : t.length < i32Max := h
  have := parseLoop_eq m (t.length + 1) t 0 [] 0 t.length t.length (by omega) (by omega) (by omega) hlen
  unfold parseTemplate pySplit
  cases hp : pyItems m t.length t.length t with
  | err e =>
    rw [hp] at this
    obtain ⟨k, j, h1, h2⟩ := this
    rw [h1]; simp [erase, h2]
  | ok items =>
    rw [hp] at this
    obtain ⟨ps, h1, h2⟩ := this
    rw [h1]; simp [erase, h2, prependLit]

theorem split_eq_bytes (t : List Nat) (h : InDomain t) :
    erase (parseTemplate false t) = some (pySplit .bytes t) := split_eq .bytes t h

theorem split_eq_text (t : List Nat) (h : InDomain t) :
    erase (parseTemplate true t) = some (pySplit .text t) := split_eq .text t h

example : InDomain [37, 40, 97, 40, 98, 41, 41, 45, 43, 48, 53, 46, 50, 104, 100, 32, 97, 110, 100, 32, 49, 48, 48, 37, 37] := by decide
example : erase (parseTemplate true [37, 40, 97, 40, 98, 41, 41, 45, 43, 48, 53, 46, 50, 104, 100, 32, 97, 110, 100, 32, 49, 48, 48, 37, 37]) =
    some (.ok [.conv { key := some [97, 40, 98, 41], flags := ({ zero := true, left := true, sign := true } : Flags),
                       width := some (.amount 5), prec := some (.amount 2), type := 100 },
               .lit [32, 97, 110, 100, 32, 49, 48, 48, 37]]) := by decide

/-- The former witness 1 (repaired by d7ac332): the text template `%b` is rejected at index 1, as
    Python rejects it; the bytes template is accepted; `%5b%` reports the `b` at index 2. -/
theorem text_b_repaired :
    parseTemplate true [37, 98] = .err (.unsupported 98) 1 ∧
    pySplit .text [37, 98] = .err (.unsupported 98 1) ∧
    parseTemplate false [37, 98] =
      .ok [(0, .spec { key := none, flags := {}, width := none, prec := none,
                       ftype := .string .bytes, fchar := 98 })] ∧
    parseTemplate true [37, 53, 98, 37] = .err (.unsupported 98) 2 := by decide

/-- The former witness 2 (repaired by 4850e50): `%2147483648d` is accepted with width 2^31, as Python
    accepts widths up to `2^63 - 1`; a precision above `i32::MAX` and a width above `isize::MAX` are
    rejected by both. -/
theorem width_over_i32_repaired :
    erase (parseTemplate false [37, 50, 49, 52, 55, 52, 56, 51, 54, 52, 56, 100]) =
      some (pySplit .bytes [37, 50, 49, 52, 55, 52, 56, 51, 54, 52, 56, 100]) ∧
    pySplit .bytes [37, 50, 49, 52, 55, 52, 56, 51, 54, 52, 56, 100] =
      .ok [.conv { key := none, flags := {}, width := some (.amount 2147483648), prec := none,
                   type := 100 }] ∧
    parseTemplate false [37, 46, 50, 49, 52, 55, 52, 56, 51, 54, 52, 56, 100] = .err .intTooBig 1 ∧
    pySplit .bytes [37, 46, 50, 49, 52, 55, 52, 56, 51, 54, 52, 56, 100] = .err .tooBig := by decide

/-- Rejections coincide, and an unsupported conversion character is reported with Python's index. -/
theorem reject_same_index (m : Mode) (t : List Nat) (h : InDomain t) :
    ((∃ k i, parseTemplate (m == .text) t = .err k i) ↔ (∃ e, pySplit m t = .err e)) ∧
    ∀ c i, parseTemplate (m == .text) t = .err (.unsupported c) i ↔ pySplit m t = .err (.unsupported c i) := by
  have key := split_eq m t h
  constructor
  · constructor
    · rintro ⟨k, i, hk⟩
      rw [hk] at key
      simp only [erase, Option.some.injEq] at key
      exact ⟨_, key.symm⟩
    · rintro ⟨e, he⟩
      rw [he] at key
      cases hp : parseTemplate (m == .text) t with
      | ok ps => rw [hp] at key; simp [erase] at key
      | err k i => exact ⟨k, i, rfl⟩
      | panic => rw [hp] at key; simp [erase] at key
  · intro c i
    constructor
    · intro hk
      rw [hk] at key
      simp only [erase, toPyErr, Option.some.injEq] at key
      exact key.symm
    · intro he
      rw [he] at key
      cases hp : parseTemplate (m == .text) t with
      | ok ps => rw [hp] at key; simp [erase] at key
      | panic => rw [hp] at key; simp [erase] at key
      | err k j =>
        rw [hp] at key
        simp only [erase, Option.some.injEq, PyRes.err.injEq] at key
        cases k <;> simp [toPyErr] at key
        obtain ⟨h1, h2⟩ := key
        subst h1; subst h2; rfl

example : parseTemplate true [72, 101, 108, 108, 111, 32, 37, 110] = .err (.unsupported 110) 7 := by decide

/-- Every part the splitter returns is well formed: literals are non-empty and the recorded type is
    the one the conversion character stands for (so `erase` forgets nothing but the indices). -/
theorem parts_wf (text : Bool) (t : List Nat) (ps : List (Nat × Part)) (h : parseTemplate text t = .ok ps) :
    ∀ p ∈ ps, wfPart p.2 := parseLoop_wf _ _ _ _ _ _ _ h

/-- the spec `%5s` / `%.s` as the parser returns them -/
def spec5s : Spec :=
  { key := none, flags := {}, width := some (.amount 5), prec := none, ftype := .string .str, fchar := 115 }
def specDotS : Spec :=
  { key := none, flags := {}, width := none, prec := some .dot, ftype := .string .str, fchar := 115 }

/-- `check_specifiers`: the number of specifiers and whether they are keyed; `None` exactly when keyed
    and unkeyed specifiers are mixed. -/
theorem checkSpecifiers_spec (ps : List (Nat × Part)) :
    checkSpecifiers ps =
      match specKeyed ps with
      | [] => some (0, false)
      | b :: bs => if bs.all (· == b) then some (bs.length + 1, b) else none := by
  unfold checkSpecifiers
  induction ps with
  | nil => simp [checkSpecifiersGo, specKeyed]
  | cons p ps ih =>
    obtain ⟨i, part⟩ := p
    cases part with
    | literal l => simpa [checkSpecifiersGo, specKeyed] using ih
    | spec s =>
      simp only [checkSpecifiersGo, specKeyed, if_true]
      rw [checkSpecifiersGo_pos ps 1 _ (by omega)]
      split <;> simp; omega

example : checkSpecifiers [(0, .spec spec5s), (3, .literal [32]), (4, .spec { spec5s with key := some [97] })] = none := by
  decide

/-! ## formatting one value (specs as the caller passes them: `*` already replaced) -/

/-- `%d %i %u %o %x %X`: sign, `#` prefix, precision as minimum digits, zero padding after sign and
    prefix, `-` overriding `0` — for integers of any size, any width and precision. -/
theorem number_eq (spec : Spec) (t : NumType) (n : Int) (ht : spec.ftype = .number t) :
    formatNumber spec n =
      some (pyFormatInt spec.flags (resolve spec.width) (resolve (toPyPrec spec.prec)) t n) := by
  unfold formatNumber pyFormatInt
  rw [ht]
  cases t <;>
    simp only [magnitudeString, padSigned_eq, fillStringWithPrecision_eq, numPrefix, pySign, signString, zeros] <;>
    cases spec.flags.alt <;> simp

/-- `%#010x` as the parser returns it -/
def specAlt010x : Spec :=
  { key := none, flags := { alt := true, zero := true }, width := some (.amount 10), prec := none,
    ftype := .number .hexL, fchar := 120 }

example : specFromStr [37, 35, 48, 49, 48, 120] = .ok specAlt010x := by decide
example : formatNumber specAlt010x (-4919) = some [45, 48, 120, 48, 48, 48, 49, 51, 51, 55] := by decide

/-- `%s %r %a` on text: precision truncates by characters, padding with spaces, `-` left-adjusts. -/
theorem string_eq (spec : Spec) (s : List Nat) :
    formatString spec s =
      pyFormatStr spec.flags (resolve spec.width) (resolve (toPyPrec spec.prec)) s := by
  unfold formatString formatStringWithPrecision pyFormatStr
  simp only [fillString_eq, spaces]
  rcases hp : spec.prec with _ | ((p | _) | _) <;> simp [resolve, toPyPrec]
  by_cases h : p < s.length
  · simp [h]
  · have : s.take p = s := List.take_of_length_le (by omega)
    have hm : min p s.length = s.length := Nat.min_eq_right (by omega)
    simp [h, this, hm]

/-- `%c`: the precision is ignored. -/
theorem char_eq (spec : Spec) (c : Nat) :
    formatChar spec c = pyFormatChar spec.flags (resolve spec.width) c := by
  unfold formatChar formatStringWithPrecision pyFormatChar pyFormatStr
  simp [fillString_eq, spaces]

/-- `%s %b` on bytes (after fix 86620af): precision — a lone `.` included — truncates, a width smaller
    than the data pads nothing, `-` left-adjusts; for every spec and every byte string. -/
theorem bytes_eq (spec : Spec) (b : List Nat) :
    formatBytes spec b =
      pyFormatBytes spec.flags (resolve spec.width) (resolve (toPyPrec spec.prec)) b := by
  unfold formatBytes pyFormatBytes pyFormatStr
  rcases hp : spec.prec with _ | ((p | _) | _) <;> rcases hwd : spec.width with _ | (w | _)
  all_goals simp [resolve, toPyPrec, take_min, spaces]
  all_goals (try (cases spec.flags.left <;> simp))

example : specFromStr [37, 53, 115] = .ok spec5s := by decide
example : specFromStr [37, 46, 115] = .ok specDotS := by decide
-- the two inputs that used to fail: `b"%5s" % b"abcdefgh"` (panic) and `b"%.s" % b"ab"` (not truncated)
example : formatBytes spec5s [97, 98, 99, 100, 101, 102, 103, 104] =
    [97, 98, 99, 100, 101, 102, 103, 104] := by decide
example : formatBytes specDotS [97, 98] = [] := by decide

/-- Floats: whatever digit text `float.rs` produces for `|x|`, sign and padding are laid out as
    Python does (zero padding after the sign, `-` over `0`, no sign for NaN unless `+`/space). -/
theorem float_layout_eq (spec : Spec) (bits : Nat) :
    formatFloat spec bits =
      (floatBody spec bits).map
        (pyLayout spec.flags (resolve spec.width)
          (pySign spec.flags (PV.Dec.isNeg bits && !PV.Dec.isNan bits))) := by
  unfold formatFloat
  cases floatBody spec bits with
  | none => rfl
  | some body =>
    simp only [Option.map_some, padSigned_eq, pySign, signString]

/-- Floats: `format_float` equals the C-`printf` reference (`pyFormatFloat`, on the correctly rounded
    digits of `PV.Dec`) for `%e %E %f %F %g %G`, NaN and infinities included, `#`, `%g` switching and
    zero stripping — for EVERY spec of float type, EVERY precision and EVERY double.  (Before the fix
    of the `format!` precision panic this needed `precision ≤ 65530`; and the hypothesis that the digit
    generator returns the `P` digits asked for is now a theorem, `PV.C17.toExpL_length`.) -/
theorem float_eq (spec : Spec) (bits : Nat) (k : FloatKind) (up : Bool)
    (ht : spec.ftype = .float k up) :
    formatFloat spec bits =
      some (pyFormatFloat spec.flags (resolve spec.width) (resolve (toPyPrec spec.prec)) k up bits) := by
  unfold formatFloat pyFormatFloat
  simp only [← floatPrecision_eq]
  by_cases hnf : PV.Dec.isNan (bits % 2 ^ 63) = true ∨ PV.Dec.isInf (bits % 2 ^ 63) = true
  · rw [floatBody_nonfinite spec bits k up ht hnf]
    simp only [padSigned_eq, pySign, signString, nanText, infText, ← isNan_abs bits, ← isInf_abs bits]
    rcases hnf with h | h
    · simp [h]
    · by_cases h' : PV.Dec.isNan (bits % 2 ^ 63) = true <;> simp [h, h']
  · have h1 : PV.Dec.isNan (bits % 2 ^ 63) = false := by
      cases hh : PV.Dec.isNan (bits % 2 ^ 63) <;> simp_all
    have h2 : PV.Dec.isInf (bits % 2 ^ 63) = false := by
      cases hh : PV.Dec.isInf (bits % 2 ^ 63) <;> simp_all
    rw [floatBody_eq spec bits k up ht ⟨h1, h2⟩]
    simp only [padSigned_eq, pySign, signString, ← isNan_abs bits, ← isInf_abs bits, h1, h2]
    simp

/-- `%.3g` as the parser returns it -/
def specDot3g : Spec :=
  { key := none, flags := {}, width := none, prec := some (.quantity (.amount 3)),
    ftype := .float .gen false, fchar := 103 }

example : specFromStr [37, 46, 51, 103] = .ok specDot3g := by decide
-- `"%.3g" % 1234.5` (bits 0x40934A0000000000)
example : formatFloat specDot3g 0x40934A0000000000 = some [49, 46, 50, 51, 101, 43, 48, 51] := by decide

/-- `%.65536f` as the parser returns it -/
def specDot65536f : Spec :=
  { key := none, flags := {}, width := none, prec := some (.quantity (.amount 65536)),
    ftype := .float .fix false, fchar := 102 }

/-- The former witness of the `format!` precision panic, `"%.65536f" % 1.5`, is a text now (the model
    returned `none` = panic before the fix); by `float_eq` it is Python's text.  Evaluated below the
    old limit but above the digit clamp: `"%.1200f" % 1.5` is `1.5` followed by 1199 zeros. -/
theorem float_precision_over_u16_repaired :
    (formatFloat specDot65536f 0x3FF8000000000000).isSome = true ∧
    formatFloat { specDot65536f with prec := some (.quantity (.amount 1200)) } 0x3FF8000000000000 =
      some ([49, 46, 53] ++ List.replicate 1199 48) := by
  constructor
  · rw [float_eq specDot65536f _ .fix false rfl]; rfl
  · decide +kernel

/-! ## no panics inside the domain
   (`formatString`, `formatChar` and, since 86620af, `formatBytes` are total functions of the model: the
   code has no panic path there at all; `format_float` has none left for specs of float type since the
   `format!` precision fix — every precision, every double) -/

theorem no_panic_partial :
    (∀ text t, InDomain t → parseTemplate text t ≠ .panic) ∧
    (∀ spec t n, spec.ftype = .number t → (formatNumber spec n).isSome = true) ∧
    (∀ spec bits k up, spec.ftype = .float k up → (formatFloat spec bits).isSome = true) := by
  refine ⟨?_, ?_, ?_⟩
  · intro text t h hp
    cases text with
    | false =>
      have := split_eq .bytes t h
      rw [show ((Mode.bytes == Mode.text) = false) from rfl, hp] at this
      simp [erase] at this
    | true =>
      have := split_eq .text t h
      rw [show ((Mode.text == Mode.text) = true) from rfl, hp] at this
      simp [erase] at this
  · intro spec t n ht
    rw [number_eq spec t n ht]; rfl
  · intro spec bits k up ht
    rw [float_eq spec bits k up ht]; rfl

end PV.C19
