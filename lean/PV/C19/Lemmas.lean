import PV.C19.Defs
import PV.C17.Clamp
/-
  C19 — helper lemmas.  Each parser phase of the model is the corresponding reference phase
  decorated with indices (`decorate`), the template loop is `group ∘ pyItems` with a pending literal,
  and the padding helpers are the reference layout.
-/
namespace PV.C19
open Spec

/-! ### mapping key -/

theorem closeAt_lt : ∀ (cs : List Nat) (d k : Nat), closeAt d cs = some k → k < cs.length := by
  intro cs
  induction cs with
  | nil => intro d k h; simp [closeAt] at h
  | cons c cs ih =>
    intro d k h
    unfold closeAt at h
    split at h
    · split at h
      · cases h; simp
      · cases h' : closeAt (d - 1) cs with
        | none => simp [h'] at h
        | some k' => simp [h'] at h; have := ih _ _ h'; simp; omega
    · split at h
      · cases h' : closeAt (d + 1) cs with
        | none => simp [h'] at h
        | some k' => simp [h'] at h; have := ih _ _ h'; simp; omega
      · cases h' : closeAt d cs with
        | none => simp [h'] at h
        | some k' => simp [h'] at h; have := ih _ _ h'; simp; omega

theorem parseParens_eq : ∀ (rest : List Nat) (counter i : Nat) (acc : List Nat),
    1 ≤ counter → counter + rest.length ≤ i32Max →
    parseParens counter i rest acc =
      match closeAt (counter - 1) rest with
      | none => .exhausted
      | some k => .found (acc.reverse ++ rest.take k) (i + k + 1) (rest.drop (k + 1)) := by
  intro rest
  induction rest with
  | nil => intro counter i acc _ _; simp [parseParens, closeAt]
  | cons c cs ih =>
    intro counter i acc h1 h2
    simp only [List.length_cons] at h2
    unfold parseParens closeAt
    by_cases h40 : c = 40
    · subst h40
      have hne : counter ≠ i32Max := by omega
      simp [hne]
      rw [ih (counter + 1) (i + 1) (40 :: acc) (by omega) (by omega)]
      have : counter - 1 + 1 = counter := by omega
      simp [this]
      cases closeAt counter cs with
      | none => simp
      | some k => simp; omega
    · by_cases h41 : c = 41
      · subst h41
        simp
        by_cases hc : counter - 1 > 0
        · have hd : ¬ (counter - 1 = 0) := by omega
          simp [hc, hd]
          rw [ih (counter - 1) (i + 1) (41 :: acc) (by omega) (by omega)]
          cases closeAt (counter - 1 - 1) cs with
          | none => simp
          | some k => simp; omega
        · have hd : counter - 1 = 0 := by omega
          simp [hd]
      · simp [h40, h41]
        have hc : counter > 0 := by omega
        simp [hc]
        rw [ih counter (i + 1) (c :: acc) h1 (by omega)]
        cases closeAt (counter - 1) cs with
        | none => simp
        | some k => simp; omega

/-- the model's result of a phase whose reference result is `r` -/
def decorate {α : Type} (i : Nat) (rest : List Nat) (r : α × List Nat) : α × Nat × List Nat :=
  (r.1, i + (rest.length - r.2.length), r.2)

theorem pyKey_cons_ne (c : Nat) (r : List Nat) (h : c ≠ 40) : pyKey (c :: r) = .ok (none, c :: r) := by
  unfold pyKey
  split
  · simp_all
  · rfl

theorem parseMappingKey_cons_ne (i c : Nat) (r : List Nat) (h : c ≠ 40) :
    parseMappingKey i (c :: r) = .ok (none, i, c :: r) := by
  unfold parseMappingKey
  split
  · simp_all
  · rfl

theorem parseMappingKey_eq (i : Nat) (rest : List Nat) (h : rest.length < i32Max) :
    parseMappingKey i rest =
      match pyKey rest with
      | .ok r => .ok (decorate i rest r)
      | .err _ => .err .unmatchedKey i := by
  cases rest with
  | nil => simp [parseMappingKey, pyKey, decorate]
  | cons c rest' =>
    by_cases hc : c = 40
    · subst hc
      simp only [List.length_cons] at h
      simp only [parseMappingKey, pyKey]
      rw [parseParens_eq rest' 1 (i + 1) [] (by omega) (by omega)]
      cases hc : closeAt 0 rest' with
      | none => simp
      | some k =>
        have := closeAt_lt _ _ _ hc
        simp [decorate]; omega
    · rw [pyKey_cons_ne c rest' hc, parseMappingKey_cons_ne i c rest' hc]
      simp [decorate]

theorem pyKey_suffix (rest : List Nat) (r) (h : pyKey rest = .ok r) : r.2 <:+ rest := by
  unfold pyKey at h
  split at h
  · split at h
    · cases h
    · cases h; simp; exact List.IsSuffix.trans (List.drop_suffix _ _) (List.suffix_cons _ _)
  · cases h; exact List.suffix_refl _

theorem pyKey_err (rest : List Nat) (e) (h : pyKey rest = .err e) : e = .incompleteKey := by
  unfold pyKey at h
  split at h
  · split at h
    · cases h; rfl
    · cases h
  · cases h

/-! ### flags -/

def mergeFlags (f g : Flags) : Flags :=
  { alt := f.alt || g.alt, zero := f.zero || g.zero, left := f.left || g.left,
    blank := f.blank || g.blank, sign := f.sign || g.sign }

theorem addFlag_none (f : Flags) (c : Nat) (h : isFlag c = false) : addFlag f c = none := by
  simp [isFlag] at h
  simp [addFlag, h]

theorem addFlag_some (f : Flags) (c : Nat) (h : isFlag c = true) :
    ∃ f', addFlag f c = some f' ∧ ∀ l, mergeFlags f' (flagsOf l) = mergeFlags f (flagsOf (c :: l)) := by
  simp [isFlag] at h
  rcases h with (((h | h) | h) | h) | h <;> subst h <;>
    simp [addFlag, mergeFlags, flagsOf]

theorem parseFlags_eq : ∀ (rest : List Nat) (f : Flags) (i : Nat),
    parseFlags f i rest =
      (mergeFlags f (flagsOf (rest.takeWhile isFlag)), i + (rest.takeWhile isFlag).length,
        rest.dropWhile isFlag) := by
  intro rest
  induction rest with
  | nil => intro f i; simp [parseFlags, mergeFlags, flagsOf]
  | cons c cs ih =>
    intro f i
    unfold parseFlags
    cases hf : isFlag c with
    | false =>
      simp [addFlag_none f c hf, hf, mergeFlags, flagsOf]
    | true =>
      obtain ⟨f', h1, h2⟩ := addFlag_some f c hf
      simp [h1, ih, hf, h2]
      omega

theorem mergeFlags_empty (g : Flags) : mergeFlags {} g = g := by
  cases g; simp [mergeFlags]

/-! ### quantities -/

/-- value of a digit run continued from `num` -/
def dv (num : Nat) (ds : List Nat) : Nat := ds.foldl (fun a c => 10 * a + (c - 48)) num

theorem dv_ge : ∀ (ds : List Nat) (num : Nat), num ≤ dv num ds := by
  intro ds
  induction ds with
  | nil => intro num; simp [dv]
  | cons d ds ih =>
    intro num
    have := ih (10 * num + (d - 48))
    simp [dv] at *
    omega

/-- the digit loop: the value of the run if it fits an `isize`, `IntTooBig` (at some digit) otherwise -/
theorem parseDigits_eq : ∀ (rest : List Nat) (num i : Nat),
    (dv num (rest.takeWhile isDigit) ≤ isizeMax →
      parseDigits num i rest =
        .ok (dv num (rest.takeWhile isDigit), i + (rest.takeWhile isDigit).length, rest.dropWhile isDigit)) ∧
    (dv num (rest.takeWhile isDigit) > isizeMax → num ≤ isizeMax →
      ∃ j, parseDigits num i rest = .err .intTooBig j) := by
  intro rest
  induction rest with
  | nil =>
    intro num i
    refine ⟨by intro _; simp [parseDigits, dv], ?_⟩
    intro h hn; simp [dv] at h; omega
  | cons c cs ih =>
    intro num i
    unfold parseDigits
    cases hd : isDigit c with
    | false =>
      refine ⟨by intro _; simp [dv, hd], ?_⟩
      intro h hn; simp [dv, hd] at h; omega
    | true =>
      have e : num * 10 + (c - 48) = 10 * num + (c - 48) := by omega
      have e2 : dv num (c :: cs.takeWhile isDigit) = dv (10 * num + (c - 48)) (cs.takeWhile isDigit) := rfl
      have hge := dv_ge (cs.takeWhile isDigit) (10 * num + (c - 48))
      obtain ⟨ih1, ih2⟩ := ih (10 * num + (c - 48)) (i + 1)
      simp only [List.takeWhile_cons, List.dropWhile_cons, hd, if_true, List.length_cons, e2, e]
      constructor
      · intro h
        have hle : ¬ (10 * num + (c - 48) > isizeMax) := by omega
        rw [if_neg hle, ih1 h]
        have e3 : i + 1 + (cs.takeWhile isDigit).length = i + ((cs.takeWhile isDigit).length + 1) := by omega
        rw [e3]
      · intro h _
        by_cases hov : 10 * num + (c - 48) > isizeMax
        · exact ⟨i, by rw [if_pos hov]⟩
        · rw [if_neg hov]
          exact ih2 h (by omega)

/-- `pyQuantity` spelled out on a text that does not start with `*` -/
theorem pyQuantity_cons (limit c : Nat) (cs : List Nat) (h42 : c ≠ 42) :
    pyQuantity limit (c :: cs) =
      (let ds := (c :: cs).takeWhile isDigit
       if ds.isEmpty then .ok (none, c :: cs)
       else if digitsValue ds > limit then .err .tooBig
       else .ok (some (.amount (digitsValue ds)), (c :: cs).dropWhile isDigit)) := by
  unfold pyQuantity
  split
  · simp_all
  · rfl

/-- the quantity the text starts with: `*`, nothing, or the value `v` of its maximal digit run —
    accepted iff `v ≤ isize::MAX` -/
theorem parseQuantity_cases (i : Nat) (rest : List Nat) :
    (∃ cs, rest = 42 :: cs ∧ parseQuantity i rest = .ok (some .star, i + 1, cs)) ∨
    (rest.head? ≠ some 42 ∧ (rest.takeWhile isDigit).isEmpty = true ∧ parseQuantity i rest = .ok (none, i, rest)) ∨
    (rest.head? ≠ some 42 ∧ (rest.takeWhile isDigit).isEmpty = false ∧
      (if digitsValue (rest.takeWhile isDigit) ≤ isizeMax then
        parseQuantity i rest = .ok (some (.amount (digitsValue (rest.takeWhile isDigit))),
          i + (rest.length - (rest.dropWhile isDigit).length), rest.dropWhile isDigit)
       else ∃ j, parseQuantity i rest = .err .intTooBig j)) := by
  cases rest with
  | nil => right; left; exact ⟨by simp, rfl, rfl⟩
  | cons c cs =>
    by_cases h42 : c = 42
    · subst h42; left; exact ⟨cs, rfl, by simp [parseQuantity]⟩
    · right
      cases hd : isDigit c with
      | false => left; exact ⟨by simp [h42], by simp [hd], by simp [parseQuantity, h42, hd]⟩
      | true =>
        right
        refine ⟨by simp [h42], by simp [hd], ?_⟩
        have e : digitsValue ((c :: cs).takeWhile isDigit) = dv (c - 48) (cs.takeWhile isDigit) := by
          simp [digitsValue, dv, hd]
        have hc : c - 48 ≤ isizeMax := by
          simp only [isDigit, Bool.and_eq_true, decide_eq_true_eq] at hd; unfold isizeMax; omega
        obtain ⟨h1, h2⟩ := parseDigits_eq cs (c - 48) (i + 1)
        rw [e]
        have hl : (cs.takeWhile isDigit).length + (cs.dropWhile isDigit).length = cs.length := by
          rw [← List.length_append, List.takeWhile_append_dropWhile]
        split
        · rename_i hle
          simp only [parseQuantity, h42, if_false, hd, if_true, h1 hle, List.dropWhile_cons, List.length_cons]
          congr 3; omega
        · rename_i hgt
          obtain ⟨j, hj⟩ := h2 (by omega) hc
          exact ⟨j, by simp only [parseQuantity, h42, if_false, hd, if_true, hj]⟩

/-- the width (a `Py_ssize_t` for Python, an `isize` here): same quantity, same rejection -/
theorem parseQuantity_eq (i : Nat) (rest : List Nat) :
    match pyQuantity isizeMax rest with
    | .ok r => parseQuantity i rest = .ok (decorate i rest r) ∧ r.2 <:+ rest
    | .err e => e = .tooBig ∧ ∃ j, parseQuantity i rest = .err .intTooBig j := by
  rcases parseQuantity_cases i rest with ⟨cs, rfl, h⟩ | ⟨h42, he, h⟩ | ⟨h42, he, h⟩
  · simp only [pyQuantity]
    exact ⟨by rw [h]; simp [decorate], List.suffix_cons _ _⟩
  · cases rest with
    | nil => simp only [pyQuantity]; exact ⟨by rw [h]; simp [decorate], List.suffix_refl _⟩
    | cons c cs =>
      rw [pyQuantity_cons _ _ _ (by simpa using h42)]
      simp only [he, if_true]
      exact ⟨by rw [h]; simp [decorate], List.suffix_refl _⟩
  · cases rest with
    | nil => simp at he
    | cons c cs =>
      rw [pyQuantity_cons _ _ _ (by simpa using h42)]
      simp only [he, Bool.false_eq_true, if_false]
      by_cases hv : digitsValue ((c :: cs).takeWhile isDigit) ≤ isizeMax
      · rw [if_pos hv] at h
        rw [if_neg (by omega)]
        exact ⟨by rw [h]; simp [decorate], List.dropWhile_suffix _⟩
      · rw [if_neg hv] at h
        rw [if_pos (by omega)]
        exact ⟨rfl, h⟩

/-- the precision (a C `int` for Python; here an `isize` quantity checked against `i32::MAX`) -/
theorem parsePrecision_eq (i : Nat) (rest : List Nat) :
    match pyPrecision rest with
    | .ok (q, r') => ∃ p : Option Precision, toPyPrec p = q ∧
        parsePrecision i rest = .ok (p, i + (rest.length - r'.length), r') ∧ r' <:+ rest
    | .err e => e = .tooBig ∧ ∃ j, parsePrecision i rest = .err .intTooBig j := by
  cases rest with
  | nil => simp only [pyPrecision]; exact ⟨none, rfl, rfl, List.suffix_refl _⟩
  | cons c cs =>
    by_cases h46 : c = 46
    · subst h46
      simp only [pyPrecision, parsePrecision]
      rcases parseQuantity_cases (i + 1) cs with ⟨cs', rfl, h⟩ | ⟨h42, he, h⟩ | ⟨h42, he, h⟩
      · simp only [pyQuantity, h]
        exact ⟨some (.quantity .star), rfl, by simp; omega, List.suffix_cons_iff.mpr (Or.inr (List.suffix_cons _ _))⟩
      · have hq : pyQuantity i32Max cs = .ok (none, cs) := by
          cases cs with
          | nil => rfl
          | cons d ds => rw [pyQuantity_cons _ _ _ (by simpa using h42)]; simp only [he, if_true]
        simp only [hq, h]
        exact ⟨some .dot, rfl, by simp, List.suffix_cons _ _⟩
      · cases cs with
        | nil => simp at he
        | cons d ds =>
          rw [pyQuantity_cons _ _ _ (by simpa using h42)]
          simp only [he, Bool.false_eq_true, if_false]
          have hsuf : (d :: ds).dropWhile isDigit <:+ 46 :: d :: ds :=
            List.IsSuffix.trans (List.dropWhile_suffix _) (List.suffix_cons _ _)
          have hl := (List.dropWhile_suffix isDigit (l := d :: ds)).length_le
          by_cases hv : digitsValue ((d :: ds).takeWhile isDigit) ≤ isizeMax
          · rw [if_pos hv] at h
            rw [h]
            by_cases hv2 : digitsValue ((d :: ds).takeWhile isDigit) > i32Max
            · simp only [hv2, if_true]
              exact ⟨trivial, i, rfl⟩
            · simp only [hv2, if_false]
              refine ⟨some (.quantity (.amount _)), rfl, ?_, hsuf⟩
              simp only [List.length_cons] at hl ⊢
              have e : i + 1 + (ds.length + 1 - ((d :: ds).dropWhile isDigit).length) =
                  i + (ds.length + 1 + 1 - ((d :: ds).dropWhile isDigit).length) := by omega
              rw [e]
          · rw [if_neg hv] at h
            obtain ⟨j, hj⟩ := h
            have : digitsValue ((d :: ds).takeWhile isDigit) > i32Max := by unfold i32Max; unfold isizeMax at hv; omega
            simp only [this, if_true, hj]
            exact ⟨trivial, j, rfl⟩
    · have h1 : pyPrecision (c :: cs) = .ok (none, c :: cs) := by
        unfold pyPrecision; split
        · simp_all
        · rfl
      have h2 : parsePrecision i (c :: cs) = .ok (none, i, c :: cs) := by
        unfold parsePrecision; split
        · simp_all
        · rfl
      rw [h1]
      exact ⟨none, rfl, by rw [h2]; simp, List.suffix_refl _⟩

theorem consumeLength_eq (i : Nat) (rest : List Nat) :
    consumeLength i rest = (i + (rest.length - (pyLength rest).length), pyLength rest) ∧
      pyLength rest <:+ rest := by
  cases rest with
  | nil => simp [consumeLength, pyLength]
  | cons c cs =>
    cases h : isLength c <;> simp [consumeLength, pyLength, h]

/-! ### conversion type -/

theorem typeTable (c : Nat) : validType .bytes c = (typeOfChar c).isSome := by
  by_cases h1 : c = 100; · subst h1; decide
  by_cases h2 : c = 105; · subst h2; decide
  by_cases h3 : c = 117; · subst h3; decide
  by_cases h4 : c = 111; · subst h4; decide
  by_cases h5 : c = 120; · subst h5; decide
  by_cases h6 : c = 88; · subst h6; decide
  by_cases h7 : c = 101; · subst h7; decide
  by_cases h8 : c = 69; · subst h8; decide
  by_cases h9 : c = 102; · subst h9; decide
  by_cases h10 : c = 70; · subst h10; decide
  by_cases h11 : c = 103; · subst h11; decide
  by_cases h12 : c = 71; · subst h12; decide
  by_cases h13 : c = 99; · subst h13; decide
  by_cases h14 : c = 114; · subst h14; decide
  by_cases h15 : c = 115; · subst h15; decide
  by_cases h16 : c = 98; · subst h16; decide
  by_cases h17 : c = 97; · subst h17; decide
  simp [validType, typeOfChar, *]

theorem parseFormatType_eq (i n : Nat) (rest : List Nat) (hn : i + rest.length = n) :
    match pyType .bytes n rest with
    | .ok (c, r') => ∃ t, typeOfChar c = some t ∧ parseFormatType i rest = .ok ((t, c), i + 1, r') ∧
        rest = c :: r'
    | .err e => ∃ k j, parseFormatType i rest = .err k j ∧ toPyErr k j = e := by
  cases rest with
  | nil => exact ⟨.incomplete, 0, rfl, rfl⟩
  | cons c cs =>
    simp only [pyType, parseFormatType]
    rw [typeTable]
    cases ht : typeOfChar c with
    | none =>
      simp only [List.length_cons] at hn
      refine ⟨.unsupported c, i, rfl, ?_⟩
      simp only [toPyErr, List.length_cons]
      congr 1
      omega
    | some t => exact ⟨t, ht, rfl, rfl⟩

/-- one conversion specifier: the model is the reference with indices -/
theorem parseSpec_eq (i n : Nat) (rest : List Nat) (hn : i + rest.length = n)
    (hlen : rest.length < i32Max) :
    match pyConv .bytes n rest with
    | .ok (pc, r') => ∃ spec, parseSpec i rest = .ok (spec, i + (rest.length - r'.length), r') ∧
        toPyConv spec = pc ∧ typeOfChar spec.fchar = some spec.ftype ∧ r' <:+ rest ∧
        r'.length < rest.length
    | .err e => ∃ k j, parseSpec i rest = .err k j ∧ toPyErr k j = e := by
  unfold parseSpec pyConv
  rw [parseMappingKey_eq i rest hlen]
  cases hk : pyKey rest with
  | err e =>
    have := pyKey_err rest e hk
    subst this
    exact ⟨.unmatchedKey, i, rfl, rfl⟩
  | ok r1 =>
    obtain ⟨key, r1⟩ := r1
    have s1 : r1 <:+ rest := pyKey_suffix rest _ hk
    have l1 := s1.length_le
    simp only [decorate]
    rw [parseFlags_eq]
    simp only [mergeFlags_empty]
    have s2 : r1.dropWhile isFlag <:+ r1 := List.dropWhile_suffix _
    have l2 := s2.length_le
    have e2 : (r1.takeWhile isFlag).length + (r1.dropWhile isFlag).length = r1.length := by
      rw [← List.length_append, List.takeWhile_append_dropWhile]
    have hq := parseQuantity_eq (i + (rest.length - r1.length) + (r1.takeWhile isFlag).length)
        (r1.dropWhile isFlag)
    cases hqq : pyQuantity isizeMax (r1.dropWhile isFlag) with
    | err e =>
      rw [hqq] at hq
      obtain ⟨he, j, hj⟩ := hq
      subst he
      exact ⟨.intTooBig, j, by rw [hj], rfl⟩
    | ok wr =>
    rw [hqq] at hq
    obtain ⟨width, r3⟩ := wr
    obtain ⟨hq2, s3⟩ := hq
    simp only at s3
    have l3 := s3.length_le
    rw [hq2]
    simp only [decorate]
    have hp := parsePrecision_eq
      (i + (rest.length - r1.length) + (r1.takeWhile isFlag).length +
        ((r1.dropWhile isFlag).length - r3.length)) r3
    cases hpp : pyPrecision r3 with
    | err e =>
      rw [hpp] at hp
      obtain ⟨he, j, hj⟩ := hp
      subst he
      exact ⟨.intTooBig, j, by rw [hj], rfl⟩
    | ok pr =>
    rw [hpp] at hp
    obtain ⟨pq, r4⟩ := pr
    obtain ⟨prec, hp1, hp2, s4⟩ := hp
    subst hp1
    have l4 := s4.length_le
    rw [hp2]
    simp only
    obtain ⟨hc1, s5⟩ := consumeLength_eq
      (i + (rest.length - r1.length) + (r1.takeWhile isFlag).length +
        ((r1.dropWhile isFlag).length - r3.length) + (r3.length - r4.length)) r4
    have l5 := s5.length_le
    rw [hc1]
    simp only
    have ht := parseFormatType_eq
      (i + (rest.length - r1.length) + (r1.takeWhile isFlag).length +
        ((r1.dropWhile isFlag).length - r3.length) + (r3.length - r4.length) +
        (r4.length - (pyLength r4).length)) n (pyLength r4) (by omega)
    cases hty : pyType .bytes n (pyLength r4) with
    | err e =>
      rw [hty] at ht
      obtain ⟨k, j, h1, h2⟩ := ht
      exact ⟨k, j, by rw [h1], h2⟩
    | ok cr =>
      obtain ⟨c, r5⟩ := cr
      rw [hty] at ht
      obtain ⟨t, h1, h2, h3⟩ := ht
      have l6 : (pyLength r4).length = r5.length + 1 := by rw [h3]; simp
      refine ⟨{ key := key, flags := flagsOf (r1.takeWhile isFlag), width := width, prec := prec,
                ftype := t, fchar := c }, ?_, ?_, h1, ?_, ?_⟩
      · rw [h2]
        simp only
        congr 3
        omega
      · simp [toPyConv]
      · have : r5 <:+ pyLength r4 := by rw [h3]; exact List.suffix_cons _ _
        exact this.trans (s5.trans (s4.trans (s3.trans (s2.trans s1))))
      · omega

/-! ### template loop -/

/-- a pending run of literal characters in front of already grouped pieces -/
def prependLit (l : List Nat) (g : List Piece) : List Piece :=
  match l, g with
  | [], g => g
  | l, .lit l' :: g' => .lit (l ++ l') :: g'
  | l, g => .lit l :: g

theorem group_chars_append : ∀ (l : List Nat) (items : List Item),
    group (l.map .ch ++ items) = prependLit l (group items) := by
  intro l
  induction l with
  | nil => intro items; simp [prependLit]
  | cons c l ih =>
    intro items
    simp only [List.map_cons, List.cons_append, group, ih]
    cases l with
    | nil =>
      cases hg : group items with
      | nil => simp [prependLit]
      | cons p g => cases p <;> simp [prependLit]
    | cons d l =>
      cases hg : group items with
      | nil => simp [prependLit]
      | cons p g => cases p <;> simp [prependLit]

theorem prependLit_snoc (l : List Nat) (c : Nat) (items : List Item) :
    prependLit (l ++ [c]) (group items) = prependLit l (group (.ch c :: items)) := by
  rw [← group_chars_append, ← group_chars_append]
  simp

theorem prependLit_conv (l : List Nat) (s : PyConv) (g : List Piece) :
    prependLit l (.conv s :: g) = (if l.isEmpty then [] else [.lit l]) ++ .conv s :: g := by
  cases l <;> simp [prependLit]

theorem prependLit_nil (l : List Nat) :
    prependLit l [] = if l.isEmpty then [] else [.lit l] := by
  cases l <;> simp [prependLit]

/-- text mode differs from bytes mode in one point: the conversion `b` is unsupported (reported at the
    index of that character) -/
theorem pyConv_text_eq (n : Nat) (cs : List Nat) :
    pyConv .text n cs =
      match pyConv .bytes n cs with
      | .ok (pc, r') => if pc.type = 98 then .err (.unsupported 98 (n - (r'.length + 1))) else .ok (pc, r')
      | .err e => .err e := by
  unfold pyConv
  cases pyKey cs with
  | err e => rfl
  | ok r1 =>
    obtain ⟨key, r1⟩ := r1
    dsimp only
    cases pyQuantity isizeMax (r1.dropWhile isFlag) with
    | err e => rfl
    | ok r2 =>
      obtain ⟨w, r2⟩ := r2
      dsimp only
      cases pyPrecision r2 with
      | err e => rfl
      | ok r3 =>
        obtain ⟨p, r3⟩ := r3
        dsimp only
        cases pyLength r3 with
        | nil => rfl
        | cons c r =>
          by_cases h : c = 98
          · subst h; simp [pyType, validType]
          · have h1 : (c == 98) = false := by simp [h]
            have hv : validType .text c = validType .bytes c := by simp [validType, h1]
            simp only [pyType, hv]
            cases validType .bytes c <;> simp [h]

theorem parseLoop_eq (m : Mode) : ∀ (fuel : Nat) (rest : List Nat) (i : Nat) (lit : List Nat) (pi n fuel' : Nat),
    rest.length < fuel → rest.length ≤ fuel' → i + rest.length = n → n < i32Max →
    match pyItems m n fuel' rest with
    | .ok items => ∃ ps, parseLoop (m == .text) fuel i rest lit pi = .ok ps ∧
        ps.map (fun p => toPiece p.2) = prependLit lit (group items)
    | .err e => ∃ k j, parseLoop (m == .text) fuel i rest lit pi = .err k j ∧ toPyErr k j = e := by
  intro fuel
  induction fuel with
  | zero => intro rest i lit pi n fuel' h; omega
  | succ fuel ih =>
    intro rest i lit pi n fuel' hf hf' hn hmax
    cases rest with
    | nil =>
      simp only [pyItems, parseLoop]
      refine ⟨_, rfl, ?_⟩
      simp only [group, prependLit_nil, flushLit]
      cases lit <;> simp [toPiece]
    | cons c rest =>
      simp only [List.length_cons] at hf hf' hn
      obtain ⟨f', rfl⟩ : ∃ f', fuel' = f' + 1 := ⟨fuel' - 1, by omega⟩
      by_cases hc : c = 37
      · subst hc
        cases rest with
        | nil => exact ⟨.incomplete, i + 1, by simp [parseLoop], rfl⟩
        | cons d rest' =>
          simp only [List.length_cons] at hf hf' hn
          by_cases hd : d = 37
          · subst hd
            have := ih rest' (i + 2) (lit ++ [37]) pi n f' (by omega) (by omega) (by omega) hmax
            simp only [pyItems, parseLoop, if_true]
            cases hp : pyItems m n f' rest' with
            | err e =>
              rw [hp] at this
              exact this
            | ok items =>
              rw [hp] at this
              obtain ⟨ps, h1, h2⟩ := this
              refine ⟨ps, h1, ?_⟩
              rw [h2, prependLit_snoc]
          · have hsp := parseSpec_eq (i + 1) n (d :: rest') (by simp; omega) (by simp; omega)
            simp only [pyItems, parseLoop, if_true, hd, if_false]
            -- the reference conversion in mode `m`, in terms of the bytes-mode one
            have hmode : pyConv m n (d :: rest') =
                match pyConv .bytes n (d :: rest') with
                | .ok (pc, r') =>
                  if (m == .text) = true ∧ pc.type = 98 then .err (.unsupported 98 (n - (r'.length + 1)))
                  else .ok (pc, r')
                | .err e => .err e := by
              cases m with
              | bytes =>
                cases pyConv .bytes n (d :: rest') with
                | err e => rfl
                | ok pr => obtain ⟨pc, r'⟩ := pr; simp
              | text =>
                rw [pyConv_text_eq]
                cases pyConv .bytes n (d :: rest') with
                | err e => rfl
                | ok pr => obtain ⟨pc, r'⟩ := pr; simp
            rw [hmode]
            cases hpc : pyConv .bytes n (d :: rest') with
            | err e =>
              rw [hpc] at hsp
              obtain ⟨k, j, h1, h2⟩ := hsp
              exact ⟨k, j, by rw [h1], h2⟩
            | ok pr =>
              obtain ⟨pc, r'⟩ := pr
              rw [hpc] at hsp
              obtain ⟨spec, h1, h2, _, h4, h5⟩ := hsp
              have l4 := h4.length_le
              simp only [List.length_cons] at h5 l4
              rw [h1]
              simp only
              have hty : pc.type = spec.fchar := by rw [← h2]; rfl
              by_cases hb : (m == .text) = true ∧ spec.fchar = 98
              · -- `%b` in a text template
                rw [if_pos hb, if_pos (by rw [hty]; exact hb)]
                refine ⟨.unsupported 98, _, rfl, ?_⟩
                simp only [toPyErr, List.length_cons]
                congr 1
                omega
              · rw [if_neg hb, if_neg (by rw [hty]; exact hb)]
                simp only
                have := ih r' (i + 1 + ((d :: rest').length - r'.length)) []
                  (if r'.isEmpty then pi else i + 1 + ((d :: rest').length - r'.length)) n f'
                  (by omega) (by omega) (by simp; omega) hmax
                cases hp : pyItems m n f' r' with
                | err e =>
                  rw [hp] at this
                  obtain ⟨k, j, g1, g2⟩ := this
                  exact ⟨k, j, by rw [g1], g2⟩
                | ok items =>
                  rw [hp] at this
                  obtain ⟨ps, g1, g2⟩ := this
                  refine ⟨_, by rw [g1], ?_⟩
                  have e : toPiece (.spec spec) = .conv pc := by simp [toPiece, h2]
                  simp only [group, prependLit_conv, List.map_append, List.map_cons, e]
                  simp only [prependLit] at g2
                  rw [g2]
                  cases lit <;> simp [flushLit, toPiece]
      · have := ih rest (i + 1) (lit ++ [c]) pi n f' (by omega) (by omega) (by omega) hmax
        simp only [pyItems, parseLoop, hc, if_false]
        cases hp : pyItems m n f' rest with
        | err e =>
          rw [hp] at this
          exact this
        | ok items =>
          rw [hp] at this
          obtain ⟨ps, h1, h2⟩ := this
          refine ⟨ps, h1, ?_⟩
          rw [h2, prependLit_snoc]

/-! ### well-formed parts (model only) -/

theorem parseFormatType_wf (i : Nat) (rest : List Nat) (t c i' r')
    (h : parseFormatType i rest = .ok ((t, c), i', r')) : typeOfChar c = some t := by
  unfold parseFormatType at h
  split at h
  · cases h
  · split at h
    · cases h; assumption
    · cases h

theorem parseSpec_wf (i : Nat) (rest : List Nat) (spec i' r')
    (h : parseSpec i rest = .ok (spec, i', r')) : typeOfChar spec.fchar = some spec.ftype := by
  unfold parseSpec at h
  repeat' (split at h)
  all_goals (first | (cases h; done) | skip)
  cases h
  exact parseFormatType_wf _ _ _ _ _ _ (by assumption)

theorem parseLoop_wf (text : Bool) : ∀ (fuel : Nat) (rest : List Nat) (i : Nat) (lit : List Nat) (pi : Nat) (ps),
    parseLoop text fuel i rest lit pi = .ok ps → ∀ p ∈ ps, wfPart p.2 := by
  intro fuel
  induction fuel with
  | zero => intro rest i lit pi ps h; simp [parseLoop] at h
  | succ fuel ih =>
    intro rest i lit pi ps h
    cases rest with
    | nil =>
      simp only [parseLoop, flushLit] at h
      cases h
      cases lit <;> simp [wfPart]
    | cons c rest =>
      simp only [parseLoop] at h
      split at h
      · split at h
        · cases h
        · split at h
          · exact ih _ _ _ _ _ h
          · split at h
            · cases h
            · cases h
            · rename_i hsp
              split at h
              · cases h
              · split at h
                · rename_i hl
                  cases h
                  intro p hp
                  simp only [List.mem_append, List.mem_cons] at hp
                  rcases hp with hp | hp | hp
                  · simp only [flushLit] at hp
                    cases lit with
                    | nil => simp at hp
                    | cons a l => simp at hp; subst hp; simp [wfPart]
                  · subst hp; exact parseSpec_wf _ _ _ _ _ hsp
                  · exact ih _ _ _ _ _ hl p hp
                · cases h
                · cases h
      · exact ih _ _ _ _ _ h

/-! ### check_specifiers -/

theorem checkSpecifiersGo_pos : ∀ (ps : List (Nat × Part)) (count : Nat) (req : Bool), count ≠ 0 →
    checkSpecifiersGo ps count req =
      if (specKeyed ps).all (· == req) then some (count + (specKeyed ps).length, req) else none := by
  intro ps
  induction ps with
  | nil => intro count req _; simp [checkSpecifiersGo, specKeyed]
  | cons p ps ih =>
    intro count req hc
    obtain ⟨i, part⟩ := p
    cases part with
    | literal l => simp [checkSpecifiersGo, specKeyed, ih count req hc]
    | spec s =>
      simp only [checkSpecifiersGo, specKeyed, hc, if_false, List.all_cons, List.length_cons]
      by_cases hk : req = s.key.isSome
      · subst hk
        simp [ih (count + 1) _ (by omega)]
        split <;> simp; omega
      · have h1 : (req != s.key.isSome) = true := by simp [hk]
        have h2 : (s.key.isSome == req) = false := by
          cases req <;> cases hs : s.key.isSome <;> simp_all
        simp [h1, h2]

/-! ### text mode differs from bytes mode only by rejecting `b` -/

theorem validType_text (c : Nat) (h : c ≠ 98) : validType .text c = validType .bytes c := by
  have h1 : (c == 98) = false := by simp [h]
  simp [validType, h1]

theorem pyType_text (n : Nat) (cs : List Nat) :
    pyType .text n cs = pyType .bytes n cs ∨ ∃ i, pyType .text n cs = .err (.unsupported 98 i) := by
  cases cs with
  | nil => left; rfl
  | cons c r =>
    by_cases h : c = 98
    · subst h; right; exact ⟨n - (r.length + 1), by simp [pyType, validType]⟩
    · left; simp [pyType, validType_text c h]

theorem pyConv_text (n : Nat) (cs : List Nat) :
    pyConv .text n cs = pyConv .bytes n cs ∨ ∃ i, pyConv .text n cs = .err (.unsupported 98 i) := by
  unfold pyConv
  cases pyKey cs with
  | err e => left; rfl
  | ok r1 =>
    obtain ⟨key, r1⟩ := r1
    dsimp only
    cases pyQuantity isizeMax (r1.dropWhile isFlag) with
    | err e => left; rfl
    | ok r2 =>
      obtain ⟨w, r2⟩ := r2
      dsimp only
      cases pyPrecision r2 with
      | err e => left; rfl
      | ok r3 =>
        obtain ⟨p, r3⟩ := r3
        dsimp only
        rcases pyType_text n (pyLength r3) with h | ⟨i, h⟩
        · left; rw [h]
        · right; exact ⟨i, by rw [h]⟩

theorem pyItems_text (n : Nat) : ∀ (fuel : Nat) (cs : List Nat),
    pyItems .text n fuel cs = pyItems .bytes n fuel cs ∨
      ∃ i, pyItems .text n fuel cs = .err (.unsupported 98 i) := by
  intro fuel
  induction fuel using Nat.strongRecOn with
  | _ fuel ih =>
    intro cs
    cases cs with
    | nil => left; simp [pyItems]
    | cons c rest =>
      cases fuel with
      | zero => left; simp [pyItems]
      | succ fuel =>
        have ih' := ih fuel (Nat.lt_succ_self _)
        by_cases hc : c = 37
        · subst hc
          cases rest with
          | nil => left; simp [pyItems]
          | cons d rest' =>
            by_cases hd : d = 37
            · subst hd
              simp only [pyItems, if_true]
              rcases ih' rest' with h | ⟨i, h⟩
              · left; rw [h]
              · right; exact ⟨i, by rw [h]⟩
            · simp only [pyItems, if_true, hd, if_false]
              rcases pyConv_text n (d :: rest') with h | ⟨i, h⟩
              · rw [h]
                cases pyConv .bytes n (d :: rest') with
                | err e => left; rfl
                | ok r =>
                  obtain ⟨s, r'⟩ := r
                  dsimp only
                  rcases ih' r' with h | ⟨i, h⟩
                  · left; rw [h]
                  · right; exact ⟨i, by rw [h]⟩
              · right; exact ⟨i, by rw [h]⟩
        · simp only [pyItems, hc, if_false]
          rcases ih' rest with h | ⟨i, h⟩
          · left; rw [h]
          · right; exact ⟨i, by rw [h]⟩

theorem pySplit_text (t : List Nat) :
    pySplit .text t = pySplit .bytes t ∨ ∃ i, pySplit .text t = .err (.unsupported 98 i) := by
  unfold pySplit
  rcases pyItems_text t.length t.length t with h | ⟨i, h⟩
  · left; rw [h]
  · right; exact ⟨i, by rw [h]⟩

/-! ### padding -/

theorem fill_nonempty (left : Bool) (s : List Nat) (k fc : Nat) :
    (if !(List.replicate k fc).isEmpty then
        (if left then s ++ List.replicate k fc else List.replicate k fc ++ s) else s) =
      if left then s ++ List.replicate k fc else List.replicate k fc ++ s := by
  cases k <;> cases left <;> simp

theorem fillString_eq (spec : Spec) (s : List Nat) (fc : Nat) (np : Option Nat) :
    fillString spec s fc np =
      if spec.flags.left then s ++ List.replicate ((resolve spec.width).getD 0 - (s.length + np.getD 0)) fc
      else List.replicate ((resolve spec.width).getD 0 - (s.length + np.getD 0)) fc ++ s := by
  unfold fillString
  dsimp only
  rcases hw : spec.width with _ | (w | _)
  · simp only [resolve, Option.getD_none, Nat.sub_self, Nat.zero_sub]
    exact fill_nonempty _ _ 0 _
  · have e : max w (s.length + np.getD 0) - (s.length + np.getD 0) = w - (s.length + np.getD 0) := by omega
    simp only [resolve, Option.getD_some, e]
    exact fill_nonempty _ _ _ _
  · simp only [resolve, Option.getD_none, Nat.sub_self, Nat.zero_sub]
    exact fill_nonempty _ _ 0 _

theorem fillStringWithPrecision_eq (spec : Spec) (s : List Nat) (fc : Nat) :
    fillStringWithPrecision spec s fc =
      List.replicate ((resolve (toPyPrec spec.prec)).getD 0 - s.length) fc ++ s := by
  unfold fillStringWithPrecision
  dsimp only
  rcases hp : spec.prec with _ | ((w | _) | _)
  · simp [resolve, toPyPrec]
  · have e : max w s.length - s.length = w - s.length := by omega
    simp only [resolve, toPyPrec, Option.getD_some, e]
    cases w - s.length <;> simp
  · simp [resolve, toPyPrec]
  · simp [resolve, toPyPrec]

theorem padSigned_eq (spec : Spec) (sp body : List Nat) :
    padSigned spec sp body = pyLayout spec.flags (resolve spec.width) sp body := by
  unfold padSigned pyLayout
  simp only [fillString_eq, spaces, zeros]
  cases hz : spec.flags.zero <;> cases hl : spec.flags.left <;>
    simp [List.length_append, Nat.add_comm, List.append_assoc]

theorem take_min (b : List Nat) (p : Nat) : b.take (min b.length p) = b.take p := by
  by_cases h : b.length ≤ p
  · rw [Nat.min_eq_left h, List.take_of_length_le h, List.take_of_length_le (Nat.le_refl _)]
  · rw [Nat.min_eq_right (by omega)]

/-! ### floats -/

theorem toRadixGo_ne_nil : ∀ (fuel b n : Nat) (up : Bool) (acc : List Nat),
    (fuel ≠ 0 ∨ acc ≠ []) → toRadixGo fuel b n up acc ≠ [] := by
  intro fuel
  induction fuel with
  | zero => intro b n up acc h; simp [toRadixGo]; rcases h with h | h; exact absurd rfl h; exact h
  | succ fuel ih =>
    intro b n up acc _
    unfold toRadixGo
    split
    · simp
    · exact ih _ _ _ _ (Or.inr (by simp))

theorem toRadix_ne_nil (b n : Nat) (up : Bool) : toRadix b n up ≠ [] :=
  toRadixGo_ne_nil _ _ _ _ _ (Or.inl (by omega))

theorem expText_eq (e : Int) : expText e = pyExpText e := by
  unfold expText pyExpText
  have h := toRadix_ne_nil 10 e.natAbs false
  generalize toRadix 10 e.natAbs false = ds at h
  cases ds with
  | nil => exact absurd rfl h
  | cons d ds =>
    cases ds with
    | nil => by_cases he : e < 0 <;> simp [he, zeros]
    | cons d' ds =>
      have : 2 - (d :: d' :: ds).length = 0 := by simp
      by_cases he : e < 0 <;> simp [he, zeros]

theorem removeRedundant_false (s : List Nat) : removeRedundant s false = trimFraction s := by
  unfold removeRedundant trimFraction dropTrailing stripZeros
  simp only [Bool.not_false, Bool.true_and]
  split
  · split <;> simp_all
  · rfl

theorem removeRedundant_true (s : List Nat) : removeRedundant s true = s := by
  simp [removeRedundant]

theorem expField_abs (bits : Nat) : PV.Dec.expField (bits % 2 ^ 63) = PV.Dec.expField bits := by
  unfold PV.Dec.expField
  omega

theorem fracField_abs (bits : Nat) : PV.Dec.fracField (bits % 2 ^ 63) = PV.Dec.fracField bits := by
  unfold PV.Dec.fracField
  omega

theorem isNan_abs (bits : Nat) : PV.Dec.isNan (bits % 2 ^ 63) = PV.Dec.isNan bits := by
  simp only [PV.Dec.isNan, expField_abs, fracField_abs]

theorem isInf_abs (bits : Nat) : PV.Dec.isInf (bits % 2 ^ 63) = PV.Dec.isInf bits := by
  simp only [PV.Dec.isInf, expField_abs, fracField_abs]

/-- `num.abs()` clears the sign bit -/
theorem isNeg_abs (bits : Nat) : PV.Dec.isNeg (bits % 2 ^ 63) = false := by
  unfold PV.Dec.isNeg
  have : bits % 2 ^ 63 / 2 ^ 63 = 0 := Nat.div_eq_of_lt (Nat.mod_lt _ (by omega))
  simp [this]

theorem finite_of_not_special {b : Nat} (h1 : PV.Dec.isNan b = false) (h2 : PV.Dec.isInf b = false) :
    PV.Dec.isFinite b = true := by
  unfold PV.Dec.isNan at h1
  unfold PV.Dec.isInf at h2
  unfold PV.Dec.isFinite
  by_cases he : PV.Dec.expField b = 2047
  · by_cases hf : PV.Dec.fracField b = 0 <;> simp_all
  · simpa using he

/-- the clamped `{:.digits$}{zeros}` is `{:.precision$}` (`PV.C17.fixedClamped_eq`: a double has no
    non-zero digit beyond the 1074th decimal) -/
theorem rustFixed_eq (bits p : Nat) (hf : PV.Dec.isFinite bits = true) :
    rustFixed bits p = PV.Dec.toFixedL bits p :=
  PV.C17.fixedClamped_eq bits p hf

/-- the clamped `{:.digits$e}` with the zeros appended is `{:.precision$e}` (`PV.C17.toExpL_clamp`) -/
theorem rustExp_eq (bits p : Nat) :
    PV.Dec.toExpL bits p = ((rustExp bits p).1 ++ zerosBeyond p, (rustExp bits p).2) :=
  PV.C17.toExpL_clamp bits p

/-- the three `float.rs` helpers on a finite non-negative double are the C `printf` reference on the
    same correctly rounded digits (`PV.Dec`) — for every precision -/
theorem floatText_eq (k : FloatKind) (up alt : Bool) (prec mag : Nat)
    (hnan : PV.Dec.isNan mag = false) (hinf : PV.Dec.isInf mag = false) (hs : PV.Dec.isNeg mag = false) :
    (match k with
      | .fix => formatFixed prec mag up alt
      | .exp => formatExponent prec mag up alt
      | .gen => formatGeneral (if prec = 0 then 1 else prec) mag up alt) =
      pyFloatBody k up alt prec mag := by
  have hf := finite_of_not_special hnan hinf
  cases k
  · -- exp
    simp only [formatExponent, hnan, hinf, pyFloatBody, sci, rustExp_eq mag prec]
    simp [decimalPointOrEmpty, expText_eq]
  · -- fix
    simp [formatFixed, rustFixed_eq _ _ hf, hnan, hinf, pyFloatBody, decimalPointOrEmpty]
  · -- gen
    generalize hP : (if prec = 0 then 1 else prec) = P
    have hP1 : 1 ≤ P := by subst hP; split <;> omega
    have hmax : max P 1 = P := Nat.max_eq_left hP1
    simp only [formatGeneral, hmax, hnan, hinf, pyFloatBody, sci, hP, rustExp_eq mag (P - 1)]
    simp only [Bool.false_eq_true, if_false]
    have hlen := PV.C17.toExpL_length mag (min (P - 1) maxFloatDigits) hs
    change (rustExp mag (P - 1)).1.length = _ at hlen
    generalize rustExp mag (P - 1) = mx at hlen ⊢
    obtain ⟨m, x⟩ := mx
    simp only at hlen ⊢
    have htake : m.take (min (P - 1) maxFloatDigits + 2) = m :=
      List.take_of_length_le (by rw [hlen]; split <;> omega)
    by_cases hc : x < -4 ∨ x ≥ (P : Int)
    · simp only [hc, if_true, htake, expText_eq]
      cases alt
      · simp [removeRedundant_false, decimalPointOrEmpty]
      · have : (P - 1 = 0) = (P = 1) := by apply propext; omega
        simp [removeRedundant_true, decimalPointOrEmpty, this]
    · simp only [hc, if_false, formatFixed, hnan, hinf, Bool.false_eq_true, rustFixed_eq _ _ hf]
      cases alt
      · simp [removeRedundant_false, decimalPointOrEmpty]
      · simp [removeRedundant_true, decimalPointOrEmpty]

/-- The digit text of a float conversion equals the C `printf` reference on the same correctly
    rounded digits (`PV.Dec`) — for every precision: the digit clamp of `float.rs` is exact, and the
    `{:.*}` truncation of the `%g` mantissa never cuts (`PV.C17.toExpL_length`). -/
theorem floatBody_eq (spec : Spec) (bits : Nat) (k : FloatKind) (up : Bool)
    (ht : spec.ftype = .float k up)
    (hfin : PV.Dec.isNan (bits % 2 ^ 63) = false ∧ PV.Dec.isInf (bits % 2 ^ 63) = false) :
    floatBody spec bits =
      some (pyFloatBody k up spec.flags.alt (floatPrecision spec) (bits % 2 ^ 63)) := by
  obtain ⟨hnan, hinf⟩ := hfin
  have key := floatText_eq k up spec.flags.alt (floatPrecision spec) (bits % 2 ^ 63) hnan hinf (isNeg_abs bits)
  unfold floatBody
  rw [ht]
  cases k <;> exact congrArg some key

theorem floatPrecision_eq (spec : Spec) :
    floatPrecision spec = (resolve (toPyPrec spec.prec)).getD 6 := by
  unfold floatPrecision
  rcases spec.prec with _ | ((p | _) | _) <;> simp [resolve, toPyPrec]

theorem floatBody_nonfinite (spec : Spec) (bits : Nat) (k : FloatKind) (up : Bool)
    (ht : spec.ftype = .float k up)
    (h : PV.Dec.isNan (bits % 2 ^ 63) = true ∨ PV.Dec.isInf (bits % 2 ^ 63) = true) :
    floatBody spec bits =
      some (if PV.Dec.isNan (bits % 2 ^ 63) then nanText up else infText up) := by
  simp only [floatBody, ht]
  cases k <;> simp only [formatExponent, formatFixed, formatGeneral] <;>
    rcases h with h | h <;> simp [h]

end PV.C19
