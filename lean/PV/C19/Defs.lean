import PV.C19.Model
import PV.C19.Spec
/-
  C19 — vocabulary of the property theorems: how a model result is read in reference terms, and
  the decidable domain predicate (a length bound).
-/
namespace PV.C19
open Spec

/-! ### reading model results in reference terms -/

/-- Python has no separate "lone dot": `%.d` is precision 0 -/
def toPyPrec : Option Precision → Option Quantity
  | none => none
  | some .dot => some (.amount 0)
  | some (.quantity q) => some q

/-- the conversion specifier Python would record (the conversion character determines the type:
    every parsed spec satisfies `typeOfChar fchar = some ftype`, see `wfPart`) -/
def toPyConv (s : Spec) : PyConv :=
  { key := s.key, flags := s.flags, width := s.width, prec := toPyPrec s.prec, type := s.fchar }

/-- model error ↦ reference error; only `unsupported` keeps its index (CPython reports no index for
    the others) -/
def toPyErr : ErrKind → Nat → PyErr
  | .unmatchedKey, _ => .incompleteKey
  | .incomplete, _ => .incomplete
  | .unsupported c, i => .unsupported c i
  | .intTooBig, _ => .tooBig
  | .missingModulo, _ => .incomplete

def toPiece : Part → Piece
  | .literal l => .lit l
  | .spec s => .conv (toPyConv s)

/-- a model split read as a reference split: part indices dropped; a panic has no counterpart -/
def erase : Res (List (Nat × Part)) → Option (PyRes (List Piece))
  | .ok ps => some (.ok (ps.map fun p => toPiece p.2))
  | .err k i => some (.err (toPyErr k i))
  | .panic => none

/-- a quantity the caller has resolved; `*` (left to the caller by the library) counts as absent -/
def resolve : Option Quantity → Option Nat
  | some (.amount n) => some n
  | _ => none

/-! ### domains -/

/-- Templates on which the splitter is claimed to equal Python's: shorter than `i32::MAX` characters
    (the parenthesis counter of the mapping-key scanner is an `i32`).  Nothing else is excluded: since
    4850e50 widths are read as `isize` and precisions checked against `i32::MAX`, as CPython does. -/
def InDomain (t : List Nat) : Prop := t.length < i32Max

instance (t : List Nat) : Decidable (InDomain t) := by unfold InDomain; exact inferInstance

/-- a parsed part is well formed: literals are non-empty, the type of a spec is the one its
    conversion character stands for -/
def wfPart : Part → Prop
  | .literal l => l ≠ []
  | .spec s => typeOfChar s.fchar = some s.ftype

/-- for each specifier of a split template, whether it has a mapping key -/
def specKeyed : List (Nat × Part) → List Bool
  | [] => []
  | (_, .literal _) :: ps => specKeyed ps
  | (_, .spec s) :: ps => s.key.isSome :: specKeyed ps

end PV.C19
