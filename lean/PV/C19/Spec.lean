import PV.C19.Types
import PV.C17.Dec
/-
  C19 — reference: what CPython 3.11 does with `template % values`
  (Objects/unicodeobject.c `PyUnicode_Format`, Objects/bytesobject.c `_PyBytes_FormatEx`),
  written from the language reference and the observable behaviour of `%`, not from the Rust
  control flow: a conversion specifier is described with `takeWhile`/`dropWhile` over the text
  after the `%`, not with an index-carrying iterator.

      %  [(key)]  [flags]*  [width | *]  [. [precision | *]]  [h | l | L]  type

  This file is validated against the `%` operator of the sandbox's CPython on every run
  (`tools/props/c19.py`, spec-validation streams).
-/
namespace PV.C19.Spec
open PV.C19

/-! ## splitting a template -/

/-- the errors `%` raises while reading a template (`ValueError`); only `unsupported` carries an
    index in CPython's message -/
inductive PyErr where
  | incompleteKey                         -- "incomplete format key"
  | incomplete                            -- "incomplete format"
  | unsupported (c : Nat) (index : Nat)   -- "unsupported format character 'c' (0x..) at index n"
  | tooBig                                -- "width too big" / "precision too big"
deriving DecidableEq, Repr

inductive PyRes (α : Type) where
  | ok (a : α)
  | err (e : PyErr)
deriving DecidableEq, Repr

/-- a conversion specifier as Python understands it.  A lone `.` is precision 0. -/
structure PyConv where
  key : Option (List Nat)
  flags : Flags
  width : Option Quantity
  prec : Option Quantity
  type : Nat
deriving DecidableEq, Repr

/-- offset of the `)` closing a mapping key, `d` = parentheses opened inside the key so far -/
def closeAt : Nat → List Nat → Option Nat
  | _, [] => none
  | d, c :: cs =>
    if c = 41 then (if d = 0 then some 0 else (closeAt (d - 1) cs).map (· + 1))
    else if c = 40 then (closeAt (d + 1) cs).map (· + 1)
    else (closeAt d cs).map (· + 1)

/-- the set of flags a run of flag characters stands for (order and repetition do not matter) -/
def flagsOf (cs : List Nat) : Flags :=
  { alt := cs.contains 35, zero := cs.contains 48, left := cs.contains 45,
    blank := cs.contains 32, sign := cs.contains 43 }

/-- value of a run of decimal digit characters -/
def digitsValue (cs : List Nat) : Nat := cs.foldl (fun a c => 10 * a + (c - 48)) 0

/-- `*`, or a maximal run of digits (at most `limit`), or nothing -/
def pyQuantity (limit : Nat) (cs : List Nat) : PyRes (Option Quantity × List Nat) :=
  match cs with
  | 42 :: rest => .ok (some .star, rest)
  | _ =>
    let ds := cs.takeWhile isDigit
    if ds.isEmpty then .ok (none, cs)
    else if digitsValue ds > limit then .err .tooBig
    else .ok (some (.amount (digitsValue ds)), cs.dropWhile isDigit)

/-- conversion types of `str % …`: `d i u o x X e E f F g G c r s a`; `bytes % …` also has `b` -/
def validType (m : Mode) (c : Nat) : Bool :=
  [100, 105, 117, 111, 120, 88, 101, 69, 102, 70, 103, 71, 99, 114, 115, 97].contains c ||
  (m == .bytes && c == 98)

/-- optional mapping key `(…)` with balanced inner parentheses -/
def pyKey (cs : List Nat) : PyRes (Option (List Nat) × List Nat) :=
  match cs with
  | 40 :: r =>
    match closeAt 0 r with
    | none => .err .incompleteKey
    | some k => .ok (some (r.take k), r.drop (k + 1))
  | _ => .ok (none, cs)

/-- optional `.` with an optional quantity (an `int`); a lone `.` is precision 0 -/
def pyPrecision (cs : List Nat) : PyRes (Option Quantity × List Nat) :=
  match cs with
  | 46 :: r =>
    match pyQuantity i32Max r with
    | .err e => .err e
    | .ok (q, r) => .ok (some (q.getD (.amount 0)), r)
  | _ => .ok (none, cs)

/-- optional length modifier `h`, `l` or `L`, ignored -/
def pyLength (cs : List Nat) : List Nat :=
  match cs with
  | c :: r => if isLength c then r else c :: r
  | [] => []

/-- the conversion type; `n` is the length of the whole template (the index of a character is `n`
    minus the length of the text from it on) -/
def pyType (m : Mode) (n : Nat) (cs : List Nat) : PyRes (Nat × List Nat) :=
  match cs with
  | [] => .err .incomplete
  | c :: r => if validType m c then .ok (c, r) else .err (.unsupported c (n - (c :: r).length))

/-- One conversion specifier; `cs` is the template after the `%`. -/
def pyConv (m : Mode) (n : Nat) (cs : List Nat) : PyRes (PyConv × List Nat) :=
  match pyKey cs with
  | .err e => .err e
  | .ok (key, cs) =>
    let flags := flagsOf (cs.takeWhile isFlag)
    -- width is a `Py_ssize_t`
    match pyQuantity isizeMax (cs.dropWhile isFlag) with
    | .err e => .err e
    | .ok (width, cs) =>
      match pyPrecision cs with
      | .err e => .err e
      | .ok (prec, cs) =>
        match pyType m n (pyLength cs) with
        | .err e => .err e
        | .ok (c, r) => .ok ({ key, flags, width, prec, type := c }, r)

/-- what a template is made of, character by character -/
inductive Item where
  | ch (c : Nat)            -- a literal character (`%%` gives one `%`)
  | conv (s : PyConv)
deriving DecidableEq, Repr

/-- read a template of length `n` from left to right (`fuel ≥ length` suffices) -/
def pyItems (m : Mode) (n : Nat) : Nat → List Nat → PyRes (List Item)
  | _, [] => .ok []
  | 0, _ :: _ => .ok []
  | fuel + 1, c :: rest =>
    if c = 37 then
      match rest with
      | [] => .err .incomplete
      | d :: rest' =>
        if d = 37 then
          match pyItems m n fuel rest' with
          | .ok is => .ok (.ch 37 :: is)
          | .err e => .err e
        else
          match pyConv m n (d :: rest') with
          | .err e => .err e
          | .ok (s, rest'') =>
            match pyItems m n fuel rest'' with
            | .ok is => .ok (.conv s :: is)
            | .err e => .err e
    else
      match pyItems m n fuel rest with
      | .ok is => .ok (.ch c :: is)
      | .err e => .err e

/-- a piece of a split template: a maximal run of literal characters, or a conversion -/
inductive Piece where
  | lit (s : List Nat)
  | conv (s : PyConv)
deriving DecidableEq, Repr

/-- gather maximal runs of literal characters -/
def group : List Item → List Piece
  | [] => []
  | .conv s :: r => .conv s :: group r
  | .ch c :: r =>
    match group r with
    | .lit l :: g => .lit (c :: l) :: g
    | g => .lit [c] :: g

/-- Python's split of a template into literal pieces and conversion specifiers -/
def pySplit (m : Mode) (t : List Nat) : PyRes (List Piece) :=
  match pyItems m t.length t.length t with
  | .ok is => .ok (group is)
  | .err e => .err e

/-! ## formatting one value -/

def spaces (n : Nat) : List Nat := List.replicate n 32
def zeros (n : Nat) : List Nat := List.replicate n 48

/-- Layout of a signed numeric text in a field: `-` wins over `0`; zero padding goes between
    sign/prefix and the digits; otherwise spaces on the left. -/
def pyLayout (f : Flags) (width : Option Nat) (signPrefix body : List Nat) : List Nat :=
  let pad := width.getD 0 - (signPrefix.length + body.length)
  if f.left then signPrefix ++ body ++ spaces pad
  else if f.zero then signPrefix ++ zeros pad ++ body
  else spaces pad ++ signPrefix ++ body

/-- the sign Python prints for a numeric conversion -/
def pySign (f : Flags) (negative : Bool) : List Nat :=
  if negative then [45] else if f.sign then [43] else if f.blank then [32] else []

/-- `%d %i %u %o %x %X` of an integer: precision is the minimum number of digits, `#` adds
    `0o`/`0x`/`0X` -/
def pyFormatInt (f : Flags) (width prec : Option Nat) (t : NumType) (n : Int) : List Nat :=
  let digits := match t with
    | .dec => toRadix 10 n.natAbs false
    | .oct => toRadix 8 n.natAbs false
    | .hexL => toRadix 16 n.natAbs false
    | .hexU => toRadix 16 n.natAbs true
  let body := zeros (prec.getD 0 - digits.length) ++ digits
  let pre := if f.alt then
      (match t with | .dec => [] | .oct => [48, 111] | .hexL => [48, 120] | .hexU => [48, 88])
    else []
  pyLayout f width (pySign f (n < 0) ++ pre) body

/-- `%s %r %a` of text (already converted by `str`/`repr`/`ascii`): precision truncates by
    characters, padding with spaces, flags other than `-` are ignored -/
def pyFormatStr (f : Flags) (width prec : Option Nat) (s : List Nat) : List Nat :=
  let s := match prec with
    | some p => s.take p
    | none => s
  if f.left then s ++ spaces (width.getD 0 - s.length) else spaces (width.getD 0 - s.length) ++ s

/-- `%c`: the precision is ignored -/
def pyFormatChar (f : Flags) (width : Option Nat) (c : Nat) : List Nat := pyFormatStr f width none [c]

/-- `%s %b` of a bytes object in a bytes template: the same on bytes -/
def pyFormatBytes (f : Flags) (width prec : Option Nat) (b : List Nat) : List Nat :=
  pyFormatStr f width prec b

/-! ### floats: C `printf` `%e %f %g` on correctly rounded decimal digits (`PV.Dec`) -/

def stripZeros (s : List Nat) : List Nat := (s.reverse.dropWhile (· == 48)).reverse

/-- two-digit-minimum signed exponent -/
def pyExpText (e : Int) : List Nat :=
  let ds := toRadix 10 e.natAbs false
  (if e < 0 then [45] else [43]) ++ zeros (2 - ds.length) ++ ds

/-- mantissa text `d.ddd` (with `p` fraction digits) and decimal exponent of `|x|` rounded to
    `p + 1` significant digits -/
def sci (bits p : Nat) : List Nat × Int := PV.Dec.toExpL bits p

/-- remove trailing zeros of the fraction and a then trailing point (`%g` without `#`) -/
def trimFraction (s : List Nat) : List Nat :=
  if s.contains 46 then
    let s := stripZeros s
    if s.getLast? = some 46 then s.dropLast else s
  else s

/-- digits of `|x|` (`bits` with the sign bit cleared, finite) for one float conversion -/
def pyFloatBody (k : FloatKind) (upper alt : Bool) (prec : Nat) (bits : Nat) : List Nat :=
  let e := if upper then 69 else 101
  match k with
  | .fix => PV.Dec.toFixedL bits prec ++ (if prec = 0 ∧ alt then [46] else [])
  | .exp =>
    let (m, x) := sci bits prec
    m ++ (if prec = 0 ∧ alt then [46] else []) ++ [e] ++ pyExpText x
  | .gen =>
    -- C: P = precision (0 → 1); X = exponent of the `%e` conversion with P-1 digits;
    -- if P > X ≥ -4 use `%f` with precision P-1-X, else `%e` with precision P-1;
    -- without `#`, trailing zeros (and a trailing point) are removed.
    let P := if prec = 0 then 1 else prec
    let (m, x) := sci bits (P - 1)
    if x < -4 ∨ x ≥ (P : Int) then
      let m := if alt then m ++ (if P = 1 then [46] else []) else trimFraction m
      m ++ [e] ++ pyExpText x
    else
      let q := ((P : Int) - 1 - x).toNat
      let t := PV.Dec.toFixedL bits q
      if alt then t ++ (if q = 0 then [46] else []) else trimFraction t

/-- `%e %E %f %F %g %G` of a double given by its bit pattern; default precision 6 -/
def pyFormatFloat (f : Flags) (width prec : Option Nat) (k : FloatKind) (upper : Bool) (bits : Nat) :
    List Nat :=
  let nan := PV.Dec.isNan bits
  let mag := bits % 2 ^ 63
  let body :=
    if nan then (if upper then [78, 65, 78] else [110, 97, 110])
    else if PV.Dec.isInf bits then (if upper then [73, 78, 70] else [105, 110, 102])
    else pyFloatBody k upper f.alt (prec.getD 6) mag
  pyLayout f width (pySign f (PV.Dec.isNeg bits && !nan)) body

end PV.C19.Spec
