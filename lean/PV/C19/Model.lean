import PV.C19.Types
import PV.C17.Model
/-
  C19 — executable model of `format/src/cformat.rs` (printf-style templates).

    CFormatSpec::parse, parse_spec_mapping_key, parse_text_inside_parentheses, parse_flags,
    parse_quantity, parse_precision, consume_length, parse_format_type, CFormatSpec::from_str,
    CFormatString::parse / CFormatBytes::parse (one body, two element types), check_specifiers,
    fill_string, fill_string_with_precision, format_string_with_precision, format_string,
    format_char, format_bytes, format_number, format_float,
  and the helpers of `literal/src/float.rs` that `format_float` calls
    (format_fixed, format_exponent, format_general, maybe_remove_trailing_redundant_chars).

  The Rust parsers walk a `Peekable<Enumerate<I>>`; here that iterator is the pair
  `(i, rest)`: the not yet consumed elements and the index of the first of them.
  Text is a list of scalar values, so `chars().count()` is `List.length`.

  Every Rust panic is a value: `Res.panic` in the parser (`i32` overflow of the parenthesis
  counter), `none` in the formatters (`unreachable!()` on a conversion type the caller must not
  pass).  A `format!` precision above `u16::MAX` used to be one more (panic in `float.rs`); the
  repaired helpers clamp the digits they ask of `format!` and are total.
  `format_bytes` is modelled as repaired by /repo commit 86620af (no panic path left).
  Core Lean only.
-/
namespace PV.C19

/-! ## data -/

/-- `CFormatErrorType` -/
inductive ErrKind where
  | unmatchedKey            -- UnmatchedKeyParentheses
  | missingModulo           -- MissingModuloSign
  | unsupported (c : Nat)   -- UnsupportedFormatChar(c)
  | incomplete              -- IncompleteFormat
  | intTooBig               -- IntTooBig
deriving DecidableEq, Repr

/-- `Result<_, (CFormatErrorType, usize)>`, plus the panic outcome -/
inductive Res (α : Type) where
  | ok (a : α)
  | err (k : ErrKind) (i : Nat)
  | panic
deriving DecidableEq, Repr

/-- `CFormatPrecision` -/
inductive Precision where
  | quantity (q : Quantity)
  | dot
deriving DecidableEq, Repr

/-- `CFormatSpec` -/
structure Spec where
  key : Option (List Nat)
  flags : Flags
  width : Option Quantity
  prec : Option Precision
  ftype : FType
  fchar : Nat
deriving DecidableEq, Repr

/-- `CFormatPart` -/
inductive Part where
  | literal (s : List Nat)
  | spec (s : Spec)
deriving DecidableEq, Repr

/-! ## specifier parser -/

/-- outcome of `parse_text_inside_parentheses` -/
inductive KeyScan where
  | found (key : List Nat) (i : Nat) (rest : List Nat)
  | exhausted               -- `iter.next()?` ran off the end: `None`
  | overflow                -- `counter += 1` on `i32::MAX` (panics with overflow checks)
deriving DecidableEq, Repr

/-- `parse_text_inside_parentheses`: `counter` open parentheses, `acc` the reversed key so far. -/
def parseParens : Nat → Nat → List Nat → List Nat → KeyScan
  | _, _, [], _ => .exhausted
  | counter, i, c :: rest, acc =>
    if c = 40 ∧ counter = i32Max then .overflow else
    let counter' := if c = 40 then counter + 1 else if c = 41 then counter - 1 else counter
    if counter' > 0 then parseParens counter' (i + 1) rest (c :: acc)
    else .found acc.reverse (i + 1) rest

/-- `parse_spec_mapping_key` -/
def parseMappingKey (i : Nat) (rest : List Nat) : Res (Option (List Nat) × Nat × List Nat) :=
  match rest with
  | 40 :: rest' =>
    match parseParens 1 (i + 1) rest' [] with
    | .found key i' r => .ok (some key, i', r)
    | .exhausted => .err .unmatchedKey i
    | .overflow => .panic
  | _ => .ok (none, i, rest)

/-- the flag a character stands for -/
def addFlag (f : Flags) (c : Nat) : Option Flags :=
  if c = 35 then some { f with alt := true }
  else if c = 48 then some { f with zero := true }
  else if c = 45 then some { f with left := true }
  else if c = 32 then some { f with blank := true }
  else if c = 43 then some { f with sign := true }
  else none

/-- `parse_flags` -/
def parseFlags : Flags → Nat → List Nat → Flags × Nat × List Nat
  | f, i, [] => (f, i, [])
  | f, i, c :: rest =>
    match addFlag f c with
    | some f' => parseFlags f' (i + 1) rest
    | none => (f, i, c :: rest)

/-- the `while let` loop of `parse_quantity` (`isize` accumulator with checked arithmetic — CPython
    keeps the width in a `Py_ssize_t`; an `i32` before 4850e50) -/
def parseDigits : Nat → Nat → List Nat → Res (Nat × Nat × List Nat)
  | num, i, [] => .ok (num, i, [])
  | num, i, c :: rest =>
    if isDigit c then
      if num * 10 + (c - 48) > isizeMax then .err .intTooBig i
      else parseDigits (num * 10 + (c - 48)) (i + 1) rest
    else .ok (num, i, c :: rest)

/-- `parse_quantity` -/
def parseQuantity (i : Nat) (rest : List Nat) : Res (Option Quantity × Nat × List Nat) :=
  match rest with
  | [] => .ok (none, i, [])
  | c :: rest' =>
    if c = 42 then .ok (some .star, i + 1, rest')
    else if isDigit c then
      match parseDigits (c - 48) (i + 1) rest' with
      | .ok (n, i', r) => .ok (some (.amount n), i', r)
      | .err k j => .err k j
      | .panic => .panic
    else .ok (none, i, rest)

/-- `parse_precision` (4850e50: the precision is a C `int` in CPython — `IntTooBig` at the index of
    the `.` above `i32::MAX`) -/
def parsePrecision (i : Nat) (rest : List Nat) : Res (Option Precision × Nat × List Nat) :=
  match rest with
  | 46 :: rest' =>
    match parseQuantity (i + 1) rest' with
    | .ok (some (.amount a), i', r) =>
      if a > i32Max then .err .intTooBig i else .ok (some (.quantity (.amount a)), i', r)
    | .ok (some q, i', r) => .ok (some (.quantity q), i', r)
    | .ok (none, i', r) => .ok (some .dot, i', r)
    | .err k j => .err k j
    | .panic => .panic
  | _ => .ok (none, i, rest)

/-- `consume_length` -/
def consumeLength (i : Nat) (rest : List Nat) : Nat × List Nat :=
  match rest with
  | c :: rest' => if isLength c then (i + 1, rest') else (i, rest)
  | [] => (i, rest)

/-- the `match c` table of `parse_format_type` -/
def typeOfChar (c : Nat) : Option FType :=
  if c = 100 ∨ c = 105 ∨ c = 117 then some (.number .dec)      -- d i u
  else if c = 111 then some (.number .oct)                      -- o
  else if c = 120 then some (.number .hexL)                     -- x
  else if c = 88 then some (.number .hexU)                      -- X
  else if c = 101 then some (.float .exp false)                 -- e
  else if c = 69 then some (.float .exp true)                   -- E
  else if c = 102 then some (.float .fix false)                 -- f
  else if c = 70 then some (.float .fix true)                   -- F
  else if c = 103 then some (.float .gen false)                 -- g
  else if c = 71 then some (.float .gen true)                   -- G
  else if c = 99 then some .char                                -- c
  else if c = 114 then some (.string .repr)                     -- r
  else if c = 115 then some (.string .str)                      -- s
  else if c = 98 then some (.string .bytes)                     -- b
  else if c = 97 then some (.string .ascii)                     -- a
  else none

/-- `parse_format_type`; at the end of input the reported index is `0`
    (`iter.peek()` of an exhausted iterator is `None`). -/
def parseFormatType (i : Nat) (rest : List Nat) : Res ((FType × Nat) × Nat × List Nat) :=
  match rest with
  | [] => .err .incomplete 0
  | c :: rest' =>
    match typeOfChar c with
    | some t => .ok ((t, c), i + 1, rest')
    | none => .err (.unsupported c) i

/-- `CFormatSpec::parse`, started after the `%` -/
def parseSpec (i : Nat) (rest : List Nat) : Res (Spec × Nat × List Nat) :=
  match parseMappingKey i rest with
  | .err k j => .err k j
  | .panic => .panic
  | .ok (key, i, rest) =>
    match parseFlags {} i rest with
    | (flags, i, rest) =>
      match parseQuantity i rest with
      | .err k j => .err k j
      | .panic => .panic
      | .ok (width, i, rest) =>
        match parsePrecision i rest with
        | .err k j => .err k j
        | .panic => .panic
        | .ok (prec, i, rest) =>
          match consumeLength i rest with
          | (i, rest) =>
            match parseFormatType i rest with
            | .err k j => .err k j
            | .panic => .panic
            | .ok ((ftype, fchar), i, rest) =>
              .ok ({ key, flags, width, prec, ftype, fchar }, i, rest)

/-- `CFormatSpec::from_str` (text after the specifier is ignored) -/
def specFromStr (text : List Nat) : Res Spec :=
  match text with
  | 37 :: rest =>
    match parseSpec 1 rest with
    | .ok (s, _, _) => .ok s
    | .err k j => .err k j
    | .panic => .panic
  | _ => .err .missingModulo 1

/-! ## template splitter -/

/-- `if !literal.is_empty() { parts.push((part_index, Literal(take(literal)))) }` -/
def flushLit (partIndex : Nat) (lit : List Nat) : List (Nat × Part) :=
  if lit.isEmpty then [] else [(partIndex, .literal lit)]

/-- The `while let Some((index, c)) = iter.next()` loop of `CFormatString::parse` /
    `CFormatBytes::parse` (they differ in one point: the text parser rejects the conversion `b`).
    `lit` is the pending literal, `partIndex` its recorded index.
    Every round consumes at least one element, so `fuel = length + 1` is never exhausted
    (`Lemmas.parseLoop_fuel`); running out of fuel is reported as `panic` to keep it visible. -/
def parseLoop (text : Bool) : Nat → Nat → List Nat → List Nat → Nat → Res (List (Nat × Part))
  | 0, _, _, _, _ => .panic
  | _ + 1, _, [], lit, partIndex => .ok (flushLit partIndex lit)
  | fuel + 1, i, c :: rest, lit, partIndex =>
    if c = 37 then
      match rest with
      | [] => .err .incomplete (i + 1)
      | d :: rest' =>
        if d = 37 then parseLoop text fuel (i + 2) rest' (lit ++ [37]) partIndex
        else
          match parseSpec (i + 1) (d :: rest') with
          | .err k j => .err k j
          | .panic => .panic
          | .ok (spec, i', rest'') =>
            -- d7ac332: `%b` is a conversion of bytes templates only; `CFormatString::parse` rejects it
            -- with the index of the type character (the last element the spec consumed)
            if text ∧ spec.fchar = 98 then .err (.unsupported 98) (i' - 1) else
            let partIndex' := if rest''.isEmpty then partIndex else i'
            match parseLoop text fuel i' rest'' [] partIndex' with
            | .ok ps => .ok (flushLit partIndex lit ++ (i, .spec spec) :: ps)
            | .err k j => .err k j
            | .panic => .panic
    else parseLoop text fuel (i + 1) rest (lit ++ [c]) partIndex

/-- `CFormatString::from_str` (`text = true`, scalar values) and `CFormatBytes::parse_from_bytes`
    (`text = false`, bytes) -/
def parseTemplate (text : Bool) (t : List Nat) : Res (List (Nat × Part)) :=
  parseLoop text (t.length + 1) 0 t [] 0

/-- `check_specifiers`: `(number of specifiers, mapping required)`, `none` when keyed and unkeyed
    specifiers are mixed -/
def checkSpecifiersGo : List (Nat × Part) → Nat → Bool → Option (Nat × Bool)
  | [], count, req => some (count, req)
  | (_, .literal _) :: ps, count, req => checkSpecifiersGo ps count req
  | (_, .spec s) :: ps, count, req =>
    let hasKey := s.key.isSome
    if count = 0 then checkSpecifiersGo ps (count + 1) hasKey
    else if req != hasKey then none
    else checkSpecifiersGo ps (count + 1) req

def checkSpecifiers (ps : List (Nat × Part)) : Option (Nat × Bool) := checkSpecifiersGo ps 0 false

/-! ## padding helpers -/

/-- `CConversionFlags::sign_string` -/
def signString (f : Flags) : List Nat := if f.sign then [43] else if f.blank then [32] else []

/-- `fill_string` -/
def fillString (spec : Spec) (s : List Nat) (fillChar : Nat) (numPrefix : Option Nat) : List Nat :=
  let numChars := s.length + numPrefix.getD 0
  let width := match spec.width with
    | some (.amount w) => max w numChars
    | _ => numChars
  let fill := List.replicate (width - numChars) fillChar
  if !fill.isEmpty then
    if spec.flags.left then s ++ fill else fill ++ s
  else s

/-- `fill_string_with_precision` -/
def fillStringWithPrecision (spec : Spec) (s : List Nat) (fillChar : Nat) : List Nat :=
  let numChars := s.length
  let width := match spec.prec with
    | some (.quantity (.amount w)) => max w numChars
    | _ => numChars
  let fill := List.replicate (width - numChars) fillChar
  if !fill.isEmpty then fill ++ s else s

/-- `format_string_with_precision` -/
def formatStringWithPrecision (spec : Spec) (s : List Nat) (prec : Option Precision) : List Nat :=
  let s := match prec with
    | some (.quantity (.amount p)) => if s.length > p then s.take p else s
    | some .dot => []
    | _ => s
  fillString spec s 32 none

/-- `format_string` -/
def formatString (spec : Spec) (s : List Nat) : List Nat := formatStringWithPrecision spec s spec.prec

/-- `format_char` -/
def formatChar (spec : Spec) (c : Nat) : List Nat :=
  formatStringWithPrecision spec [c] (some (.quantity (.amount 1)))

/-- `format_bytes` (after fix 86620af: `width.saturating_sub(len)`, a lone `.` truncates to nothing) -/
def formatBytes (spec : Spec) (bytes : List Nat) : List Nat :=
  let bytes := match spec.prec with
    | some (.quantity (.amount p)) => bytes.take (min bytes.length p)
    | some .dot => bytes.take 0
    | _ => bytes
  match spec.width with
  | some (.amount width) =>
    let fill := width - bytes.length
    if spec.flags.left then bytes ++ List.replicate fill 32
    else List.replicate fill 32 ++ bytes
  | _ => bytes

/-! ## numbers -/

def numPrefix (f : Flags) (t : FType) : List Nat :=
  if f.alt then
    match t with
    | .number .oct => [48, 111]      -- 0o
    | .number .hexL => [48, 120]     -- 0x
    | .number .hexU => [48, 88]      -- 0X
    | _ => []
  else []

/-- `magnitude.to_str_radix(..)` per number type; `none` is the `unreachable!()` arm -/
def magnitudeString (t : FType) (m : Nat) : Option (List Nat) :=
  match t with
  | .number .dec => some (toRadix 10 m false)
  | .number .oct => some (toRadix 8 m false)
  | .number .hexL => some (toRadix 16 m false)
  | .number .hexU => some (toRadix 16 m true)
  | _ => none

/-- the shared tail of `format_number` and `format_float` -/
def padSigned (spec : Spec) (signedPrefix body : List Nat) : List Nat :=
  if spec.flags.zero then
    let fillChar := if !spec.flags.left then 48 else 32
    signedPrefix ++ fillString spec body fillChar (some signedPrefix.length)
  else fillString spec (signedPrefix ++ body) 32 none

/-- `format_number` -/
def formatNumber (spec : Spec) (n : Int) : Option (List Nat) :=
  match magnitudeString spec.ftype n.natAbs with
  | none => none
  | some mag =>
    let pre := numPrefix spec.flags spec.ftype
    let signStr := if n < 0 then [45] else signString spec.flags
    let padded := fillStringWithPrecision spec mag 48
    some (padSigned spec (signStr ++ pre) padded)

/-! ## floats (`literal/src/float.rs`), digits from `PV.Dec` -/

/-- `MAX_FLOAT_DIGITS` of `float.rs`: `format!` is asked for at most this many digits (its precision
    argument is a `u16`); the rest of a larger precision is appended as `'0'` characters. -/
def maxFloatDigits : Nat := PV.C17.maxFloatDigits

def nanText (upper : Bool) : List Nat := if upper then [78, 65, 78] else [110, 97, 110]
def infText (upper : Bool) : List Nat := if upper then [73, 78, 70] else [105, 110, 102]

/-- `decimal_point_or_empty` -/
def decimalPointOrEmpty (precision : Nat) (alt : Bool) : List Nat :=
  if precision = 0 ∧ alt then [46] else []

/-- `{exponent:+#03}`: sign, at least two digits -/
def expText (e : Int) : List Nat :=
  let ds := toRadix 10 e.natAbs false
  (if e < 0 then 45 else 43) :: (if ds.length < 2 then 48 :: ds else ds)

/-- `"0".repeat(precision - digits)` with `digits = precision.min(MAX_FLOAT_DIGITS)` -/
def zerosBeyond (precision : Nat) : List Nat :=
  List.replicate (precision - min precision maxFloatDigits) 48

/-- `{magnitude:.digits$}{zeros}` on a non-negative finite double -/
def rustFixed (bits precision : Nat) : List Nat :=
  PV.Dec.toFixedL bits (min precision maxFloatDigits) ++ zerosBeyond precision

/-- `{magnitude:.digits$e}` split at the `e` -/
def rustExp (bits precision : Nat) : List Nat × Int :=
  PV.Dec.toExpL bits (min precision maxFloatDigits)

def dropTrailing (c : Nat) (s : List Nat) : List Nat := (s.reverse.dropWhile (· == c)).reverse

/-- `maybe_remove_trailing_redundant_chars` -/
def removeRedundant (s : List Nat) (alt : Bool) : List Nat :=
  if !alt && s.contains 46 then
    let s := dropTrailing 48 s
    match s.getLast? with
    | some 46 => s.dropLast
    | _ => s
  else s

/-- `format_fixed` on the magnitude -/
def formatFixed (precision bits : Nat) (upper alt : Bool) : List Nat :=
  if PV.Dec.isNan bits then nanText upper
  else if PV.Dec.isInf bits then infText upper
  else rustFixed bits precision ++ decimalPointOrEmpty precision alt

/-- `format_exponent` on the magnitude: `{base}{zeros}{point}{e}{exponent:+#03}` -/
def formatExponent (precision bits : Nat) (upper alt : Bool) : List Nat :=
  if PV.Dec.isNan bits then nanText upper
  else if PV.Dec.isInf bits then infText upper
  else
    let (base, e) := rustExp bits precision
    base ++ zerosBeyond precision ++ decimalPointOrEmpty precision alt ++ [if upper then 69 else 101] ++ expText e

/-- `format_general` on the magnitude (`always_shows_fract = false`) -/
def formatGeneral (precision bits : Nat) (upper alt : Bool) : List Nat :=
  let precision := max precision 1       -- "C and Python treat a precision of 0 as 1 for %g" (668a737)
  if PV.Dec.isNan bits then nanText upper
  else if PV.Dec.isInf bits then infText upper
  else
    let (base, e) := rustExp bits (precision - 1)
    if e < -4 ∨ e ≥ (precision : Int) then
      -- `format!("{:.*}{zeros}", digits + 2, base)`: the mantissa string cut to `digits + 2` chars
      let base := removeRedundant
        (base.take (min (precision - 1) maxFloatDigits + 2) ++ zerosBeyond (precision - 1)) alt
      base ++ decimalPointOrEmpty (precision - 1) alt ++ [if upper then 69 else 101] ++ expText e
    else
      let p := ((precision : Int) - 1 - e).toNat
      -- `format_fixed(precision, magnitude, case, false)`
      removeRedundant (formatFixed p bits upper false) alt ++ decimalPointOrEmpty p alt

/-- the precision `format_float` passes on (default 6) -/
def floatPrecision (spec : Spec) : Nat :=
  match spec.prec with
  | some (.quantity (.amount a)) => a
  | some (.quantity .star) => 6
  | some .dot => 0
  | none => 6

/-- `magnitude_string` of `format_float`: the text of `num.abs()`; `none` = panic (`unreachable!()`) -/
def floatBody (spec : Spec) (bits : Nat) : Option (List Nat) :=
  let precision := floatPrecision spec
  let mag := bits % 2 ^ 63          -- `num.abs()`
  match spec.ftype with
  | .float .fix up => some (formatFixed precision mag up spec.flags.alt)
  | .float .exp up => some (formatExponent precision mag up spec.flags.alt)
  | .float .gen up => some (formatGeneral (if precision = 0 then 1 else precision) mag up spec.flags.alt)
  | _ => none                       -- `unreachable!()`

/-- `format_float`; `bits` is `f64::to_bits` -/
def formatFloat (spec : Spec) (bits : Nat) : Option (List Nat) :=
  let signStr := if PV.Dec.isNeg bits && !PV.Dec.isNan bits then [45] else signString spec.flags
  match floatBody spec bits with
  | none => none
  | some body => some (padSigned spec signStr body)

end PV.C19
