/-
  C19 — plain data shared by the model (`Model.lean`, what the Rust code does) and the
  reference (`Spec.lean`, what Python does).  No behaviour is defined here.

  Text is a list of Unicode scalar values (`List Nat`); a bytes template is a list of byte values.
  The Rust code turns every template byte into a `char` with `u8::into()` (Latin-1), so one parser
  serves both; the model does the same.
-/
namespace PV.C19

/-- `CConversionFlags` (bit values 1, 2, 4, 8, 16 in this order). -/
structure Flags where
  alt : Bool := false      -- `#`  ALTERNATE_FORM
  zero : Bool := false     -- `0`  ZERO_PAD
  left : Bool := false     -- `-`  LEFT_ADJUST
  blank : Bool := false    -- ` `  BLANK_SIGN
  sign : Bool := false     -- `+`  SIGN_CHAR
deriving DecidableEq, Repr

def Flags.bits (f : Flags) : Nat :=
  (if f.alt then 1 else 0) + (if f.zero then 2 else 0) + (if f.left then 4 else 0) +
  (if f.blank then 8 else 0) + (if f.sign then 16 else 0)

/-- `CFormatQuantity` -/
inductive Quantity where
  | amount (n : Nat)
  | star                   -- `*`: FromValuesTuple
deriving DecidableEq, Repr

/-- `CNumberType` (with the `Case` of `Hex`) -/
inductive NumType where
  | dec | oct | hexL | hexU
deriving DecidableEq, Repr

/-- `CFloatType` × `Case` -/
inductive FloatKind where
  | exp | fix | gen
deriving DecidableEq, Repr

/-- `CFormatConversion` -/
inductive Conv where
  | str | repr | ascii | bytes
deriving DecidableEq, Repr

/-- `CFormatType` -/
inductive FType where
  | number (t : NumType)
  | float (k : FloatKind) (upper : Bool)
  | char
  | string (c : Conv)
deriving DecidableEq, Repr

/-- template mode: `str % …` or `bytes % …` -/
inductive Mode where
  | text | bytes
deriving DecidableEq, Repr

/-- `'0'..'9'` (`char::to_digit(10)`) -/
def isDigit (c : Nat) : Bool := 48 ≤ c && c ≤ 57

/-- one of the five flag characters `# 0 - space +` -/
def isFlag (c : Nat) : Bool := c == 35 || c == 48 || c == 45 || c == 32 || c == 43

/-- `h`, `l`, `L` -/
def isLength (c : Nat) : Bool := c == 104 || c == 108 || c == 76

def i32Max : Nat := 2147483647
def isizeMax : Nat := 9223372036854775807

/-- digit of positional notation as an ASCII code (`0-9a-z` / `0-9A-Z`) -/
def digitChar (upper : Bool) (d : Nat) : Nat :=
  if d < 10 then 48 + d else (if upper then 55 else 87) + d

def toRadixGo : Nat → Nat → Nat → Bool → List Nat → List Nat
  | 0, _, _, _, acc => acc
  | fuel + 1, b, n, up, acc =>
    if n < b then digitChar up n :: acc
    else toRadixGo fuel b (n / b) up (digitChar up (n % b) :: acc)

/-- Positional notation of `n` in base `b ≥ 2`, most significant digit first, `0 ↦ "0"`
    (the contract of `BigInt::to_str_radix` on a magnitude, and of Python's `str`/`oct`/`hex` digits). -/
def toRadix (b n : Nat) (upper : Bool) : List Nat := toRadixGo (Nat.log2 n + 1) b n upper []

end PV.C19
