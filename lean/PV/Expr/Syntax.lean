/-
  PV.Expr — the expression fragment shared by C11 (unparse/parse round trip), C01 and C02.

  * `Expr`   : typed abstract syntax of Python expressions as `rustpython_ast::Expr` stores them,
               WITHOUT ranges and WITHOUT load/store tags (the properties compare trees "up to
               ranges and ctx", so the erasure is built into the type; `eraseCtx` is the identity
               and exists only so that statements read like the property text).
  * `Tok`    : the tokens an expression is made of (what `lexer.rs` hands to the LALRPOP grammar),
               literals already decoded to their values.
  * `WF e`   : the side conditions the grammar (python.lalrpop) imposes on every tree it builds.

  Text is a list of Unicode scalar values (`List Nat`).  Doubles are their IEEE-754 bit pattern
  (`f64::to_bits`, a `Nat`).  Core Lean only.
-/
namespace PV.Expr

/-- identifier / text: list of Unicode scalar values -/
abbrev Ident := List Nat

inductive BoolOp where
  | and | or
deriving DecidableEq, Repr, Inhabited

inductive BinOp where
  | add | sub | mult | matMult | div | mod | pow | lShift | rShift | bitOr | bitXor | bitAnd | floorDiv
deriving DecidableEq, Repr, Inhabited

inductive UnaryOp where
  | invert | not | uAdd | uSub
deriving DecidableEq, Repr, Inhabited

inductive CmpOp where
  | eq | notEq | lt | ltE | gt | gtE | is | isNot | in | notIn
deriving DecidableEq, Repr, Inhabited

/-- `ast::Constant` as the parser produces it (`Tuple` constants only arise from the optimiser;
    a `Complex` always has real part `+0.0`, so only the imaginary part is kept).
    `str s u`: `u` is `ExprConstant.kind == Some("u")`. -/
inductive Const where
  | none
  | bool (b : Bool)
  | ellipsis
  | int (n : Nat)
  | float (bits : Nat)
  | imag (bits : Nat)
  | str (s : List Nat) (u : Bool)
  | bytes (b : List Nat)
deriving DecidableEq, Repr, Inhabited

/-- `ConversionFlag`: 0 = none (`-1` in Rust), else the ASCII code of `s`, `r`, `a`. -/
abbrev Conv := Nat

mutual
/-- `rustpython_ast::Expr` without ranges and ctx.  Field order and list structure follow the
    Rust structs (`Compare` keeps `ops`/`comparators` apart)
    so that the unparser model can mirror the Rust loops literally. -/
inductive Expr where
  | name (id : Ident)
  | const (c : Const)
  | boolOp (op : BoolOp) (values : List Expr)
  | namedExpr (target value : Expr)
  | binOp (left : Expr) (op : BinOp) (right : Expr)
  | unaryOp (op : UnaryOp) (operand : Expr)
  /-- `Arguments { posonlyargs, args, vararg, kwonlyargs, kwarg }` of a lambda are never annotated -/
  | lambda (posonly args : List Param) (vararg : Option Ident) (kwonly : List Param)
      (kwarg : Option Ident) (body : Expr)
  | ifExp (test body orelse : Expr)
  /-- `ExprDict { keys, values }` zipped (the parser always builds lists of equal length);
      `key = none` is `**value` -/
  | dict (items : List DictItem)
  | set (elts : List Expr)
  | listComp (elt : Expr) (gens : List Comp)
  | setComp (elt : Expr) (gens : List Comp)
  | dictComp (key value : Expr) (gens : List Comp)
  | genExp (elt : Expr) (gens : List Comp)
  | await (value : Expr)
  | yield (value : Option Expr)
  | yieldFrom (value : Expr)
  | compare (left : Expr) (ops : List CmpOp) (comparators : List Expr)
  | call (func : Expr) (args : List Expr) (keywords : List Keyword)
  | formattedValue (value : Expr) (conv : Conv) (spec : Option Expr)
  | joinedStr (values : List Expr)
  | attribute (value : Expr) (attr : Ident)
  | subscript (value slice : Expr)
  | starred (value : Expr)
  | list (elts : List Expr)
  | tuple (elts : List Expr)
  | slice (lower upper step : Option Expr)
/-- `Comprehension { target, iter, ifs, is_async }` -/
inductive Comp where
  | mk (target iter : Expr) (ifs : List Expr) (isAsync : Bool)
/-- `ArgWithDefault` of a lambda: name and default -/
inductive Param where
  | mk (name : Ident) (default : Option Expr)
/-- `Keyword { arg, value }`; `arg = none` is `**value` -/
inductive Keyword where
  | mk (arg : Option Ident) (value : Expr)
/-- one `key: value` or `**value` entry of a `Dict` -/
inductive DictItem where
  | mk (key : Option Expr) (value : Expr)
end

instance : Inhabited Expr := ⟨.name []⟩

/-- trees carry no ranges and no load/store tags: erasing them is the identity -/
def eraseCtx (e : Expr) : Expr := e

/-! ## tokens -/

inductive Kw where
  | and | or | not | if | else | lambda | for | in | is | async | await | yield | from
  | true | false | none
  /-- any other hard keyword (never part of an expression) -/
  | other (text : List Nat)
deriving DecidableEq, Repr, Inhabited

inductive Op where
  | plus | minus | star | slash | dslash | percent | at | dstar | lshift | rshift
  | bar | caret | amp | tilde
  | lt | gt | le | ge | eqeq | ne
  | lpar | rpar | lsqb | rsqb | lbrace | rbrace
  | comma | colon | dot | walrus | assign | ellipsis
  /-- any other operator / delimiter token (`;`, `->`, `+=`, a logical newline …) -/
  | other (text : List Nat)
deriving DecidableEq, Repr, Inhabited

/-- Expression tokens; literals carry their decoded value.
    `fstr quote triple raw body`: an f-string literal with the source text `body` between its quotes
    (escape sequences not yet processed — `string.rs` decodes them while splitting the fields). -/
inductive Tok where
  | name (id : Ident)
  | int (n : Nat)
  | float (bits : Nat)
  | imag (bits : Nat)
  | str (s : List Nat) (u : Bool)
  | bytes (b : List Nat)
  | fstr (quote : Nat) (triple raw : Bool) (body : List Nat)
  | kw (k : Kw)
  | op (o : Op)
deriving DecidableEq, Repr, Inhabited

/-! ## well-formedness: what every parser-built tree satisfies -/

def isStarred : Expr → Bool
  | .starred _ => true
  | _ => false

def isSlice : Expr → Bool
  | .slice .. => true
  | _ => false

def isName : Expr → Bool
  | .name _ => true
  | _ => false

def isStrConst : Expr → Bool
  | .const (.str _ _) => true
  | _ => false

/-- Positions an expression can stand in, as far as `WF` distinguishes them. -/
inductive Pos where
  /-- an ordinary operand / `Test` position: no `Starred`, no `Slice` -/
  | plain
  /-- element of a display, tuple or call argument list: `Starred` allowed -/
  | elem
  /-- directly under `Subscript` (or as element of its tuple): `Slice` and `Starred` allowed -/
  | sub
deriving DecidableEq, Repr

mutual
/-- `wf pos e`: the tree `e` can be produced by the grammar in a position of sort `pos`.
    (Default-after-non-default and duplicate-name checks of `function.rs` concern which programs are
    *accepted*, not the shape of trees, and are not part of `WF`.) -/
def wf : Pos → Expr → Bool
  | _, .name _ => true
  | _, .const _ => true
  | _, .boolOp _ vs => decide (2 ≤ vs.length) && wfList .plain vs
  | _, .namedExpr t v => isName t && wf .plain v
  | _, .binOp l _ r => wf .plain l && wf .plain r
  | _, .unaryOp _ e => wf .plain e
  | _, .lambda po ar _ ko _ b => wfParams po && wfParams ar && wfParams ko && wf .plain b
  | _, .ifExp t b o => wf .plain t && wf .plain b && wf .plain o
  | _, .dict items => wfItems items
  | _, .set es => !es.isEmpty && wfList .elem es
  | _, .listComp e gs => wf .elem e && !gs.isEmpty && wfComps gs
  | _, .setComp e gs => wf .plain e && !gs.isEmpty && wfComps gs
  | _, .dictComp k v gs => wf .plain k && wf .plain v && !gs.isEmpty && wfComps gs
  | _, .genExp e gs => wf .plain e && !gs.isEmpty && wfComps gs
  | _, .await e => wf .plain e
  | _, .yield none => true
  | _, .yield (some e) => wf .elem e
  | _, .yieldFrom e => wf .plain e
  | _, .compare l ops cs => wf .plain l && !cs.isEmpty && decide (ops.length = cs.length) && wfList .plain cs
  | _, .call f as ks => wf .plain f && wfList .elem as && wfKeywords ks
  | _, .formattedValue .. => false      -- only inside `JoinedStr`
  | _, .joinedStr vs => wfPieces vs
  | _, .attribute e _ => wf .plain e
  | _, .subscript e s => wf .plain e && wf .sub s
  | p, .starred e => (p != .plain) && wf .plain e
  | _, .list es => wfList .elem es
  | p, .tuple es => wfList (if p == .sub then .sub else .elem) es
  | p, .slice lo hi st => (p == .sub) && wfOpt lo && wfOpt hi && wfOpt st
def wfList : Pos → List Expr → Bool
  | _, [] => true
  | p, e :: es => wf p e && wfList p es
def wfOpt : Option Expr → Bool
  | none => true
  | some e => wf .plain e
def wfItems : List DictItem → Bool
  | [] => true
  | .mk k v :: is => wfOpt k && wf .plain v && wfItems is
def wfComps : List Comp → Bool
  | [] => true
  | .mk t i ifs _ :: gs => wf .elem t && wf .plain i && wfList .plain ifs && wfComps gs
def wfParams : List Param → Bool
  | [] => true
  | .mk _ d :: ps => wfOpt d && wfParams ps
def wfKeywords : List Keyword → Bool
  | [] => true
  | .mk _ v :: ks => wf .plain v && wfKeywords ks
/-- pieces of a `JoinedStr`: string constants and formatted values (whose spec is again a
    `JoinedStr` of such pieces) -/
def wfPieces : List Expr → Bool
  | [] => true
  | .const (.str _ _) :: ps => wfPieces ps
  | .formattedValue v c spec :: ps =>
    wf .plain v && (c == 0 || c == 115 || c == 114 || c == 97) &&
    (match spec with
     | none => true
     | some (.joinedStr vs) => wfPieces vs
     | some _ => false) && wfPieces ps
  | _ :: _ => false
end

/-- An expression tree the parser can produce in expression mode (top level: a `TestList`). -/
def WF (e : Expr) : Prop := wf .elem e = true

instance (e : Expr) : Decidable (WF e) := inferInstanceAs (Decidable (_ = true))

end PV.Expr
