import PV.C12.Model
import PV.C12.Spec
/-! C12 — helper lemmas (induction principle for `Tree`, list companions, inversion of `conf`,
    permutation bookkeeping). -/
namespace PV.C12

/-! ### induction principle for the nested tree type -/
mutual
theorem Tree.ind (P : Tree → Prop)
    (hleaf : ∀ a, P (.leaf a)) (hnone : P .none) (hsome : ∀ t, P t → P (.some t))
    (hlist : ∀ xs, (∀ x ∈ xs, P x) → P (.list xs))
    (hnode : ∀ k r fs, (∀ x ∈ fs, P x) → P (.node k r fs)) : ∀ t, P t
  | .leaf a => hleaf a
  | .none => hnone
  | .some t => hsome t (Tree.ind P hleaf hnone hsome hlist hnode t)
  | .list xs => hlist xs (Tree.indL P hleaf hnone hsome hlist hnode xs)
  | .node k r fs => hnode k r fs (Tree.indL P hleaf hnone hsome hlist hnode fs)
theorem Tree.indL (P : Tree → Prop)
    (hleaf : ∀ a, P (.leaf a)) (hnone : P .none) (hsome : ∀ t, P t → P (.some t))
    (hlist : ∀ xs, (∀ x ∈ xs, P x) → P (.list xs))
    (hnode : ∀ k r fs, (∀ x ∈ fs, P x) → P (.node k r fs)) : ∀ xs : List Tree, ∀ x ∈ xs, P x
  | [], _, h => by cases h
  | t :: ts, x, h => by
    cases h with
    | head => exact Tree.ind P hleaf hnone hsome hlist hnode t
    | tail _ h => exact Tree.indL P hleaf hnone hsome hlist hnode ts x h
end

mutual
theorem Tree.beq_refl : ∀ t : Tree, Tree.beq t t = true
  | .leaf a => by simp [Tree.beq]
  | .none => by simp [Tree.beq]
  | .some t => by simp [Tree.beq, Tree.beq_refl t]
  | .list xs => by simp [Tree.beq, Tree.beqL_refl xs]
  | .node k r fs => by simp [Tree.beq, Tree.beqL_refl fs]
theorem Tree.beqL_refl : ∀ ts : List Tree, Tree.beqL ts ts = true
  | [] => by simp [Tree.beqL]
  | t :: ts => by simp [Tree.beqL, Tree.beq_refl t, Tree.beqL_refl ts]
end

theorem Tree.ne_of_beq_false {a b : Tree} (h : Tree.beq a b = false) : a ≠ b := by
  intro e; subst e; rw [Tree.beq_refl] at h; cases h

/-! ### the list companions of the mutual definitions are maps -/
theorem foldL_eq (p : FoldProg) (f) (xs : List Tree) : foldL p f xs = xs.map (foldT p f) := by
  induction xs with
  | nil => simp [foldL]
  | cons t ts ih => simp [foldL, ih]

theorem rangesOfL_eq (xs : List Tree) : rangesOfL xs = xs.flatMap rangesOf := by
  induction xs with
  | nil => simp [rangesOfL]
  | cons t ts ih => simp [rangesOfL, ih]

theorem visitL_eq (p : VisitProg) (sch) (xs : List Tree) : visitL p sch xs = xs.map (visitT p sch) := by
  induction xs with
  | nil => simp [visitL]
  | cons t ts ih => simp [visitL, ih]

theorem reachOutsideL_eq (sch skip) (xs : List Tree) :
    reachOutsideL sch skip xs = xs.flatMap (reachOutside sch skip) := by
  induction xs with
  | nil => simp [reachOutsideL]
  | cons t ts ih => simp [reachOutsideL, ih]

theorem constTupleL_eq (c) (xs : List Tree) : Opt.constTupleL c xs = xs.map (Opt.constTuple c) := by
  induction xs with
  | nil => simp [Opt.constTupleL]
  | cons t ts ih => simp [Opt.constTupleL, ih]

theorem confAll_eq (sch s) (xs : List Tree) : confAll sch s xs = xs.all (conf sch s) := by
  induction xs with
  | nil => simp [confAll]
  | cons t ts ih => simp [confAll, ih]

theorem confZip_length {sch} : ∀ {ss : List Shape} {fs : List Tree}, confZip sch ss fs = true → fs.length = ss.length
  | [], [], _ => rfl
  | s :: ss, t :: ts, h => by
    simp [confZip] at h; simp [confZip_length h.2]
  | [], _ :: _, h => by simp [confZip] at h
  | _ :: _, [], h => by simp [confZip] at h

theorem confZip_get {sch} : ∀ {ss : List Shape} {fs : List Tree}, confZip sch ss fs = true →
    ∀ (i : Nat) s t, ss[i]? = some s → fs[i]? = some t → conf sch s t = true
  | [], [], _, i, s, t, h1, _ => by simp at h1
  | s0 :: ss, t0 :: ts, h, i, s, t, h1, h2 => by
    simp [confZip] at h
    cases i with
    | zero => simp at h1 h2; subst h1; subst h2; exact h.1
    | succ i => simp at h1 h2; exact confZip_get h.2 i s t h1 h2
  | [], _ :: _, h, _, _, _, _, _ => by simp [confZip] at h
  | _ :: _, [], h, _, _, _, _, _ => by simp [confZip] at h

/-! ### inversion of `conf` -/
theorem conf_some {sch sh t} (h : conf sch sh (.some t) = true) : ∃ s, sh = .opt s ∧ conf sch s t = true := by
  cases sh <;> simp [conf] at h
  exact ⟨_, rfl, h⟩

theorem conf_list {sch sh xs} (h : conf sch sh (.list xs) = true) :
    ∃ s, sh = .list s ∧ ∀ x ∈ xs, conf sch s x = true := by
  cases sh <;> simp [conf] at h
  rw [confAll_eq] at h
  exact ⟨_, rfl, by simpa using h⟩

theorem conf_node {sch sh k r fs} (h : conf sch sh (.node k r fs) = true) :
    ∃ ki, sch.kinds[k]? = some ki ∧ rangeOk ki.rangeMode r = true ∧ confZip sch ki.fields fs = true ∧
      k ∈ kindsUnder sch sh := by
  simp only [conf, Bool.and_eq_true] at h
  obtain ⟨h1, h2⟩ := h
  cases hk : sch.kinds[k]? with
  | none => simp [hk] at h2
  | some ki =>
    simp [hk] at h2
    refine ⟨ki, rfl, h2.1, h2.2, ?_⟩
    have hlt : k < sch.kinds.length := by
      rcases Nat.lt_or_ge k sch.kinds.length with h | h
      · exact h
      · simp [List.getElem?_eq_none h] at hk
    cases sh <;> simp at h1
    · simp [kindsUnder, h1]
    · simp [kindsUnder, h1, hlt]

theorem flatMap_range_getElem {α β} (xs : List α) (g : Option α → List β) :
    (List.range xs.length).flatMap (fun i => g xs[i]?) = xs.flatMap (fun x => g (some x)) := by
  induction xs with
  | nil => simp
  | cons x xs ih =>
    rw [List.length_cons, List.range_succ_eq_map, List.flatMap_cons, List.flatMap_map]
    simp [ih]

theorem perm_flatMap_pointwise {α β} (l : List α) (f g : α → List β) (h : ∀ a ∈ l, (f a).Perm (g a)) :
    (l.flatMap f).Perm (l.flatMap g) := by
  induction l with
  | nil => simp
  | cons a l ih =>
    simp only [List.flatMap_cons]
    exact List.Perm.append (h a (by simp)) (ih fun b hb => h b (by simp [hb]))

theorem mapCalls_append (a b : List FEv) : mapCalls (a ++ b) = mapCalls a ++ mapCalls b := by
  simp [mapCalls, List.filterMap_append]
theorem willCalls_append (a b : List FEv) : willCalls (a ++ b) = willCalls a ++ willCalls b := by
  simp [willCalls, List.filterMap_append]
theorem mapCalls_flatMap {α} (l : List α) (f : α → List FEv) :
    mapCalls (l.flatMap f) = l.flatMap (fun a => mapCalls (f a)) := by
  induction l with
  | nil => simp [mapCalls]
  | cons a l ih => simp [List.flatMap_cons, mapCalls_append, ih]
theorem willCalls_flatMap {α} (l : List α) (f : α → List FEv) :
    willCalls (l.flatMap f) = l.flatMap (fun a => willCalls (f a)) := by
  induction l with
  | nil => simp [willCalls]
  | cons a l ih => simp [List.flatMap_cons, willCalls_append, ih]

theorem zipAll_get {α β} {p : α → β → Bool} : ∀ {as : List α} {bs : List β}, zipAll p as bs = true →
    ∀ (i : Nat) a, as[i]? = some a → ∃ b, bs[i]? = some b ∧ p a b = true
  | [], [], _, i, a, h => by simp at h
  | a0 :: as, b0 :: bs, h, i, a, h1 => by
    simp [zipAll] at h
    cases i with
    | zero => simp at h1; subst h1; exact ⟨b0, by simp, h.1⟩
    | succ i => simp at h1; simpa using zipAll_get h.2 i a h1
  | [], _ :: _, h, _, _, _ => by simp [zipAll] at h
  | _ :: _, [], h, _, _, _ => by simp [zipAll] at h

theorem zipAll_get' {α β} {p : α → β → Bool} : ∀ {as : List α} {bs : List β}, zipAll p as bs = true →
    ∀ (i : Nat) b, bs[i]? = some b → ∃ a, as[i]? = some a ∧ p a b = true
  | [], [], _, i, a, h => by simp at h
  | a0 :: as, b0 :: bs, h, i, a, h1 => by
    simp [zipAll] at h
    cases i with
    | zero => simp at h1; subst h1; exact ⟨a0, by simp, h.1⟩
    | succ i => simp at h1; simpa using zipAll_get' h.2 i a h1
  | [], _ :: _, h, _, _, _ => by simp [zipAll] at h
  | _ :: _, [], h, _, _, _ => by simp [zipAll] at h

structure EntryFacts (n mode : Nat) (e : FoldEntry) : Prop where
  destruct : ∀ i, i < n → e.destruct.contains i = true
  same : ∀ c ∈ e.calls, c.1 = c.2
  perm : (e.calls.map (·.2)).Perm (List.range n)
  rebuild : e.rebuild = List.range n
  modeOk : mode = 1 ∨ mode = 2
  will : e.will = mode
  map : e.map = mode

theorem entryWF_facts {ki e} (h : entryWF ki e = true) : EntryFacts ki.fields.length ki.rangeMode e := by
  simp only [entryWF, Bool.and_eq_true, List.all_eq_true, List.mem_range, beq_iff_eq, Bool.or_eq_true,
    List.isPerm_iff] at h
  obtain ⟨⟨⟨⟨⟨⟨h1, h2⟩, h3⟩, h4⟩, h5⟩, h6⟩, h7⟩ := h
  exact ⟨h1, fun c hc => h2 c hc, h3, h4, h5, h6, h7⟩

theorem varVal_id {e : FoldEntry} {n mode} (hf : EntryFacts n mode e) (fs : List Tree) (hn : fs.length = n)
    (pre : List (Tree × List FEv)) (hlen : pre.length = n)
    (hpre : ∀ (i : Nat) x, pre[i]? = some x → fs[i]? = some x.1) (v : Nat) (hv : v < n) :
    varVal e fs pre v = fs[v]?.getD missing := by
  unfold varVal
  split
  · rename_i c hc
    have hmem := List.mem_of_find?_eq_some hc
    have hp := List.find?_some hc
    simp at hmem hp
    have : c.2 = v := by rw [← hf.same c hmem]; exact hp
    rw [this]
    have hlt : v < pre.length := by omega
    have : pre[v]? = some pre[v] := List.getElem?_eq_getElem hlt
    rw [this, hpre v _ this]; simp
  · have := hf.destruct v hv
    simp only [List.contains_eq_mem, decide_eq_true_eq] at this
    simp [this]
theorem foldWF_entry {p : FoldProg} {sch : Schema} (h : FoldWF p sch) {k : Nat} {ki : KindInfo} (hk : sch.kinds[k]? = some ki) :
    ∃ e, p.entries[k]? = some e ∧ EntryFacts ki.fields.length ki.rangeMode e := by
  obtain ⟨e, he, hwf⟩ := zipAll_get h k ki hk
  exact ⟨e, he, entryWF_facts hwf⟩

/-- the per-node bookkeeping shared by the `map_user` and `will_map_user` counts -/
theorem calls_perm {p : FoldProg} {f : Range → Range} {e : FoldEntry} {n mode : Nat}
    (hf : EntryFacts n mode e) (fs : List Tree) (hn : fs.length = n)
    (sel : List FEv → List Range) (hsel : ∀ {α : Type} (l : List α) (g : α → List FEv), sel (l.flatMap g) = l.flatMap (fun a => sel (g a)))
    (ih : ∀ x ∈ fs, (sel (foldT p f x).2).Perm (rangesOf x)) :
    (sel (e.calls.flatMap fun c => (((fs.map (foldT p f))[c.2]?).map (·.2)).getD [])).Perm (fs.flatMap rangesOf) := by
  rw [hsel]
  have h1 : (e.calls.flatMap fun c => sel ((((fs.map (foldT p f))[c.2]?).map (·.2)).getD [])) =
      (e.calls.map (·.2)).flatMap (fun i => sel ((((fs.map (foldT p f))[i]?).map (·.2)).getD [])) := by
    rw [List.flatMap_map]
  rw [h1]
  refine (List.Perm.flatMap_right _ hf.perm).trans ?_
  have h2 := flatMap_range_getElem fs (fun o => sel ((o.map (fun x => (foldT p f x).2)).getD []))
  rw [hn] at h2
  have h3 : (fun (i : Nat) => sel ((((fs.map (foldT p f))[i]?).map (fun x => x.2)).getD [])) =
      (fun (i : Nat) => sel (((fs[i]?).map (fun x => (foldT p f x).2)).getD [])) := by
    funext i; simp [List.getElem?_map, Option.map_map, Function.comp_def]
  rw [h3, h2]
  apply perm_flatMap_pointwise
  intro x hx
  simpa using ih x hx

theorem mapCalls_perm_shape {p sch} (h : FoldWF p sch) (f : Range → Range) :
    ∀ t sh, conf sch sh t = true → (mapCalls (foldT p f t).2).Perm (rangesOf t) := by
  intro t
  induction t using Tree.ind with
  | hleaf a => intro sh _; simp [foldT, mapCalls, rangesOf]
  | hnone => intro sh _; simp [foldT, mapCalls, rangesOf]
  | hsome t ih =>
    intro sh hc
    obtain ⟨s, _, hs⟩ := conf_some hc
    simpa [foldT, rangesOf] using ih s hs
  | hlist xs ih =>
    intro sh hc
    obtain ⟨s, _, hs⟩ := conf_list hc
    simp only [foldT, foldL_eq, rangesOf, rangesOfL_eq, List.flatMap_map, mapCalls_flatMap]
    exact perm_flatMap_pointwise _ _ _ fun x hx => ih x hx s (hs x hx)
  | hnode k r fs ih =>
    intro sh hc
    obtain ⟨ki, hk, hro, hz, _⟩ := conf_node hc
    obtain ⟨e, he, hf⟩ := foldWF_entry h hk
    have hn := confZip_length hz
    have ih' : ∀ x ∈ fs, (mapCalls (foldT p f x).2).Perm (rangesOf x) := by
      intro x hx
      obtain ⟨j, hj, hxj⟩ := List.getElem_of_mem hx
      have h1 : fs[j]? = some x := by rw [List.getElem?_eq_getElem hj, hxj]
      exact ih x hx _ (confZip_get hz j _ x (List.getElem?_eq_getElem (by omega)) h1)
    have hcp := calls_perm (p := p) (f := f) hf fs hn mapCalls (fun l g => mapCalls_flatMap l g) ih'
    have hm0 : (e.map == 0) = false := by
      rw [hf.map]; rcases hf.modeOk with h | h <;> simp [h]
    simp only [foldT, he, assemble, foldL_eq, rangesOf, rangesOfL_eq]
    cases r with
    | none =>
      simpa [mapCalls_append, mapCalls] using hcp
    | some x =>
      have : mapCalls (FEv.enter k :: ((if e.will == 0 then [] else [FEv.will x]) ++
          (e.calls.flatMap fun c => (((fs.map (foldT p f))[c.2]?).map (·.2)).getD []) ++
          (if e.map == 0 then [] else [FEv.map x]))) =
          mapCalls (e.calls.flatMap fun c => (((fs.map (foldT p f))[c.2]?).map (·.2)).getD []) ++ [x] := by
        rw [hm0]
        by_cases hw : (e.will == 0) = true <;> simp [mapCalls, hw, List.filterMap_append]
      rw [this]
      exact (List.perm_append_comm).trans (List.Perm.append (List.Perm.refl _) hcp)
theorem willCalls_perm_shape {p sch} (h : FoldWF p sch) (f : Range → Range) :
    ∀ t sh, conf sch sh t = true → (willCalls (foldT p f t).2).Perm (rangesOf t) := by
  intro t
  induction t using Tree.ind with
  | hleaf a => intro sh _; simp [foldT, willCalls, rangesOf]
  | hnone => intro sh _; simp [foldT, willCalls, rangesOf]
  | hsome t ih =>
    intro sh hc
    obtain ⟨s, _, hs⟩ := conf_some hc
    simpa [foldT, rangesOf] using ih s hs
  | hlist xs ih =>
    intro sh hc
    obtain ⟨s, _, hs⟩ := conf_list hc
    simp only [foldT, foldL_eq, rangesOf, rangesOfL_eq, List.flatMap_map, willCalls_flatMap]
    exact perm_flatMap_pointwise _ _ _ fun x hx => ih x hx s (hs x hx)
  | hnode k r fs ih =>
    intro sh hc
    obtain ⟨ki, hk, hro, hz, _⟩ := conf_node hc
    obtain ⟨e, he, hf⟩ := foldWF_entry h hk
    have hn := confZip_length hz
    have ih' : ∀ x ∈ fs, (willCalls (foldT p f x).2).Perm (rangesOf x) := by
      intro x hx
      obtain ⟨j, hj, hxj⟩ := List.getElem_of_mem hx
      have h1 : fs[j]? = some x := by rw [List.getElem?_eq_getElem hj, hxj]
      exact ih x hx _ (confZip_get hz j _ x (List.getElem?_eq_getElem (by omega)) h1)
    have hcp := calls_perm (p := p) (f := f) hf fs hn willCalls (fun l g => willCalls_flatMap l g) ih'
    have hw0 : (e.will == 0) = false := by
      rw [hf.will]; rcases hf.modeOk with h | h <;> simp [h]
    simp only [foldT, he, assemble, foldL_eq, rangesOf, rangesOfL_eq]
    cases r with
    | none =>
      simpa [willCalls_append, willCalls] using hcp
    | some x =>
      have : willCalls (FEv.enter k :: ((if e.will == 0 then [] else [FEv.will x]) ++
          (e.calls.flatMap fun c => (((fs.map (foldT p f))[c.2]?).map (·.2)).getD []) ++
          (if e.map == 0 then [] else [FEv.map x]))) =
          [x] ++ willCalls (e.calls.flatMap fun c => (((fs.map (foldT p f))[c.2]?).map (·.2)).getD []) := by
        rw [hw0]
        by_cases hw : (e.map == 0) = true <;> simp [willCalls, hw, List.filterMap_append]
      rw [this]
      exact List.Perm.append (List.Perm.refl _) hcp
theorem fold_identity_shape {p sch} (h : FoldWF p sch) :
    ∀ t sh, conf sch sh t = true → (foldT p id t).1 = t := by
  intro t
  induction t using Tree.ind with
  | hleaf a => intro sh _; simp [foldT]
  | hnone => intro sh _; simp [foldT]
  | hsome t ih =>
    intro sh hc
    obtain ⟨s, _, hs⟩ := conf_some hc
    simp [foldT, ih s hs]
  | hlist xs ih =>
    intro sh hc
    obtain ⟨s, _, hs⟩ := conf_list hc
    simp only [foldT, foldL_eq, List.map_map]
    congr 1
    conv => rhs; rw [← List.map_id xs]
    apply List.map_congr_left
    intro x hx
    exact ih x hx s (hs x hx)
  | hnode k r fs ih =>
    intro sh hc
    obtain ⟨ki, hk, _, hz, _⟩ := conf_node hc
    obtain ⟨e, he, hf⟩ := foldWF_entry h hk
    have hn := confZip_length hz
    simp only [foldT, he, assemble, foldL_eq]
    have hr : (if e.map == 0 then r else Option.map id r) = r := by cases r <;> simp
    rw [hr, hf.rebuild]
    congr 1
    apply List.ext_getElem?
    intro i
    by_cases hi : i < ki.fields.length
    · rw [List.getElem?_map, List.getElem?_range hi]
      simp only [Option.map_some]
      rw [varVal_id hf fs hn (fs.map (foldT p id)) (by simp [hn]) ?_ i hi]
      · have : i < fs.length := by omega
        simp [List.getElem?_eq_getElem this]
      · intro j x hx
        rw [List.getElem?_map] at hx
        cases hj : fs[j]? with
        | none => simp [hj] at hx
        | some t =>
          simp [hj] at hx
          subst hx
          obtain ⟨s, hs⟩ : ∃ s, ki.fields[j]? = some s := by
            have : j < fs.length := by
              rcases Nat.lt_or_ge j fs.length with h | h
              · exact h
              · simp [List.getElem?_eq_none h] at hj
            exact ⟨ki.fields[j]'(by omega), List.getElem?_eq_getElem (by omega)⟩
          rw [ih t (List.mem_of_getElem? hj) s (confZip_get hz j s t hs hj)]
    · have h1 : (List.range ki.fields.length)[i]? = none := by simp; omega
      have h2 : fs[i]? = none := by simp; omega
      simp [h1, h2]

theorem IE_append (sch : Schema) (a b : List VEv) :
    interestingEvents sch (a ++ b) = interestingEvents sch a ++ interestingEvents sch b := by
  simp [interestingEvents]

theorem IE_flatMap {α} (sch : Schema) (l : List α) (g : α → List VEv) :
    interestingEvents sch (l.flatMap g) = l.flatMap (fun a => interestingEvents sch (g a)) := by
  induction l with
  | nil => simp [interestingEvents]
  | cons a l ih => simp [List.flatMap_cons, IE_append, ih]

theorem flatMap_eq_nil_of {α β} (l : List α) (g : α → List β) (h : ∀ a ∈ l, g a = []) : l.flatMap g = [] := by
  induction l with
  | nil => simp
  | cons a l ih => simp [List.flatMap_cons, h a (by simp), ih fun b hb => h b (by simp [hb])]

theorem flatMap_filter_of_nil {α β} (c : α → Bool) (g : α → List β) (l : List α)
    (h : ∀ a ∈ l, c a = false → g a = []) : l.flatMap g = (l.filter c).flatMap g := by
  induction l with
  | nil => simp
  | cons a l ih =>
    have ih' := ih fun b hb => h b (by simp [hb])
    cases hc : c a with
    | true => simp [List.flatMap_cons, List.filter_cons, hc, ih']
    | false => simp [List.flatMap_cons, List.filter_cons, hc, ih', h a (by simp) hc]

theorem count_range (a n : Nat) : (List.range n).count a = if a < n then 1 else 0 := by
  induction n with
  | zero => simp
  | succ n ih =>
    rw [List.range_succ, List.count_append, ih]
    have hs : List.count a [n] = if a = n then 1 else 0 := by
      by_cases h : a = n
      · subst h; simp
      · have : ¬ n = a := fun e => h e.symm
        simp [List.count_cons, h, this]
    rw [hs]
    by_cases h1 : a < n
    · have : a ≠ n := by omega
      have h3 : a < n + 1 := by omega
      simp [h1, this, h3]
    · by_cases h2 : a = n
      · subst h2; simp
      · have : ¬ a < n + 1 := by omega
        simp [h1, this, h2]

theorem filter_perm_of_count (c : Nat → Bool) (calls : List Nat) (n : Nat)
    (hlt : ∀ i ∈ calls, i < n) (hone : ∀ i, i < n → c i = true → calls.count i = 1)
    : (calls.filter c).Perm ((List.range n).filter c) := by
  rw [List.perm_iff_count]
  intro a
  cases hc : c a with
  | true =>
    rw [List.count_filter (by simpa using hc), List.count_filter (by simpa using hc), count_range]
    by_cases ha : a < n
    · simp [ha, hone a ha hc]
    · simp only [ha, if_false]
      exact List.count_eq_zero_of_not_mem fun hm => ha (hlt a hm)
  | false =>
    rw [List.count_eq_zero_of_not_mem, List.count_eq_zero_of_not_mem] <;> simp [hc]

structure VisitFacts (p : VisitProg) (sch : Schema) (carry need skip : List Nat) : Prop where
  hcarry : ∀ k, k < sch.kinds.length → carry.contains k = false →
      sch.isInteresting k = false ∧ ∀ s ∈ sch.fieldsOf k, shapeCarries sch carry s = false
  hneed1 : ∀ k, k < sch.kinds.length → sch.isInteresting k = true → need.contains k = true
  hneed2 : ∀ k, k < sch.kinds.length → need.contains k = true → skip.contains k = false →
      ∀ s ∈ sch.fieldsOf k, ∀ k' ∈ kindsUnder sch s, carry.contains k' = true → need.contains k' = true
  hdisp : ∀ d ∈ p.dispatch, d.1 = d.2
  hk1 : ∀ k, need.contains k = true → p.target sch k = some k
  hk2 : ∀ k, need.contains k = true → skip.contains k = true → p.calls k = []
  hk3 : ∀ k, need.contains k = true → skip.contains k = false → visitEntryOk sch carry p k = true

theorem visitWFb_facts {p sch carry need skip} (h : visitWFb p sch carry need skip = true) :
    VisitFacts p sch carry need skip := by
  simp only [visitWFb, Bool.and_eq_true, List.all_eq_true, beq_iff_eq] at h
  obtain ⟨⟨⟨h1, h2⟩, h3⟩, h4⟩ := h
  simp only [carryClosed, List.all_eq_true, List.mem_range, Bool.or_eq_true, Bool.and_eq_true,
    Bool.not_eq_true'] at h1
  simp only [neededClosed, List.all_eq_true, List.mem_range, Bool.or_eq_true, Bool.and_eq_true,
    Bool.not_eq_true'] at h2
  refine ⟨?_, ?_, ?_, ?_, ?_, ?_, ?_⟩
  · intro k hk hc
    rcases h1 k hk with h | h
    · rw [hc] at h; cases h
    · exact h
  · intro k hk hi
    rcases (h2 k hk).1 with h | h
    · rw [hi] at h; cases h
    · exact h
  · intro k hk hn hs s hs' k' hk' hc
    rcases (h2 k hk).2 with (h | h) | h
    · rw [hn] at h; cases h
    · rw [hs] at h; cases h
    · rcases h s hs' k' hk' with h | h
      · rw [hc] at h; cases h
      · exact h
  · intro d hd; exact h3 d hd
  · intro k hk
    exact (h4 k (by simpa using hk)).1
  · intro k hk hs
    have := (h4 k (by simpa using hk)).2
    rw [hs] at this
    simpa using this
  · intro k hk hs
    have := (h4 k (by simpa using hk)).2
    rw [hs] at this
    simpa using this

theorem target_cases {p : VisitProg} {sch : Schema} (hd : ∀ d ∈ p.dispatch, d.1 = d.2) (k : Nat) :
    p.target sch k = none ∨ p.target sch k = some k := by
  unfold VisitProg.target
  split
  · split
    · cases hf : p.dispatch.find? (fun d => d.1 == k) with
      | none => simp
      | some d =>
        have h1 := List.mem_of_find?_eq_some hf
        have h2 := List.find?_some hf
        simp at h2
        right; simp [← hd d h1, h2]
    · simp
  · split <;> simp

theorem kinds_lt_of_some {sch : Schema} {k : Nat} {ki} (h : sch.kinds[k]? = some ki) : k < sch.kinds.length := by
  rcases Nat.lt_or_ge k sch.kinds.length with h' | h'
  · exact h'
  · simp [List.getElem?_eq_none h'] at h

theorem fieldsOf_eq {sch : Schema} {k : Nat} {ki} (h : sch.kinds[k]? = some ki) : sch.fieldsOf k = ki.fields := by
  simp [Schema.fieldsOf, h]

theorem shapeCarries_opt (sch carry s) : shapeCarries sch carry (.opt s) = shapeCarries sch carry s := by
  simp [shapeCarries, kindsUnder]
theorem shapeCarries_list (sch carry s) : shapeCarries sch carry (.list s) = shapeCarries sch carry s := by
  simp [shapeCarries, kindsUnder]

/-- the (kind, range) event of a node, if it is a stmt/expr/pattern/excepthandler -/
def selfEv (sch : Schema) (k : Nat) (r : Option Range) : List VEv :=
  if sch.isInteresting k then [⟨k, r⟩] else []

theorem visitT_node (p : VisitProg) (sch : Schema) (k r fs) :
    visitT p sch (.node k r fs) = match p.target sch k with
      | none => []
      | some k' => ⟨k', r⟩ :: (p.calls k').flatMap fun i => ((fs[i]?).map (visitT p sch)).getD [] := by
  simp only [visitT, visitL_eq, List.getElem?_map]
  rfl

/-- subtrees that cannot hold an interesting node produce no interesting event and contain none -/
theorem barren {p sch carry need skip} (hf : VisitFacts p sch carry need skip) :
    ∀ t sh, conf sch sh t = true → shapeCarries sch carry sh = false →
      interestingEvents sch (visitT p sch t) = [] ∧ reachOutside sch skip t = [] := by
  intro t
  induction t using Tree.ind with
  | hleaf a => intro sh _ _; simp [visitT, reachOutside, interestingEvents]
  | hnone => intro sh _ _; simp [visitT, reachOutside, interestingEvents]
  | hsome t ih =>
    intro sh hc hs
    obtain ⟨s, rfl, hcs⟩ := conf_some hc
    rw [shapeCarries_opt] at hs
    simpa [visitT, reachOutside] using ih s hcs hs
  | hlist xs ih =>
    intro sh hc hs
    obtain ⟨s, rfl, hcs⟩ := conf_list hc
    rw [shapeCarries_list] at hs
    simp only [visitT, visitL_eq, reachOutside, reachOutsideL_eq, ← List.flatMap_id', List.flatMap_map]
    constructor
    · rw [IE_flatMap]; exact flatMap_eq_nil_of _ _ fun x hx => (ih x hx s (hcs x hx) hs).1
    · exact flatMap_eq_nil_of _ _ fun x hx => (ih x hx s (hcs x hx) hs).2
  | hnode k r fs ih =>
    intro sh hc hs
    obtain ⟨ki, hk, _, hz, hmem⟩ := conf_node hc
    have hlt := kinds_lt_of_some hk
    have hnc : carry.contains k = false := by
      simp only [shapeCarries, List.any_eq_false] at hs
      have := hs k hmem
      simpa using this
    obtain ⟨hni, hfields⟩ := hf.hcarry k hlt hnc
    rw [fieldsOf_eq hk] at hfields
    have hn := confZip_length hz
    have hsub : ∀ (i : Nat) t, fs[i]? = some t →
        interestingEvents sch (visitT p sch t) = [] ∧ reachOutside sch skip t = [] := by
      intro i t hi
      have hil : i < fs.length := by
        rcases Nat.lt_or_ge i fs.length with h | h
        · exact h
        · simp [List.getElem?_eq_none h] at hi
      have hs' : ki.fields[i]? = some (ki.fields[i]'(by omega)) := List.getElem?_eq_getElem (by omega)
      exact ih t (List.mem_of_getElem? hi) _ (confZip_get hz i _ t hs' hi)
        (hfields _ (List.getElem_mem _))
    constructor
    · rw [visitT_node]
      rcases target_cases hf.hdisp (sch := sch) k with h | h
      · simp [h, interestingEvents]
      · simp only [h]
        have : interestingEvents sch (⟨k, r⟩ :: (p.calls k).flatMap fun i => ((fs[i]?).map (visitT p sch)).getD [])
            = interestingEvents sch ((p.calls k).flatMap fun i => ((fs[i]?).map (visitT p sch)).getD []) := by
          simp [interestingEvents, List.filter_cons, hni]
        rw [this, IE_flatMap]
        apply flatMap_eq_nil_of
        intro i _
        cases hi : fs[i]? with
        | none => simp [interestingEvents]
        | some t => simpa using (hsub i t hi).1
    · have hall : fs.flatMap (reachOutside sch skip) = [] := by
        apply flatMap_eq_nil_of
        intro t ht
        obtain ⟨i, hi, hti⟩ := List.getElem_of_mem ht
        exact (hsub i t (by rw [List.getElem?_eq_getElem hi, hti])).2
      simp [reachOutside, hni, reachOutsideL_eq, hall]

theorem kindsUnder_opt (sch s) : kindsUnder sch (.opt s) = kindsUnder sch s := rfl
theorem kindsUnder_list (sch s) : kindsUnder sch (.list s) = kindsUnder sch s := rfl

theorem visit_perm_shape {p sch carry need skip} (hf : VisitFacts p sch carry need skip) :
    ∀ t sh, conf sch sh t = true →
      (∀ k ∈ kindsUnder sch sh, carry.contains k = true → need.contains k = true) →
      (interestingEvents sch (visitT p sch t)).Perm (reachOutside sch skip t) := by
  intro t
  induction t using Tree.ind with
  | hleaf a => intro sh _ _; simp [visitT, reachOutside, interestingEvents]
  | hnone => intro sh _ _; simp [visitT, reachOutside, interestingEvents]
  | hsome t ih =>
    intro sh hc hs
    obtain ⟨s, rfl, hcs⟩ := conf_some hc
    simpa [visitT, reachOutside] using ih s hcs hs
  | hlist xs ih =>
    intro sh hc hs
    obtain ⟨s, rfl, hcs⟩ := conf_list hc
    simp only [visitT, visitL_eq, reachOutside, reachOutsideL_eq, ← List.flatMap_id', List.flatMap_map]
    rw [IE_flatMap]
    exact perm_flatMap_pointwise _ _ _ fun x hx => ih x hx s (hcs x hx) hs
  | hnode k r fs ih =>
    intro sh hc hs
    by_cases hcar : shapeCarries sch carry sh = false
    · obtain ⟨h1, h2⟩ := barren hf _ sh hc hcar
      rw [h1, h2]
    obtain ⟨ki, hk, _, hz, hmem⟩ := conf_node hc
    have hlt := kinds_lt_of_some hk
    have hn := confZip_length hz
    by_cases hkc' : carry.contains k = false
    · have hkc : ¬ carry.contains k = true := by rw [hkc']; simp
      -- a non-carrying node below a carrying shape: same as barren, via the kind shape
      have hc' : conf sch (.kind k) (.node k r fs) = true := by
        simp only [conf, Bool.and_eq_true] at hc ⊢
        exact ⟨by simp, hc.2⟩
      have : shapeCarries sch carry (.kind k) = false := by
        simp [shapeCarries, kindsUnder]; simpa using hkc
      obtain ⟨h1, h2⟩ := barren hf _ _ hc' this
      rw [h1, h2]
    have hkc : carry.contains k = true := by simpa using hkc'
    have hnd := hs k hmem hkc
    have htg := hf.hk1 k hnd
    rw [visitT_node, htg]
    have hhead : interestingEvents sch (⟨k, r⟩ :: (p.calls k).flatMap fun i => ((fs[i]?).map (visitT p sch)).getD [])
        = selfEv sch k r ++ (p.calls k).flatMap fun i => interestingEvents sch (((fs[i]?).map (visitT p sch)).getD []) := by
      rw [← IE_flatMap]
      by_cases hi : sch.isInteresting k = true <;> simp [interestingEvents, List.filter_cons, selfEv, hi]
    simp only []
    rw [hhead]
    have hreach : reachOutside sch skip (.node k r fs) =
        selfEv sch k r ++ (if skip.contains k then [] else fs.flatMap (reachOutside sch skip)) := by
      simp [reachOutside, reachOutsideL_eq, selfEv]
    rw [hreach]
    apply List.Perm.append (List.Perm.refl _)
    cases hsk : skip.contains k with
    | true => simp [hf.hk2 k hnd hsk]
    | false =>
      simp only [Bool.false_eq_true, if_false]
      have hok := hf.hk3 k hnd hsk
      simp only [visitEntryOk, fieldsOf_eq hk, Bool.and_eq_true, List.all_eq_true, decide_eq_true_eq,
        List.mem_range, Bool.or_eq_true, Bool.not_eq_true', beq_iff_eq] at hok
      obtain ⟨hcl, hcnt⟩ := hok
      let c : Nat → Bool := fun i => shapeCarries sch carry (ki.fields[i]?.getD .leaf)
      let G : Nat → List VEv := fun i => interestingEvents sch (((fs[i]?).map (visitT p sch)).getD [])
      let R : Nat → List VEv := fun i => ((fs[i]?).map (reachOutside sch skip)).getD []
      have hsubconf : ∀ (i : Nat) t, fs[i]? = some t → ∃ s, ki.fields[i]? = some s ∧ conf sch s t = true := by
        intro i t hi
        have hil : i < fs.length := by
          rcases Nat.lt_or_ge i fs.length with h | h
          · exact h
          · simp [List.getElem?_eq_none h] at hi
        have hs' : ki.fields[i]? = some (ki.fields[i]'(by omega)) := List.getElem?_eq_getElem (by omega)
        exact ⟨_, hs', confZip_get hz i _ t hs' hi⟩
      have hGnil : ∀ i, c i = false → G i = [] ∧ R i = [] := by
        intro i hci
        cases hi : fs[i]? with
        | none => simp [G, R, hi, interestingEvents]
        | some t =>
          obtain ⟨s, hs1, hs2⟩ := hsubconf i t hi
          have : shapeCarries sch carry s = false := by simpa [c, hs1] using hci
          simpa [G, R, hi] using barren hf t s hs2 this
      have e1 : (p.calls k).flatMap G = ((p.calls k).filter c).flatMap G :=
        flatMap_filter_of_nil c G _ fun a _ ha => (hGnil a ha).1
      have e2 : fs.flatMap (reachOutside sch skip) = ((List.range ki.fields.length).filter c).flatMap R := by
        have := flatMap_range_getElem fs (fun o => (o.map (reachOutside sch skip)).getD [])
        rw [hn] at this
        simp only [Option.map_some, Option.getD_some] at this
        rw [← this]
        exact flatMap_filter_of_nil c R _ fun a _ ha => (hGnil a ha).2
      show ((p.calls k).flatMap G).Perm _
      rw [e1, e2]
      have hperm := filter_perm_of_count c (p.calls k) ki.fields.length hcl (by
        intro i hi hci
        rcases hcnt i hi with h | h
        · simp [c, h] at hci
        · exact h)
      refine (List.Perm.flatMap_right G hperm).trans ?_
      apply perm_flatMap_pointwise
      intro i hi
      simp only [List.mem_filter, List.mem_range] at hi
      have hil : i < fs.length := by omega
      have hi' : fs[i]? = some fs[i] := List.getElem?_eq_getElem hil
      obtain ⟨s, hs1, hs2⟩ := hsubconf i _ hi'
      simp only [G, R, hi', Option.map_some, Option.getD_some]
      refine ih _ (List.getElem_mem _) s hs2 ?_
      intro k' hk' hck'
      refine hf.hneed2 k hlt hnd hsk s ?_ k' hk' hck'
      rw [fieldsOf_eq hk]
      exact List.mem_of_getElem? hs1

/-! ### ConstantOptimizer -/
open Opt

theorem optL_eq (c) (xs : List Tree) : Spec.optL c xs = xs.map (Spec.opt c) := by
  induction xs with
  | nil => simp [Spec.optL]
  | cons t ts ih => simp [Spec.optL, ih]

theorem constTuple_node (c k r fs) :
    constTuple c (.node k r fs) = tupleStep c k r (fs.map (constTuple c)) := by
  simp [constTuple, constTupleL_eq]

theorem specOpt_node (c k r fs) :
    Spec.opt c (.node k r fs) = Spec.tupleStep c k r (fs.map (Spec.opt c)) := by
  simp [Spec.opt, optL_eq]

/-- the model's tuple arm is the reference one -/
theorem tupleStep_eq_spec (c : OptCfg) (k r) (fs' : List Tree) :
    tupleStep c k r fs' = Spec.tupleStep c k r fs' := by
  unfold tupleStep Spec.tupleStep
  by_cases hk : (k == c.tuple) = true
  · simp only [hk, if_true]
    cases he : eltsOf fs' with
    | none => simp
    | some elts =>
      cases hc : ctxOf fs' with
      | none => simp
      | some ctx =>
        have : (some ctx == some loadText) = (ctx == Spec.loadText) := by
          simp [loadText, Spec.loadText]
        simp only [this]
  · have hk' : (k == c.tuple) = false := by simpa using hk
    simp [hk']

theorem opt_spec_aux (c : OptCfg) : ∀ t, constTuple c t = Spec.opt c t := by
  intro t
  induction t using Tree.ind with
  | hleaf a => simp [constTuple, Spec.opt]
  | hnone => simp [constTuple, Spec.opt]
  | hsome t ih => simp [constTuple, Spec.opt, ih]
  | hlist xs ih =>
    simp only [constTuple, Spec.opt, constTupleL_eq, optL_eq]
    congr 1
    exact List.map_congr_left fun x hx => ih x hx
  | hnode k r fs ih =>
    have hmap : fs.map (constTuple c) = fs.map (Spec.opt c) :=
      List.map_congr_left fun x hx => ih x hx
    rw [constTuple_node, specOpt_node, ← hmap, tupleStep_eq_spec]

/-- a fixed field list stays fixed under `tupleStep` followed by another pass -/
theorem constTuple_tupleStep (c : OptCfg) (hne : c.tuple ≠ c.const) (k r) (fs' : List Tree)
    (hfix : fs'.map (constTuple c) = fs') :
    constTuple c (tupleStep c k r fs') = tupleStep c k r fs' := by
  have hnode : constTuple c (.node k r fs') = tupleStep c k r fs' := by
    rw [constTuple_node, hfix]
  have hconst : ∀ elts, constTuple c (mkConst c r elts) = mkConst c r elts := by
    intro elts
    have : (c.const == c.tuple) = false := by simp; exact fun h => hne h.symm
    simp [mkConst, constTuple_node, tupleStep, this, constTuple]
  by_cases h1 : (k == c.tuple) = true
  · cases he : eltsOf fs' with
    | none =>
      have : tupleStep c k r fs' = .node k r fs' := by simp [tupleStep, h1, he]
      rw [this, hnode, this]
    | some elts =>
      cases ha : (ctxOf fs' == some loadText && elts.all (isConstNode c)) with
      | true =>
        have : tupleStep c k r fs' = mkConst c r elts := by simp only [tupleStep, h1, he, ha]; simp
        rw [this]; exact hconst _
      | false =>
        have : tupleStep c k r fs' = .node k r fs' := by simp only [tupleStep, h1, he, ha]; simp
        rw [this, hnode, this]
  · have h1' : (k == c.tuple) = false := by simpa using h1
    have : tupleStep c k r fs' = .node k r fs' := by simp [tupleStep, h1']
    rw [this, hnode, this]

theorem opt_idempotent_aux (c : OptCfg) (hne : c.tuple ≠ c.const) :
    ∀ t, constTuple c (constTuple c t) = constTuple c t := by
  intro t
  induction t using Tree.ind with
  | hleaf a => simp [constTuple]
  | hnone => simp [constTuple]
  | hsome t ih => simp [constTuple, ih]
  | hlist xs ih =>
    simp only [constTuple, constTupleL_eq, List.map_map]
    congr 1
    apply List.map_congr_left
    intro x hx; exact ih x hx
  | hnode k r fs ih =>
    rw [constTuple_node]
    apply constTuple_tupleStep c hne
    rw [List.map_map]
    apply List.map_congr_left
    intro x hx; exact ih x hx
end PV.C12
