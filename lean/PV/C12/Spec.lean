import PV.C12.Model
/-
  C12 — reference definitions, written from the property text (not from the Rust control flow).
-/
namespace PV.C12.Spec
open PV.C12

/-- `Debug` text of `ExprContext::Load` -/
def loadText : List Nat := [76, 111, 97, 100]

/-- The property: "replace load-context tuples whose elements are all constants by the equal tuple
    constant" — everything else is left as it is. -/
def tupleStep (c : OptCfg) (k : Nat) (r : Option Range) (fs' : List Tree) : Tree :=
  if k == c.tuple then
    match Opt.eltsOf fs', Opt.ctxOf fs' with
    | some elts, some ctx =>
      if ctx == loadText && elts.all (isConstNode c) then Opt.mkConst c r elts else .node k r fs'
    | _, _ => .node k r fs'
  else .node k r fs'

mutual
def opt (c : OptCfg) : Tree → Tree
  | .leaf a => .leaf a
  | .none => .none
  | .some t => .some (opt c t)
  | .list xs => .list (optL c xs)
  | .node k r fs => tupleStep c k r (optL c fs)
def optL (c : OptCfg) : List Tree → List Tree
  | [] => []
  | t :: ts => opt c t :: optL c ts
end

end PV.C12.Spec
