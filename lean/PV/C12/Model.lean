/-
  C12 — generic model of the generated `Fold` / `Visitor` code of `rustpython-ast`
  (`ast/src/gen/fold.rs`, `ast/src/fold.rs`, `ast/src/gen/visitor.rs`) and of
  `ConstantOptimizer::fold_expr` (`ast/src/optimizer.rs`).

  Nothing here knows a concrete node kind.  The node kinds, field shapes, the per-kind fold
  programs and visit programs are DATA (`Schema`, `FoldProg`, `VisitProg`) that
  `tools/c12_translate.py` regenerates from the Rust sources on every run into `PV/Gen/C12*.lean`.
  The interpreters below give that data its meaning; `PV/C12/Thm.lean` proves the property for every
  program satisfying a decidable well-formedness predicate, and the regenerated programs are shown
  well-formed by `decide`.

  Core Lean only (linked into `drv_c12`).
-/
namespace PV.C12

/-- byte range `start..end` of a node -/
abbrev Range := Nat × Nat

/-- Generic syntax tree.  `leaf` carries the bytes of the Rust `Debug` text of a leaf value
    (identifier, constant, operator, bool …); `Box` is transparent. -/
inductive Tree where
  | leaf (a : List Nat)
  | node (k : Nat) (r : Option Range) (fs : List Tree)
  | list (xs : List Tree)
  | none
  | some (t : Tree)
deriving Repr, Inhabited

mutual
/-- structural equality (the Rust side's derived `PartialEq`) -/
def Tree.beq : Tree → Tree → Bool
  | .leaf a, .leaf b => a == b
  | .none, .none => true
  | .some a, .some b => Tree.beq a b
  | .list xs, .list ys => Tree.beqL xs ys
  | .node k r fs, .node k' r' fs' => k == k' && r == r' && Tree.beqL fs fs'
  | _, _ => false
def Tree.beqL : List Tree → List Tree → Bool
  | [], [] => true
  | a :: as, b :: bs => Tree.beq a b && Tree.beqL as bs
  | _, _ => false
end

/-- declared type of a field -/
inductive Shape where
  | leaf
  | kind (k : Nat)        -- a product node type (`Arguments<R>`, `Keyword<R>` …)
  | sum (s : Nat)         -- a sum type (`Stmt<R>`, `Expr<R>` …): any of its variant kinds
  | list (s : Shape)
  | opt (s : Shape)
deriving Repr, DecidableEq, Inhabited

structure KindInfo where
  /-- the sum type this kind is a variant of, if any -/
  sum : Option Nat
  /-- 1: `range: R` (always present); 2: `range: OptionalRange<R>` (present only with
      feature `all-nodes-with-ranges`) -/
  rangeMode : Nat
  fields : List Shape
deriving Repr, Inhabited

structure Schema where
  kinds : List KindInfo
  /-- ids of the sum types the Visitor part of the property speaks about
      (stmt, expr, pattern, excepthandler) -/
  interesting : List Nat
deriving Repr, Inhabited

def Schema.sumOf (sch : Schema) (k : Nat) : Option Nat := (sch.kinds[k]?).bind (·.sum)

def Schema.fieldsOf (sch : Schema) (k : Nat) : List Shape := ((sch.kinds[k]?).map (·.fields)).getD []

def Schema.nfields (sch : Schema) (k : Nat) : Nat := (sch.fieldsOf k).length

/-- is `k` a stmt / expr / pattern / excepthandler node kind -/
def Schema.isInteresting (sch : Schema) (k : Nat) : Bool :=
  match sch.sumOf k with
  | some s => sch.interesting.contains s
  | none => false

/-! ### Conformance of a tree to the schema -/

def rangeOk (mode : Nat) (r : Option Range) : Bool :=
  if mode == 1 then r.isSome else true

mutual
def conf (sch : Schema) : Shape → Tree → Bool
  | sh, .leaf _ => sh == .leaf
  | sh, .none => match sh with
    | .opt _ => true
    | _ => false
  | sh, .some t => match sh with
    | .opt s => conf sch s t
    | _ => false
  | sh, .list xs => match sh with
    | .list s => confAll sch s xs
    | _ => false
  | sh, .node k r fs =>
    (match sh with
      | .kind k' => k == k'
      | .sum s => sch.sumOf k == some s
      | _ => false) &&
    (match sch.kinds[k]? with
      | some ki => rangeOk ki.rangeMode r && confZip sch ki.fields fs
      | none => false)
def confAll (sch : Schema) (s : Shape) : List Tree → Bool
  | [] => true
  | t :: ts => conf sch s t && confAll sch s ts
def confZip (sch : Schema) : List Shape → List Tree → Bool
  | [], [] => true
  | s :: ss, t :: ts => conf sch s t && confZip sch ss ts
  | _, _ => false
end

/-- a well-formed tree rooted at a node -/
def Conforms (sch : Schema) : Tree → Prop
  | .node k r fs => conf sch (.kind k) (.node k r fs) = true
  | _ => False

instance (sch : Schema) (t : Tree) : Decidable (Conforms sch t) := by
  cases t <;> simp only [Conforms] <;> infer_instance

/-! ### Fold -/

/-- What one generated `fold_<kind>` function does (fields are numbered in struct order, the
    `range` field excluded; variables carry the number of the field they are named after). -/
structure FoldEntry where
  /-- fields bound by `let Kind { … } = node;` -/
  destruct : List Nat
  /-- 0: no call, 1: `will_map_user(&range)`, 2: `will_map_user_cfg(&range)` -/
  will : Nat
  /-- `let dst = Foldable::fold(src, folder)?;` in order, as (dst, src); `src` is always an
      original (not yet rebound) variable — the translator rejects anything else -/
  calls : List (Nat × Nat)
  /-- 0: no call, 1: `map_user(range, context)`, 2: `map_user_cfg(range, context)` -/
  map : Nat
  /-- for every field of the struct, in struct order, the variable used in `Ok(Kind { … })` -/
  rebuild : List Nat
deriving Repr, Inhabited

structure FoldProg where
  entries : List FoldEntry     -- indexed by kind id
deriving Repr, Inhabited

/-- recorded folder activity -/
inductive FEv where
  | enter (k : Nat)            -- `fold_<kind>` entered
  | will (r : Range)           -- `will_map_user(&r)`
  | map (r : Range)            -- `map_user(r, ctx)`
deriving Repr, DecidableEq, Inhabited

/-- placeholder for a variable that was never bound (cannot happen in code that compiles) -/
def missing : Tree := .leaf []

/-- value of variable `v` after all fold calls -/
def varVal (e : FoldEntry) (fs : List Tree) (pre : List (Tree × List FEv)) (v : Nat) : Tree :=
  match e.calls.reverse.find? (fun c => c.1 == v) with
  | some c => ((pre[c.2]?).map (·.1)).getD missing
  | none => if e.destruct.contains v then (fs[v]?).getD missing else missing

/-- body of a generated `fold_<kind>`: `pre` holds, per field, the result of `Foldable::fold` on the
    original field value -/
def assemble (e : FoldEntry) (f : Range → Range) (k : Nat) (r : Option Range) (fs : List Tree)
    (pre : List (Tree × List FEv)) : Tree × List FEv :=
  let wEv : List FEv := match r with
    | some x => if e.will == 0 then [] else [.will x]
    | none => []
  let mEv : List FEv := match r with
    | some x => if e.map == 0 then [] else [.map x]
    | none => []
  let r' : Option Range := if e.map == 0 then r else r.map f
  let evs := e.calls.flatMap fun c => ((pre[c.2]?).map (·.2)).getD []
  (.node k r' (e.rebuild.map (varVal e fs pre)), .enter k :: (wEv ++ evs ++ mEv))

mutual
/-- `Foldable::fold` on a value, with a folder whose `map_user` is `f` and which records its calls -/
def foldT (p : FoldProg) (f : Range → Range) : Tree → Tree × List FEv
  | .leaf a => (.leaf a, [])
  | .none => (.none, [])
  | .some t =>
    let r := foldT p f t
    (r.1.some, r.2)
  | .list xs =>
    let rs := foldL p f xs
    (.list (rs.map (·.1)), rs.flatMap (·.2))
  | .node k r fs =>
    match p.entries[k]? with
    | some e => assemble e f k r fs (foldL p f fs)
    | none => (.node k r fs, [])
def foldL (p : FoldProg) (f : Range → Range) : List Tree → List (Tree × List FEv)
  | [] => []
  | t :: ts => foldT p f t :: foldL p f ts
end

def foldWith (p : FoldProg) (f : Range → Range) (t : Tree) : Tree × List FEv := foldT p f t

def entryWF (ki : KindInfo) (e : FoldEntry) : Bool :=
  let n := ki.fields.length
  (List.range n).all (fun i => e.destruct.contains i) &&
  e.calls.all (fun c => c.1 == c.2) &&
  (e.calls.map (·.2)).isPerm (List.range n) &&
  e.rebuild == List.range n &&
  (ki.rangeMode == 1 || ki.rangeMode == 2) &&
  e.will == ki.rangeMode && e.map == ki.rangeMode

def zipAll {α β} (p : α → β → Bool) : List α → List β → Bool
  | [], [] => true
  | a :: as, b :: bs => p a b && zipAll p as bs
  | _, _ => false

/-- every field of every kind is destructured, folded exactly once, put back into the SAME field;
    the range is announced and mapped exactly once with the call variant matching its type -/
def FoldWF (p : FoldProg) (sch : Schema) : Prop := zipAll entryWF sch.kinds p.entries = true

instance (p : FoldProg) (sch : Schema) : Decidable (FoldWF p sch) := by unfold FoldWF; infer_instance

/-! ### what the fold part of the property counts -/

mutual
/-- ranges of all range-carrying nodes, in pre-order -/
def rangesOf : Tree → List Range
  | .leaf _ => []
  | .none => []
  | .some t => rangesOf t
  | .list xs => rangesOfL xs
  | .node _ r fs => (match r with | some x => [x] | none => []) ++ rangesOfL fs
def rangesOfL : List Tree → List Range
  | [] => []
  | t :: ts => rangesOf t ++ rangesOfL ts
end

def mapCalls (evs : List FEv) : List Range :=
  evs.filterMap fun | .map r => some r | _ => none

def willCalls (evs : List FEv) : List Range :=
  evs.filterMap fun | .will r => some r | _ => none

/-! ### Visitor -/

structure VEv where
  kind : Nat
  range : Option Range
deriving Repr, DecidableEq, Inhabited

structure VisitProg where
  /-- per kind id: `none` if there is no `visit_<kind>` method, else the fields visited by its
      `generic_visit_<kind>` body, in order -/
  entries : List (Option (List Nat))
  /-- sum types that have a `visit_<sum>` method -/
  sums : List Nat
  /-- flattened `match` tables of the `generic_visit_<sum>` methods: (variant kind, kind whose
      visit method is called) -/
  dispatch : List (Nat × Nat)
deriving Repr, Inhabited

def VisitProg.calls (p : VisitProg) (k : Nat) : List Nat := ((p.entries[k]?).join).getD []

/-- which `visit_<kind>` method ends up being called for a node of kind `k` -/
def VisitProg.target (p : VisitProg) (sch : Schema) (k : Nat) : Option Nat :=
  match sch.sumOf k with
  | some s => if p.sums.contains s then (p.dispatch.find? (fun d => d.1 == k)).map (·.2) else none
  | none => if ((p.entries[k]?).join).isSome then some k else none

mutual
/-- default `Visitor` started on a value: the sequence of `visit_<kind>` calls (kind, range) -/
def visitT (p : VisitProg) (sch : Schema) : Tree → List VEv
  | .leaf _ => []
  | .none => []
  | .some t => visitT p sch t
  | .list xs => (visitL p sch xs).flatten
  | .node k r fs =>
    match p.target sch k with
    | none => []
    | some k' =>
      let pre := visitL p sch fs
      ⟨k', r⟩ :: (p.calls k').flatMap fun i => (pre[i]?).getD []
def visitL (p : VisitProg) (sch : Schema) : List Tree → List (List VEv)
  | [] => []
  | t :: ts => visitT p sch t :: visitL p sch ts
end

def visitWith (p : VisitProg) (sch : Schema) (t : Tree) : List VEv := visitT p sch t

/-- kinds a field of the given shape can hold directly (through list / option) -/
def kindsUnder (sch : Schema) : Shape → List Nat
  | .leaf => []
  | .kind k => [k]
  | .sum s => (List.range sch.kinds.length).filter fun k => sch.sumOf k == some s
  | .list s => kindsUnder sch s
  | .opt s => kindsUnder sch s

/-- can a field of this shape contain a node whose kind is in `carry` -/
def shapeCarries (sch : Schema) (carry : List Nat) (s : Shape) : Bool :=
  (kindsUnder sch s).any fun k => carry.contains k

/-- `carry` is closed: a kind outside it is not interesting and none of its fields can hold a kind
    inside it — so subtrees of kinds outside `carry` contain no interesting node -/
def carryClosed (sch : Schema) (carry : List Nat) : Bool :=
  (List.range sch.kinds.length).all fun k =>
    carry.contains k ||
      (!sch.isInteresting k &&
       (sch.fieldsOf k).all fun s => !shapeCarries sch carry s)

/-- `need` contains every interesting kind and every carrying kind reachable from it without
    passing through a kind in `skip` -/
def neededClosed (sch : Schema) (carry need skip : List Nat) : Bool :=
  (List.range sch.kinds.length).all fun k =>
    (!sch.isInteresting k || need.contains k) &&
    (!need.contains k || skip.contains k ||
      ((sch.fieldsOf k).all fun s =>
        (kindsUnder sch s).all fun k' => !carry.contains k' || need.contains k'))

/-- the visit method of kind `k` visits every carrying field exactly once (and nothing out of range) -/
def visitEntryOk (sch : Schema) (carry : List Nat) (p : VisitProg) (k : Nat) : Bool :=
  let fields := sch.fieldsOf k
  (p.calls k).all (fun i => i < fields.length) &&
  (List.range fields.length).all fun i =>
    !shapeCarries sch carry (fields[i]?.getD .leaf) || (p.calls k).count i == 1

/-- Well-formedness of the visitor program except for the kinds in `skip`, whose visit methods are
    called but have an empty body.  `carry` and `need` are certificates (closure checked here). -/
def visitWFb (p : VisitProg) (sch : Schema) (carry need skip : List Nat) : Bool :=
  carryClosed sch carry && neededClosed sch carry need skip &&
  p.dispatch.all (fun d => d.1 == d.2) &&
  need.all fun k =>
    p.target sch k == some k &&
    (if skip.contains k then (p.calls k).isEmpty else visitEntryOk sch carry p k)

def VisitWFExcept (skip : List Nat) (p : VisitProg) (sch : Schema) (carry need : List Nat) : Prop :=
  visitWFb p sch carry need skip = true

/-- every child field that can hold stmt/expr/pattern/excepthandler nodes — directly, through
    list/option, or through product kinds — is visited exactly once -/
def VisitWF (p : VisitProg) (sch : Schema) (carry need : List Nat) : Prop :=
  VisitWFExcept [] p sch carry need

instance (skip) (p : VisitProg) (sch : Schema) (carry need : List Nat) :
    Decidable (VisitWFExcept skip p sch carry need) := by unfold VisitWFExcept; infer_instance
instance (p : VisitProg) (sch : Schema) (carry need : List Nat) : Decidable (VisitWF p sch carry need) := by
  unfold VisitWF; infer_instance

mutual
/-- all stmt/expr/pattern/excepthandler nodes of a tree (kind, range), pre-order — except those
    strictly below a node whose kind is in `skip` -/
def reachOutside (sch : Schema) (skip : List Nat) : Tree → List VEv
  | .leaf _ => []
  | .none => []
  | .some t => reachOutside sch skip t
  | .list xs => reachOutsideL sch skip xs
  | .node k r fs =>
    (if sch.isInteresting k then [⟨k, r⟩] else []) ++
    (if skip.contains k then [] else reachOutsideL sch skip fs)
def reachOutsideL (sch : Schema) (skip : List Nat) : List Tree → List VEv
  | [] => []
  | t :: ts => reachOutside sch skip t ++ reachOutsideL sch skip ts
end

/-- all stmt/expr/pattern/excepthandler nodes of a tree -/
def interestingNodes (sch : Schema) (t : Tree) : List VEv := reachOutside sch [] t

def interestingEvents (sch : Schema) (evs : List VEv) : List VEv :=
  evs.filter fun e => sch.isInteresting e.kind

/-! ### ConstantOptimizer::fold_expr -/

/-- the four facts about the schema the optimiser needs: kind ids of `ExprTuple` / `ExprConstant`
    (fields of `ExprTuple`: `[elts, ctx]`; of `ExprConstant`: `[value, kind]`) -/
structure OptCfg where
  tuple : Nat
  const : Nat
deriving Repr, Inhabited

def isConstNode (c : OptCfg) : Tree → Bool
  | .node k _ _ => k == c.const
  | _ => false

/-- `Constant` payload of an `ExprConstant` node (bytes of its `Debug` text) -/
def constValue : Tree → List Nat
  | .node _ _ (.leaf v :: _) => v
  | _ => []

def joinBytes (sep : List Nat) : List (List Nat) → List Nat
  | [] => []
  | [x] => x
  | x :: xs => x ++ sep ++ joinBytes sep xs

/-- `Debug` text of `Constant::Tuple(vec![…])`: `Tuple([a, b])` -/
def tupleText (vals : List (List Nat)) : List Nat :=
  "Tuple([".toUTF8.toList.map (·.toNat) ++ joinBytes [44, 32] vals ++ [93, 41]

namespace Opt
/-- the `Constant(ExprConstant { value: Constant::Tuple(..), kind: None, range })` node built from
    constant elements -/
def mkConst (c : OptCfg) (r : Option Range) (elts : List Tree) : Tree :=
  .node c.const r [.leaf (tupleText (elts.map constValue)), .none]

/-- the `elts` of an `ExprTuple` field list `[elts, ctx]` -/
def eltsOf : List Tree → Option (List Tree)
  | [.list elts, _] => some elts
  | _ => none

/-- the `ctx` leaf text of an `ExprTuple` field list `[elts, ctx]` -/
def ctxOf : List Tree → Option (List Nat)
  | [_, .leaf a] => some a
  | _ => none

/-- `Debug` text of `ExprContext::Load` -/
def loadText : List Nat := [76, 111, 97, 100]

/-- the `Expr::Tuple` arm of `ConstantOptimizer::fold_expr`, given the already optimised fields:
    `matches!(ctx, ExprContext::Load) && elts.iter().all(|e| e.is_constant_expr())` -/
def tupleStep (c : OptCfg) (k : Nat) (r : Option Range) (fs' : List Tree) : Tree :=
  if k == c.tuple then
    match eltsOf fs' with
    | some elts =>
      if ctxOf fs' == some loadText && elts.all (isConstNode c) then mkConst c r elts else .node k r fs'
    | none => .node k r fs'
  else .node k r fs'

mutual
/-- `ConstantOptimizer` applied through the generated fold to a whole tree -/
def constTuple (c : OptCfg) : Tree → Tree
  | .leaf a => .leaf a
  | .none => .none
  | .some t => .some (constTuple c t)
  | .list xs => .list (constTupleL c xs)
  | .node k r fs => tupleStep c k r (constTupleL c fs)
def constTupleL (c : OptCfg) : List Tree → List Tree
  | [] => []
  | t :: ts => constTuple c t :: constTupleL c ts
end
end Opt

end PV.C12
