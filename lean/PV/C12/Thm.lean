import PV.C12.Model
import PV.C12.Spec
import PV.C12.Lemmas
import PV.Gen.C12Schema
import PV.Gen.C12FoldProg
import PV.Gen.C12VisitProg
/-
  C12 — property theorems.

  Part 1: schema-generic theorems, proved once by induction over `Tree` for ARBITRARY programs.
  Part 2: the finite obligations about the programs regenerated from `ast/src/gen/*.rs`
          (`PV/Gen/C12*.lean`), re-proved by `decide` on every run, and the property for the real
          node kinds as their corollary.
  Part 3: the constant-tuple optimiser.
  The final step for the Visitor — `Gen.visit_complete_holds : visit_complete_full`, or, should the
  regenerated obligation ever become false again, kernel-checked witness trees and
  `Gen.visit_complete_fails` — is generated next to the data (`PV/Gen/C12Witness.lean`), because it
  depends on the regenerated truth value and the witness trees are written with regenerated kind ids.
-/
namespace PV.C12

/-! ## 1. generic theorems -/

/-- Folding with a range-preserving folder returns the input tree. -/
theorem fold_identity {p : FoldProg} {sch : Schema} (h : FoldWF p sch) (t : Tree)
    (hc : Conforms sch t) : (foldWith p id t).1 = t := by
  cases t <;> simp only [Conforms] at hc
  exact fold_identity_shape h _ _ hc

/-- Whatever the folder's `map_user` does: `map_user` (and `will_map_user`) is invoked exactly once
    for every range-carrying node — the calls are a permutation of the node ranges. -/
theorem fold_callbacks_once {p : FoldProg} {sch : Schema} (h : FoldWF p sch) (f : Range → Range)
    (t : Tree) (hc : Conforms sch t) :
    (mapCalls (foldWith p f t).2).Perm (rangesOf t) ∧ (willCalls (foldWith p f t).2).Perm (rangesOf t) := by
  cases t <;> simp only [Conforms] at hc
  exact ⟨mapCalls_perm_shape h f _ _ hc, willCalls_perm_shape h f _ _ hc⟩

/-- Visitor, relative to a set `skip` of kinds whose visit methods do not descend: started on a
    stmt/expr/pattern/excepthandler node, the default Visitor reaches exactly once every such node
    whose path from the root passes through no `skip` kind. -/
theorem visit_complete_upto {skip : List Nat} {p : VisitProg} {sch : Schema} {carry need : List Nat}
    (h : VisitWFExcept skip p sch carry need) (k : Nat) (r : Option Range) (fs : List Tree)
    (hc : Conforms sch (.node k r fs)) (hi : sch.isInteresting k = true) :
    (interestingEvents sch (visitWith p sch (.node k r fs))).Perm (reachOutside sch skip (.node k r fs)) := by
  have hf := visitWFb_facts h
  simp only [Conforms] at hc
  obtain ⟨ki, hk, _, _, _⟩ := conf_node hc
  refine visit_perm_shape hf _ _ hc ?_
  intro k' hk' _
  simp only [kindsUnder, List.mem_singleton] at hk'
  subst hk'
  exact hf.hneed1 _ (kinds_lt_of_some hk) hi

/-- The Visitor part of the property for a fully well-formed visitor program. -/
theorem visit_complete {p : VisitProg} {sch : Schema} {carry need : List Nat}
    (h : VisitWF p sch carry need) (k : Nat) (r : Option Range) (fs : List Tree)
    (hc : Conforms sch (.node k r fs)) (hi : sch.isInteresting k = true) :
    (interestingEvents sch (visitWith p sch (.node k r fs))).Perm (interestingNodes sch (.node k r fs)) :=
  visit_complete_upto h k r fs hc hi

/-! ## 2. the regenerated programs -/

set_option maxRecDepth 100000 in
/-- every generated `fold_*` destructures every field, folds it exactly once, puts it back into the
    same field and maps the range exactly once -/
theorem foldWF_gen : FoldWF Gen.foldProg Gen.schema := by decide +kernel

/-- Fold part of the property for the real node kinds (80 product types of `generic.rs`). -/
theorem fold_identity_gen (t : Tree) (hc : Conforms Gen.schema t) :
    (foldWith Gen.foldProg id t).1 = t := fold_identity foldWF_gen t hc

theorem fold_callbacks_once_gen (f : Range → Range) (t : Tree) (hc : Conforms Gen.schema t) :
    (mapCalls (foldWith Gen.foldProg f t).2).Perm (rangesOf t) ∧
    (willCalls (foldWith Gen.foldProg f t).2).Perm (rangesOf t) := fold_callbacks_once foldWF_gen f t hc

set_option maxRecDepth 100000 in
/-- the truth value of `VisitWF` for the regenerated visitor program is the one the translator
    announced (`true` since the visitor descends into product types, commit 30597f1; a regression
    makes it `false`, `Gen.visit_complete_holds` disappears and the check reports a violation) -/
theorem visitWF_gen_value :
    decide (VisitWF Gen.visitProg Gen.schema Gen.carry Gen.need) = Gen.visitWFExpected := by decide +kernel

set_option maxRecDepth 100000 in
/-- apart from the kinds in `Gen.visitSkip` (visit methods with an empty body; none at present) the
    regenerated visitor program is well-formed -/
theorem visitWFExcept_gen :
    VisitWFExcept Gen.visitSkip Gen.visitProg Gen.schema Gen.carry Gen.needPartial := by decide +kernel

/-- The full Visitor statement for the real node kinds. -/
def visit_complete_full : Prop :=
  ∀ (k : Nat) (r : Option Range) (fs : List Tree), Conforms Gen.schema (.node k r fs) →
    Gen.schema.isInteresting k = true →
    (interestingEvents Gen.schema (visitWith Gen.visitProg Gen.schema (.node k r fs))).Perm
      (interestingNodes Gen.schema (.node k r fs))

/-- It holds whenever the regenerated obligation is true; `Gen.visit_complete_holds` in the
    regenerated `PV/Gen/C12Witness.lean` discharges the hypothesis by `rfl`. -/
theorem visit_complete_gen (h : Gen.visitWFExpected = true) : visit_complete_full := by
  intro k r fs hc hi
  have hwf : VisitWF Gen.visitProg Gen.schema Gen.carry Gen.need := by
    have := visitWF_gen_value
    rw [h] at this
    exact of_decide_eq_true this
  exact visit_complete hwf k r fs hc hi

/-- Unconditional fallback: every stmt/expr/pattern/excepthandler node not below a node of a kind in
    `Gen.visitSkip` is reached exactly once (`Gen.visitSkip = []` at present, so this is the full
    statement; it keeps a precise meaning if a visit body is ever emptied again). -/
theorem visit_complete_partial (k : Nat) (r : Option Range) (fs : List Tree)
    (hc : Conforms Gen.schema (.node k r fs)) (hi : Gen.schema.isInteresting k = true) :
    (interestingEvents Gen.schema (visitWith Gen.visitProg Gen.schema (.node k r fs))).Perm
      (reachOutside Gen.schema Gen.visitSkip (.node k r fs)) :=
  visit_complete_upto visitWFExcept_gen k r fs hc hi

/-! ## 3. constant-tuple optimiser -/

theorem optCfg_ne : Gen.optCfg.tuple ≠ Gen.optCfg.const := by decide

/-- The optimiser is idempotent. -/
theorem opt_idempotent (t : Tree) :
    Opt.constTuple Gen.optCfg (Opt.constTuple Gen.optCfg t) = Opt.constTuple Gen.optCfg t :=
  opt_idempotent_aux Gen.optCfg optCfg_ne t

/-- The optimiser is the reference transformation "replace load-context tuples whose elements are
    all constants by the tuple constant, change nothing else" — on every tree. -/
theorem opt_spec (t : Tree) : Opt.constTuple Gen.optCfg t = Spec.opt Gen.optCfg t :=
  opt_spec_aux Gen.optCfg t

/-- in particular a store-context tuple is never touched (the `() = x` shape of the former finding) -/
def storeTupleExample : Tree :=
  .node Gen.optCfg.tuple (some (0, 2)) [.list [], .leaf [83, 116, 111, 114, 101]]

example : (Opt.constTuple Gen.optCfg storeTupleExample).beq storeTupleExample = true := by decide

/-! ## non-vacuity examples
  (on a two-kind toy schema, independent of the regenerated ids; examples on the real schema are
  generated into `PV/Gen/C12Witness.lean`) -/

namespace Toy
/-- kind 0 = `Wrap { range: R, item: Box<E>, rest: Vec<E> }` (variant of sum 0 = E),
    kind 1 = `Atom { range: R, name: Identifier }` (variant of sum 0) -/
def schema : Schema := ⟨[⟨some 0, 1, [.sum 0, .list (.sum 0)]⟩, ⟨some 0, 1, [.leaf]⟩], [0]⟩
def foldProg : FoldProg := ⟨[⟨[0, 1], 1, [(1, 1), (0, 0)], 1, [0, 1]⟩, ⟨[0], 1, [(0, 0)], 1, [0]⟩]⟩
def visitProg : VisitProg := ⟨[some [1, 0], some []], [0], [(0, 0), (1, 1)]⟩
def tree : Tree :=
  .node 0 (some (0, 9)) [.node 1 (some (0, 1)) [.leaf [97]],
    .list [.node 1 (some (2, 3)) [.leaf [98]], .node 0 (some (4, 9)) [.node 1 (some (5, 6)) [.leaf [99]], .list []]]]

example : FoldWF foldProg schema := by decide
example : Conforms schema tree := by decide
example : VisitWF visitProg schema [0, 1] [0, 1] := by decide
example : (foldWith foldProg id tree).1.beq tree = true := by decide
example : mapCalls (foldWith foldProg id tree).2 = [(2, 3), (5, 6), (4, 9), (0, 1), (0, 9)] := by decide
example : (visitWith visitProg schema tree).length = 5 := by decide
/-- a fold program that swaps two fields is rejected -/
example : ¬ FoldWF ⟨[⟨[0, 1], 1, [(0, 0), (1, 1)], 1, [1, 0]⟩, ⟨[0], 1, [(0, 0)], 1, [0]⟩]⟩ schema := by decide
/-- a visit program that forgets a field is rejected -/
example : ¬ VisitWF ⟨[some [1], some []], [0], [(0, 0), (1, 1)]⟩ schema [0, 1] [0, 1] := by decide
end Toy

/-- a load-context tuple of constants is folded -/
example : isConstNode Gen.optCfg (Opt.constTuple Gen.optCfg
    (.node Gen.optCfg.tuple (some (0, 6)) [.list [.node Gen.optCfg.const (some (1, 2)) [.leaf [49], .none]],
      .leaf Spec.loadText])) = true := by decide

end PV.C12
