"""Shared by C01 and C02: the whole-language reference sweep (generated programs + CPython stdlib),
reference computation in parallel, structural diff with parent context, request construction.

Request line of the sweep:   parse <mode> 0 <erase> <hex src> [<hex extra>]
`extra` (JSON {twin, patches}) makes PEP 695 programs replayable: CPython parses `twin`, gen_program.apply_patches
turns its tree into the ground truth for `src`.
"""
import json
import os
import sys
import warnings
from concurrent.futures import ProcessPoolExecutor

sys.path.insert(0, os.path.dirname(os.path.abspath(__file__)))
import gen_program
import pyref
from core import hexs, unhex

warnings.simplefilter("ignore")

NPROC = 16


def expr_ref(text, ranges=False):
    """canonical tree text of an expression as CPython parses it (Load context)"""
    t = pyref.sexp(pyref.ref_tree(text, "e", ranges=ranges))
    return pyref.unsexp(dict(t[2])["body"])


def reference(src, mode, extra=None, ranges=False):
    """reference canonical tree of `src`, or None when the reference grammar rejects it"""
    try:
        if extra:
            e = json.loads(extra)
            r = pyref.ref_tree(e["twin"], mode, ranges=False)
            return gen_program.apply_patches(r, e["patches"], expr_ref)
        return pyref.ref_tree(src, mode, ranges=ranges)
    except (SyntaxError, ValueError, RecursionError, MemoryError):
        return None


def make_request(mode, erase, src, extra=None, op="parse"):
    r = f"{op} {mode} 0 {erase} {hexs(src)}"
    if extra:
        r += " " + hexs(extra)
    return r


def split_request(req):
    ws = req.split()
    src = unhex(ws[4]).decode("utf-8")
    extra = unhex(ws[5]).decode("utf-8") if len(ws) > 5 else None
    return ws[1], ws[3], src, extra


# ---------------------------------------------------------------- generated programs (parallel, deterministic)

def _gen_chunk(args):
    seed, n, mode, opts, ranges = args
    import random
    rng = random.Random(seed)
    g = gen_program.Gen(rng, **opts)
    out = []
    tries = 0
    while len(out) < n and tries < 3 * n + 10:
        tries += 1
        p = g.expression_program() if mode == "e" else g.program(mode)
        extra = p.extra()
        if extra and ranges:
            continue            # the ground truth of PEP 695 programs has no positions
        ref = reference(p.text, p.mode, extra, ranges=ranges)
        if ref is None:
            continue            # CPython rejects: outside the property's domain
        out.append((p.text, extra, ref))
    return out, tries


def generated(ctx, name, n, mode, opts=None, ranges=False, chunk=100):
    """[(text, extra, ref)] — deterministic in ctx.rng(name)"""
    opts = dict(opts or {})
    rng = ctx.rng(name)
    jobs = []
    left = n
    while left > 0:
        k = min(chunk, left)
        jobs.append((rng.getrandbits(62), k, mode, opts, ranges))
        left -= k
    with ProcessPoolExecutor(NPROC) as ex:
        res = list(ex.map(_gen_chunk, jobs))
    out = [x for r, _ in res for x in r]
    tries = sum(t for _, t in res)
    return out, tries


def _file_ref(args):
    path, mode, ranges = args
    try:
        src = pyref.read_source(path)
    except Exception:
        return path, None, None
    return path, src, reference(src, mode, None, ranges=ranges)


def stdlib(mode="m", ranges=False, limit=None, rng=None, max_bytes=None):
    """[(path, text, ref)] for the stdlib files CPython accepts"""
    files = pyref.stdlib_files()
    if max_bytes:
        files = [f for f in files if os.path.getsize(f) <= max_bytes]
    if limit and rng and len(files) > limit:
        files = sorted(rng.sample(files, limit))
    with ProcessPoolExecutor(NPROC) as ex:
        res = list(ex.map(_file_ref, [(f, mode, ranges) for f in files], chunksize=8))
    return [(p, s, r) for p, s, r in res if r is not None]


# ---------------------------------------------------------------- structural diff with context

def all_diffs(a, b, limit=60):
    """list of dicts {path, impl, ref, pa, pb}: pa/pb = innermost enclosing NODES on each side"""
    out = []

    def rec(x, y, path, px, py):
        if len(out) >= limit:
            return
        if isinstance(x, str) or isinstance(y, str):
            if x != y:
                out.append({"path": path, "impl": x, "ref": y, "pa": px, "pb": py})
            return
        if isinstance(x, list) != isinstance(y, list):
            out.append({"path": path, "impl": x, "ref": y, "pa": px, "pb": py})
            return
        if isinstance(x, list):
            if len(x) != len(y):
                out.append({"path": path + ".len", "impl": x, "ref": y, "pa": px, "pb": py})
                return
            for k, (u, v) in enumerate(zip(x, y)):
                rec(u, v, f"{path}[{k}]", px, py)
            return
        if x[0] != y[0] or len(x[2]) != len(y[2]) or [f for f, _ in x[2]] != [f for f, _ in y[2]]:
            out.append({"path": path + ".kind", "impl": x, "ref": y, "pa": px, "pb": py})
            return
        if x[1] != y[1]:
            out.append({"path": path + ".range", "impl": x, "ref": y, "pa": px, "pb": py})
        for (f, u), (_, v) in zip(x[2], y[2]):
            rec(u, v, f"{path}.{f if f is not None else '_'}", x, y)
    rec(a, b, "", None, None)
    return out


def nav(tree, path):
    """subtree at a dotted path (`body.0.targets.1`) of a parsed canonical tree"""
    cur = tree
    if path in ("", "-"):
        return cur
    for step in path.split("."):
        if isinstance(cur, list):
            cur = cur[int(step)]
        else:
            cur = dict(cur[2])[step]
    return cur
