"""Shared helpers for every property that talks to the lexer model (C05, C03, C04, C08, C09, C10).

Request lines understood by `pvh_c05` (real lexer) and `drv_c05` (Lean model PV.Lexer):

    lex  <mode m|i|e> <start> <hex src> <xid_start> <xid_continue> <emoji>    default build
    lexf <mode m|i|e> <start> <hex src> <xid_start> <xid_continue> <emoji>    `full-lexer` build

The last three arguments instantiate the Unicode parameters of the model: comma separated decimal
code points of the NON-ASCII characters of `src` that the real lexer treats as identifier start /
identifier continuation / emoji-presentation name (`-` = none).  They come from `cls_tables()`,
which asks the real lexer about every scalar value (`clsdump`, ~1.5 s, cached per process).

Answer: `Kind[:payload]@start..end` tokens separated by blanks, then `(end)` or `(err Kind off)`;
`(panic)` when the lexer panicked.  Payloads: Name:<hex>, Int:<decimal>, Float:<16 hex digits>
(model: `Float:t<hex numeral>`; `canon_floats` converts), Complex:<real bits>,<imag bits>,
String:<Kind>:<triple 0|1>:<hex value>, Comment:<hex>.
"""
import re
import struct

import core

FULL_HARNESS = {"bin": "pvh_c05", "features": "full-lexer"}
PLAIN_HARNESS = {"bin": "pvh_c05", "features": "default"}

_CLS = None


def _parse_ranges(s):
    out = set()
    if s.strip() in ("-", ""):
        return out
    for part in s.strip().split(","):
        a, b = part.split("-")
        out.update(range(int(a), int(b) + 1))
    return out


def cls_tables(refresh=False):
    """{'start','continue','emoji'} -> set of code points, observed on the real lexer."""
    global _CLS
    if _CLS is not None and not refresh:
        return _CLS
    rc, out, hbin = core.cargo_build("pvh_c05", "default")
    if rc != 0:
        raise RuntimeError("cargo build pvh_c05 failed: " + out[-800:])
    res = core.run_lines([hbin], ["clsdump start", "clsdump continue", "clsdump emoji"], timeout=300)
    if len(res) != 3 or any(r.startswith("(") or r == "bad-request" for r in res):
        raise RuntimeError("clsdump failed: " + repr([r[:80] for r in res]))
    _CLS = {"start": _parse_ranges(res[0]), "continue": _parse_ranges(res[1]), "emoji": _parse_ranges(res[2])}
    return _CLS


def cls_args(text):
    """the three class arguments for a source text (str)"""
    t = cls_tables()
    cps = sorted({ord(c) for c in text if ord(c) >= 128})
    if not cps:
        return "- - -"
    parts = []
    for k in ("start", "continue", "emoji"):
        xs = [str(c) for c in cps if c in t[k]]
        parts.append(",".join(xs) if xs else "-")
    return " ".join(parts)


def lexreq(text, mode="m", start=0, full=False):
    """request line for lexing `text` (str)"""
    if isinstance(text, bytes):
        text = text.decode("utf-8")
    return f"{'lexf' if full else 'lex'} {mode} {start} {core.hexs(text)} {cls_args(text)}"


def req_fields(req):
    """-> dict(full, mode, start, text)"""
    ws = req.split()
    return {"full": ws[0] == "lexf", "mode": ws[1], "start": int(ws[2]),
            "text": core.unhex(ws[3]).decode("utf-8")}


_TOK = re.compile(r"^([A-Za-z]+)(?::(.*))?@(\d+)\.\.(\d+)$")


def parse_stream(out):
    """-> (tokens [(kind, payload or None, start, end)], end marker) ;
    end marker: ('end',) | ('err', kind, off) | ('abnormal', text)"""
    if out is None:
        return [], ("abnormal", "none")
    if out.startswith("(") and not out.startswith("(err") and not out.startswith("(end"):
        return [], ("abnormal", out)
    toks = []
    ws = out.split(" ")
    i = 0
    while i < len(ws):
        w = ws[i]
        if w == "(end)":
            return toks, ("end",)
        if w == "(err":
            return toks, ("err", ws[i + 1], int(ws[i + 2].rstrip(")")))
        if w.startswith("("):
            return toks, ("abnormal", w)
        m = _TOK.match(w)
        if not m:
            return toks, ("abnormal", "unparsable token " + w[:40])
        toks.append((m.group(1), m.group(2), int(m.group(3)), int(m.group(4))))
        i += 1
    return toks, ("abnormal", "no end marker")


def float_bits(text):
    """bit pattern (16 hex digits) of the double nearest to the decimal numeral `text`
    (CPython's float() is correctly rounded, as is Rust's f64::from_str)"""
    return struct.pack(">d", float(text)).hex()


_FT = re.compile(r"\b(Float|Complex):t([0-9a-f]+|-)@")


def canon_floats(out):
    """Model answers carry the cleaned numeral (`Float:t<hex>`); turn it into the bit pattern the real
    lexer prints, using CPython as the decimal->double reference."""
    if out is None or ":t" not in out:
        return out

    def rep(m):
        txt = core.unhex(m.group(2)).decode("ascii")
        try:
            b = float_bits(txt)
        except ValueError:
            b = "invalid-numeral"
        if m.group(1) == "Float":
            return f"Float:{b}@"
        return f"Complex:0000000000000000,{b}@"
    return _FT.sub(rep, out)


def mask_errors(out):
    """for properties that only speak about successful lexing: an answer that ends in an error is
    reduced to `(err)`"""
    if out is not None and "(err " in out:
        return "(err)"
    return out


def radix_boundaries():
    """Integer literals around machine-word boundaries in every base: the digit counts at which a u32/i64/u64/u128
    fast path would start or stop fitting (one digit less, exactly, one more), with smallest / largest leading digit,
    all-max digits, leading zeros, underscores and both prefix cases. Deterministic."""
    out = []
    specs = [("0x", 16, "0123456789abcdef"), ("0X", 16, "0123456789ABCDEF"), ("0o", 8, "01234567"), ("0O", 8, "01234567"),
             ("0b", 2, "01"), ("0B", 2, "01"), ("", 10, "0123456789")]
    seen = set()
    for pre, base, digs in specs:
        for bits in (31, 32, 63, 64, 65, 66, 127, 128):
            for v in (2 ** bits - 1, 2 ** bits, 2 ** bits + 1, 2 ** (bits + 1) - 1):
                s = ""
                n = v
                while n:
                    s = digs[n % base] + s
                    n //= base
                cands = [s, s[0] + "_" + s[1:] if len(s) > 1 else s, "_".join(s[i:i + 4] for i in range(0, len(s), 4))]
                if pre:
                    cands += ["0" + s, "000" + s, "_" + s]
                # same number of digits, every leading digit, rest max / rest zero
                for lead in digs[1:]:
                    cands += [lead + digs[-1] * (len(s) - 1), lead + digs[0] * (len(s) - 1)]
                for c in cands:
                    t = pre + c
                    if t not in seen:
                        seen.add(t)
                        out.append(t)
    return out


def trunc_aliases(text, syntax):
    """every variant of `text` in which ONE occurrence of a character of `syntax` is replaced by a character that only
    LOOKS like it to byte-level code: same low byte (`c as u8` truncation: U+01xx, U+100xx), so that a scanner which
    compares truncated code points or single bytes takes a letter for syntax.  (Found missing by seed C20-7.)"""
    out = []
    for i, c in enumerate(text):
        if c in syntax and ord(c) < 0x80:
            for hi in (0x100, 0x10000):
                out.append(text[:i] + chr(hi + ord(c)) + text[i + 1:])
    return out
