
/-! ## the program parser: helper functions without fuel -/

theorem isNL_false_of_tk {t : Tok} {x : TK} (h : tk t = x) (h1 : x ≠ .newline) (h2 : x ≠ .indent) (h3 : x ≠ .dedent) :
    isNL t = false := by
  unfold isNL; rw [h]; split <;> simp_all

theorem ne_lambda_of_tk {t : Tok} {x : TK} (h : tk t = x) (hx : x ≠ .plain) : t ≠ .kw .lambda := by
  intro h2; subst h2; simp [tk] at h; exact hx h.symm

theorem ne_at_of_tk {t : Tok} {x : TK} (h : tk t = x) (hx : x ≠ .plain) : t ≠ .op .at := by
  intro h2; subst h2; simp [tk] at h; exact hx h.symm

/-- a token whose class is neither a marker nor plain -/
theorem plainGood_of_tk {t : Tok} {x : TK} (s : List Tok) (h : tk t = x) (hp : x ≠ .plain) (h1 : x ≠ .newline) (h2 : x ≠ .indent)
    (h3 : x ≠ .dedent) (h4 : x ≠ .hk .def) (h5 : x ≠ .hk .class) (h6 : x ≠ .hk .case) (h7 : x ≠ .hk .return) :
    PlainGood t s := by
  refine ⟨⟨fun hl => absurd hl (ne_lambda_of_tk h hp), ?_, ?_, ?_, ?_, fun ha => absurd ha (ne_at_of_tk h hp)⟩,
    isNL_false_of_tk h h1 h2 h3⟩ <;> (rw [h]; intro hc; simp_all)

theorem plainGood_tk_as {t : Tok} (s : List Tok) (h : tk t = .hk .as) : PlainGood t s :=
  plainGood_of_tk s h (by simp) (by simp) (by simp) (by simp) (by simp) (by simp) (by simp) (by simp)
grind_pattern plainGood_tk_as => PlainGood t s, tk t, TK.hk HK.as
theorem plainGood_tk_assert {t : Tok} (s : List Tok) (h : tk t = .hk .assert) : PlainGood t s :=
  plainGood_of_tk s h (by simp) (by simp) (by simp) (by simp) (by simp) (by simp) (by simp) (by simp)
grind_pattern plainGood_tk_assert => PlainGood t s, tk t, TK.hk HK.assert
theorem plainGood_tk_break {t : Tok} (s : List Tok) (h : tk t = .hk .break) : PlainGood t s :=
  plainGood_of_tk s h (by simp) (by simp) (by simp) (by simp) (by simp) (by simp) (by simp) (by simp)
grind_pattern plainGood_tk_break => PlainGood t s, tk t, TK.hk HK.break
theorem plainGood_tk_continue {t : Tok} (s : List Tok) (h : tk t = .hk .continue) : PlainGood t s :=
  plainGood_of_tk s h (by simp) (by simp) (by simp) (by simp) (by simp) (by simp) (by simp) (by simp)
grind_pattern plainGood_tk_continue => PlainGood t s, tk t, TK.hk HK.continue
theorem plainGood_tk_del {t : Tok} (s : List Tok) (h : tk t = .hk .del) : PlainGood t s :=
  plainGood_of_tk s h (by simp) (by simp) (by simp) (by simp) (by simp) (by simp) (by simp) (by simp)
grind_pattern plainGood_tk_del => PlainGood t s, tk t, TK.hk HK.del
theorem plainGood_tk_elif {t : Tok} (s : List Tok) (h : tk t = .hk .elif) : PlainGood t s :=
  plainGood_of_tk s h (by simp) (by simp) (by simp) (by simp) (by simp) (by simp) (by simp) (by simp)
grind_pattern plainGood_tk_elif => PlainGood t s, tk t, TK.hk HK.elif
theorem plainGood_tk_except {t : Tok} (s : List Tok) (h : tk t = .hk .except) : PlainGood t s :=
  plainGood_of_tk s h (by simp) (by simp) (by simp) (by simp) (by simp) (by simp) (by simp) (by simp)
grind_pattern plainGood_tk_except => PlainGood t s, tk t, TK.hk HK.except
theorem plainGood_tk_finally {t : Tok} (s : List Tok) (h : tk t = .hk .finally) : PlainGood t s :=
  plainGood_of_tk s h (by simp) (by simp) (by simp) (by simp) (by simp) (by simp) (by simp) (by simp)
grind_pattern plainGood_tk_finally => PlainGood t s, tk t, TK.hk HK.finally
theorem plainGood_tk_global {t : Tok} (s : List Tok) (h : tk t = .hk .global) : PlainGood t s :=
  plainGood_of_tk s h (by simp) (by simp) (by simp) (by simp) (by simp) (by simp) (by simp) (by simp)
grind_pattern plainGood_tk_global => PlainGood t s, tk t, TK.hk HK.global
theorem plainGood_tk_import {t : Tok} (s : List Tok) (h : tk t = .hk .import) : PlainGood t s :=
  plainGood_of_tk s h (by simp) (by simp) (by simp) (by simp) (by simp) (by simp) (by simp) (by simp)
grind_pattern plainGood_tk_import => PlainGood t s, tk t, TK.hk HK.import
theorem plainGood_tk_nonlocal {t : Tok} (s : List Tok) (h : tk t = .hk .nonlocal) : PlainGood t s :=
  plainGood_of_tk s h (by simp) (by simp) (by simp) (by simp) (by simp) (by simp) (by simp) (by simp)
grind_pattern plainGood_tk_nonlocal => PlainGood t s, tk t, TK.hk HK.nonlocal
theorem plainGood_tk_pass {t : Tok} (s : List Tok) (h : tk t = .hk .pass) : PlainGood t s :=
  plainGood_of_tk s h (by simp) (by simp) (by simp) (by simp) (by simp) (by simp) (by simp) (by simp)
grind_pattern plainGood_tk_pass => PlainGood t s, tk t, TK.hk HK.pass
theorem plainGood_tk_raise {t : Tok} (s : List Tok) (h : tk t = .hk .raise) : PlainGood t s :=
  plainGood_of_tk s h (by simp) (by simp) (by simp) (by simp) (by simp) (by simp) (by simp) (by simp)
grind_pattern plainGood_tk_raise => PlainGood t s, tk t, TK.hk HK.raise
theorem plainGood_tk_try {t : Tok} (s : List Tok) (h : tk t = .hk .try) : PlainGood t s :=
  plainGood_of_tk s h (by simp) (by simp) (by simp) (by simp) (by simp) (by simp) (by simp) (by simp)
grind_pattern plainGood_tk_try => PlainGood t s, tk t, TK.hk HK.try
theorem plainGood_tk_while {t : Tok} (s : List Tok) (h : tk t = .hk .while) : PlainGood t s :=
  plainGood_of_tk s h (by simp) (by simp) (by simp) (by simp) (by simp) (by simp) (by simp) (by simp)
grind_pattern plainGood_tk_while => PlainGood t s, tk t, TK.hk HK.while
theorem plainGood_tk_with {t : Tok} (s : List Tok) (h : tk t = .hk .with) : PlainGood t s :=
  plainGood_of_tk s h (by simp) (by simp) (by simp) (by simp) (by simp) (by simp) (by simp) (by simp)
grind_pattern plainGood_tk_with => PlainGood t s, tk t, TK.hk HK.with
theorem plainGood_tk_match {t : Tok} (s : List Tok) (h : tk t = .hk .match) : PlainGood t s :=
  plainGood_of_tk s h (by simp) (by simp) (by simp) (by simp) (by simp) (by simp) (by simp) (by simp)
grind_pattern plainGood_tk_match => PlainGood t s, tk t, TK.hk HK.match
theorem plainGood_tk_type {t : Tok} (s : List Tok) (h : tk t = .hk .type) : PlainGood t s :=
  plainGood_of_tk s h (by simp) (by simp) (by simp) (by simp) (by simp) (by simp) (by simp) (by simp)
grind_pattern plainGood_tk_type => PlainGood t s, tk t, TK.hk HK.type
theorem plainGood_tk_semi {t : Tok} (s : List Tok) (h : tk t = .semi) : PlainGood t s :=
  plainGood_of_tk s h (by simp) (by simp) (by simp) (by simp) (by simp) (by simp) (by simp) (by simp)
grind_pattern plainGood_tk_semi => PlainGood t s, tk t, TK.semi
theorem plainGood_tk_arrow {t : Tok} (s : List Tok) (h : tk t = .arrow) : PlainGood t s :=
  plainGood_of_tk s h (by simp) (by simp) (by simp) (by simp) (by simp) (by simp) (by simp) (by simp)
grind_pattern plainGood_tk_arrow => PlainGood t s, tk t, TK.arrow
theorem plainGood_tk_aug {t : Tok} {op : BinOp} (s : List Tok) (h : tk t = .aug op) : PlainGood t s :=
  plainGood_of_tk s h (by simp) (by simp) (by simp) (by simp) (by simp) (by simp) (by simp) (by simp)
grind_pattern plainGood_tk_aug => PlainGood t s, tk t, TK.aug op

theorem plainGood_def {t : Tok} {s : List Tok} {f a d v} (h : tk t = .hk .def) (hd : parseDef f a d s = some v) :
    PlainGood t s := by
  refine ⟨⟨fun hl => absurd hl (ne_lambda_of_tk h (by simp)), fun _ => ⟨f, a, d, by simp [hd]⟩, ?_, ?_, ?_,
    fun ha => absurd ha (ne_at_of_tk h (by simp))⟩, isNL_false_of_tk h (by simp) (by simp) (by simp)⟩ <;> (rw [h]; simp)
grind_pattern plainGood_def => PlainGood t s, tk t, parseDef f a d s, some v

theorem plainGood_class {t : Tok} {s : List Tok} {f d v} (h : tk t = .hk .class) (hd : parseClass f d s = some v) :
    PlainGood t s := by
  refine ⟨⟨fun hl => absurd hl (ne_lambda_of_tk h (by simp)), ?_, fun _ => ⟨f, d, by simp [hd]⟩, ?_, ?_,
    fun ha => absurd ha (ne_at_of_tk h (by simp))⟩, isNL_false_of_tk h (by simp) (by simp) (by simp)⟩ <;> (rw [h]; simp)
grind_pattern plainGood_class => PlainGood t s, tk t, parseClass f d s, some v

theorem plainGood_case_if {t : Tok} {s r : List Tok} {f p} (h : tk t = .hk .case)
    (hd : parsePatterns f s = some (p, .kw .if :: r)) : PlainGood t s := by
  refine ⟨⟨fun hl => absurd hl (ne_lambda_of_tk h (by simp)), ?_, ?_, fun _ => ⟨f, p, r, Or.inl hd⟩, ?_,
    fun ha => absurd ha (ne_at_of_tk h (by simp))⟩, isNL_false_of_tk h (by simp) (by simp) (by simp)⟩ <;> (rw [h]; simp)
grind_pattern plainGood_case_if => PlainGood t s, tk t, parsePatterns f s, some (p, Tok.kw Kw.if :: r)

theorem plainGood_case_colon {t : Tok} {s r : List Tok} {f p} (h : tk t = .hk .case)
    (hd : parsePatterns f s = some (p, .op .colon :: r)) : PlainGood t s := by
  refine ⟨⟨fun hl => absurd hl (ne_lambda_of_tk h (by simp)), ?_, ?_, fun _ => ⟨f, p, r, Or.inr hd⟩, ?_,
    fun ha => absurd ha (ne_at_of_tk h (by simp))⟩, isNL_false_of_tk h (by simp) (by simp) (by simp)⟩ <;> (rw [h]; simp)
grind_pattern plainGood_case_colon => PlainGood t s, tk t, parsePatterns f s, some (p, Tok.op Op.colon :: r)

theorem plainGood_return_some {t : Tok} {s : List Tok} {f v} (h : tk t = .hk .return) (hd : parseTestListS f s = some v) :
    PlainGood t s := by
  refine ⟨⟨fun hl => absurd hl (ne_lambda_of_tk h (by simp)), ?_, ?_, ?_, fun _ => Or.inr ⟨f, by simp [hd]⟩,
    fun ha => absurd ha (ne_at_of_tk h (by simp))⟩, isNL_false_of_tk h (by simp) (by simp) (by simp)⟩ <;> (rw [h]; simp)
grind_pattern plainGood_return_some => PlainGood t s, tk t, parseTestListS f s, some v

theorem plainGood_return_none {t : Tok} {s : List Tok} (h : tk t = .hk .return) (hd : startsExpr s = false) :
    PlainGood t s := by
  refine ⟨⟨fun hl => absurd hl (ne_lambda_of_tk h (by simp)), ?_, ?_, ?_, fun _ => Or.inl hd,
    fun ha => absurd ha (ne_at_of_tk h (by simp))⟩, isNL_false_of_tk h (by simp) (by simp) (by simp)⟩ <;> (rw [h]; simp)
grind_pattern plainGood_return_none => PlainGood t s, tk t, startsExpr s

theorem plainGood_at_deco {s : List Tok} {f v} (hd : parseNamedTest f s = some v) : PlainGood (.op .at) s := by
  refine ⟨⟨by simp, ?_, ?_, ?_, ?_, fun _ => Or.inl ⟨f, by simp [hd]⟩⟩, by simp [isNL, tk]⟩ <;> simp [tk]
grind_pattern plainGood_at_deco => PlainGood (.op .at) s, parseNamedTest f s, some v


theorem dottedTail_seg {ts : List Tok} {acc nm : Ident} {r : List Tok} (h : dottedTail acc ts = some (nm, r)) : SegE ts r := by
  fun_induction dottedTail acc ts with
  | case1 acc n r' ih => exact SegE.cons' (plainGood_op_dot _) (SegE.cons' (plainGood_name _ _) (ih h))
  | case2 => simp at h
  | case3 => simp at h; obtain ⟨_, rfl⟩ := h; exact SegE.refl _
grind_pattern dottedTail_seg => dottedTail acc ts, some (nm, r)

theorem attrChain_seg {ts : List Tok} {acc e : Expr} {d d' : Bool} {r : List Tok} (h : attrChain acc d ts = some (e, d', r)) : SegE ts r := by
  fun_induction attrChain acc d ts with
  | case1 acc x n r' ih => exact SegE.cons' (plainGood_op_dot _) (SegE.cons' (plainGood_name _ _) (ih h))
  | case2 => simp at h
  | case3 => simp at h; obtain ⟨_, _, rfl⟩ := h; exact SegE.refl _
grind_pattern attrChain_seg => attrChain acc d ts, some (e, d', r)

theorem importDots_seg {ts : List Tok} {a b : Nat} {r : List Tok} (h : importDots ts = (a, b, r)) : SegE ts r := by
  fun_induction importDots ts generalizing a b r with
  | case1 r0 lvl n r' heq ih => simp at h; obtain ⟨_, _, rfl⟩ := h; exact SegE.cons' (plainGood_op_dot _) (ih heq)
  | case2 r0 lvl n r' heq ih => simp at h; obtain ⟨_, _, rfl⟩ := h; exact SegE.cons' (plainGood_op_ellipsis _) (ih heq)
  | case3 => simp at h; obtain ⟨_, _, rfl⟩ := h; exact SegE.refl _
grind_pattern importDots_seg => importDots ts, (a, b, r)

theorem parseAsOpt_seg {ts : List Tok} {v : Option Ident} {r : List Tok} (h : parseAsOpt ts = some (v, r)) : SegE ts r := by
  unfold parseAsOpt at h
  split at h
  · split at h
    · rename_i hk; simp at h; obtain ⟨_, rfl⟩ := h
      exact SegE.cons' (plainGood_tk_as _ hk) (SegE.cons (plainGood_name _ _))
    · simp at h; obtain ⟨_, rfl⟩ := h; exact SegE.refl _
  · split at h
    · simp at h
    · simp at h; obtain ⟨_, rfl⟩ := h; exact SegE.refl _
  · simp at h; obtain ⟨_, rfl⟩ := h; exact SegE.refl _
grind_pattern parseAsOpt_seg => parseAsOpt ts, some (v, r)

theorem constAtom_plain {t : Tok} {c : Expr} (h : constAtom t = some c) (s : List Tok) : PlainGood t s := by
  cases t <;> simp_all [constAtom, PlainGood, KwGood, tk, isNL]

theorem addTail_seg {ts : List Tok} {l e : Expr} {r : List Tok} (h : addTail l ts = some (e, r)) : SegE ts r := by
  unfold addTail at h
  split at h
  · split at h
    · rename_i hc; simp at h; obtain ⟨_, rfl⟩ := h
      exact SegE.cons' (plainGood_op_plus _) (SegE.cons (constAtom_plain hc _))
    · simp at h
  · split at h
    · rename_i hc; simp at h; obtain ⟨_, rfl⟩ := h
      exact SegE.cons' (plainGood_op_minus _) (SegE.cons (constAtom_plain hc _))
    · simp at h
  · simp at h
  · simp at h
  · simp at h; obtain ⟨_, rfl⟩ := h; exact SegE.refl _
grind_pattern addTail_seg => addTail l ts, some (e, r)

theorem parseConstExpr_seg {ts : List Tok} {e : Expr} {r : List Tok} (h : parseConstExpr ts = some (e, r)) : SegE ts r := by
  unfold parseConstExpr at h
  split at h
  · split at h
    · rename_i hc
      exact SegE.cons' (plainGood_op_minus _) (SegE.cons' (constAtom_plain hc _) (addTail_seg h))
    · simp at h
  · split at h
    · rename_i hc
      exact SegE.cons' (constAtom_plain hc _) (addTail_seg h)
    · simp at h
  · simp at h
grind_pattern parseConstExpr_seg => parseConstExpr ts, some (e, r)

/-! ## what may follow a line break -/

theorem lineGood_nil : LineGood [] := Or.inl rfl
theorem lineGood_kw_else (r : List Tok) : LineGood (.kw .else :: r) := Or.inl rfl
theorem lineGood_kw_if (r : List Tok) : LineGood (.kw .if :: r) := Or.inr (Or.inl rfl)
theorem lineGood_kw_for (r : List Tok) : LineGood (.kw .for :: r) := Or.inr (Or.inl rfl)
theorem lineGood_kw_async (r : List Tok) : LineGood (.kw .async :: r) := Or.inr (Or.inl rfl)
theorem lineGood_op_at (r : List Tok) : LineGood (.op .at :: r) := Or.inr (Or.inl rfl)

theorem structHead_of_tk {t : Tok} {x : TK} (r : List Tok) (h : tk t = x)
    (hx : x = .newline ∨ x = .indent ∨ x = .dedent ∨ x = .semi ∨ x = .hk .elif ∨ x = .hk .except ∨ x = .hk .finally ∨ x = .hk .case) :
    structHead (t :: r) = true := by
  unfold structHead
  split
  · rfl
  · rfl
  · rename_i t' _ _ heq
    simp at heq
    obtain ⟨rfl, _⟩ := heq
    rw [h]
    rcases hx with rfl | rfl | rfl | rfl | rfl | rfl | rfl | rfl <;> rfl

theorem startsCompound_of_tk {t : Tok} {x : TK} (r : List Tok) (h : tk t = x)
    (hx : x = .hk .while ∨ x = .hk .try ∨ x = .hk .with ∨ x = .hk .def ∨ x = .hk .class ∨ x = .hk .match) :
    startsCompound (t :: r) = true := by
  unfold startsCompound
  split
  · rfl
  · rfl
  · rfl
  · rfl
  · rename_i t' _ _ _ _ _ heq
    simp at heq
    obtain ⟨rfl, _⟩ := heq
    rw [h]
    rcases hx with rfl | rfl | rfl | rfl | rfl | rfl <;> rfl
  · rename_i heq; simp at heq

theorem isNL_of_tk {t : Tok} {x : TK} (h : tk t = x) (hx : x = .newline ∨ x = .indent ∨ x = .dedent) : isNL t = true := by
  unfold isNL; rw [h]; rcases hx with rfl | rfl | rfl <;> rfl

theorem lineGood_tk_newline {t : Tok} (r : List Tok) (h : tk t = .newline) : LineGood (t :: r) :=
  Or.inl (structHead_of_tk r h (by simp))
grind_pattern lineGood_tk_newline => LineGood (t :: r), tk t, TK.newline
theorem lineGood_tk_indent {t : Tok} (r : List Tok) (h : tk t = .indent) : LineGood (t :: r) :=
  Or.inl (structHead_of_tk r h (by simp))
grind_pattern lineGood_tk_indent => LineGood (t :: r), tk t, TK.indent
theorem lineGood_tk_dedent {t : Tok} (r : List Tok) (h : tk t = .dedent) : LineGood (t :: r) :=
  Or.inl (structHead_of_tk r h (by simp))
grind_pattern lineGood_tk_dedent => LineGood (t :: r), tk t, TK.dedent
theorem lineGood_tk_semi {t : Tok} (r : List Tok) (h : tk t = .semi) : LineGood (t :: r) :=
  Or.inl (structHead_of_tk r h (by simp))
grind_pattern lineGood_tk_semi => LineGood (t :: r), tk t, TK.semi
theorem lineGood_tk_elif {t : Tok} (r : List Tok) (h : tk t = .hk .elif) : LineGood (t :: r) :=
  Or.inl (structHead_of_tk r h (by simp))
grind_pattern lineGood_tk_elif => LineGood (t :: r), tk t, TK.hk HK.elif
theorem lineGood_tk_except {t : Tok} (r : List Tok) (h : tk t = .hk .except) : LineGood (t :: r) :=
  Or.inl (structHead_of_tk r h (by simp))
grind_pattern lineGood_tk_except => LineGood (t :: r), tk t, TK.hk HK.except
theorem lineGood_tk_finally {t : Tok} (r : List Tok) (h : tk t = .hk .finally) : LineGood (t :: r) :=
  Or.inl (structHead_of_tk r h (by simp))
grind_pattern lineGood_tk_finally => LineGood (t :: r), tk t, TK.hk HK.finally
theorem lineGood_tk_case {t : Tok} (r : List Tok) (h : tk t = .hk .case) : LineGood (t :: r) :=
  Or.inl (structHead_of_tk r h (by simp))
grind_pattern lineGood_tk_case => LineGood (t :: r), tk t, TK.hk HK.case
theorem lineGood_tk_while {t : Tok} (r : List Tok) (h : tk t = .hk .while) : LineGood (t :: r) :=
  Or.inr (Or.inl (startsCompound_of_tk r h (by simp)))
grind_pattern lineGood_tk_while => LineGood (t :: r), tk t, TK.hk HK.while
theorem lineGood_tk_try {t : Tok} (r : List Tok) (h : tk t = .hk .try) : LineGood (t :: r) :=
  Or.inr (Or.inl (startsCompound_of_tk r h (by simp)))
grind_pattern lineGood_tk_try => LineGood (t :: r), tk t, TK.hk HK.try
theorem lineGood_tk_with {t : Tok} (r : List Tok) (h : tk t = .hk .with) : LineGood (t :: r) :=
  Or.inr (Or.inl (startsCompound_of_tk r h (by simp)))
grind_pattern lineGood_tk_with => LineGood (t :: r), tk t, TK.hk HK.with
theorem lineGood_tk_def {t : Tok} (r : List Tok) (h : tk t = .hk .def) : LineGood (t :: r) :=
  Or.inr (Or.inl (startsCompound_of_tk r h (by simp)))
grind_pattern lineGood_tk_def => LineGood (t :: r), tk t, TK.hk HK.def
theorem lineGood_tk_class {t : Tok} (r : List Tok) (h : tk t = .hk .class) : LineGood (t :: r) :=
  Or.inr (Or.inl (startsCompound_of_tk r h (by simp)))
grind_pattern lineGood_tk_class => LineGood (t :: r), tk t, TK.hk HK.class
theorem lineGood_tk_match {t : Tok} (r : List Tok) (h : tk t = .hk .match) : LineGood (t :: r) :=
  Or.inr (Or.inl (startsCompound_of_tk r h (by simp)))
grind_pattern lineGood_tk_match => LineGood (t :: r), tk t, TK.hk HK.match
theorem isNL_tk_newline {t : Tok} (h : tk t = .newline) : isNL t = true := isNL_of_tk h (by simp)
grind_pattern isNL_tk_newline => isNL t, tk t, TK.newline
theorem isNL_tk_indent {t : Tok} (h : tk t = .indent) : isNL t = true := isNL_of_tk h (by simp)
grind_pattern isNL_tk_indent => isNL t, tk t, TK.indent
theorem isNL_tk_dedent {t : Tok} (h : tk t = .dedent) : isNL t = true := isNL_of_tk h (by simp)
grind_pattern isNL_tk_dedent => isNL t, tk t, TK.dedent
theorem lineGood_simple {s : List Tok} {f v} (h : parseSimpleLine f s = some v) : LineGood s :=
  Or.inr (Or.inr ⟨f, by simp [h]⟩)

theorem kwGood_of_isNL {t : Tok} (h : isNL t = true) (s : List Tok) : KwGood t s := by
  have hp : tk t ≠ .plain := by intro hc; simp [isNL, hc] at h
  refine ⟨fun hl => absurd hl (ne_lambda_of_tk rfl hp), ?_, ?_, ?_, ?_, fun ha => absurd ha (ne_at_of_tk rfl hp)⟩ <;>
    (intro hc; simp [isNL, hc] at h)

/-! ## chaining at statement level -/

theorem Seg.snocF {b : Bool} {t : Tok} {ts r : List Tok} (h : Seg b ts false (t :: r)) (g : PlainGood t r) : Seg b ts false r := by
  have := Seg.cons1 (b := false) g.1 (by simp)
  rw [g.2] at this
  exact Seg.trans h this
theorem Seg.snocT {b : Bool} {t : Tok} {ts r : List Tok} (h : Seg b ts true (t :: r)) (g : PlainGood t r)
    (hl : LineGood (t :: r)) : Seg b ts false r := by
  have := Seg.cons1 (b := true) g.1 (fun _ => hl)
  rw [g.2] at this
  exact Seg.trans h this
theorem Seg.snocNL {b e : Bool} {t : Tok} {ts r : List Tok} (h : Seg b ts e (t :: r)) (g : isNL t = true) : Seg b ts true r := by
  have hs : structHead (t :: r) = true := by
    unfold structHead
    split
    · rfl
    · rfl
    · rename_i t' _ _ heq
      simp at heq
      obtain ⟨rfl, _⟩ := heq
      unfold isNL at g
      split at g <;> simp_all
  have := Seg.cons1 (b := e) (kwGood_of_isNL g r) (fun _ => Or.inl hs)
  rw [g] at this
  exact Seg.trans h this
grind_pattern Seg.snocF => Seg b ts false (t :: r)
grind_pattern Seg.snocT => Seg b ts true (t :: r)
theorem Seg.snocNewline {b e : Bool} {t : Tok} {ts r : List Tok} (h : Seg b ts e (t :: r)) (g : tk t = .newline) : Seg b ts true r :=
  Seg.snocNL h (isNL_tk_newline g)
theorem Seg.snocIndent {b e : Bool} {t : Tok} {ts r : List Tok} (h : Seg b ts e (t :: r)) (g : tk t = .indent) : Seg b ts true r :=
  Seg.snocNL h (isNL_tk_indent g)
theorem Seg.snocDedent {b e : Bool} {t : Tok} {ts r : List Tok} (h : Seg b ts e (t :: r)) (g : tk t = .dedent) : Seg b ts true r :=
  Seg.snocNL h (isNL_tk_dedent g)
grind_pattern Seg.snocNewline => Seg b ts e (t :: r), tk t
grind_pattern Seg.snocIndent => Seg b ts e (t :: r), tk t
grind_pattern Seg.snocDedent => Seg b ts e (t :: r), tk t
grind_pattern Seg.trans => Seg b a e m, Seg e m e' c

theorem Seg.relaxF {e : Bool} {ts r : List Tok} (h : Seg true ts e r) : Seg false ts true r := Seg.relax h

/-- statement level: split the unfolded hypothesis completely, then chain from `Seg.refl` -/
macro "seg_stepS" h:ident : tactic => `(tactic|
  (repeat' (first | split_any | (simp only [] at $h:ident))
   all_goals (try (simp only [Nat.succ_eq_add_one, Nat.add_right_cancel_iff] at *))
   all_goals (try subst_vars)
   all_goals (first
     | (simp at $h:ident; done)
     | ((try simp only [Option.some.injEq, Prod.mk.injEq] at $h:ident);
        grind (gen := 16) (ematch := 40) (instances := 5000) [Seg.refl, lineGood_nil, lineGood_kw_else, lineGood_kw_if, lineGood_kw_for, lineGood_kw_async, lineGood_op_at,
          lineGood_simple, plainGood_kw_and, plainGood_kw_or, plainGood_kw_not, plainGood_kw_if, plainGood_kw_else, plainGood_kw_for, plainGood_kw_in, plainGood_kw_is, plainGood_kw_async, plainGood_kw_await, plainGood_kw_yield, plainGood_kw_from, plainGood_kw_true, plainGood_kw_false, plainGood_kw_none, plainGood_op_plus, plainGood_op_minus, plainGood_op_star, plainGood_op_slash, plainGood_op_dslash, plainGood_op_percent, plainGood_op_dstar, plainGood_op_lshift, plainGood_op_rshift, plainGood_op_bar, plainGood_op_caret, plainGood_op_amp, plainGood_op_tilde, plainGood_op_lt, plainGood_op_gt, plainGood_op_le, plainGood_op_ge, plainGood_op_eqeq, plainGood_op_ne, plainGood_op_lpar, plainGood_op_rpar, plainGood_op_lsqb, plainGood_op_rsqb, plainGood_op_lbrace, plainGood_op_rbrace, plainGood_op_comma, plainGood_op_colon, plainGood_op_dot, plainGood_op_walrus, plainGood_op_assign, plainGood_op_ellipsis, plainGood_name, plainGood_int, plainGood_float, plainGood_imag, plainGood_str, plainGood_bytes, plainGood_fstr]))))
