#!/usr/bin/env python3
"""Generator of lean/PV/C02/RProgSoundNodes.lean (C02, ranged program parser): one lemma per statement / pattern
constructor — a node ranged `(S σ j, E σ k)` whose children lie (in consecutive windows, for list fields) inside the
token range `j … k` is fine (`WS` / `WP`) — and the `grind` patterns that make the parser induction instantiate them.
The output is an ordinary Lean file, checked by Lean like any other; run by hand when RProgSyntax.lean changes:

    python3 tools/c02_gen_nodes.py > lean/PV/C02/RProgSoundNodes.lean
"""

# field kinds: (hypotheses, kids term, is a single child, contributes a `plain` component, grind pattern atom)
def field(kind, x, slot, mandatory):
    w = f"j{x} k{x}"
    bounds = f"(k ≤ k{x} ∧ j{x} ≤ j ∧ 1 ≤ j{x} ∧ k{x} ≤ N)"
    four = f"({x}1 : k ≤ k{x}) ({x}2 : j{x} ≤ j) ({x}3 : 1 ≤ j{x}) ({x}4 : k{x} ≤ N)"
    fa = f"{x}1 {x}2 {x}3 {x}4"

    def lst(pred, empty, call, has_plain=True, pass_t=True):
        if mandatory:
            hyp = f"(h{x} : {pred} src σ {w} {x}) {four}"
            c = f"(Or.inr ⟨{x}1, {x}2, {x}3, {x}4⟩)"
        else:
            hyp = f"(h{x} : {pred} src σ {w} {x}) ({x}0 : {x} = {empty} ∨ {bounds})"
            c = f"{x}0"
        pv = f" p{x}" if has_plain else ""
        return dict(vars=w, hyp=hyp, term=f"({call} h{x}{pv} {c} h1 h5)", single=False, plain=has_plain,
                    pat=f"{pred} src σ {w} {x}")
    if kind == "E":
        return dict(vars=w, hyp=f"(h{x} : Win src σ {w} {x}) {four}",
                    term=f"(kids_expr T h{x} p{x} {fa} h1 h5)", single=True, plain=True, pat=f"Win src σ {w} {x}")
    if kind == "OE":
        return lst("WO", "none", "kids_wo T")
    if kind == "ES":
        return lst("SeqI", "[]", "kids_exprs T")
    if kind == "DEC":
        return dict(vars=w, hyp=f"(h{x} : SeqI src σ {w} {x})", term=f"(kids_decos h{x} p{x})", single=False, plain=True,
                    pat=f"SeqI src σ {w} {x}")
    if kind == "KW":
        return lst("SeqK", "[]", "kids_kws T")
    if kind == "SS":
        return lst("SeqS", "[]", f'kids_stmts T "{slot}"')
    if kind == "HS":
        return lst("SeqH", "[]", "kids_handlers T")
    if kind == "CS":
        return lst("SeqCs", "[]", "kids_cases T")
    if kind == "AL":
        return lst("SeqAl", "[]", "kids_aliases T", has_plain=False)
    if kind == "WI":
        return lst("SeqWI", "[]", "kids_items T")
    if kind == "TP":
        return lst("SeqTP", "[]", "kids_tparams T")
    if kind == "PS":
        return lst("SeqPt", "[]", f'kids_pats T "{slot}"')
    if kind == "OP":
        return lst("WPO", "none", f'kids_patOpt T "{slot}"')
    if kind == "ARGS":
        return dict(vars=w, hyp=f"(h{x} : WArgs src σ {w} {x}) {four}",
                    term=f"(kids_args T h{x} p{x} {fa} h1 h5)", single=True, plain=True, pat=f"WArgs src σ {w} {x}")
    raise ValueError(kind)


# constructor -> [(variable, kind, slot, mandatory)]; kind D = plain data (no node)
DEF = [("n", "D", "", 0), ("a", "ARGS", "args", 1), ("b", "SS", "body", 1), ("d", "DEC", "decorator_list", 0),
       ("r", "OE", "returns", 0), ("tp", "TP", "type_params", 0)]
LOOP = [("t", "E", "target", 1), ("i", "E", "iter", 1), ("b", "SS", "body", 1), ("o", "SS", "orelse", 0)]
COND = [("t", "E", "test", 1), ("b", "SS", "body", 1), ("o", "SS", "orelse", 0)]
WITH = [("ws", "WI", "items", 1), ("b", "SS", "body", 1)]
TRY = [("b", "SS", "body", 1), ("hs", "HS", "handlers", 0), ("o", "SS", "orelse", 0), ("f", "SS", "finalbody", 0)]
STMTS = [
    ("functionDef", DEF), ("asyncFunctionDef", DEF),
    ("classDef", [("n", "D", "", 0), ("bs", "ES", "bases", 0), ("ks", "KW", "keywords", 0), ("b", "SS", "body", 1),
                  ("d", "DEC", "decorator_list", 0), ("tp", "TP", "type_params", 0)]),
    ("return", [("v", "OE", "value", 0)]),
    ("delete", [("ts", "ES", "targets", 0)]),
    ("assign", [("ts", "ES", "targets", 0), ("v", "E", "value", 1)]),
    ("typeAlias", [("n", "E", "name", 1), ("tp", "TP", "type_params", 0), ("v", "E", "value", 1)]),
    ("augAssign", [("t", "E", "target", 1), ("op", "D", "", 0), ("v", "E", "value", 1)]),
    ("annAssign", [("t", "E", "target", 1), ("a", "E", "annotation", 1), ("v", "OE", "value", 0), ("sm", "D", "", 0)]),
    ("for", LOOP), ("asyncFor", LOOP), ("while", COND), ("if", COND), ("with", WITH), ("asyncWith", WITH),
    ("match", [("s", "E", "subject", 1), ("cs", "CS", "cases", 1)]),
    ("raise", [("e", "OE", "exc", 0), ("c", "OE", "cause", 0)]),
    ("try", TRY), ("tryStar", TRY),
    ("assert", [("t", "E", "test", 1), ("m", "OE", "msg", 0)]),
    ("import", [("ns", "AL", "names", 1)]),
    ("importFrom", [("m", "D", "", 0), ("ns", "AL", "names", 1), ("l", "D", "", 0)]),
    ("global", [("ns", "D", "", 0)]), ("nonlocal", [("ns", "D", "", 0)]),
    ("expr", [("e", "E", "value", 1)]),
    ("pass", []), ("break", []), ("continue", []),
]
PATS = [
    ("matchValue", [("v", "E", "value", 1)]),
    ("matchSingleton", [("c", "D", "", 0)]),
    ("matchSequence", [("ps", "PS", "patterns", 0)]),
    ("matchMapping", [("ks", "ES", "keys", 0), ("ps", "PS", "patterns", 0), ("r", "D", "", 0)]),
    ("matchClass", [("c", "E", "cls", 1), ("ps", "PS", "patterns", 0), ("ka", "D", "", 0), ("qs", "PS", "kwd_patterns", 0)]),
    ("matchStar", [("n", "D", "", 0)]),
    ("matchAs", [("q", "OP", "pattern", 0), ("n", "D", "", 0)]),
    ("matchOr", [("ps", "PS", "patterns", 0)]),
]


def obtain_pattern(names):
    """left-nested conjunction pattern for `a && b && c` after `Bool.and_eq_true`"""
    if len(names) == 1:
        return names[0]
    pat = names[0]
    for n in names[1:]:
        pat = f"⟨{pat}, {n}⟩"
    return pat


def build(fs):
    if not fs:
        return "Kids.nil"
    if len(fs) == 1:
        return fs[0]["term"]
    first, rest = fs[0], build(fs[1:])
    comb = "Kids.cons" if first["single"] else "Kids.append"
    return f"({comb} {first['term']} {rest} (by decide))"


def lemma(prefix, pred, ty, plainf, unfold, ctor, fields):
    fs = [(x, field(k, x, slot, m)) for x, k, slot, m in fields if k != "D"]
    args = " ".join(x for x, _, _, _ in fields)
    wins = " ".join(f["vars"] for _, f in fs)
    hyps = "\n    ".join(f["hyp"] for _, f in fs)
    plains = ["p" + x for x, f in fs if f["plain"]]
    out = []
    name = f"{prefix}_{ctor}"
    binders = " ".join(x for x, _, _, _ in fields)
    out.append(f"theorem {name} {{j k {wins} : Nat}}" + (f" {{{binders}}}" if binders else "") +
               " (h1 : 1 ≤ k) (h3 : k ≤ j) (h5 : j ≤ N)" + (("\n    " + hyps) if hyps else "") + " :\n" +
               f"    {pred} src σ j k (.{ctor} (S σ j, E σ k)" + ((" " + args) if args else "") + ") := by")
    out.append(f"  unfold {pred} WX")
    out.append("  intro hp")
    out.append(f"  simp only [{plainf}, Bool.and_eq_true] at hp")
    if len(plains) >= 2:
        out.append(f"  obtain {obtain_pattern(plains)} := hp")
    elif len(plains) == 1:
        out.append(f"  have {plains[0]} := hp")
    out.append(f"  simp only [{unfold}]")
    out.append(f"  exact winT_node T h1 (Nat.le_refl _) h3 (Nat.le_refl _) h5 {build([f for _, f in fs])}")
    out.append("")
    pats = ", ".join(["TiledTab src σ N"] + [f["pat"] for _, f in fs] +
                     [f"{ty}.{ctor} (S σ j, E σ k)" + ((" " + args) if args else "")])
    return "\n".join(out), f"grind_pattern {name} => {pats}"


def main():
    print("""import PV.C02.RProgSoundSeq
/-
  PV.C02.RProgSoundNodes — GENERATED by tools/c02_gen_nodes.py (do not edit by hand; the file is checked by Lean like any
  other).  One lemma per statement / pattern constructor: a node ranged `(S σ j, E σ k)` whose children lie (in
  consecutive windows, for list fields) inside the token range `j … k` is fine in that window (`WS` / `WP`: own range
  well formed, children enclosed — decorators exempt —, list siblings ordered, recursively).  Every side condition is
  linear arithmetic over token counts; the lemmas are registered as `grind` patterns on the constructor term.
-/
set_option linter.unusedSimpArgs false
set_option linter.unusedVariables false
set_option linter.unusedSectionVars false
namespace PV.C02
open PV.Expr PV.C11 PV.Prog

variable {src : List Nat} {σ : SpanTab} {N : Nat}

section nodes
variable (T : TiledTab src σ N)
include T
""")
    pats = []
    for ctor, fields in STMTS:
        text, pat = lemma("ws", "WS", "RStmt", "plainS", "RStmt.treeB, RStmt.kind, RStmt.range, RStmt.children", ctor, fields)
        print(text)
        pats.append(pat)
    for ctor, fields in PATS:
        text, pat = lemma("wp", "WP", "RPattern", "plainP", "RPattern.treeB, RPattern.kind, RPattern.range, RPattern.children",
                          ctor, fields)
        print(text)
        pats.append(pat)
    print("end nodes\n")
    for p in pats:
        print(p)
    print("\nend PV.C02")


if __name__ == "__main__":
    main()
