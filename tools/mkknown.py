#!/usr/bin/env python3
"""Merge known_findings.d/Cxx.json into the reader's copy known_findings.json (the checks read the fragments)."""
import json, os
V = os.path.dirname(os.path.dirname(os.path.abspath(__file__)))
d = os.path.join(V, "known_findings.d")
findings, fixed = [], []
for fn in sorted(os.listdir(d)):
    if fn.endswith(".json"):
        data = json.load(open(os.path.join(d, fn)))
        findings += data.get("findings", [])
        fixed += data.get("fixed", [])
out = {"_comment": "Merged copy of known_findings.d/Cxx.json (the files the checks read; edit those, then run tools/mkknown.py). "
                   "`findings`: genuine defects of /repo that are recorded rather than repaired; a check prints "
                   "`KNOWN-FINDING: property=<id> <key>: <what>` for each one it meets and still exits 0. `fixed`: defects repaired "
                   "by a `fix:` commit in /repo; they suppress nothing. Nothing here is written at run time.",
       "findings": findings, "fixed": fixed}
json.dump(out, open(os.path.join(V, "known_findings.json"), "w"), indent=1, ensure_ascii=False)
open(os.path.join(V, "known_findings.json"), "a").write("\n")
print(len(findings), "open findings,", len(fixed), "fixed")
