"""Shared orchestration for every property check (see DESIGN.md section 1.2).

A property module (tools/props/cXX.py) defines:

  ID            "C15"
  DESIGN_REF    "DESIGN.md section 5 / C15"
  LEAN_TARGETS  lake targets holding the property theorems, e.g. ["PV.C15.Thm"]
  THEOREMS      fully qualified names of the property theorems (audited with #print axioms)
  DRIVER        lean_exe name answering the line protocol with the *model*
  HARNESS       {"bin": "pvh_c15", "features": "default"}  (real code, in-process)
  TRUSTED       list of strings: trusted base / what is modelled, not verified
  PARTIAL       list of strings: what the full statement has that the proved theorems lack
  pre_build(ctx)            optional: translators / behavioural table extraction -> lean/PV/Gen
  streams(ctx)              -> list of Stream
  oracle(req, impl_out)     optional: judge the *implementation* directly against the property
                            (independent Python reference); returns None or a failure string
  classify(req, impl_out, model_out, failure) optional -> key into known_findings.json or None
"""
import fcntl
import hashlib
import importlib
import json
import os
import random
import re
import subprocess
import sys
import time
from concurrent.futures import ThreadPoolExecutor

VERIF = os.path.dirname(os.path.dirname(os.path.abspath(__file__)))
# The PV_* overrides exist only for tools/mutant (isolated runs against a patched copy of /repo);
# registered checks never set them.
LEAN = os.environ.get("PV_LEAN", os.path.join(VERIF, "lean"))
HARNESS = os.environ.get("PV_HARNESS", os.path.join(VERIF, "harness"))
WORK = os.environ.get("PV_WORK", os.path.join(VERIF, ".work"))
EVID = os.environ.get("PV_EVID", os.path.join(VERIF, "evidence"))
REPLAY = os.path.join(EVID, "replay")
REPO = os.environ.get("PV_REPO", "/repo")
GUARD = "rustpython_parser_verif"
ALLOWED_AXIOMS = {"propext", "Classical.choice", "Quot.sound"}
DEFAULT_SEED = 20260929

FEATURE_SETS = {
    # name -> cargo arguments
    "default": [],
    "full-lexer": ["--features", "full-lexer"],
    "all-ranges": ["--features", "all-nodes-with-ranges"],
    "num-bigint": ["--no-default-features", "--features", "num"],
    # release semantics (no debug assertions / overflow checks); used by C13's thorough tier
    "nodebug": ["--config", "profile.dev.debug-assertions=false", "--config", "profile.dev.overflow-checks=false",
                "--config", "profile.dev.package.\"*\".debug-assertions=false",
                "--config", "profile.dev.package.\"*\".overflow-checks=false"],
}


def hexs(b):
    if isinstance(b, str):
        b = b.encode("utf-8")
    return b.hex() if b else "-"


def unhex(s):
    return b"" if s == "-" else bytes.fromhex(s)


class Stream:
    """One correspondence stream: a list of request lines sent to both sides."""

    def __init__(self, name, requests, kind="random", exhaustive=False, note="",
                 harness=None, driver=None, compare=True, oracle=None, nontrivial=None):
        self.name = name
        self.requests = list(requests)
        self.kind = kind            # corpus | exhaustive | random | malformed | directed
        self.exhaustive = exhaustive
        self.note = note
        self.harness = harness      # override of module HARNESS
        self.driver = driver        # override of module DRIVER
        self.compare = compare      # False: implementation judged by oracle only
        self.oracle = oracle        # per-stream oracle override
        self.nontrivial = nontrivial  # predicate(req) -> bool


class Ctx:
    def __init__(self, mod, tier, seed):
        self.mod = mod
        self.tier = tier
        self.seed = seed
        self.quick = tier == "quick"
        self.work = os.path.join(WORK, mod.ID)
        os.makedirs(self.work, exist_ok=True)
        self.notes = []
        self.extra = {}

    def rng(self, name):
        h = hashlib.sha256(f"{self.seed}:{self.mod.ID}:{name}".encode()).digest()
        return random.Random(int.from_bytes(h[:8], "big"))


class Lock:
    def __init__(self, name):
        os.makedirs(WORK, exist_ok=True)
        self.path = os.path.join(WORK, name + ".lock")

    def __enter__(self):
        self.f = open(self.path, "w")
        fcntl.flock(self.f, fcntl.LOCK_EX)

    def __exit__(self, *a):
        fcntl.flock(self.f, fcntl.LOCK_UN)
        self.f.close()


def sh(cmd, cwd=None, env=None, timeout=None):
    e = dict(os.environ)
    if env:
        e.update(env)
    p = subprocess.run(cmd, cwd=cwd, env=e, stdout=subprocess.PIPE, stderr=subprocess.STDOUT,
                       timeout=timeout, text=True, errors="replace")
    return p.returncode, p.stdout


# ---------------------------------------------------------------- Lean side

def lake_build(targets):
    with Lock("lake"):
        return sh(["lake", "build"] + list(targets), cwd=LEAN, timeout=3600)


def driver_path(name):
    return os.path.join(LEAN, ".lake", "build", "bin", name)


_COMMENT_BLOCK = re.compile(r"/-.*?-/", re.S)
_COMMENT_LINE = re.compile(r"--.*?$", re.M)
FORBIDDEN = re.compile(r"\b(sorry|admit|native_decide|bv_decide|implemented_by|unsafe)\b|^\s*axiom\s|maxHeartbeats\s+0\b", re.M)


def lean_sources_for(targets):
    """Transitive project-local imports of the given modules."""
    seen, todo = [], list(targets)
    while todo:
        m = todo.pop()
        if m in seen:
            continue
        p = os.path.join(LEAN, *m.split(".")) + ".lean"
        if not os.path.exists(p):
            continue
        seen.append(m)
        for line in open(p, encoding="utf-8"):
            mm = re.match(r"\s*(?:public\s+)?import\s+([A-Za-z0-9_.]+)", line)
            if mm and (mm.group(1).startswith("PV.") or mm.group(1).startswith("Drv.")):
                todo.append(mm.group(1))
    return seen


def audit_sources(targets):
    """grep for forbidden constructs outside comments; returns list of hits."""
    hits = []
    for m in lean_sources_for(targets):
        p = os.path.join(LEAN, *m.split(".")) + ".lean"
        src = open(p, encoding="utf-8").read()
        src = _COMMENT_BLOCK.sub(lambda mo: "\n" * mo.group(0).count("\n"), src)
        src = _COMMENT_LINE.sub("", src)
        # string literals may legitimately contain the words (drivers); drop them
        src = re.sub(r'"(?:\\.|[^"\\])*"', '""', src)
        for mo in FORBIDDEN.finditer(src):
            line = src.count("\n", 0, mo.start()) + 1
            hits.append(f"{m}:{line}: {mo.group(0).strip()}")
    return hits


def audit_axioms(mod_id, targets, theorems):
    """#print axioms for every property theorem. Returns (ok, {thm: [axioms] | None}, raw)."""
    os.makedirs(os.path.join(WORK, mod_id), exist_ok=True)
    path = os.path.join(WORK, mod_id, "Audit.lean")
    with open(path, "w") as f:
        for t in targets:
            f.write(f"import {t}\n")
        for t in theorems:
            f.write(f"#print axioms {t}\n")
    rc, out = sh(["lake", "env", "lean", path], cwd=LEAN, timeout=1800)
    res = {t: None for t in theorems}
    flat = re.sub(r"\s+", " ", out)
    for t in theorems:
        short = re.escape(t)
        m = re.search(r"'" + short + r"' depends on axioms: \[([^\]]*)\]", flat)
        if m:
            res[t] = [a.strip() for a in m.group(1).split(",") if a.strip()]
        elif re.search(r"'" + short + r"' does not depend on any axioms", flat):
            res[t] = []
    ok = rc == 0 and all(v is not None and set(v) <= ALLOWED_AXIOMS for v in res.values())
    return ok, res, out


# ---------------------------------------------------------------- Rust side

def cargo_build(bin_name, features="default"):
    tdir = os.path.join(HARNESS, "target", features)
    lock = os.path.join(HARNESS, "Cargo.lock")
    if not os.path.exists(lock):
        import shutil
        shutil.copy(os.path.join(REPO, "Cargo.lock"), lock)
    cmd = ["cargo", "build", "--offline", "--bin", bin_name, "--target-dir", tdir] + FEATURE_SETS[features]
    env = {"CARGO_NET_OFFLINE": "true", "RUSTFLAGS": f"--cfg {GUARD} -Awarnings"}
    # coverage map of the streams (tools/covmap.py only; registered checks never set these)
    if os.environ.get("PV_COV"):
        tdir = os.path.join(HARNESS, "target", features + "-cov")
        cmd = ["cargo", "+nightly", "build", "--offline", "--bin", bin_name, "--target-dir", tdir] + FEATURE_SETS[features]
        env["RUSTFLAGS"] += " -C instrument-coverage"
    with Lock("cargo-" + features):
        rc, out = sh(cmd, cwd=HARNESS, env=env, timeout=3600)
    return rc, out, os.path.join(tdir, "debug", bin_name)


# ---------------------------------------------------------------- running line protocols

def _run_chunk(cmd, reqs, timeout, tag):
    """Feed request lines to a process; restart after a crash/timeout so that every request gets
    exactly one answer line."""
    out = []
    i = 0
    while i < len(reqs):
        data = "".join(r + "\n" for r in reqs[i:])
        try:
            p = subprocess.run(cmd, input=data, stdout=subprocess.PIPE, stderr=subprocess.DEVNULL,
                               timeout=timeout, text=True, errors="replace")
            lines = p.stdout.split("\n")
            if lines and lines[-1] == "":
                lines.pop()
            died = p.returncode != 0
            marker = "(abort)"
        except subprocess.TimeoutExpired as e:
            so = e.stdout or ""
            if isinstance(so, bytes):
                so = so.decode("utf-8", "replace")
            lines = so.split("\n")
            lines = lines[:-1]      # last line may be partial
            died = True
            marker = "(timeout)"
        need = len(reqs) - i
        if len(lines) >= need:
            out.extend(lines[:need])
            break
        out.extend(lines)
        i += len(lines)
        if not died and len(lines) < need:
            marker = "(abort)"
        out.append(marker)      # the request that killed / hung the process
        i += 1
    return out


def run_lines(cmd, reqs, jobs=1, timeout=600):
    if not reqs:
        return []
    if jobs <= 1 or len(reqs) < 64:
        return _run_chunk(cmd, reqs, timeout, 0)
    n = min(jobs, max(1, len(reqs) // 32))
    size = (len(reqs) + n - 1) // n
    chunks = [reqs[k:k + size] for k in range(0, len(reqs), size)]
    with ThreadPoolExecutor(max_workers=n) as ex:
        parts = list(ex.map(lambda c: _run_chunk(cmd, c, timeout, 0), chunks))
    return [x for p in parts for x in p]


# ---------------------------------------------------------------- known findings

def load_known():
    """The committed known-findings files known_findings.d/Cxx.json (one per property: `findings` = open defects
    that are reported as KNOWN-FINDING, `fixed` = repaired ones, which suppress nothing). Never written at run time.
    known_findings.json is the merged copy for readers (tools/mkknown.py) and is not read here."""
    out = {}
    d = os.path.join(VERIF, "known_findings.d")
    if os.path.isdir(d):
        for fn in sorted(os.listdir(d)):
            if not fn.endswith(".json"):
                continue
            data = json.load(open(os.path.join(d, fn)))
            for f in data.get("findings", []):
                out[(f["property"], f["key"])] = f
    return out


# ---------------------------------------------------------------- main flow

def write_evidence(mod, ctx, cov, violations, t0, assumptions):
    os.makedirs(EVID, exist_ok=True)
    ev = {
        "property_id": mod.ID,
        "tier": ctx.tier,
        "seed": ctx.seed,
        "level": "proof",
        "coverage": cov,
        "assumptions": assumptions,
        "wall_s": round(time.time() - t0, 2),
        "violations": violations,
    }
    with open(os.path.join(EVID, mod.ID + ".json"), "w") as f:
        json.dump(ev, f, indent=1, sort_keys=True)
        f.write("\n")


def write_replay(mod, name, payload):
    os.makedirs(REPLAY, exist_ok=True)
    path = os.path.join(REPLAY, f"{mod.ID}-{name}.json")
    payload = dict(payload)
    payload["property"] = mod.ID
    payload["command"] = f"cd /verif && ./check {mod.ID} --replay {path}"
    with open(path, "w") as f:
        json.dump(payload, f, indent=1)
        f.write("\n")
    return path


def load_module(pid):
    sys.path.insert(0, os.path.join(VERIF, "tools"))
    return importlib.import_module("props." + pid.lower())


def run_check(pid, tier, seed):
    t0 = time.time()
    mod = load_module(pid)
    ctx = Ctx(mod, tier, seed)
    # replay files belong to one run: drop those of earlier runs of this property
    if os.path.isdir(REPLAY):
        for fn in os.listdir(REPLAY):
            if fn.startswith(mod.ID + "-") and fn.endswith(".json"):
                try:
                    os.remove(os.path.join(REPLAY, fn))
                except OSError:
                    pass
    known = load_known()
    violations = []        # (kind, replay_path, suffix)
    known_seen = {}
    obligations = []       # (name, discharged: bool, detail)
    broken = []            # names of broken theorem/correspondence obligations
    log = []

    def ob(name, ok, detail=""):
        obligations.append({"name": name, "discharged": bool(ok), "detail": detail[:400]})
        if not ok:
            broken.append(name)

    # 1. regenerate (translators, behavioural tables)
    if hasattr(mod, "pre_build"):
        try:
            for name, ok, detail in mod.pre_build(ctx) or []:
                ob(name, ok, detail)
        except Exception as e:  # translator could not read the source shape
            ob("translate", False, f"translator failed: {e!r}")

    # 2. prove
    targets = list(mod.LEAN_TARGETS)
    drivers = sorted({mod.DRIVER} | {s for s in getattr(mod, "EXTRA_DRIVERS", [])})
    rc, out = lake_build(targets + drivers)
    lean_ok = rc == 0
    if not lean_ok:
        log.append(out[-4000:])
    failed_mods = set(re.findall(r"✖ \[\d+/\d+\] Building ([A-Za-z0-9_.]+)", out)) if not lean_ok else set()
    for t in targets:
        ob("lake build " + t, lean_ok or (t not in failed_mods and not failed_mods), out[-400:] if not lean_ok else "")

    # 3. audit
    thm_axioms = {}
    if lean_ok:
        hits = audit_sources(targets)
        ob("no sorry/admit/axiom/native_decide/bv_decide/implemented_by/unsafe in " + ",".join(targets),
           not hits, "; ".join(hits))
        ok, thm_axioms, raw = audit_axioms(mod.ID, targets, mod.THEOREMS)
        for t in mod.THEOREMS:
            ax = thm_axioms.get(t)
            ob("theorem " + t, ax is not None and set(ax) <= ALLOWED_AXIOMS,
               "axioms: " + (", ".join(ax) if ax is not None else "NOT FOUND / does not check"))
        if tier == "thorough" and getattr(mod, "LEANCHECKER", True):
            for t in targets:
                rc2, o2 = sh(["lake", "env", "leanchecker", t], cwd=LEAN, timeout=3600)
                ob("leanchecker " + t, rc2 == 0, o2[-300:])
    else:
        for t in mod.THEOREMS:
            ob("theorem " + t, False, "lake build failed")

    # 4. harness builds
    bins = {}
    need = {(mod.HARNESS["bin"], mod.HARNESS.get("features", "default"))}
    streams = []
    stream_err = None
    try:
        streams = mod.streams(ctx)
    except Exception as e:
        import traceback
        stream_err = traceback.format_exc()
    for s in streams:
        if s.harness:
            need.add((s.harness["bin"], s.harness.get("features", "default")))
    harness_ok = True
    for (b, fs) in sorted(need):
        rc, out, path = cargo_build(b, fs)
        if rc != 0:
            harness_ok = False
            log.append(out[-4000:])
        bins[(b, fs)] = path
    if not harness_ok:
        # /repo no longer compiles with the harness: not a property verdict, but nothing can be shown
        ob("harness build", False, "cargo build failed (see log)")
    if stream_err:
        ob("stream generation", False, stream_err[-400:])

    def classify(entry):
        if hasattr(mod, "classify"):
            try:
                return mod.classify(entry["request"], entry["impl"], entry.get("model"), entry.get("failure"))
            except Exception:
                return None
        return None

    # 5. correspondence + oracle
    jobs = 4 if ctx.quick else 16
    stream_stats = []
    total_eval = 0
    distinct = set()
    samples = []
    model_disagreements = []
    oracle_failures = []
    if harness_ok and lean_ok:
        for s in streams:
            h = s.harness or mod.HARNESS
            hbin = bins[(h["bin"], h.get("features", "default"))]
            reqs = s.requests
            ts = time.time()
            impl = run_lines([hbin], reqs, jobs=jobs)
            model = run_lines([driver_path(s.driver or mod.DRIVER)], reqs, jobs=jobs) if s.compare else [None] * len(reqs)
            agree = 0
            dis = 0
            of = 0
            oracle = s.oracle or getattr(mod, "oracle", None)
            canon = getattr(mod, "canon", None)     # optional: canon(req, out) applied to BOTH sides before diffing
            kn = 0
            for r, a, m in zip(reqs, impl, model):
                total_eval += 1
                if s.nontrivial is None or s.nontrivial(r):
                    distinct.add(r)
                fail = None
                if oracle is not None:
                    try:
                        fail = oracle(r, a)
                    except Exception as e:
                        fail = None
                        ctx.notes.append(f"oracle raised on {r[:80]}: {e!r}")
                if canon is not None and s.compare:
                    try:
                        differs = canon(r, a) != canon(r, m)
                    except Exception:
                        differs = a != m
                else:
                    differs = s.compare and a != m
                if s.compare and not differs:
                    agree += 1
                if not fail and not differs:
                    continue
                entry = {"stream": s.name, "request": r, "impl": a, "model": m, "failure": fail}
                key = classify(entry)
                if key and (mod.ID, key) in known:
                    known_seen.setdefault(key, entry)
                    kn += 1
                    continue
                if fail:
                    of += 1
                    oracle_failures.append(entry)
                if differs:
                    dis += 1
                    model_disagreements.append(entry)
            if reqs and len(samples) < 12:
                k = ctx.rng("sample:" + s.name).randrange(len(reqs))
                samples.append({"stream": s.name, "request": reqs[k], "impl": (impl[k] or "")[:300]})
            stream_stats.append({"stream": s.name, "kind": s.kind, "requests": len(reqs), "agree": agree,
                                 "model_disagreements": dis, "oracle_failures": of, "known_finding_hits": kn,
                                 "exhaustive": s.exhaustive, "note": s.note,
                                 "wall_s": round(time.time() - ts, 2)})
            if s.compare:
                ob("correspondence stream " + s.name, dis == 0, f"{dis} of {len(reqs)} requests disagree (beyond {kn} listed known-finding hits)")

    # 6. decide
    lines = []
    reported = set()
    # (a) implementation judged directly by the property's oracle
    for e in oracle_failures:
        tag = hashlib.sha1(e["request"].encode()).hexdigest()[:10]
        if len(reported) < 5:
            path = write_replay(mod, "oracle-" + tag, dict(e, kind="oracle-failure",
                                theorem_or_stream_broken=e["stream"]))
            lines.append(f"VIOLATION property={mod.ID} replay={path}")
        reported.add(tag)
    # (b) model/implementation disagreements not explained by an oracle failure above:
    unexplained = []
    for e in model_disagreements:
        if e.get("failure"):
            continue            # already reported under (a)
        unexplained.append(e)
    if unexplained and not reported:
        # violation search: ask the property module to look for a concrete failing input near the
        # disagreements (it evaluates the property itself on the real implementation)
        found = None
        if hasattr(mod, "search"):
            try:
                found = mod.search(ctx, unexplained, bins)
            except Exception as ex:
                ctx.notes.append(f"search raised {ex!r}")
        if found:
            path = write_replay(mod, "search", dict(found, kind="found-by-violation-search"))
            lines.append(f"VIOLATION property={mod.ID} replay={path}")
        else:
            e = unexplained[0]
            path = write_replay(mod, "corr-" + hashlib.sha1(e["request"].encode()).hexdigest()[:10],
                                dict(e, kind="correspondence-broken", theorem_or_stream_broken=e["stream"],
                                     others=len(unexplained) - 1))
            lines.append(f"VIOLATION property={mod.ID} replay={path} no-failing-input-found")
    # (c) broken proof obligations (lake build / audit / translator / tables / harness)
    hard_broken = [b for b in broken if not b.startswith("correspondence stream ")]
    if hard_broken and not lines:
        found = None
        if hasattr(mod, "search"):
            try:
                found = mod.search(ctx, [], bins)
            except Exception as ex:
                ctx.notes.append(f"search raised {ex!r}")
        if found:
            path = write_replay(mod, "search", dict(found, kind="found-by-violation-search", broken=hard_broken))
            lines.append(f"VIOLATION property={mod.ID} replay={path}")
        else:
            path = write_replay(mod, "obligation", {"kind": "proof-obligation-broken", "broken": hard_broken,
                                                    "log": "\n".join(log)[-6000:]})
            lines.append(f"VIOLATION property={mod.ID} replay={path} no-failing-input-found")

    for key, e in sorted(known_seen.items()):
        f = known[(mod.ID, key)]
        print(f"KNOWN-FINDING: property={mod.ID} {key}: {f['what']}")
    for l in lines:
        print(l)

    # 7. evidence
    n_ob = len(obligations)
    n_dis = sum(1 for o in obligations if o["discharged"])
    # a correspondence stream whose only disagreements are listed known findings is discharged
    # (the model is then right about everything but the recorded defect)
    cov = {
        "obligations": n_ob,
        "discharged": n_dis,
        "obligation_list": obligations,
        "checker_cmd": "cd /verif/lean && lake build " + " ".join(targets) +
                       " && lake env lean /verif/.work/%s/Audit.lean  # #print axioms" % mod.ID +
                       ("" if ctx.quick else " && lake env leanchecker " + " ".join(targets)),
        "trusted_base": list(mod.TRUSTED),
        "theorems": [{"name": t, "axioms": thm_axioms.get(t)} for t in mod.THEOREMS],
        "partial": list(getattr(mod, "PARTIAL", [])),
        "evaluations": total_eval,
        "distinct_nontrivial": len(distinct),
        "rule": getattr(mod, "RULE", "distinct request lines sent to both the implementation and the Lean model"),
        "streams": stream_stats,
        "exhaustive": bool(streams) and all(s.exhaustive for s in streams),
        "model_disagreements": len(model_disagreements),
        "oracle_failures": len(oracle_failures),
        "known_findings_seen": sorted(known_seen),
        "samples": samples,
        "notes": ctx.notes,
    }
    cov.update(ctx.extra)
    write_evidence(mod, ctx, cov, len(lines), t0, list(getattr(mod, "ASSUMPTIONS", mod.TRUSTED)))
    return 1 if lines else 0


def run_replay(pid, path):
    mod = load_module(pid)
    data = json.load(open(path))
    req = data.get("request")
    if not req:
        print(json.dumps(data, indent=1))
        return 0
    h = mod.HARNESS
    rc, out, hbin = cargo_build(h["bin"], h.get("features", "default"))
    lake_build([mod.DRIVER])
    a = run_lines([hbin], [req])[0]
    m = run_lines([driver_path(mod.DRIVER)], [req])[0]
    print("request:", req)
    print("impl   :", a)
    print("model  :", m)
    fail = mod.oracle(req, a) if hasattr(mod, "oracle") else None
    print("oracle :", fail or "ok")
    return 1 if (fail or a != m) else 0


def setup():
    """Build everything once after a fresh restore (offline). Every property is built on its own, so that a property
    whose Lean files or harness do not build cannot keep the others from being set up; the failing property's own
    check reports the broken obligation. The exit code is non-zero only when NOTHING could be built."""
    built_any = False
    failed = []
    # only what MANIFEST.json claims is built here; unclaimed work in progress cannot break setup
    try:
        man = json.load(open(os.path.join(VERIF, "MANIFEST.json")))
        props = sorted(c["property_id"].lower() for c in man.get("checks", []))
    except Exception:
        props = []
    need = set()
    for p in props:
        try:
            mod = load_module(p.upper())
        except Exception as e:
            print(f"setup: cannot load props module for {p}: {e!r}")
            failed.append(p.upper() + " (props module)")
            continue
        if hasattr(mod, "pre_build") and not getattr(mod, "PRE_BUILD_NEEDS_HARNESS", False):
            try:
                mod.pre_build(Ctx(mod, "quick", DEFAULT_SEED))
            except Exception as e:
                print(f"setup: pre_build of {p} raised {e!r} (the check itself will report it)")
        targets = sorted({mod.DRIVER} | set(getattr(mod, "EXTRA_DRIVERS", [])) | set(mod.LEAN_TARGETS))
        rc, out = lake_build(targets)
        print(f"lake build [{p.upper()}] {' '.join(targets)} rc={rc}")
        if rc != 0:
            print(out[-1500:])
            failed.append(p.upper() + " (lake)")
        else:
            built_any = True
        need.add((mod.HARNESS["bin"], mod.HARNESS.get("features", "default")))
        for h in getattr(mod, "EXTRA_HARNESS", []):
            need.add((h["bin"], h.get("features", "default")))
    for b, fs in sorted(need):
        rc, out, _ = cargo_build(b, fs)
        print(f"cargo build {b} [{fs}] rc={rc}")
        if rc != 0:
            print(out[-3000:])
            failed.append(f"{b}[{fs}] (cargo)")
        else:
            built_any = True
    if failed:
        print("setup: NOT built (their checks will report it): " + ", ".join(failed))
    return 0 if built_any else 1


def main(argv):
    import argparse
    ap = argparse.ArgumentParser()
    ap.add_argument("prop", nargs="?")
    ap.add_argument("--tier", default=os.environ.get("VERIF_TIER", "quick"))
    ap.add_argument("--replay")
    ap.add_argument("--setup", action="store_true")
    a = ap.parse_args(argv)
    if a.setup:
        return setup()
    if not a.prop:
        ap.error("property id required")
    seed = int(os.environ.get("VERIF_SEED", DEFAULT_SEED))
    if a.replay:
        return run_replay(a.prop.upper(), a.replay)
    tier = a.tier if a.tier in ("quick", "thorough") else "quick"
    return run_check(a.prop.upper(), tier, seed)
