"""the PV.Prog.Parse half of lean/PV/C04/ProgSeg.lean (see c04_gen_seg.py)"""
import re, sys
sys.path.insert(0, "/verif/tools/proggen")
from gen_mono2 import FUNS as PROGFUNS
from gen_suf import FUNS as C11FUNS

# statement-level functions: (start flag, end flag) of the segment they are proved to consume
STMT = {
    "parseSimpleLine": "true", "parseDecorators": "true", "parseSuite": "false", "parseBlock": "true",
    "parseElse": "true", "parseFinally": "true", "parseElifs": "true", "parseHandlers": "true", "parseCases": "true",
    "parseDef": "false", "parseClass": "false", "parseFor": "false", "parseWith": "false", "parseCompound": "true",
    "parseProgramBody": "true",
}
def names(b):
    out = []
    for grp in re.findall(r"\(([^:]+):", b):
        out += grp.split()
    return out

def concl(n):
    if n == "parseProgramBody":
        return "Seg true ts true []"
    if n in STMT:
        return f"Seg {STMT[n]} ts true r"
    return "SegE ts r"
def hyp(n, app, F):
    if n == "parseProgramBody":
        return f"{app.format(F=F)} = some v"
    return f"{app.format(F=F)} = some (v, r)"
def rvars(n):
    return "v" if n == "parseProgramBody" else "v r"

def bodies(path, allnames):
    src = open(path).read()
    blocks = re.split(r"\n(?=(?:def|theorem|mutual|end|/--|/-!) ?)", src)
    out = {}
    for b in blocks:
        m = re.match(r"def (\w+)", b)
        if m and m.group(1) in allnames:
            out[m.group(1)] = b[m.end():]
    return out

DERIVED = '''
theorem parseElem_seg {f : Nat} (ih : C11Seg f) (ek : EK) (ts : List Tok) (v : Expr) (r : List Tok)
    (h : parseElem ek f ts = some (v, r)) : SegE ts r := by
  cases ek <;> simp only [parseElem] at h
  · exact ih.parseTestOrStar ts v r h
  · exact ih.parseExprOrStar ts v r h
  · exact ih.parseStarOrNamed ts v r h
  · exact ih.parseTest ts v r h

theorem parseTestListS_seg {f : Nat}
    (ih : ∀ (ek : EK) (ts : List Tok) v r, parseCommaList ek f ts = some (v, r) → SegE ts r)
    (ts : List Tok) (v : Expr) (r : List Tok) (h : parseTestListS f ts = some (v, r)) : SegE ts r := by
  unfold parseTestListS at h
  split at h
  · rename_i l r' heq; simp at h; obtain ⟨_, rfl⟩ := h; exact ih _ _ _ _ heq
  · simp at h

theorem parsePatterns_seg {f : Nat}
    (ih : ∀ (ts : List Tok) v r, parsePatternList f ts = some (v, r) → SegE ts r)
    (ts : List Tok) (v : Pattern) (r : List Tok) (h : parsePatterns f ts = some (v, r)) : SegE ts r := by
  unfold parsePatterns at h
  split at h
  · rename_i p r' heq; simp at h; obtain ⟨_, rfl⟩ := h; exact ih _ _ _ heq
  · rename_i ps x r' heq; simp at h; obtain ⟨_, rfl⟩ := h; exact ih _ _ _ heq
  · simp at h
'''

def emit_prog(only=None):
    allnames = [n for n, _, _ in PROGFUNS]
    c11names = [n for n, _, _, _ in C11FUNS]
    B = bodies("/verif/lean/PV/Prog/Parse.lean", allnames)
    o = [open("/verif/tools/c04_seg_header2.lean").read(), DERIVED]
    o.append("/-- every function of the program parser consumes a good segment, at fuel `f` -/")
    o.append("structure ProgSeg (f : Nat) : Prop where")
    for n, b, app in PROGFUNS:
        o.append(f"  {n} : ∀ {b} {rvars(n)}, {hyp(n, app, 'f')} → {concl(n)}")
    o.append("")
    o.append("theorem progSeg_zero : ProgSeg 0 := by")
    o.append("  constructor <;> intros <;> simp_all [" + ", ".join(allnames) + "]")
    o.append("")
    for n, b, app in PROGFUNS:
        if only and n not in only:
            continue
        body = B[n]
        if n == "parseCompound":
            o.append("set_option maxRecDepth 4096 in")
        o.append(f"theorem progSeg_step_{n} (f : Nat) (ih : ProgSeg f) : ∀ {b} {rvars(n)}, {hyp(n, app, '(f + 1)')} → {concl(n)} := by")
        o.append(f"  intro {' '.join(names(b))} {rvars(n)} h")
        used = [m for m in allnames if re.search(r"\b" + m + r"\b", body)]
        if "parseTestListS" in body and "parseCommaList" not in used:
            used.append("parseCommaList")
        if "parsePatterns" in body and "parsePatternList" not in used:
            used.append("parsePatternList")
        for m in used:
            o.append(f"  have ih_{m} := ih.{m}")
        for m in c11names:
            if re.search(r"\b" + m + r"\b", body):
                o.append(f"  have ic_{m} := (c11Seg f).{m}")
        if "parseElem" in body:
            o.append("  have ih_parseElem := parseElem_seg (c11Seg f)")
        if "parseTestListS" in body:
            o.append("  have ih_parseTestListS := parseTestListS_seg ih.parseCommaList")
        if "parsePatterns" in body:
            o.append("  have ih_parsePatterns := parsePatterns_seg ih.parsePatternList")
        o.append("  clear ih")
        if n in STMT:
            if STMT[n] == "true":
                o.append("  have hrefl := Seg.refl true ts")
            else:
                o.append("  have hrefl := Seg.refl false ts")
            if n == "parseSimpleLine":
                o.append("  have hstart := fun (e : Bool) (r : List Tok) (hs : Seg false ts e r) => Seg.start hs (lineGood_simple h)")
            if n in ("parseSimpleLine", "parseSuite"):
                o.append("  have ih_parseSimpleLineF := fun ts v r hs => Seg.relaxF (ih_parseSimpleLine ts v r hs)")
        o.append(f"  unfold {n} at h")
        o.append(SPECIAL.get(n, "  seg_stepS h" if n in STMT else "  seg_step h"))
        o.append("")
    if not only:
        o.append("/-- **every function of the program parser consumes a good segment** -/")
        o.append("theorem progSeg : ∀ f, ProgSeg f")
        o.append("  | 0 => progSeg_zero")
        o.append("  | f + 1 => ⟨" + ", ".join(f"progSeg_step_{n} f (progSeg f)" for n in allnames) + "⟩")
        o.append("")
    return o
SPECIAL = {}

PATFUNS = ["parseMapKey", "parsePattern", "parseOrPattern", "parseOrPatRest", "parseClosed", "parsePatternList",
           "parseClassArgs", "parseClassItems", "parseMapItems"]

def emit_pat():
    allnames = [n for n, _, _ in PROGFUNS]
    B = bodies("/verif/lean/PV/Prog/Parse.lean", allnames)
    funs = [(n, b, app) for n, b, app in PROGFUNS if n in PATFUNS]
    o = [open("/verif/tools/c04_seg_header3.lean").read(), ""]
    o.append("/-- every function of the pattern grammar consumes a segment without `as _`, at fuel `f` -/")
    o.append("structure PatSeg (f : Nat) : Prop where")
    for n, b, app in funs:
        o.append(f"  {n} : ∀ {b} v r, {app.format(F='f')} = some (v, r) → SegA ts r")
    o.append("")
    o.append("theorem patSeg_zero : PatSeg 0 := by")
    o.append("  constructor <;> intros <;> simp_all [" + ", ".join(PATFUNS) + "]")
    o.append("")
    for n, b, app in funs:
        body = B[n]
        o.append(f"theorem patSeg_step_{n} (f : Nat) (ih : PatSeg f) : ∀ {b} v r, {app.format(F='(f + 1)')} = some (v, r) → SegA ts r := by")
        o.append(f"  intro {' '.join(names(b))} v r h")
        for m in PATFUNS:
            if re.search(r"\b" + m + r"\b", body):
                o.append(f"  have ih_{m} := ih.{m}")
        o.append("  clear ih")
        o.append(f"  unfold {n} at h")
        o.append("  segA_step h")
        o.append("")
    o.append("/-- **no function of the pattern grammar consumes `as _`** -/")
    o.append("theorem patSeg : ∀ f, PatSeg f")
    o.append("  | 0 => patSeg_zero")
    o.append("  | f + 1 => ⟨" + ", ".join(f"patSeg_step_{n} f (patSeg f)" for n in PATFUNS) + "⟩")
    o.append("")
    o.append("""/-- `Patterns` (what follows `case`) never consumes an `as` token that is followed by `_` -/
theorem parsePatterns_segA {f : Nat} {ts : List Tok} {v : Pattern} {r : List Tok} (h : parsePatterns f ts = some (v, r)) :
    SegA ts r := by
  unfold parsePatterns at h
  split at h
  · rename_i p r' heq; simp at h; obtain ⟨_, rfl⟩ := h; exact (patSeg f).parsePatternList _ _ _ heq
  · rename_i ps x r' heq; simp at h; obtain ⟨_, rfl⟩ := h; exact (patSeg f).parsePatternList _ _ _ heq
  · simp at h
""")
    return o
