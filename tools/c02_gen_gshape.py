#!/usr/bin/env python3
"""Generate lean/PV/C02/GShape.lean: every function of the ranged expression parser returns trees of well-formed f-string
shape (`PV.C02.G.plain`, alias `fwf`): one step lemma per function from a table (fun_cases, the hypotheses instantiated at
the calls that were made by `fwd`, `grind`), induction on the fuel.  Usage: python3 tools/c02_gen_gshape.py"""
import os
ROOT = os.path.dirname(os.path.dirname(os.path.abspath(__file__)))
OUT = os.path.join(ROOT, "lean", "PV", "C02", "GShape.lean")

# (field, binders, hypotheses on accumulators, call, result pattern, conclusion)
E = "plain e = true"
T = [
 ("test", "ts e rest", [], "parseRTest σ f ts", "(e, rest)", E),
 ("lambda", "ts e rest", [], "parseRLambda σ f ts", "(e, rest)", E),
 ("params", "ts ps ph ps' rest", ["PP ps"], "parseRParams σ f ts ps ph", "(ps', rest)", "PP ps'"),
 ("namedTest", "ts e rest", [], "parseRNamedTest σ f ts", "(e, rest)", E),
 ("starOrNamed", "ts e rest", [], "parseRStarOrNamed σ f ts", "(e, rest)", E),
 ("testOrStar", "ts e rest", [], "parseRTestOrStar σ f ts", "(e, rest)", E),
 ("orTest", "ts e rest", [], "parseROrTest σ f ts", "(e, rest)", E),
 ("orRest", "ts es rest", [], "parseROrRest σ f ts", "(es, rest)", "plainL es = true"),
 ("andTest", "ts e rest", [], "parseRAndTest σ f ts", "(e, rest)", E),
 ("andRest", "ts es rest", [], "parseRAndRest σ f ts", "(es, rest)", "plainL es = true"),
 ("notTest", "ts e rest", [], "parseRNotTest σ f ts", "(e, rest)", E),
 ("cmp", "ts e rest", [], "parseRCmp σ f ts", "(e, rest)", E),
 ("cmpRest", "ts ops cs rest", [], "parseRCmpRest σ f ts", "((ops, cs), rest)", "plainL cs = true"),
 ("bin", "lvl ts e rest", [], "parseRBin σ lvl f ts", "(e, rest)", E),
 ("binLoop", "lvl st acc ts e rest", ["plain acc = true"], "parseRBinLoop σ lvl f st acc ts", "(e, rest)", E),
 ("factor", "ts e rest", [], "parseRFactor σ f ts", "(e, rest)", E),
 ("power", "ts e rest", [], "parseRPower σ f ts", "(e, rest)", E),
 ("atomExpr", "ts e rest", [], "parseRAtomExpr σ f ts", "(e, rest)", E),
 ("atomExpr2", "ts e rest", [], "parseRAtomExpr2 σ f ts", "(e, rest)", E),
 ("trailers", "st acc ts e rest", ["plain acc = true"], "parseRTrailers σ f st acc ts", "(e, rest)", E),
 ("args", "ts as ks d as' ks' rest", ["plainL as = true", "plainKws ks = true"], "parseRArgs σ f ts as ks d",
  "((as', ks'), rest)", "plainL as' = true ∧ plainKws ks' = true"),
 ("arg", "ts as ks d as' ks' d' rest", ["plainL as = true", "plainKws ks = true"], "parseRArg σ f ts as ks d",
  "(as', ks', d', rest)", "plainL as' = true ∧ plainKws ks' = true"),
 ("subscriptList", "ts e rest", [], "parseRSubscriptList σ f ts", "(e, rest)", E),
 ("subscripts", "ts es rest", [], "parseRSubscripts σ f ts", "(es, rest)", "plainL es = true"),
 ("subscript", "ts e rest", [], "parseRSubscript σ f ts", "(e, rest)", E),
 ("sliceRest", "st lower ts e rest", ["plainO lower = true"], "parseRSliceRest σ f st lower ts", "(e, rest)", E),
 ("atom", "ts e rest", [], "parseRAtom σ f ts", "(e, rest)", E),
 ("listAtom", "ts e rest", [], "parseRListAtom σ f ts", "(e, rest)", E),
 ("parenAtom", "ts e rest", [], "parseRParenAtom σ f ts", "(e, rest)", E),
 ("yieldAtom", "ts e rest", [], "parseRYieldAtom σ f ts", "(e, rest)", E),
 ("braceAtom", "ts e rest", [], "parseRBraceAtom σ f ts", "(e, rest)", E),
 ("braceFirst", "ts e b rest", [], "parseRBraceFirst σ f ts", "(e, b, rest)", E),
 ("elems", "close ts es tc rest", [], "parseRElems σ f close ts", "((es, tc), rest)", "plainL es = true"),
 ("dictRest", "ts is rest", [], "parseRDictRest σ f ts", "(is, rest)", "plainItems is = true"),
 ("compFor", "ts gs rest", [], "parseRCompFor σ f ts", "(gs, rest)", "plainComps gs = true"),
 ("compIfs", "ts cs rest", [], "parseRCompIfs σ f ts", "(cs, rest)", "plainL cs = true"),
 ("exprOrStar", "ts e rest", [], "parseRExprOrStar σ f ts", "(e, rest)", E),
 ("targetList", "ts e rest", [], "parseRTargetList σ f ts", "(e, rest)", E),
 ("targetRest", "ts es rest", [], "parseRTargetRest σ f ts", "(es, rest)", "plainL es = true"),
 ("testList", "ts e rest", [], "parseRTestList σ f ts", "(e, rest)", E),
 ("testListRest", "ts es rest", [], "parseRTestListRest σ f ts", "(es, rest)", "plainL es = true"),
 ("strings", "ts e rest", [], "parseRStrings σ f ts", "(e, rest)", E),
 ("stringPieces", "after ts ps", [], "parseRStringPieces σ f after ts", "ps", "PiecesG ps"),
 ("fbody", "lit base whole raw nested cs content vs r", [], "fstrRBody f lit base whole raw nested cs content", "(vs, r)",
  "gpieceL vs = true"),
 ("ffield", "lit base whole raw nested cs vs r", [], "fstrRField f lit base whole raw nested cs", "(vs, r)", "gpieceL vs = true"),
 ("fspec", "lit base whole raw nested cs piece vs r", [], "fstrRSpec f lit base whole raw nested cs piece", "(vs, r)",
  "gpieceL vs = true"),
 ("top", "ts v", [], "parseRTop σ f ts", "v", "plain v = true"),
]

def stmt(t, fuel):
    field, binders, hyps, call, res, concl = t
    call = call.replace(" f ", " %s " % fuel)
    sig = "∀ (σ : SpanTab) " + binders + ", " if "σ" in call else "∀ " + binders + ", "
    return sig + "".join(h + " → " for h in hyps) + call + " = some " + res + " → " + concl

HDR = '''import PV.C02.GStrFull
/-
  GENERATED by tools/c02_gen_gshape.py — do not edit.
  PV.C02.GShape — every function of the ranged expression parser returns trees of well-formed f-string shape
  (`PV.C02.G.plain` = `fwf`): a `FormattedValue` only as a piece of a `JoinedStr`, pieces = constants / `FormattedValue`s /
  `JoinedStr`s.  With it the hypothesis `fwf e` of `parseR_rangesOk_fstrN_wf` disappears: `parseR_rangesOk_fstrN`.
-/
set_option linter.unusedSimpArgs false
set_option linter.unusedVariables false
namespace PV.C02.G
open PV.Expr PV.C11

/-- the parameters collected so far are of well-formed shape -/
def PP (ps : RParams) : Prop := plainParams ps.posonly = true ∧ plainParams ps.args = true ∧ plainParams ps.kwonly = true
/-- the pieces of a run of string tokens are of well-formed shape -/
structure PiecesG (ps : List (List Nat ⊕ RExpr)) : Prop where
  mem : ∀ e, Sum.inr e ∈ ps → gpiece e = true

theorem gpieceL_of_mem : ∀ {vs : List RExpr}, (∀ p ∈ vs, gpiece p = true) → gpieceL vs = true
  | [], _ => rfl
  | e :: es, h => by
    simp only [gpieceL, Bool.and_eq_true]
    exact ⟨h e (by simp), gpieceL_of_mem (fun p hp => h p (by simp [hp]))⟩

theorem plainL_append (a b : List RExpr) : plainL (a ++ b) = (plainL a && plainL b) := by
  induction a with
  | nil => simp [plainL]
  | cons x xs ih => simp [plainL, ih, Bool.and_assoc]
theorem plainKws_append (a b : List RKeyword) : plainKws (a ++ b) = (plainKws a && plainKws b) := by
  induction a with
  | nil => simp [plainKws]
  | cons x xs ih => obtain ⟨rg, n, v⟩ := x; simp [plainKws, ih, Bool.and_assoc]
theorem plainParams_append (a b : List RParam) : plainParams (a ++ b) = (plainParams a && plainParams b) := by
  induction a with
  | nil => simp [plainParams]
  | cons x xs ih => obtain ⟨rg, d, n, v⟩ := x; simp [plainParams, ih, Bool.and_assoc]

theorem dedup_shape (rg : Rg) (u : Bool) (ps : List (List Nat ⊕ RExpr)) (h : PiecesG ps) :
    gpieceL (dedupRPieces rg u ps none) = true :=
  gpieceL_of_mem (fun p hp => by
    rcases dedup_mem rg u ps none p hp with ⟨c, rfl⟩ | hin
    · rfl
    · exact h.mem p hin)

theorem piecesG_map {vs : List RExpr} (h : gpieceL vs = true) : PiecesG (vs.map rexprToPiece) := by
  refine ⟨fun e he => ?_⟩
  obtain ⟨v, hv, hve⟩ := List.mem_map.mp he
  have : v = e := by
    unfold rexprToPiece at hve
    split at hve
    · cases hve
    · simpa using hve
  subst this
  exact gpieceL_mem h v hv

theorem piecesG_append {a b : List (List Nat ⊕ RExpr)} (ha : PiecesG a) (hb : PiecesG b) : PiecesG (a ++ b) :=
  ⟨fun e he => (List.mem_append.mp he).elim (ha.mem e) (hb.mem e)⟩
theorem piecesG_cons_inl {s : List Nat} {b : List (List Nat ⊕ RExpr)} (hb : PiecesG b) : PiecesG (.inl s :: b) :=
  ⟨fun e he => by simp only [List.mem_cons, reduceCtorEq, false_or] at he; exact hb.mem e he⟩
theorem piecesG_nil : PiecesG [] := ⟨fun e he => by cases he⟩

'''

def main():
    s = HDR
    s += "structure ShapeAt (f : Nat) : Prop where\n"
    for t in T:
        s += "  %s : %s\n" % (t[0], stmt(t, "f"))
    s += "\ndef BelowSh (n : Nat) : Prop := ∀ f, n = f + 1 → ShapeAt f\n\n"
    s += '''macro "shg" : tactic => `(tactic| grind [plain, plainL, plainO, plainKws, plainComps, plainItems, plainParams, gpiece, gpieceL,
  gpieceO, PP, plainL_append, plainKws_append, plainParams_append, gpieceL_append, dedup_shape, piecesG_map, piecesG_append,
  piecesG_cons_inl, piecesG_nil])

open Lean in
macro "shstep" ih:ident : tactic => do
  let fields := #[%s]
  let mut round : Array (TSyntax `tactic) := #[]
  for f in fields do
    let p := mkIdent (`PV.C02.G.ShapeAt ++ f)
    round := round.push (← `(tactic| fwd ($p:ident ($ih _ rfl))))
  `(tactic| (
    all_goals intros
    all_goals (first
      | (cases ‹_ = some _›; done)
      | ((try simp only [Option.some.injEq, Prod.mk.injEq] at *)
         $[$round]*
         $[$round]*
         shg))))

''' % ", ".join("`" + t[0] for t in T)
    s += '''open Lean in
/-- the hypotheses (a `ShapeAt f`) instantiated at the calls that were made, then `grind` -/
macro "shfin" ih:term : tactic => do
  let fields := #[%s]
  let mut round : Array (TSyntax `tactic) := #[]
  for f in fields do
    let p := mkIdent (`PV.C02.G.ShapeAt ++ f)
    round := round.push (← `(tactic| fwd ($p:ident $ih)))
  `(tactic| (
    (try simp only [Option.some.injEq, Prod.mk.injEq] at *)
    $[$round]*
    $[$round]*
    shg))

''' % ", ".join("`" + t[0] for t in T)
    EXTRA = {"params": "Option (RParams × Nat × List Tok)", "sliceRest": "Option (Option RExpr × List Tok)",
             "ffield": "Option (Option RExpr × List Nat)"}
    UNFOLD = {"params", "bin", "binLoop", "sliceRest", "strings", "stringPieces", "fbody", "ffield", "fspec"}
    for t in T:
        field, binders, hyps, call, res, concl = t
        calln = call.replace(" f ", " n ")
        fn = call.split()[0]
        s += "theorem shstep_%s {n} (ih : BelowSh n) : %s := by\n" % (field, stmt(t, "n"))
        s += "  intro %s%s\n" % ("σ " if "σ" in call else "", binders)
        if field in UNFOLD:
            hs = " ".join("hh%d" % i for i in range(len(hyps)))
            s += "  intro %s h\n" % hs if hs else "  intro h\n"
            s += "  cases n with\n  | zero => simp [%s] at h\n  | succ f =>\n" % fn
            s += "    have ih := ih _ rfl\n    rw [%s.eq_def] at h\n" % fn
            s += "    try simp (config := { zetaDelta := true }) only [] at h\n"
            s += "    repeat' split at h\n"
            s += "    all_goals (try (cases h; done))\n"
            s += "    all_goals (try (split at ‹(if _ then _ else _) = some _›))\n"
            if field in EXTRA:
                s += "    all_goals (try (have hq := ‹(_ : %s) = some _›; repeat' split at hq))\n" % EXTRA[field]
                s += "    all_goals (try (cases ‹(none : %s) = some _›; done))\n" % EXTRA[field]
            s += "    all_goals (try (simp only [Nat.succ_eq_add_one, Nat.add_right_cancel_iff] at *))\n"
            s += "    all_goals (try subst_vars)\n"
            s += "    all_goals (try (simp only [Option.map_eq_some_iff] at h; obtain ⟨_, h, h'⟩ := h))\n"
            s += "    all_goals (shfin ih)\n\n"
        else:
            s += "  fun_cases %s\n  shstep ih\n\n" % calln
    s += "theorem shapeAt_of_below {n : Nat} (b : BelowSh n) : ShapeAt n :=\n  ⟨" + ", ".join("shstep_%s b" % t[0] for t in T) + "⟩\n\n"
    s += '''theorem shapeAt : ∀ n, ShapeAt n
  | 0 => shapeAt_of_below (fun f h => absurd h (by omega))
  | n + 1 => shapeAt_of_below (fun f h => by cases h; exact shapeAt n)

end PV.C02.G
'''
    open(OUT, "w").write(s)

if __name__ == "__main__":
    main()
