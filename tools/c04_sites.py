"""C04 — the catalogue of single rule-violating edits, applied at every applicable site of valid
template programs.  Sites are found with CPython's own `ast` / `tokenize`; every edited text is
re-checked against CPython (it must be rejected) before it is used, so a wrong edit is a generator
bug that is dropped and counted, never an alarm.

edits(text) -> [Edit(rule, kinds, lo, hi, text, stage)]
  kinds   error kinds (wire names) that name the broken rule
  lo, hi  byte offsets of the offending construct in the EDITED text (closed window)
"""
import ast
import io
import tokenize
from collections import namedtuple

Edit = namedtuple("Edit", "rule kinds lo hi text stage")

T1 = '''import os
@dec(1, key=2)
class A(B, metaclass=M):
    x: int = 0x1F
    def f(self, a, b=1, *args, c, d=2.5e3, **kw):
        return g(a, b, *args, c=c, **kw)
    async def h(self, p, /, q, *, r=lambda u, v=0: (u, v)):
        async with p as z:
            await q(z, r=r)
def top(a, b):
    t = (1, [2, {3: 4}], {5, 6})
    s = 'abc' "def" + f'{a!r:>{b}} {t[0]}' + r'\\d'
    w = b'xy' b'z'
    if a and not b:
        for i in range(10):
            while i < 0o17:
                i += 1j
    elif a:
        pass
    else:
        k = top(a, b=b)
        print(k, sep='')
    return lambda p, *q, **r: top(p, *q, **r)
'''

T2 = '''def m(s, n=3):
    match s:
        case [x, y] as z if x:
            return n
        case {'k': v} | C(v):
            pass
        case (1 | 2) as one:
            pass
        case A(u as w, k=[q as e]):
            pass
        case _:
            pass
    return [f(i, j=i) for i in s if i][0]
val = m([1, 2], n=0b11)
total = (val + 1_000) * 2.0 - .5e-1
names = {'a': f'{val}', 'b': f'{total:.2f}!', 'c': f'{val=} {{x}}'}
try:
    z = names['a']
except (KeyError, ValueError) as err:
    raise SystemExit(1) from err
finally:
    del names
with open(os.devnull) as fh, open('x', 'w') as out:
    out.write(fh.read(10))
'''

T3 = '''from a.b import (c, d)
x = lambda: 0
y = lambda a, b=1: a + b
z = [lambda k, /, m: k, lambda *, n: n]
def deco(fn):
    def wrap(*args, **kwargs):
        res = fn(*args, **kwargs)
        return res
    return wrap
@deco
def add(p: int, q: int = 2, *rest: int, flag: bool = False, **opts) -> int:
    acc = p + q
    for r in rest:
        acc += r
    return acc if not flag else -acc
print(add(1, 2, 3, flag=True), add(q=1, p=2), sep=', ', end='\\n')
class P:
    def __init__(self, v):
        self.v = v
    def get(self): return self.v
u = P(v=3).get()
g = (i * 2 for i in range(3))
h = {i: str(i) for i in (1, 2)}
while u:
    u -= 1
    if u == 1: break
else:
    u = 0xff
'''

TEMPLATES = [T1, T2, T3]


def _line_starts(text):
    starts, pos = [0], 0
    for ln in text.split("\n")[:-1]:
        pos += len(ln.encode()) + 1
        starts.append(pos)
    return starts


class Src:
    def __init__(self, text):
        self.text = text
        self.b = text.encode()
        self.lines = text.split("\n")
        self.ls = _line_starts(text)
        self.tree = ast.parse(text)
        self.toks = list(tokenize.generate_tokens(io.StringIO(text).readline))

    def off(self, lineno, col):
        """ast positions: 1-based line, UTF-8 byte column"""
        return self.ls[lineno - 1] + col

    def tok_off(self, tok_pos):
        """tokenize positions: 1-based line, character column"""
        line, col = tok_pos
        if line - 1 >= len(self.ls):
            return len(self.b)
        return self.ls[line - 1] + len(self.lines[line - 1][:col].encode())

    def span(self, node):
        return self.off(node.lineno, node.col_offset), self.off(node.end_lineno, node.end_col_offset)

    def sub(self, a, b, new):
        return (self.b[:a] + new.encode() + self.b[b:]).decode()

    def line_of(self, off):
        i = max(k for k, s in enumerate(self.ls) if s <= off)
        end = self.ls[i + 1] if i + 1 < len(self.ls) else len(self.b)
        return self.ls[i], end


def _params(a):
    """named parameters in source order with their ast nodes"""
    out = [("p", x) for x in a.posonlyargs] + [("n", x) for x in a.args]
    if a.vararg:
        out.append(("v", a.vararg))
    out += [("k", x) for x in a.kwonlyargs]
    if a.kwarg:
        out.append(("w", a.kwarg))
    return out


def _edits_params(s, out):
    for node in ast.walk(s.tree):
        if not isinstance(node, (ast.FunctionDef, ast.AsyncFunctionDef, ast.Lambda)):
            continue
        a = node.args
        ps = _params(a)
        if not ps:
            continue
        first_lo = s.span(ps[0][1])[0]
        last_hi = s.span(ps[-1][1])[1]
        # duplicate name: rename a later parameter to the first one's name
        for k in range(1, len(ps)):
            tgt = ps[k][1]
            lo = s.off(tgt.lineno, tgt.col_offset)
            text = s.sub(lo, lo + len(tgt.arg.encode()), ps[0][1].arg)
            delta = len(ps[0][1].arg.encode()) - len(tgt.arg.encode())
            out.append(Edit("duplicate-parameter", {"DuplicateArgument"}, first_lo - 2, last_hi + delta + 8, text,
                            "compile"))
        # default order: give the first positional parameter a default when the next one has none
        pos = a.posonlyargs + a.args
        ndef = len(a.defaults)
        if len(pos) - ndef >= 2:
            at = s.span(pos[0])[1]
            text = s.sub(at, at, "=0")
            out.append(Edit("default-order", {"DefaultOrder"}, first_lo, last_hi + 2 + 8, text, "parse"))
        # bare star with nothing after it
        if pos and not a.vararg and not a.kwonlyargs and not a.kwarg:
            at = s.span(pos[-1])[1]
            if a.defaults:
                at = max(at, s.span(a.defaults[-1])[1])
            text = s.sub(at, at, ", *")
            out.append(Edit("bare-star", {"Other"}, at, at + 3, text, "parse"))


def _edits_calls(s, out):
    for node in ast.walk(s.tree):
        if not isinstance(node, ast.Call):
            continue
        lo, hi = s.span(node)
        close = hi - 1
        if s.b[close:close + 1] != b")":
            continue
        has_args = bool(node.args or node.keywords)
        if len(node.args) == 1 and isinstance(node.args[0], ast.GeneratorExp) and not node.keywords:
            g0 = s.span(node.args[0])[0]
            if s.b[g0:g0 + 1] != b"(" or g0 == s.span(node.func)[1]:
                continue          # bare generator argument
        sep = ", " if has_args else ""
        arg_lo = s.span(node.func)[1]
        if node.keywords:
            text = s.sub(close, close, sep + "zz")
            out.append(Edit("positional-after-keyword", {"PositionalAfterKeyword"}, close, close + len(sep) + 2, text,
                            "parse"))
            for kw in node.keywords:
                if kw.arg:
                    ins = f"{sep}{kw.arg}=0"
                    text = s.sub(close, close, ins)
                    out.append(Edit("repeated-keyword", {"DuplicateKeyword"}, arg_lo, close + len(ins.encode()) + 1,
                                    text, "compile"))
        ins = sep + "**zk, *zs"
        text = s.sub(close, close, ins)
        out.append(Edit("unpack-after-double-star", {"UnpackAfterKeywordUnpack"}, close, close + len(ins) + 1, text,
                        "parse"))
        # parenthesised lone star / double star as an argument
        for arg in node.args:
            if isinstance(arg, ast.Name):
                a, b = s.span(arg)
                text = s.sub(a, b, f"(*{arg.id})")
                out.append(Edit("parenthesised-star", {"Other"}, a, b + 3, text, "parse"))
        for kw in node.keywords:
            if kw.arg is None and isinstance(kw.value, ast.Name):
                a, b = s.span(kw.value)
                a -= 2
                if s.b[a:a + 2] == b"**":
                    text = s.sub(a, b, f"(**{kw.value.id})")
                    out.append(Edit("parenthesised-double-star", {"Other"}, a, b + 2, text, "parse"))


def _edits_patterns(s, out):
    for node in ast.walk(s.tree):
        if isinstance(node, ast.MatchAs) and node.pattern is not None and node.name:
            lo, hi = s.span(node)
            nlen = len(node.name.encode())
            text = s.sub(hi - nlen, hi, "_")
            out.append(Edit("as-underscore", {"Other"}, lo, hi - nlen + 1, text, "parse"))


OPEN, CLOSE = "([{", ")]}"
# without its partner a bracket merges neighbouring constructs, so the text may break a call-site rule
# before the parser reaches the unmatched bracket; that error names a rule the text really breaks
BRK = {"Nesting", "Syntax", "Eof", "PositionalAfterKeyword", "UnpackAfterKeywordUnpack", "DuplicateKeyword"}
FKINDS = {"FString.UnclosedLbrace", "FString.SingleRbrace", "FString.EmptyExpression",
          "FString.InvalidConversionFlag", "FString.UnterminatedString", "FString.InvalidExpression",
          "FString.ExpressionNestedTooDeeply", "FString.MismatchedDelimiter", "FString.Unmatched",
          "StringError", "Other"}


def _edits_tokens(s, out):
    real = [t for t in s.toks if t.type in (tokenize.NAME, tokenize.NUMBER, tokenize.STRING, tokenize.OP)]
    n = len(s.b)
    stack, opener_of = [], {}
    for idx, t in enumerate(real):
        if t.type == tokenize.OP and t.string in OPEN:
            stack.append(s.tok_off(t.start))
        elif t.type == tokenize.OP and t.string in CLOSE:
            opener_of[idx] = stack.pop()
    for idx, t in enumerate(real):
        a, b = s.tok_off(t.start), s.tok_off(t.end)
        first_on_line = idx == 0 or real[idx - 1].end[0] != t.start[0]
        if t.type == tokenize.OP and t.string in OPEN + CLOSE:
            # the offending construct: from the bracket left without partner to the end of the text
            lo = opener_of.get(idx, a) - 1
            out.append(Edit("bracket-deleted", BRK, lo, n, s.sub(a, b, ""), "parse"))
            if t.string in CLOSE:
                other = CLOSE[(CLOSE.index(t.string) + 1) % 3]
                out.append(Edit("bracket-mismatched", BRK, lo, n, s.sub(a, b, other), "parse"))
        for ch in "$?`":
            out.append(Edit("stray-character", {"UnrecognizedChar"}, a, a + 1, s.sub(a, a, ch), "parse"))
        if not first_on_line:
            out.append(Edit("bad-line-continuation", {"LineContinuation"}, a, a + 2, s.sub(a, a, "\\ "), "parse"))
        if t.type == tokenize.NUMBER:
            v = t.string
            variants = [v + "_", v + "__0", v + "z"]
            if v[0] in "123456789" and v.isdigit():
                variants += ["0" + v, v[0] + "__" + v[1:] + "1"]
            if v[:2].lower() in ("0x", "0o", "0b"):
                variants += [v[:2], v[:2] + "_"]
            elif "e" not in v.lower() and "j" not in v.lower():
                variants += [v + "e", v + "e+"]
            if "." in v:
                variants += [v.replace(".", "._", 1)]
            for nv in dict.fromkeys(variants):
                out.append(Edit("malformed-number", {"Other", "Syntax"}, a, a + len(nv) + 1, s.sub(a, b, nv), "parse"))
        if t.type == tokenize.STRING and t.start[0] == t.end[0]:
            v = t.string
            q = v[-1]
            pre = v[:len(v) - len(v.lstrip("rRbBuUfF"))].lower()
            triple = v.endswith(q * 3) and len(v) - len(pre) >= 6
            ls, le = s.line_of(a)
            rest = s.b[b:le].decode()
            if not triple and not any(c in rest for c in "'\"\\"):
                out.append(Edit("unterminated-string", {"StringError", "Other"}, a, le, s.sub(b - 1, b, ""), "parse"))
            if "f" not in pre:
                add = " 'q'" if "b" in pre else " b'q'"
                out.append(Edit("bytes-text-mixed", {"Other"}, ls, b + len(add) + 1, s.sub(b, b, add), "parse"))
            if "b" in pre and not triple:
                # a non-ASCII character at every position class of the body: last, first, after a backslash,
                # after a recognised escape, after a hex / octal escape
                first = a + len(pre) + 1
                raw = "r" in pre
                for at, ins in [(b - 1, "é"), (first, "é"), (b - 1, "\\é"), (first, "\\é"), (first, "\\n\\é"),
                                (first, "\\x41é"), (first, "\\x41\\é"), (first, "\\7é"), (first, "\\0\\😀")]:
                    out.append(Edit("non-ascii-bytes", {"Other"} if not raw or "x" not in ins else {"Other"}, a,
                                    b + len(ins.encode()) + 1, s.sub(at, at, ins), "parse"))
            if "f" in pre and not triple:
                body_lo = a + len(pre) + 1
                body = s.b[body_lo:b - 1].decode()
                cand = []
                if "}" in body:
                    k = body.rindex("}")
                    cand.append(body[:k] + body[k + 1:])
                cand.append("}" + body)
                cand.append(body + "{")
                if "{" in body and "{{" not in body:
                    k = body.index("{")
                    k2 = body.index("}", k) if "}" in body[k:] else len(body)
                    cand.append(body[:k + 1] + body[k2:])                     # empty expression
                    cand.append(body[:k + 1] + "\\" + body[k + 1:])            # backslash in the expression
                    cand.append(body[:k + 1] + "(" + body[k + 1:])            # unclosed parenthesis in the field
                    if "!" not in body and ":" not in body and "=" not in body:
                        cand.append(body[:k2] + "!z" + body[k2:])             # bad conversion
                    cand.append(body[:k + 1] + "x:{y:{z:{w}}}" + body[k2:])   # nested too deeply
                for nb in dict.fromkeys(cand):
                    out.append(Edit("malformed-fstring", FKINDS, a - 1, a + len(pre) + len(nb.encode()) + 3,
                                    s.sub(body_lo, b - 1, nb), "parse"))


def _edits_indent(s, out):
    info = []
    for ln in s.lines:
        stripped = ln.lstrip(" ")
        info.append(None if (not stripped or stripped.startswith("#")) else len(ln) - len(stripped))
    prev = None
    for i, ind in enumerate(info):
        if ind is None:
            continue
        lo = s.ls[i]
        hi = lo + len(s.lines[i].encode()) + 1
        if prev is not None and ind > 0:
            pind = info[prev]
            if ind == pind:         # a later line of a block
                out.append(Edit("dedent-to-unknown-level", {"Indentation"}, lo, hi, s.sub(lo, lo + 1, ""), "parse"))
                out.append(Edit("unexpected-indent", {"Indentation"}, lo, hi + 1, s.sub(lo, lo, " "), "parse"))
                out.append(Edit("tabs-for-spaces", {"Tab", "Indentation"}, lo, hi, s.sub(lo, lo + ind, "\t" * (ind // 4)),
                                "parse"))
            elif ind > pind:        # the first line of a block
                out.append(Edit("expected-indented-block", {"Indentation"}, s.ls[prev], hi,
                                s.sub(lo, lo + ind, " " * pind), "parse"))
            # documented stricter rule of this lexer (CPython may accept): a tab after a space
            out.append(Edit("tab-after-space", {"Tab", "Indentation"}, lo, hi + 1, s.sub(lo + 1, lo + 1, "\t"), "any"))
        prev = i


def edits(text):
    s = Src(text)
    out = []
    _edits_params(s, out)
    _edits_calls(s, out)
    _edits_patterns(s, out)
    _edits_tokens(s, out)
    _edits_indent(s, out)
    return out
