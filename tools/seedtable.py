#!/usr/bin/env python3
"""Regenerate /verif/seeded/INDEX.md from seeded/*/meta.json (which checks catch which changes)."""
import json, os
V = os.path.dirname(os.path.dirname(os.path.abspath(__file__)))
rows = []
for name in sorted(os.listdir(os.path.join(V, "seeded"))):
    mp = os.path.join(V, "seeded", name, "meta.json")
    if not os.path.exists(mp):
        continue
    m = json.load(open(mp))
    lv = m.get("lead_verification", {})
    ck = lv.get("check", {})
    res = "caught, concrete input" if ck.get("caught") and ck.get("with_input") else (
        "caught, no-failing-input-found" if ck.get("caught") else (
            "stale: patch no longer applies to the repaired tree (was caught before; see design/mutants for a rebased twin)"
            if ck.get("infrastructure_error") else "MISSED"))
    rows.append((name, m.get("property"), m.get("title", ""), ", ".join(m.get("files", [])), m.get("needs", ""),
                 "yes" if lv.get("confirmed") else "no", res, ck.get("wall_s", "")))
with open(os.path.join(V, "seeded", "INDEX.md"), "w") as f:
    f.write("# Seeded breaking changes (written independently by sub-agents that saw only the property text)\n\n")
    f.write("Each was confirmed by the lead in a scratch worktree (`tools/seedverify.py`): patch applies, the pinned suite "
            "still passes, the demonstration fails with the patch and passes without; then the property's check was run "
            "against the patched copy (`tools/mutant`).\n\n")
    f.write("| id | property | change | files | needs to manifest | confirmed | check result | check wall s |\n|---|---|---|---|---|---|---|---|\n")
    for r in rows:
        f.write("| " + " | ".join(str(x).replace("|", "/").replace("\n", " ") for x in r) + " |\n")
print(len(rows), "rows;", sum(1 for r in rows if r[6].startswith("caught")), "caught;", sum(1 for r in rows if r[6].startswith("stale")), "stale")
