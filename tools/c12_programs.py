"""Source programs for the C12 check: a directed corpus covering every node kind with every optional field
present/absent and lists of length 0/1/many, a compact random program generator, and CPython stdlib files."""
import os

# ------------------------------------------------------------------ regression corpus: shapes of the repaired findings
# (repaired in /repo by 30597f1 — visitor descends into product types — and 64f487b — optimiser folds load-context
#  tuples only); kept as ordinary corpus programs that run first.

REGRESSION = [
    "f(k=1)\n",
    "class A(m=M, **kw): pass\n",
    "lambda a=1: 0\n",
    "def f(a: int = 1, /, b: str = 's', *c: t1, d: t2 = 2, **e: t3) -> r:\n    pass\n",
    "with a as b:\n    pass\n",
    "match x:\n    case 1:\n        pass\n",
    "match x:\n    case [a, *b] if g(a):\n        y = 1\n        z = 2\n",
    "[i for i in j]\n",
    "{k: v for k, v in j if c if d for m in n}\n",
    "() = x\n",
    "for () in y:\n    pass\n",
    "[(), ((), ())] = x\n",
    "del ()\n",
    "with a as ():\n    pass\n",
    "x = ()\ny = ((), (1, ()))\n() = y\n",
]

# ------------------------------------------------------------------ directed corpus

DIRECTED = [
    # --- statements
    "def f():\n    pass\n",
    "@d1\n@d2(3)\ndef f[T, *Ts, **P](a, /, b: int = 1, *c: int, d, e=2, **g: str) -> int:\n    'doc'\n    return a\n",
    "def f(a, b, c=1, d=2, /, e=3, *, g, h=4):\n    return\n",
    "def f(*, a):\n    global x, y\n    def g():\n        nonlocal a\n        a = 1\n    return g\n",
    "def f(*a, **k): pass\n",
    "async def f():\n    await g()\n    async for i in a:\n        pass\n    else:\n        pass\n    async with a as b, c:\n        pass\n"
    "    return [i async for i in a if i]\n",
    "@d\nasync def f[T: (int, str)](a: int, *, b: int = 2) -> None:\n    yield\n    yield 1\n    x = yield\n",
    "def g():\n    yield from h()\n",
    "class A: pass\n",
    "class A():\n    x = 1\n    y: int = 2\n",
    "@d\n@e.f\nclass A[T: int, *Ts, **P](B, C, *D, m=M, **kw):\n    x = 1\n    def f(self): pass\n",
    "class A(B): pass\nclass C(k=1): pass\nclass D(E, F): pass\n",
    "del a\ndel a, b[0], c.d\ndel (a, b), [c]\n",
    "a = 1\na = b = c\na, b = c\n[a, b] = c, d\na.b = c[d] = e\n*a, b = c\na, *b, c = d\n",
    "type X = int\ntype X[T] = list[T]\ntype X[T, *Ts, **P] = dict[T, int]\n",
    "a += 1\na -= 1\na *= 1\na @= 1\na /= 1\na %= 1\na **= 1\na <<= 1\na >>= 1\na |= 1\na ^= 1\na &= 1\na //= 1\na.b += 1\na[0] -= 2\n",
    "a: int\na: int = 1\n(a): int = 1\na.b: int\na[0]: int = 2\n",
    "for i in x:\n    pass\nfor i, j in x, y:\n    break\nelse:\n    pass\nfor i in x:\n    continue\n    pass\nelse:\n    pass\n    pass\n",
    "while a:\n    pass\nwhile a:\n    break\nelse:\n    pass\nwhile 1:\n    pass\n    pass\n",
    "if a:\n    pass\nif a:\n    pass\nelse:\n    pass\nif a:\n    pass\nelif b:\n    pass\nelif c:\n    pass\nelse:\n    pass\n    pass\n",
    "with a:\n    pass\nwith a as b:\n    pass\nwith a as b, c as (d, e), f:\n    pass\n    pass\nwith (a as b, c):\n    pass\n",
    "raise\nraise E\nraise E from c\nraise E(1) from None\n",
    "try:\n    pass\nexcept:\n    pass\n",
    "try:\n    pass\nexcept E:\n    pass\nexcept (A, B) as e:\n    pass\n    pass\nexcept:\n    pass\nelse:\n    pass\nfinally:\n    pass\n",
    "try:\n    pass\n    pass\nfinally:\n    pass\n    pass\n",
    "try:\n    pass\nexcept* E as e:\n    pass\nexcept* (A, B):\n    pass\nelse:\n    pass\nfinally:\n    pass\n",
    "try:\n    pass\nexcept* E:\n    pass\n",
    "assert a\nassert a, b\nassert a == 1, 'm' % x\n",
    "import a\nimport a.b as c, d\nimport a, b, c\n",
    "from a import b\nfrom . import b as c, d\nfrom ..a.b import *\nfrom a import (b, c as d, e)\nfrom ... import x\n",
    "a\n1\npass\n...\n",
    "",
    "pass\n",
    # --- match statement / patterns
    "match x:\n    case 1:\n        pass\n    case a.b:\n        pass\n    case -1 | 2.5 | 1+2j | 'a' | b'c':\n        pass\n",
    "match x:\n    case None:\n        pass\n    case True | False:\n        pass\n",
    "match x:\n    case []:\n        pass\n    case [a]:\n        pass\n    case [a, b, *c]:\n        pass\n    case (a, b):\n        pass\n    case [*_]:\n        pass\n    case a, b:\n        pass\n",
    "match x:\n    case {}:\n        pass\n    case {1: a}:\n        pass\n    case {1: a, 'k': b, **r}:\n        pass\n    case {**r}:\n        pass\n    case {a.b: 1}:\n        pass\n",
    "match x:\n    case A():\n        pass\n    case A(a):\n        pass\n    case A(a, b, c=d, e=1):\n        pass\n    case a.B(c=d):\n        pass\n",
    "match x:\n    case _:\n        pass\n",
    "match x, y:\n    case a:\n        pass\n    case 1 as a:\n        pass\n    case (1 | 2) as a if a > 0:\n        pass\n        pass\n    case [1, [2, a]] if g:\n        pass\n",
    "match x:\n    case a | b | c:\n        pass\n    case 1 | 2:\n        pass\n",
    # --- expressions
    "a and b\na or b or c\na and b or c and d\n",
    "(a := 1)\nf(a := b)\n",
    "a + b\na - b\na * b\na @ b\na / b\na % b\na ** b\na << b\na >> b\na | b\na ^ b\na & b\na // b\n",
    "not a\n-a\n+a\n~a\nnot not a\n",
    "lambda: 0\nlambda a: a\nlambda a, /, b=1, *c, d, e=2, **g: a\nlambda *a: a\nlambda **k: k\n",
    "a if b else c\n(a if b else c) if d else e\n",
    "{}\n{a: b}\n{a: b, c: d, **e}\n{**a}\n{**a, **b, 1: 2}\n",
    "{a}\n{a, b, c}\n{*a, b}\n",
    "[i for i in j]\n[i for i in j if k]\n[i for i in j if k if l]\n[(i, m) for i in j for m in n if o]\n",
    "{i for i in j}\n{i for i in j if k for l in m}\n",
    "{i: j for i in k}\n{i: j for i, j in k if l if m}\n",
    "(i for i in j)\nf(i for i in j if k)\nsum((i for i in j for k in l), 0)\n",
    "a < b\na == b != c\na < b <= c > d >= e\na is b\na is not b\na in b\na not in b\n",
    "f()\nf(a)\nf(a, b, *c)\nf(a, k=1)\nf(k=1, **m)\nf(a, *b, c, k=1, **m)\nf(**m)\nf(*a)\nf(a)(b)(c=1)\n",
    "f'{x}'\nf'a{x}b'\nf'{x!r}'\nf'{x!s:>10}'\nf'{x!a:{w}.{p}}'\nf'{x:{w}}' 'tail'\nf''\nf'a' f'{b}'\nf'{x=}'\n",
    "1\n0\n10**30\n123456789012345678901234567890\n1.5\n1e10\n2j\n'a'\n\"a'b\\\"\"\nb'q'\nb''\nu'abc'\nTrue\nFalse\nNone\n...\n'a' 'b'\n'\\n\\t\\\\'\n'é😀'\n",
    "a.b\na.b.c\na().b\n",
    "a[1]\na[b]\na[1:2]\na[1:2:3]\na[:]\na[::2]\na[1:]\na[:2]\na[1:, 2]\na[b, c]\na[::]\na[:, ::-1]\n",
    "[]\n[a]\n[a, b, c]\n[*a, b]\n",
    "()\n(a,)\n(a, b, c)\na, b\n(1, 2)\n(1, (2, 3), 'x')\n(1, a)\n((), ())\n(1, [2])\n((1, 2), (3, (4, 5)))\nx = (1, 2, 3)\nf((1, 2), k=(3,))\n",
    "a, b = (1, 2)\nfor a, b in (1, 2), (3, 4):\n    pass\ndel a, b\n(a, b), c = x\n[a, (b, c)] = x\n",
    "x = [1, (2, 3)][0]\ny = {(1, 2): (3, 4)}\nz = f((), (1,), ((),))\n",
    "await_ = 1\nasync def f():\n    x = await a\n    return await b(await c)\n",
    "def f():\n    x = yield a, b\n    y = yield from z\n    return (yield)\n",
    "x = *a, b\nf(*a, *b)\n[*a, *b]\nprint(*a, sep='')\n",
    "async def f():\n    async for i in a:\n        pass\n    else:\n        pass\n        pass\n    async with a:\n        pass\n        pass\n",
    "@d\nclass A[T]:\n    pass\n",
]


# ------------------------------------------------------------------ random generator

class RandProg:
    """compact recursive generator of (mostly) valid programs.  `clean`: a plainer dialect (no keyword arguments, no
    with, no match, no comprehensions, no parameter annotations/defaults) that gives more weight to the remaining kinds."""

    NAMES = ["a", "b", "c", "x", "y", "zz", "self", "é"]

    def __init__(self, rng, clean=False):
        self.r = rng
        self.clean = clean

    def name(self):
        return self.r.choice(self.NAMES)

    def many(self, f, lo=0, hi=3):
        n = self.r.choice([lo, lo, 1, 1, 2, hi]) if lo == 0 else self.r.randint(lo, hi)
        return [f() for _ in range(max(lo, n))]

    def const(self):
        return self.r.choice(["1", "0", "2.5", "3j", "'s'", "b'b'", "True", "None", "...", "10**20", "u'u'", "''"])

    def target(self, d):
        c = self.r.randrange(6)
        if c == 0 and d > 0:
            return f"{self.atom(d - 1)}.{self.name()}"
        if c == 1 and d > 0:
            return f"{self.atom(d - 1)}[{self.expr(d - 1)}]"
        if c == 2 and d > 0:
            items = self.many(lambda: self.target(d - 1), 0, 3)      # `()` as a target included
            return "(" + ", ".join(items) + ("," if items else "") + ")"
        if c == 3 and d > 0:
            return "[" + ", ".join(self.many(lambda: self.target(d - 1), 1, 3)) + "]"
        return self.name()

    def atom(self, d):
        c = self.r.randrange(5)
        if c == 0:
            return self.name()
        if c == 1:
            return "(" + self.const() + ")"
        if c == 2 and d > 0:
            return "(" + self.expr(d - 1) + ")"
        if c == 3 and d > 0:
            return f"{self.atom(d - 1)}({self.args(d - 1)})"
        return self.name()

    def args(self, d):
        pos = self.many(lambda: self.r.choice(["", "", "*"]) + self.expr(d), 0, 3)
        kw = []
        if not self.clean:
            for i in range(self.r.choice([0, 0, 1, 2, 3])):
                kw.append(self.r.choice([f"k{i}=", f"{self.name()}{i}=", "**"]) + self.expr(d))
        return ", ".join(pos + kw)

    def comp(self, d):
        gens = []
        for _ in range(self.r.choice([1, 1, 2])):
            g = f"for {self.target(min(d, 1))} in {self.expr_nc(d)}"
            for _ in range(self.r.choice([0, 0, 1, 2])):
                g += f" if {self.expr_nc(d)}"
            gens.append(g)
        return " ".join(gens)

    def expr_nc(self, d):
        """expression safe inside a comprehension clause / lambda body (no unparenthesised conditional or walrus)"""
        return "(" + self.expr(d) + ")"

    def params(self, d):
        if self.clean:
            ps = self.many(self.name, 0, 3)
            return ", ".join(dict.fromkeys(ps))
        names = list(dict.fromkeys(self.many(self.name, 0, 5)))
        self.r.shuffle(names)
        out = []
        seen_default = False
        state = 0
        for i, n in enumerate(names):
            ann = f": {self.expr_nc(d)}" if self.r.random() < 0.3 else ""
            if state < 1 and i > 0 and self.r.random() < 0.15 and "/" not in out:
                out.append("/")
            if state < 2 and self.r.random() < 0.2:
                if self.r.random() < 0.5 and i + 1 < len(names):
                    out.append("*")
                else:
                    out.append(f"*{n}{ann}")
                    state = 2
                    continue
                state = 2
            if state < 2:
                if seen_default or self.r.random() < 0.3:
                    seen_default = True
                    out.append(f"{n}{ann}={self.expr_nc(d)}" if not ann else f"{n}{ann} = {self.expr_nc(d)}")
                else:
                    out.append(f"{n}{ann}")
            else:
                out.append(f"{n}{ann}={self.expr_nc(d)}" if self.r.random() < 0.4 else f"{n}{ann}")
        if out and out[-1] == "*":
            out.pop()
        if out and out[0] == "/":
            out.pop(0)
        if self.r.random() < 0.2:
            out.append("**kw")
        return ", ".join(out)

    def lambda_params(self, d):
        if self.clean:
            return ", ".join(dict.fromkeys(self.many(self.name, 0, 2)))
        ps = list(dict.fromkeys(self.many(self.name, 0, 3)))
        out = []
        dflt = False
        for n in ps:
            if dflt or self.r.random() < 0.4:
                dflt = True
                out.append(f"{n}={self.expr_nc(d)}")
            else:
                out.append(n)
        return ", ".join(out)

    def expr(self, d):
        if d <= 0:
            return self.r.choice([self.name(), self.const()])
        c = self.r.randrange(24)
        e = lambda: self.expr(d - 1)
        a = lambda: self.atom(d - 1)
        if c == 0:
            return f" {self.r.choice(['and', 'or'])} ".join(self.many(a, 2, 3))
        if c == 1:
            return f"{a()} {self.r.choice(['+', '-', '*', '@', '/', '%', '**', '<<', '>>', '|', '^', '&', '//'])} {a()}"
        if c == 2:
            return f"{self.r.choice(['not ', '-', '+', '~'])}{a()}"
        if c == 3:
            return f"(lambda {self.lambda_params(d - 1)}: {self.expr_nc(d - 1)})"
        if c == 4:
            return f"({a()} if {a()} else {a()})"
        if c == 5:
            items = self.many(lambda: f"{a()}: {a()}" if self.r.random() < 0.8 else f"**{a()}", 0, 3)
            return "{" + ", ".join(items) + "}"
        if c == 6:
            return "{" + ", ".join(self.many(a, 1, 3)) + "}"
        if c == 7 and not self.clean:
            k = self.r.randrange(4)
            body = self.expr_nc(d - 1)
            if k == 0:
                return f"[{body} {self.comp(d - 1)}]"
            if k == 1:
                return "{" + f"{body} {self.comp(d - 1)}" + "}"
            if k == 2:
                return "{" + f"{body}: {self.expr_nc(d - 1)} {self.comp(d - 1)}" + "}"
            return f"({body} {self.comp(d - 1)})"
        if c == 8:
            ops = ["<", "==", "!=", "<=", ">", ">=", "is", "is not", "in", "not in"]
            s = a()
            for _ in range(self.r.choice([1, 1, 2, 3])):
                s += f" {self.r.choice(ops)} {a()}"
            return s
        if c == 9:
            return f"{a()}({self.args(d - 1)})"
        if c == 10:
            conv = self.r.choice(["", "", "!r", "!s", "!a"])
            spec = self.r.choice(["", "", ":>10", ":{" + self.name() + "}"])
            pre = self.r.choice(["", "t "])
            return "f'" + pre + "{" + self.name() + conv + spec + "}'"
        if c == 11:
            return f"{a()}.{self.name()}"
        if c == 12:
            sl = self.r.choice([e(), f"{a()}:{a()}", f"{a()}:", ":", f"::{a()}", f"{a()}:{a()}:{a()}", f"{a()}, {a()}:"])
            return f"{a()}[{sl}]"
        if c == 13:
            return "[" + ", ".join(self.many(lambda: self.r.choice(["", "", "*"]) + a(), 0, 3)) + "]"
        if c in (14, 15, 16):
            items = self.many(a, 0, 3) if self.r.random() < 0.5 else self.many(self.const, 0, 3)
            if c == 16:
                items = [self.r.choice([self.const(), "(" + ", ".join(self.many(self.const, 0, 2)) + ("," if self.r.random() < 0.7 else "") + ")"])
                         for _ in range(self.r.randint(0, 3))]
                items = [i if i != "(,)" else "()" for i in items]
            return "(" + ", ".join(items) + ("," if len(items) == 1 else "") + ")"
        if c == 17:
            return f"({self.name()} := {a()})"
        return a()

    def block(self, d, ind, flags):
        n = self.r.choice([1, 1, 2, 3])
        return "".join(self.stmt(d, ind, flags) for _ in range(n))

    def stmt(self, d, ind, flags):
        p = "    " * ind
        e = lambda: self.expr(min(d, 2))
        if d <= 0:
            return p + self.r.choice(["pass", e(), f"{self.name()} = {e()}"]) + "\n"
        c = self.r.randrange(30)
        blk = lambda fl=flags: self.block(d - 1, ind + 1, fl)
        if c == 0:
            decos = "".join(f"{p}@{self.atom(1)}\n" for _ in range(self.r.choice([0, 0, 1, 2])))
            ret = "" if self.clean or self.r.random() < 0.5 else f" -> {self.expr_nc(1)}"
            tps = self.r.choice(["", "", "", "[T]", "[T: int, *Ts, **P]"])
            is_async = self.r.random() < 0.25
            fl = dict(flags, func=True, loop=False, is_async=is_async)
            return f"{decos}{p}{'async ' if is_async else ''}def {self.name()}{tps}({self.params(1)}){ret}:\n" + blk(fl)
        if c == 1:
            bases = self.many(lambda: self.atom(1), 0, 2)
            kws = [] if self.clean else [f"k{i}={self.atom(1)}" for i in range(self.r.choice([0, 0, 1, 2]))]
            arg = ", ".join(bases + kws)
            fl = dict(flags, func=False, loop=False, is_async=False)
            return f"{p}class {self.name()}{'(' + arg + ')' if arg or self.r.random() < 0.3 else ''}:\n" + blk(fl)
        if c == 2 and flags.get("func"):
            return p + self.r.choice(["return", f"return {e()}"]) + "\n"
        if c == 3:
            return p + "del " + ", ".join(self.many(lambda: self.target(1), 1, 3)) + "\n"
        if c in (4, 5):
            return p + " = ".join(self.many(lambda: self.target(2), 1, 2)) + f" = {e()}\n"
        if c == 6:
            op = self.r.choice(["+=", "-=", "*=", "@=", "/=", "%=", "**=", "<<=", ">>=", "|=", "^=", "&=", "//="])
            return f"{p}{self.r.choice([self.name(), self.name() + '.' + self.name(), self.name() + '[0]'])} {op} {e()}\n"
        if c == 7:
            return f"{p}{self.name()}: {self.expr_nc(1)}" + (f" = {e()}" if self.r.random() < 0.5 else "") + "\n"
        if c == 8:
            pre = "async " if flags.get("is_async") and self.r.random() < 0.5 else ""
            s = f"{p}{pre}for {self.target(1)} in {e()}:\n" + blk(dict(flags, loop=True))
            if self.r.random() < 0.3:
                s += f"{p}else:\n" + blk()
            return s
        if c == 9:
            s = f"{p}while {e()}:\n" + blk(dict(flags, loop=True))
            if self.r.random() < 0.3:
                s += f"{p}else:\n" + blk()
            return s
        if c in (10, 11):
            s = f"{p}if {e()}:\n" + blk()
            for _ in range(self.r.choice([0, 0, 1, 2])):
                s += f"{p}elif {e()}:\n" + blk()
            if self.r.random() < 0.4:
                s += f"{p}else:\n" + blk()
            return s
        if c == 12 and not self.clean:
            pre = "async " if flags.get("is_async") and self.r.random() < 0.5 else ""
            items = self.many(lambda: self.atom(1) + (f" as {self.target(1)}" if self.r.random() < 0.5 else ""), 1, 3)
            return f"{p}{pre}with {', '.join(items)}:\n" + blk()
        if c == 13 and not self.clean:
            s = f"{p}match {e()}:\n"
            for _ in range(self.r.choice([1, 2, 3])):
                g = f" if {e()}" if self.r.random() < 0.3 else ""
                s += f"{p}    case {self.pattern(2)}{g}:\n" + self.block(d - 1, ind + 2, flags)
            return s
        if c == 14:
            return p + self.r.choice(["raise", f"raise {self.atom(1)}", f"raise {self.atom(1)} from {self.atom(1)}"]) + "\n"
        if c == 15:
            star = "*" if self.r.random() < 0.2 else ""
            s = f"{p}try:\n" + blk()
            nh = self.r.choice([0, 1, 1, 2])
            if star and nh == 0:
                nh = 1
            for i in range(nh):
                if star or self.r.random() < 0.7 or i < nh - 1:
                    s += f"{p}except{star} {self.atom(1)}" + (f" as {self.name()}" if self.r.random() < 0.5 else "") + ":\n" + blk()
                else:
                    s += f"{p}except:\n" + blk()
            if nh and self.r.random() < 0.3:
                s += f"{p}else:\n" + blk()
            if nh == 0 or self.r.random() < 0.3:
                s += f"{p}finally:\n" + blk()
            return s
        if c == 16:
            return f"{p}assert {e()}" + (f", {e()}" if self.r.random() < 0.5 else "") + "\n"
        if c == 17:
            names = self.many(lambda: self.r.choice(["os", "a.b", "sys"]) + (f" as {self.name()}" if self.r.random() < 0.4 else ""), 1, 3)
            return f"{p}import {', '.join(names)}\n"
        if c == 18:
            names = self.many(lambda: self.name() + (f" as {self.name()}" if self.r.random() < 0.4 else ""), 1, 3)
            return f"{p}from {self.r.choice(['a', '.', '..b', 'a.b'])} import {self.r.choice([', '.join(names), '*' if ind == 0 else names[0]])}\n"
        if c == 19 and flags.get("func"):
            return f"{p}{self.r.choice(['global', 'nonlocal'])} " + ", ".join(f"g{self.r.randrange(100)}" for _ in range(self.r.choice([1, 1, 2, 3]))) + "\n"
        if c == 20 and flags.get("loop"):
            return p + self.r.choice(["break", "continue"]) + "\n"
        if c == 21 and flags.get("func"):
            return p + self.r.choice(["yield", f"yield {e()}", f"{self.name()} = yield {e()}"]) + "\n"
        if c == 22 and flags.get("is_async"):
            return f"{p}{self.name()} = await {self.atom(1)}\n"
        if c == 23:
            return f"{p}type T{self.r.randrange(9)}{self.r.choice(['', '[T]', '[T, *Ts]'])} = {self.expr_nc(1)}\n"
        if c == 24:
            return p + "pass\n"
        return p + e() + "\n"

    def pattern(self, d):
        c = self.r.randrange(12)
        sub = lambda: self.pattern(d - 1)
        if d <= 0:
            c = self.r.randrange(4)
        if c == 0:
            return self.r.choice(["1", "-1", "'s'", "2.5", "a.b"])
        if c == 1:
            return self.r.choice(["None", "True", "False"])
        if c == 2:
            return self.r.choice(["_", self.name()])
        if c == 3:
            return self.r.choice(["1 | 2", "a.b | None"])
        if c == 4:
            items = self.many(sub, 0, 3)
            if self.r.random() < 0.3:
                items.insert(self.r.randrange(len(items) + 1), self.r.choice(["*_", "*rest"]))
            return "[" + ", ".join(items) + "]"
        if c == 5:
            items = self.many(lambda: f"{self.r.choice(['1', chr(39) + 'k' + chr(39), 'a.b'])}: {sub()}", 0, 2)
            if self.r.random() < 0.3:
                items.append("**rest")
            return "{" + ", ".join(items) + "}"
        if c == 6:
            pos = self.many(sub, 0, 2)
            kws = [f"k{i}={sub()}" for i in range(self.r.choice([0, 0, 1, 2]))]
            return f"{self.r.choice(['A', 'a.B'])}({', '.join(pos + kws)})"
        if c == 7:
            inner = sub()
            return f"({inner}) as n{self.r.randrange(50)}"
        if c == 8:
            return "(" + " | ".join(self.r.choice(["1", "None", "'s'", "A()"]) for _ in range(self.r.choice([2, 3]))) + ")"
        return self.name() if self.r.random() < 0.5 else "_"

    def program(self, depth=3, n=None):
        n = n or self.r.choice([1, 2, 3, 4])
        return "".join(self.stmt(depth, 0, {}) for _ in range(n))


# ------------------------------------------------------------------ stdlib

STDLIB_QUICK = ["abc.py", "bisect.py", "colorsys.py", "copy.py", "fnmatch.py", "heapq.py", "keyword.py", "textwrap.py",
                "contextlib.py", "functools.py", "types.py"]
STDLIB_THOROUGH = ["dataclasses.py", "typing.py", "ast.py", "inspect.py", "argparse.py", "enum.py", "json/decoder.py",
                   "asyncio/tasks.py", "test/test_grammar.py", "test/test_patma.py", "collections/__init__.py",
                   "concurrent/futures/_base.py", "statistics.py", "tokenize.py", "string.py"]


def stdlib_sources(names):
    base = os.path.dirname(os.__file__)
    out = []
    for n in names:
        p = os.path.join(base, n)
        try:
            with open(p, encoding="utf-8") as f:
                out.append(f.read())
        except (OSError, UnicodeDecodeError):
            pass
    return out


def program_groups(ctx):
    groups = []
    groups.append({"name": "regression", "kind": "corpus", "sources": REGRESSION, "ops": ["visit", "vhook", "fold", "opt", "walk"],
                   "must_parse": True,
                   "note": "shapes of the repaired findings: children of keyword/arguments/withitem/match_case/comprehension, "
                           "store- and del-context constant tuples"})
    groups.append({"name": "directed", "kind": "corpus", "sources": DIRECTED, "ops": ["fold", "visit", "vhook", "walk", "ranges", "opt"],
                   "must_parse": True,
                   "note": "hand-written corpus: every node kind, optional fields present/absent, lists of length 0/1/many"})
    import shapes
    sh = shapes.all_shapes()
    # batches of 40 shape statements per program keep the request count small; PEP 695 forms included (this parser accepts them)
    batched = ["".join(sh[i:i + 40]) for i in range(0, len(sh), 40)]
    groups.append({"name": "directed-shapes", "kind": "corpus", "sources": batched, "ops": ["fold", "visit", "vhook", "walk", "ranges", "opt"],
                   "note": "%d directed texts of tools/shapes.py in %d programs: every parameter-list section combination, with-items of "
                           "every expression kind, rare productions" % (len(sh), len(batched))})
    groups.append({"name": "mode-expression", "kind": "corpus", "mode": ":x", "ops": ["fold", "ranges", "opt"], "must_parse": True,
                   "sources": ["a", "(1, 2)", "f(a, k=(1, (2, 3)))", "[i for i in j if (1, 2)]", "lambda a=1: (a, 2)", "x if y else (1,)"],
                   "note": "Mode::Expression roots (Mod::Expression)"})
    groups.append({"name": "mode-interactive", "kind": "corpus", "mode": ":i", "ops": ["fold", "ranges", "opt"], "must_parse": True,
                   "sources": ["a = (1, 2)\n", "a; b = 1; c\n", "pass\n", "if a:\n    b = (1, 2)\n\n"],
                   "note": "Mode::Interactive roots (Mod::Interactive)"})
    n_clean = 1200 if ctx.quick else 20000
    n_full = 2000 if ctx.quick else 40000
    r = ctx.rng("clean")
    g = RandProg(r, clean=True)
    groups.append({"name": "random-clean", "kind": "random", "sources": [g.program(r.choice([2, 3, 3, 4])) for _ in range(n_clean)],
                   "ops": ["visit", "vhook", "fold"],
                   "note": "random programs in a plain dialect (no keyword arguments / with / match / comprehensions / "
                           "parameter annotations and defaults)"})
    r = ctx.rng("full")
    g = RandProg(r, clean=False)
    groups.append({"name": "random-full", "kind": "random", "sources": [g.program(r.choice([2, 3, 3, 4])) for _ in range(n_full)],
                   "ops": ["fold", "visit", "vhook", "opt", "ranges"],
                   "note": "random programs over the whole statement/expression/pattern grammar, store-context constant tuples included"})
    if not ctx.quick:
        r = ctx.rng("allranges")
        g = RandProg(r, clean=False)
        groups.append({"name": "allranges", "kind": "corpus", "features": "all-ranges", "coverage": False,
                       "sources": DIRECTED + [g.program(r.choice([2, 3, 4])) for _ in range(1500)] + stdlib_sources(STDLIB_QUICK),
                       "ops": ["fold", "visit", "vhook", "ranges", "opt"],
                       "note": "harness built with feature all-nodes-with-ranges: optional ranges present, will_map_user_cfg / "
                               "map_user_cfg call the user callbacks"})
    std = STDLIB_QUICK if ctx.quick else STDLIB_QUICK + STDLIB_THOROUGH
    groups.append({"name": "stdlib", "kind": "corpus", "sources": stdlib_sources(std), "ops": ["fold", "visit", "vhook", "walk", "ranges", "opt"],
                   "note": "CPython 3.11 standard library files", "coverage": True})
    return groups
