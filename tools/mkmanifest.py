#!/usr/bin/env python3
"""Regenerate /verif/MANIFEST.json from tools/props/cXX.py (only modules with READY = True are claimed)."""
import json, os, re, sys
sys.path.insert(0, os.path.dirname(os.path.abspath(__file__)))
import core

NA_FILE = os.path.join(core.VERIF, "tools", "not_applicable.json")


def main():
    props = [json.loads(l) for l in open(os.path.join(core.VERIF, "properties.jsonl"))]
    ids = [p["id"] for p in props]
    checks, na = [], []
    try:
        prev = json.load(open(os.path.join(core.VERIF, "MANIFEST.json")))
    except Exception:
        prev = {}
    na_reasons = json.load(open(NA_FILE)) if os.path.exists(NA_FILE) else {}
    engines = []
    for pid in ids:
        path = os.path.join(core.VERIF, "tools", "props", pid.lower() + ".py")
        mod = None
        if os.path.exists(path):
            try:
                mod = core.load_module(pid)
            except Exception as e:      # module being edited: keep the entry of the previous manifest
                print(f"warning: cannot load props module of {pid}: {e!r}; keeping previous entry")
                old = [c for c in prev.get("checks", []) if c["property_id"] == pid]
                if old:
                    checks.append(old[0])
                    continue
        claimed = json.load(open(os.path.join(core.VERIF, "tools", "claimed.json")))
        if mod is None or not getattr(mod, "READY", False) or pid not in claimed:
            na.append({"property_id": pid,
                       "reason": na_reasons.get(pid, "not yet claimed: the Lean model, theorems and correspondence "
                                                "check for this property are still being built (see DESIGN.md)")})
            continue
        checks.append({
            "property_id": pid,
            "quick_cmd": f"./check {pid} --tier quick",
            "thorough_cmd": f"./check {pid} --tier thorough",
            "evidence_file": f"/verif/evidence/{pid}.json",
            "replay_cmd_template": f"./check {pid} --replay {{path}}",
            "engine": "lean4-proof+correspondence",
            "level_claimed": {"category": "proof", "text": mod.LEVEL_TEXT, "design_ref": mod.DESIGN_REF},
            "level_note": mod.LEVEL_NOTE,
            "technique": mod.TECHNIQUE,
        })
    man = {
        "version": 1,
        "setup_cmd": "./check --setup",
        "hooks": {
            "guard": "rustpython_parser_verif",
            "enable": "RUSTFLAGS=\"--cfg rustpython_parser_verif\" (set by tools/core.py for every harness build)",
            "baseline_off_cmd": "cd /repo && cargo test --workspace --no-fail-fast --offline",
            "source_commits": json.load(open(os.path.join(core.VERIF, "tools", "hook_commits.json")))
            if os.path.exists(os.path.join(core.VERIF, "tools", "hook_commits.json")) else [],
            "add_only": True,
        },
        "engines": [{
            "name": "lean4-proof+correspondence",
            "path": "/verif/check",
            "serves_properties": [c["property_id"] for c in checks],
            "kind_free_text": "Lean 4 theorems about executable models (lean/PV), tied to /repo by a differential "
                              "correspondence harness (harness/, lean/Drv) and by translators/behavioural tables "
                              "regenerated on every run; orchestrated by tools/core.py",
        }],
        "checks": checks,
        "not_applicable": na,
        "notes": "All checks: cwd /verif, honour VERIF_SEED / VERIF_TIER, rebuild the harness from /repo's working "
                 "tree, re-check the Lean theorems, rewrite evidence/<id>.json. Known findings: known_findings.d/Cxx.json (merged copy: known_findings.json).",
    }
    with open(os.path.join(core.VERIF, "MANIFEST.json"), "w") as f:
        json.dump(man, f, indent=1)
        f.write("\n")
    print(f"claimed: {[c['property_id'] for c in checks]}")


if __name__ == "__main__":
    main()
