"""Type-directed generator of syntactically valid Python programs (C01/C02 reference sweep).

  g = Gen(rng, **opts);  p = g.program()        -> Program(text, twin, patches, mode)
  g.expression_program()                         -> Program for Expression mode

`text` is what the parser under test gets.  `twin` is a CPython-3.11-parsable text with the same tree except
for PEP 695 forms, and `patches` says how to turn CPython's tree of `twin` into the ground-truth tree of
`text` (apply_patches).  For programs without PEP 695 forms twin == text and patches == [].

Excluded from random output (documented stricter-than-CPython cases and known-finding shapes, each probed
deterministically elsewhere): duplicate parameter names, repeated keyword arguments, tab after space in
indentation; identifiers that are not NFKC-stable; a logical line starting with the NAME `match`/`case`
that has a later top-level colon; `<number>.<keyword>`;
triple-quoted strings inside f-string fields.  Type aliases are generated wherever a simple statement may stand
(line start, after `;`, after a one-line compound header; repaired C01 finding `type-alias-not-at-line-start`).
"""
import json
import unicodedata

KEYWORDS = {"False", "None", "True", "and", "as", "assert", "async", "await", "break", "class", "continue",
            "def", "del", "elif", "else", "except", "finally", "for", "from", "global", "if", "import", "in",
            "is", "lambda", "nonlocal", "not", "or", "pass", "raise", "return", "try", "while", "with", "yield"}

NAMES = ["x", "y", "z", "a", "b", "c", "foo", "bar", "self", "cls", "_", "__", "_x", "x1", "match", "case", "type",
         "match", "case", "type", "print", "é", "ñame", "Ω", "变量", "а", "x_é", "ǅ", "𝑥".encode().decode(), "_case",
         "matcher", "types", "T", "K", "V", "async_", "await_", "i", "j", "k", "n", "obj", "value"]
NAMES = [n for n in NAMES if unicodedata.normalize("NFKC", n) == n and n.isidentifier()]
PLAIN = [n for n in NAMES if n not in ("match", "case", "type", "_", "__")]

BINOPS = [("|", 6), ("^", 7), ("&", 8), ("<<", 9), (">>", 9), ("+", 10), ("-", 10), ("*", 11), ("/", 11),
          ("//", 11), ("%", 11), ("@", 11)]
CMPOPS = ["==", "!=", "<", "<=", ">", ">=", "in", "not in", "is", "is not"]
AUGOPS = ["+=", "-=", "*=", "@=", "/=", "%=", "&=", "|=", "^=", "<<=", ">>=", "**=", "//="]


class Program:
    def __init__(self, text, twin, patches, mode):
        self.text, self.twin, self.patches, self.mode = text, twin, patches, mode

    def extra(self):
        """hex-able JSON carried in the request so that a replay is self-contained"""
        if not self.patches and self.twin == self.text:
            return None
        return json.dumps({"twin": self.twin, "patches": self.patches}, ensure_ascii=True)


class Gen:
    def __init__(self, rng, depth=4, pep695=True, layout=True, fstrings=True, crlf_in_fstring=False,
                 unicode_names=True, stmts=(1, 6), range_clean=False):
        self.r = rng
        self.depth = depth
        self.pep695 = pep695
        self.layout = layout
        self.fstrings = fstrings
        self.crlf_in_fstring = crlf_in_fstring
        self.unicode_names = unicode_names
        self.nstmts = stmts
        # range_clean: keep the shapes of the listed C02 findings out (sole generator argument, f-string pieces
        # in a concatenation, parenthesised walrus value, trailing `;` at the end of a block, parenthesised defaults)
        self.range_clean = range_clean
        self.br = 0            # bracket nesting while rendering
        self.infs = 0          # inside an f-string field
        self.fsq = []          # quote chars in use by enclosing f-strings
        self.counter = 0
        self.patches = []
        self.twin_mode = False
        self.nl = "\n"

    # ------------------------------------------------------------- helpers
    def ch(self, xs):
        return xs[self.r.randrange(len(xs))]

    def p(self, x):
        return self.r.random() < x

    def count(self, lo=0, many=5):
        return self.ch([lo, lo, lo + 1, lo + 1, lo + 2, lo + 2, lo + 3, many])

    def uid(self, prefix):
        self.counter += 1
        return f"{prefix}{self.counter}"

    def S(self):
        """mandatory whitespace between two tokens"""
        if not self.layout or self.infs:
            return " "
        k = self.r.random()
        if k < 0.9:
            return " "
        if k < 0.93:
            return "  "
        if k < 0.95:
            return "\t"
        if self.br:
            return self.ch(["\n", "\n    ", " # c\n  ", "\n\n", " \\\n"])
        return " \\\n " if k < 0.98 else " \\\n"

    def O(self):
        """optional whitespace"""
        if not self.layout or self.infs:
            return self.ch(["", " "]) if self.layout else " "
        k = self.r.random()
        if k < 0.45:
            return ""
        if k < 0.9:
            return " "
        return self.S()

    def name(self, soft=True):
        pool = NAMES if soft else PLAIN
        n = self.ch(pool)
        if not self.unicode_names and not n.isascii():
            n = "u" + str(len(n))
        return n

    def paren(self, s):
        return "(" + s + ")"

    class _Br:
        def __init__(self, g):
            self.g = g

        def __enter__(self):
            self.g.br += 1

        def __exit__(self, *a):
            self.g.br -= 1

    def inbr(self):
        return Gen._Br(self)

    # ------------------------------------------------------------- literals
    def integer(self):
        return self.ch(["0", "1", "2", "7", "10", "42", "00", "0_0", "1_000", "0xFf", "0x_ff", "0XAB", "0o17", "0O7",
                        "0b101", "0B1_0", "123456789012345678901234567890", "4294967296", "18446744073709551616",
                        "0xffffffffffffffffffff", "9", "100"])

    def floatlit(self):
        return self.ch(["1.", ".5", "1.5", "0.0", "1e10", "1E-3", "1_0.0_1", "1e+1_0", "1e400", "5e-324", "0e0",
                        "00.5", "09.5", "3.14", "1.0e-10", "0.1", "2.5e+3", "1.7976931348623157e308",
                        "0.30000000000000004", "9007199254740993.0", "1e22", "1e23", ".0", "0."])

    def imag(self):
        return self.ch(["1j", "1.5J", ".5j", "1e3j", "0j", "1_0j", "2.j", "00j", "1e-2J"])

    def number(self):
        k = self.r.random()
        return self.integer() if k < 0.6 else (self.floatlit() if k < 0.85 else self.imag())

    STR_BODIES = ["", "a", "abc", "hello world", "é", "日本語", "😀", "a\\nb", "\\\\", "\\x41", "\\u00e9", "\\U0001F600",
                  "\\N{BULLET}", "\\101", "\\0", "\\t\\r", "\\a\\b\\f\\v", "it's" , 'say "hi"', "#notcomment", "{}", "%s",
                  "\\ud800", "\\udc00x", "a\\\nb", "tab\there", "\\d", " ", "\\'", '\\"', "x" * 40, "ǅ", "\\xe9"]
    BYTE_BODIES = ["", "a", "abc", "\\x00", "\\xff", "\\n", "\\\\", "\\101", "\\0", "it's", 'q"q', "\\d", "{}", "a\\\nb", "\\u1234",
                   "\\N"]

    def quote_for(self, body, raw, triple_ok=True):
        qs = ["'", '"']
        if triple_ok:
            qs += ["'''", '"""']       # also inside f-string fields (repaired by /repo c09f12b)
        qs = [q for q in qs if q[0] not in self.fsq]
        self.r.shuffle(qs)
        for q in qs:
            if len(q) == 1:
                if "\n" in body.replace("\\\n", ""):
                    continue
                # an unescaped occurrence of the quote char
                if self._has_unescaped(body, q, raw):
                    continue
                if body.endswith("\\") and (len(body) - len(body.rstrip("\\"))) % 2 == 1:
                    continue
                return q
            else:
                if q in body or body.endswith(q[0]) or self._has_unescaped(body, q[0] * 3, raw):
                    continue
                if body.endswith("\\") and (len(body) - len(body.rstrip("\\"))) % 2 == 1:
                    continue
                return q
        return None

    @staticmethod
    def _has_unescaped(body, q, raw):
        i = 0
        while i < len(body):
            if body[i] == "\\":
                i += 2
                continue
            if body.startswith(q, i):
                return True
            i += 1
        return False

    def strpiece(self, kind):
        """one string literal token; kind in 's' (str), 'b' (bytes)"""
        for _ in range(20):
            if kind == "b":
                body = self.ch(self.BYTE_BODIES)
                prefix = self.ch(["b", "B", "b", "br", "Br", "rb", "RB", "bR"])
            else:
                body = self.ch(self.STR_BODIES)
                prefix = self.ch(["", "", "", "", "r", "R", "u"])      # `U` is a known finding (kind)
            if self.infs:
                if "\\" in body or "\n" in body or "#" in body or any(q in body for q in self.fsq):
                    continue
            raw = "r" in prefix.lower()
            if raw and body.endswith("\\"):
                continue
            if raw and ("\\u" in body and False):
                continue
            if "\n" in body and not raw and "\\\n" not in body:
                pass
            q = self.quote_for(body, raw)
            if q is None:
                continue
            if len(q) == 3 and self.p(0.4) and not raw and not self.infs:
                body = (body + self.ch(["\n", "\nline2\n", "\n  é\n"] if kind != "b" else ["\n", "\nline2\n"])) if not body.endswith("\\") else body
                if body.endswith(q[0]):
                    continue
            if self.nl != "\n" and "\n" in body:
                body = body.replace("\n", self.nl)
            return prefix + q + body + q
        return "b''" if kind == "b" else "''"

    def fstring(self, d):
        """one f-string literal token"""
        prefix = self.ch(["f", "F", "f", "fr", "rf", "Rf", "fR"])
        raw = "r" in prefix.lower()
        qs = [q for q in ["'", '"', "'''", '"""'] if q[0] not in self.fsq]
        if self.infs:
            qs = [q for q in qs if len(q) == 1]
        if not qs:
            return None
        q = self.ch(qs)
        self.fsq.append(q[0])
        self.infs += 1
        try:
            parts = []
            for _ in range(self.count(0, 4)):
                k = self.r.random()
                if k < 0.4:
                    lit = self.ch(["a", "abc ", " = ", "{{", "}}", "é", "😀", "x: ", "100%", "#", "\\n" if not raw else "\\d", "it",
                                   "\\x41" if not raw else "\\", ":", "!", "\\N{BULLET}" if not raw else "N",
                                   # every escape family changes how many source bytes one decoded character takes
                                   "\\033" if not raw else "\\0", "\\7" if not raw else "7", "\\101é" if not raw else "é",
                                   "\\u00e9" if not raw else "u", "\\U0001F600" if not raw else "U", "\\\\" if not raw else "\\\\",
                                   "\\'" if (not raw and q[0] != "'") else "q", "\\12\\0"  if not raw else "0"])
                    if lit == "\\" and raw:
                        lit = "\\ "
                    if self.infs > 1 and "\\" in lit:
                        lit = "q"
                    parts.append(lit)
                elif k < 0.45 and len(q) == 3 and self.infs == 1:
                    if self.nl == "\n" or self.crlf_in_fstring:
                        parts.append(self.nl)
                    else:
                        parts.append(" ")
                else:
                    parts.append(self.field(d - 1))
            body = "".join(parts)
            if body.endswith(q[0]) or (body.endswith("\\")):
                body += " "
            return prefix + q + body + q
        finally:
            self.infs -= 1
            self.fsq.pop()

    def field(self, d):
        e = self.field_expr(d)
        out = "{" + (" " if e[:1] == "{" else self.ch(["", "", " "])) + e
        if self.p(0.12):
            out += self.ch(["=", " = ", "= "])
        if self.p(0.3):
            out += "!" + self.ch("rsa")
        if self.p(0.35):
            out += ":" + self.spec(d)
        return out + "}"

    def spec(self, d):
        parts = []
        for _ in range(self.count(0, 3)):
            if self.p(0.6) or self.infs > 1 or d <= 0:
                parts.append(self.ch([">10", ".2f", "x", "^", "08.3e", " ", "é", ",", "_b", "%Y-%m-%d", "<"]))
            else:
                self.infs += 1      # nested field inside a spec: only simple expressions
                try:
                    parts.append("{" + self.ch([self.name(), self.name() + "." + self.name(False), self.integer(),
                                                self.name() + "[0]"]) + self.ch(["", "!r"]) + "}")
                finally:
                    self.infs -= 1
        return "".join(parts)

    def field_expr(self, d):
        """expression inside a replacement field: no backslash, no comment, no same quotes, and not starting
        with `{`; forms with `:` / `!` / `=`-ambiguity are parenthesised"""
        k = self.r.random()
        if d <= 0 or k < 0.35:
            e = self.ch([self.name(), self.integer(), self.name() + "." + self.name(False), self.name() + "[" + self.integer() + "]",
                         self.name() + "()", self.floatlit() if not self.floatlit().endswith(".") else "1.5"])
            return e
        if k < 0.43:
            # a field is parsed as if it stood in parentheses: forms that need them elsewhere are legal bare
            a, b, c = self.name(), self.name(), self.name()
            return self.ch([f"{a} for {a} in {b}", f"{a} for {a} in {b} if {c}", f"{a}, {b}", f"{a},", f"*{a}, {b}", "yield", f"yield {a}",
                            f"yield from {a}", f"await {a}", f"{a} if {b} else {c}", f"not {a}", f"{a} or {b}", f"{a} async for {a} in {b}",
                            f"{a}.{b} for {a} in {b} for {c} in {a}"])
        if k < 0.5:
            return self.expr(d, 6)
        if k < 0.6:
            with self.inbr():
                return "(" + self.expr(d, 0) + ")"
        if k < 0.7:
            s = self.strpiece("s")
            return s
        if k < 0.8:
            with self.inbr():
                return "[" + self.expr(d, 1) + ", " + self.expr(d, 1) + "]"
        if k < 0.9:
            return self.expr(d, 10)
        return self.name() + "(" + self.expr(d, 1) + ")"

    def string(self, d):
        """a string atom: one or more adjacent literals"""
        k = self.r.random()
        if k < 0.15:
            n = self.ch([1, 1, 2, 3])
            return self.S().join(self.strpiece("b") for _ in range(n)) if (self.br or n == 1) else " ".join(self.strpiece("b") for _ in range(n))
        n = self.ch([1, 1, 1, 2, 2, 3])
        if self.range_clean and self.infs:
            n = 1
        pieces = []
        for _ in range(n):
            if self.fstrings and self.p(0.3) and self.infs < 2:
                f = self.fstring(d)
                pieces.append(f if f is not None else self.strpiece("s"))
            else:
                pieces.append(self.strpiece("s"))
        if self.range_clean and any(_is_fpiece(x) for x in pieces):
            pieces = [x for x in pieces if _is_fpiece(x)][:1]
        if any(_is_fpiece(x) for x in pieces):
            # known findings: an empty plain literal next to an f-string is kept as an empty Constant; a `u`
            # prefix does not reach the format-spec constants
            pieces = [x[1:] if x[:1] == "u" else x for x in pieces]
            # (empty plain pieces next to an f-string are generated again: repaired by /repo dfa74fc)
        sep = (lambda: self.S()) if self.br else (lambda: self.ch([" ", " ", "  "]))
        out = pieces[0]
        for x in pieces[1:]:
            s = sep()
            out += s + x
        return out

    # ------------------------------------------------------------- expressions
    # precedence: 0 named, 1 test, 2 or, 3 and, 4 not, 5 compare, 6 |, 7 ^, 8 &, 9 shift, 10 arith, 11 term,
    #             12 factor, 13 power, 14 await, 15 primary, 16 atom
    def expr(self, d, minp=1):
        s, prec = self._expr(d, minp)
        if prec < minp:
            with self.inbr():
                return "(" + self.O() + s + self.O() + ")"
        if self.layout and self.p(0.06) and not s.lstrip().startswith("*"):
            return "(" + s + ")"
        return s

    def _expr(self, d, minp):
        r = self.r.random()
        if d <= 0:
            return self.atom(0), 16
        if r < 0.30:
            return self.atom(d), 16
        if r < 0.50:
            return self.primary(d), 15
        if r < 0.62:
            op, p = self.ch(BINOPS)
            return self.expr(d - 1, p) + self.O() + op + self.O() + self.expr(d - 1, p + 1), p
        if r < 0.66:
            return self.expr(d - 1, 15) + self.O() + "**" + self.O() + self.expr(d - 1, 12), 13
        if r < 0.71:
            op = self.ch(["-", "+", "~"])
            return op + self.ch(["", "", " "]) + self.expr(d - 1, 12), 12
        if r < 0.77:
            n = self.ch([1, 1, 1, 2, 3])
            s = self.expr(d - 1, 6)
            for _ in range(n):
                op = self.ch(CMPOPS)
                sp = self.S() if op[0].isalpha() else self.O()
                op = op.replace(" ", self.ch([" ", "  "]))
                s += sp + op + sp + self.expr(d - 1, 6)
            return s, 5
        if r < 0.80:
            return "not" + self.S() + self.expr(d - 1, 4), 4
        if r < 0.85:
            op, p = self.ch([("and", 3), ("or", 2)])
            n = self.ch([2, 2, 3, 4])
            return (self.S() + op + self.S()).join(self.expr(d - 1, p + 1) for _ in range(n)), p
        if r < 0.89:
            return (self.expr(d - 1, 2) + self.S() + "if" + self.S() + self.expr(d - 1, 2) + self.S() + "else" + self.S() +
                    self.expr(d - 1, 1)), 1
        if r < 0.93:
            return self.lambda_(d - 1), 1
        if r < 0.95:
            return "await" + self.S() + self.expr(d - 1, 15), 14
        if r < 0.98:
            return self.name() + self.O() + ":=" + self.O() + self.walrus_value(d - 1), 0
        with self.inbr():
            y = self.ch(["yield", "yield" + self.S() + self.exprlist(d - 1, star=True), "yield" + self.S() + "from" + self.S() + self.expr(d - 1, 1)])
            return "(" + y + ")", 16

    def atom(self, d):
        r = self.r.random()
        if r < 0.35 or d <= 0 and r < 0.6:
            return self.name()
        if r < 0.5:
            return self.number()
        if r < 0.62:
            return self.string(d)
        if r < 0.67:
            return self.ch(["True", "False", "None", "..."])
        if d <= 0:
            return self.ch(["()", "[]", "{}", self.name()])
        with self.inbr():
            if r < 0.74:        # tuple
                n = self.count(0)
                if n == 0:
                    return "(" + self.ch(["", " "]) + ")"
                elts = [self.star_named(d - 1) for _ in range(n)]
                s = (self.O() + "," + self.O()).join(elts)
                if n == 1 or self.p(0.3):
                    s += self.O() + ","
                return "(" + self.O() + s + self.O() + ")"
            if r < 0.80:        # list
                n = self.count(0)
                elts = [self.star_named(d - 1) for _ in range(n)]
                s = (self.O() + "," + self.O()).join(elts)
                if n and self.p(0.3):
                    s += self.O() + ","
                return "[" + self.O() + s + self.O() + "]"
            if r < 0.84:        # set
                n = self.count(1)
                elts = [self.star_named(d - 1) for _ in range(n)]
                s = (self.O() + "," + self.O()).join(elts)
                if self.p(0.3):
                    s += ","
                lead = " " if self.infs else self.O()
                return "{" + lead + s + self.O() + "}"
            if r < 0.90:        # dict
                n = self.count(0)
                items = []
                for _ in range(n):
                    if self.p(0.2):
                        items.append("**" + self.O() + self.expr(d - 1, 6))
                    else:
                        items.append(self.expr(d - 1, 1) + self.O() + ":" + self.O() + self.expr(d - 1, 1))
                s = (self.O() + "," + self.O()).join(items)
                if n and self.p(0.3):
                    s += ","
                lead = " " if self.infs else self.O()
                return "{" + lead + s + self.O() + "}"
            # comprehensions
            k = self.ch(["list", "set", "gen", "dict"])
            comp = self.comp_for(d - 1)
            if k == "dict":
                lead = " " if self.infs else ""
                return "{" + lead + self.expr(d - 1, 1) + self.O() + ":" + self.O() + self.expr(d - 1, 1) + self.S() + comp + "}"
            elt = self.expr(d - 1, 0 if self.p(0.1) else 1)
            o, c = {"list": "[]", "set": "{}", "gen": "()"}[k]
            if o == "{" and self.infs:
                o = "{ "
            return o + elt + self.S() + comp + c

    def star_named(self, d):
        if self.p(0.12):
            return "*" + self.O() + self.expr(d, 6)
        if self.p(0.05):
            return self.name() + self.O() + ":=" + self.O() + self.walrus_value(d)
        return self.expr(d, 1)

    def walrus_value(self, d):
        v = self.expr(d, 1)
        if self.range_clean and v.lstrip().startswith("("):
            return self.name()
        return v

    def comp_for(self, d):
        out = []
        for _ in range(self.ch([1, 1, 1, 2, 3])):
            s = ("async" + self.S() if self.p(0.1) else "") + "for" + self.S() + self.target_list(d, paren_ok=True) + self.S() + "in" + self.S() + self.expr(d, 2)
            for _ in range(self.ch([0, 0, 1, 2])):
                s += self.S() + "if" + self.S() + self.expr(d, 2)
            out.append(s)
        return self.S().join(out)

    def primary(self, d):
        base = self.expr(d - 1, 15)
        if base[:1].isdigit() or (base[:1] == "." and base[1:2].isdigit()):
            # number literals: attribute access / call on them needs parentheses or a space
            base = "(" + base + ")"
        r = self.r.random()
        if r < 0.35:
            return base + self.ch(["", "", " "]) + "." + self.ch(["", "", " "]) + self.name()
        with self.inbr():
            if r < 0.70:
                return base + self.ch(["", "", " "]) + "(" + self.O() + self.arglist(d - 1) + self.O() + ")"
            return base + self.ch(["", "", " "]) + "[" + self.O() + self.subscripts(d - 1) + self.O() + "]"

    def arglist(self, d, allow_genexp=True):
        if allow_genexp and self.p(0.06) and not self.range_clean:
            return self.expr(d, 1) + self.S() + self.comp_for(d)
        n = self.count(0)
        items = []
        seen_kw = False
        seen_dstar = False
        kwnames = [x for x in dict.fromkeys(NAMES)]
        self.r.shuffle(kwnames)
        for _ in range(n):
            r = self.r.random()
            if r < 0.45 and not seen_kw and not seen_dstar:
                if self.p(0.08):
                    items.append(self.name() + self.O() + ":=" + self.O() + self.walrus_value(d))
                elif self.p(0.05):
                    with self.inbr():
                        items.append("(" + self.expr(d, 1) + self.S() + self.comp_for(d) + ")")
                else:
                    items.append(self.expr(d, 1))
            elif r < 0.6 and not seen_dstar:
                items.append("*" + self.O() + self.expr(d, 1))
            elif r < 0.9 and kwnames:
                seen_kw = True
                items.append(kwnames.pop() + self.O() + "=" + self.O() + self.expr(d, 1))
            else:
                seen_kw = True
                seen_dstar = True
                items.append("**" + self.O() + self.expr(d, 1))
        s = (self.O() + "," + self.O()).join(items)
        if items and self.p(0.25):
            s += self.O() + ","
        return s

    def slice_(self, d):
        r = self.r.random()
        if r < 0.5:
            if self.p(0.06):
                return self.name() + ":=" + self.walrus_value(d)
            return self.expr(d, 1)
        lo = self.expr(d, 1) if self.p(0.6) else ""
        hi = self.expr(d, 1) if self.p(0.6) else ""
        s = lo + self.O() + ":" + self.O() + hi
        if self.p(0.4):
            s += self.O() + ":" + self.O() + (self.expr(d, 1) if self.p(0.6) else "")
        return s

    def subscripts(self, d):
        n = self.ch([1, 1, 1, 2, 3])
        items = []
        for _ in range(n):
            if self.p(0.1) and n > 1:
                items.append("*" + self.expr(d, 6))
            else:
                items.append(self.slice_(d))
        s = (self.O() + "," + self.O()).join(items)
        if self.p(0.15):
            if n == 1 and self.p(0.5):
                s = "*" + self.expr(d, 6) + ("," if self.p(0.5) else "")       # `x[*a,]`, `x[*a]`: both the 1-tuple
            else:
                s += ","
        return s

    def lambda_(self, d):
        ps = self.params(d, annotations=False)
        return "lambda" + (self.S() + ps if ps else "") + self.O() + ":" + self.O() + self.expr(d, 1)

    def params(self, d, annotations=True):
        """parameter list text with unique names"""
        pool = [x for x in dict.fromkeys(NAMES)]
        self.r.shuffle(pool)

        def one(default_ok, must_default=False, star=False):
            n = pool.pop()
            s = n
            if annotations and self.p(0.3):
                s += self.O() + ":" + self.O() + (("*" + self.expr(d, 6)) if (star and self.p(0.3)) else self.expr(d, 1))
            if default_ok and (must_default or self.p(0.3)):
                eq = self.O() + "=" + self.O() if not (annotations and ":" in s) else " = "
                dv = self.expr(d, 1)
                if self.range_clean and dv.lstrip().startswith("(") and dv.rstrip().endswith(")"):
                    dv = self.name()        # a parenthesised default: listed C02 finding (closing parenthesis)
                s += eq + dv
                return s, True
            return s, False
        items = []
        npos = self.count(0, 4)
        nposonly = self.r.randrange(0, npos + 1) if self.p(0.25) else 0
        hasdef = False
        for k in range(npos):
            s, hd = one(True, must_default=hasdef)
            hasdef = hasdef or hd
            items.append(s)
            if nposonly and k == nposonly - 1:
                items.append("/")
        r = self.r.random()
        if r < 0.25:
            s, _ = one(False, star=True)
            items.append("*" + self.O() + s)
            for _ in range(self.count(0, 3)):
                items.append(one(True)[0])
        elif r < 0.4:
            items.append("*")
            for _ in range(self.count(1, 3)):
                items.append(one(True)[0])
        last_dstar = False
        if self.p(0.25):
            s, _ = one(False)
            items.append("**" + self.O() + s)
            last_dstar = True
        s = (self.O() + "," + self.O()).join(items)
        if items and self.p(0.2):
            s += self.O() + ","
        return s

    def exprlist(self, d, star=False):
        """testlist (optionally with starred items): `a`, `a, b`, `a,`"""
        n = self.ch([1, 1, 1, 2, 3])
        items = []
        for _ in range(n):
            if star and self.p(0.15):
                items.append("*" + self.expr(d, 6))
            else:
                items.append(self.expr(d, 1))
        s = (self.O() + "," + self.O()).join(items)
        if self.p(0.15) or (n == 1 and items[0].startswith("*")):
            s += ","
        return s

    # ------------------------------------------------------------- targets
    def target(self, d, star_ok=False, paren_ok=True):
        r = self.r.random()
        if r < 0.5 or d <= 0:
            return self.name()
        if r < 0.65:
            return self.tprimary(d) + "." + self.name()
        if r < 0.8:
            base = self.tprimary(d)
            with self.inbr():
                return base + "[" + self.subscripts(d - 1) + "]"
        if r < 0.85 and star_ok and not getattr(self, "nostar", False):
            return "*" + self.O() + self.target(d - 1)
        if not paren_ok:
            return self.name()
        with self.inbr():
            n = self.count(0, 4)
            items = [self.target(d - 1, star_ok=True) for _ in range(n)]
            nstar = 0
            for k, it in enumerate(items):
                if it.startswith("*"):
                    nstar += 1
                    if nstar > 1:
                        items[k] = it.lstrip("* ")
            s = (self.O() + "," + self.O()).join(items)
            if n == 0:
                return self.ch(["()", "[]"])
            if self.p(0.5):
                if n == 1 and self.p(0.3) and not items[0].startswith("*"):
                    return "(" + s + ")"        # parenthesised single target
                if n == 1 or self.p(0.2):
                    s += ","
                if n == 1 and items[0].startswith("*") and not s.endswith(","):
                    s += ","
                return "(" + s + ")"
            if n and self.p(0.2):
                s += ","
            return "[" + s + "]"

    def tprimary(self, d):
        s = self.expr(d - 1, 15)
        if s[:1].isdigit() or (s[:1] == "." and s[1:2].isdigit()):
            s = "(" + s + ")"
        return s

    def target_list(self, d, paren_ok=True):
        """star_targets: `a`, `a, b`, `*a, b`, `a,`"""
        n = self.ch([1, 1, 1, 2, 3])
        items = [self.target(d, star_ok=(n > 1 or False), paren_ok=paren_ok) for _ in range(n)]
        nstar = 0
        for k, it in enumerate(items):
            if it.startswith("*"):
                nstar += 1
                if nstar > 1:
                    items[k] = it.lstrip("* ")
        s = (self.O() + "," + self.O()).join(items)
        if n > 1 and self.p(0.15) or (n == 1 and self.p(0.08)):
            s += ","
        return s

    # ------------------------------------------------------------- patterns
    def pattern(self, d, top=False):
        if top and self.p(0.15):
            n = self.ch([1, 2, 3])
            items = [self.maybe_star_pattern(d - 1) for _ in range(n)]
            self._one_star(items)
            s = ", ".join(items)
            if n == 1 or self.p(0.3):
                s += ","
            return s
        return self.as_pattern(d)

    def _one_star(self, items):
        seen = False
        for k, it in enumerate(items):
            if it.startswith("*"):
                if seen:
                    items[k] = self.ch(PLAIN)
                seen = True

    def maybe_star_pattern(self, d):
        if self.p(0.15):
            return "*" + self.ch(["_", self.ch(PLAIN), "rest"])
        return self.as_pattern(d)

    def as_pattern(self, d):
        s = self.or_pattern(d)
        if self.p(0.15):
            s += " as " + self.ch(PLAIN + ["match", "case", "type"])
        return s

    def or_pattern(self, d):
        n = self.ch([1, 1, 1, 1, 2, 3])
        return self.ch([" | ", "|"]).join(self.closed_pattern(d) for _ in range(n))

    def lit_pattern(self):
        r = self.r.random()
        if r < 0.3:
            return self.ch(["", "-", "- "]) + self.ch([self.integer(), self.floatlit()])
        if r < 0.4:
            return self.ch(["", "-"]) + self.ch([self.integer(), self.floatlit()]) + self.ch([" + ", "-", " - ", "+"]) + self.imag()
        if r < 0.45:
            return self.ch(["", "-"]) + self.imag()
        if r < 0.75:
            n = self.ch([1, 1, 2])
            kind = self.ch("ssb")
            return " ".join(self.strpiece(kind) for _ in range(n))
        return self.ch(["None", "True", "False"])

    def dotted_value(self):
        # CPython: `_` cannot start a value pattern / class name (it is the wildcard)
        return ".".join([self.ch([n for n in NAMES if n != "_"])] + [self.name() for _ in range(self.ch([1, 1, 2]))])

    def closed_pattern(self, d):
        r = self.r.random()
        if d <= 0 or r < 0.3:
            k = self.r.random()
            if k < 0.4:
                return self.lit_pattern()
            if k < 0.7:
                return self.ch(PLAIN + ["match", "case", "type"])
            if k < 0.85:
                return "_"
            return self.dotted_value()
        with self.inbr():
            if r < 0.4:
                return "(" + self.as_pattern(d - 1) + ")"
            if r < 0.55:
                n = self.count(0, 4)
                items = [self.maybe_star_pattern(d - 1) for _ in range(n)]
                self._one_star(items)
                s = ", ".join(items)
                if self.p(0.5):
                    if n and self.p(0.3):
                        s += ","
                    return "[" + s + "]"
                if n == 1 or (n and self.p(0.3)):
                    s += ","
                return "(" + s + ")"
            if r < 0.7:
                n = self.count(0, 3)
                items = []
                for _ in range(n):
                    key = self.ch([self.lit_pattern(), self.dotted_value()])
                    items.append(key + ": " + self.as_pattern(d - 1))
                if self.p(0.3):
                    items.append("**" + self.ch(PLAIN + ["rest"]))
                s = ", ".join(items)
                if items and self.p(0.2):
                    s += ","
                return "{" + s + "}"
            if r < 0.9:
                cls = self.ch([self.ch([n for n in NAMES if n != "_"]), self.dotted_value()])
                items = [self.as_pattern(d - 1) for _ in range(self.count(0, 3))]
                kws = [x for x in dict.fromkeys(PLAIN)]
                self.r.shuffle(kws)
                for _ in range(self.ch([0, 0, 1, 2])):
                    items.append(kws.pop() + "=" + self.as_pattern(d - 1))
                s = ", ".join(items)
                if items and self.p(0.2):
                    s += ","
                return cls + "(" + s + ")"
            return self.lit_pattern()

    # ------------------------------------------------------------- statements
    def type_params(self, d):
        """(text, patch list) of a PEP 695 type parameter list"""
        pool = ["T", "U", "K", "V", "Ts", "P", "T1", "match", "case", "type", "é"]
        self.r.shuffle(pool)
        n = self.ch([1, 1, 2, 3])
        items, pat = [], []
        for _ in range(n):
            nm = pool.pop()
            r = self.r.random()
            if r < 0.6:
                if self.p(0.4):
                    was = self.layout
                    self.layout = False
                    with self.inbr():
                        b = self.ch([self.expr(d, 1), "(" + self.expr(d, 1) + ", " + self.expr(d, 1) + ")", self.name()])
                    self.layout = was
                    items.append(nm + ": " + b)
                    pat.append(["TypeVar", nm, b])
                else:
                    items.append(nm)
                    pat.append(["TypeVar", nm, None])
            elif r < 0.8:
                items.append("*" + nm)
                pat.append(["TypeVarTuple", nm])
            else:
                items.append("**" + nm)
                pat.append(["ParamSpec", nm])
        s = ", ".join(items)
        if self.p(0.2):
            s += ","
        return "[" + s + "]", pat

    def simple_stmt(self, d):
        """(text, twin_text) of one simple statement"""
        r = self.r.random()
        S = self.S
        if r < 0.14:
            s = self.exprlist(d, star=True)
            return s
        if r < 0.30:
            n = self.ch([1, 1, 1, 2, 3])
            tg = [self.target_list(d) for _ in range(n)]
            rhs = self.ch([self.exprlist(d, star=True), self.exprlist(d, star=True), "yield " + self.expr(d, 1), "yield"])
            return (self.O() + "=" + self.O()).join(tg + [rhs])
        if r < 0.36:
            t = self.target(d, paren_ok=False)
            return t + self.O() + self.ch(AUGOPS) + self.O() + self.ch([self.exprlist(d), "yield " + self.expr(d, 1)])
        if r < 0.43:
            t = self.target(d, paren_ok=False)
            if t.startswith("("):
                t = self.name()     # CPython: "illegal target for annotation"
            if t.isidentifier() and self.p(0.12):
                t = "(" + self.O() + t + self.O() + ")"     # `(x): T`: a parenthesised name, never `simple`
            s = t + self.O() + ":" + self.O() + self.expr(d, 1)
            if self.p(0.6):
                s += " = " + self.ch([self.exprlist(d, star=True), "yield " + self.expr(d, 1)])
            return s
        if r < 0.48:
            return "return" + (S() + self.exprlist(d, star=True) if self.p(0.7) else "")
        if r < 0.53:
            n = self.ch([1, 1, 2, 3])
            self.nostar = True
            items = [self.target(d, star_ok=False) for _ in range(n)]
            self.nostar = False
            s = (self.O() + "," + self.O()).join(items)
            if self.p(0.15):
                s += ","
            return "del" + S() + s
        if r < 0.58:
            return self.ch(["pass", "break", "continue"])
        if r < 0.63:
            k = self.ch([0, 1, 1, 2])
            if k == 0:
                return "raise"
            s = "raise" + S() + self.expr(d, 1)
            if k == 2:
                s += S() + "from" + S() + self.expr(d, 1)
            return s
        if r < 0.67:
            kw = self.ch(["global", "nonlocal"])
            return kw + S() + (self.O() + "," + self.O()).join(self.name() for _ in range(self.ch([1, 1, 2, 3])))
        if r < 0.71:
            s = "assert" + S() + self.expr(d, 1)
            if self.p(0.4):
                s += self.O() + "," + self.O() + self.expr(d, 1)
            return s
        if r < 0.78:
            items = []
            for _ in range(self.ch([1, 1, 2, 3])):
                nm = ".".join(self.name() for _ in range(self.ch([1, 1, 2, 3])))
                if self.p(0.3):
                    nm += S() + "as" + S() + self.name()
                items.append(nm)
            return "import" + S() + (self.O() + "," + self.O()).join(items)
        if r < 0.88:
            dots = self.ch(["", "", "", ".", "..", "...", "....", ". .", ".. .", "... ...", "....."])
            mod = ".".join(self.name() for _ in range(self.ch([1, 1, 2, 3]))) if (self.p(0.75) or not dots) else ""
            loc = dots + (self.ch(["", " "]) if dots else "") + mod
            if self.p(0.15):
                names = "*"
            else:
                items = []
                for _ in range(self.ch([1, 1, 2, 3])):
                    nm = self.name()
                    if self.p(0.3):
                        nm += S() + "as" + S() + self.name()
                    items.append(nm)
                names = (self.O() + "," + self.O()).join(items)
                if self.p(0.3):
                    with self.inbr():
                        names = "(" + self.O() + names + (self.O() + "," if self.p(0.4) else "") + self.O() + ")"
            return "from" + S() + loc + S() + "import" + S() + names
        if r < 0.93 and self.pep695:
            return None         # type alias, generated by the caller (it needs a twin text)
        return self.exprlist(d)

    def type_alias(self, d):
        nm = self.ch(["X", "Alias", "T", "match", "case", "type", "é"])
        params, pat = ("", [])
        if self.p(0.5):
            params, pat = self.type_params(d)
        was = self.layout
        self.layout = False
        with self.inbr():
            v = self.expr(d, 1)
        self.layout = was
        marker = self.uid("_PVTA_")
        self.patches.append({"kind": "alias", "marker": marker, "name": nm, "params": pat})
        text = "type " + nm + params + " = " + v
        twin = marker + " = " + v
        return text, twin

    def simple_line(self, d):
        """one logical line of simple statements: (text, twin)"""
        n = self.ch([1, 1, 1, 1, 2, 3])
        parts_t, parts_w = [], []
        for k in range(n):
            s = self.simple_stmt(d)
            if s is None:
                # a type alias is a simple statement: at line start, after `;`, after a one-line compound header
                t, w = self.type_alias(d)
            else:
                t = w = s
            parts_t.append(t)
            parts_w.append(w)
        sep = self.ch(["; ", ";", " ; "])
        tail = self.ch(["", "", "", ";", " ;"])
        text, twin = sep.join(parts_t) + tail, sep.join(parts_w) + tail
        if softkw_colon_shape(text):
            # known-finding shape (soft keyword heuristic): keep it out of the random streams
            return "pass", "pass"
        if self.layout and self.p(0.1):
            c = self.ch(["  # comment", " #", "# é 😀", " # type: whatever"])
            text, twin = text + c, twin + c
        return text, twin

    def block(self, d):
        """list of (text, twin) lines of a suite body (unindented)"""
        out = []
        for _ in range(self.ch([1, 1, 2, 3])):
            out.extend(self.statement(d))
        return out

    def suite(self, d, header_t, header_w=None):
        """header + body: either one-line form or indented block"""
        header_w = header_t if header_w is None else header_w
        if self.p(0.15) or d <= 0:
            t, w = self.simple_line(max(d, 0))
            return [(header_t + self.ch([" ", "", "  "]) + t, header_w + " " + w)]
        body = self.block(d - 1)
        ind = self.indent
        lines = [(header_t, header_w)]
        if self.layout and self.p(0.1):
            lines.append(("", ""))
        if self.layout and self.p(0.1):
            lines.append((self.ch(["# c", "   # odd indent comment", "#"]),) * 2)
        for t, w in body:
            lines.append((self._ind(ind, t), self._ind(ind, w)))
        return lines

    def _ind(self, ind, t):
        if t == "" or t.lstrip().startswith("#") and False:
            return t
        return ind + t

    def statement(self, d):
        """list of (text, twin) lines"""
        r = self.r.random()
        S = self.S
        if d <= 0 or r < 0.45:
            return [self.simple_line(max(d, 1))]
        if r < 0.53:
            lines = self.suite(d, "if" + S() + self.expr(d, 0 if self.p(0.1) else 1) + self.O() + ":")
            for _ in range(self.ch([0, 0, 1, 2, 3])):
                lines += self.suite(d, "elif" + S() + self.expr(d, 1) + self.O() + ":")
            if self.p(0.5):
                lines += self.suite(d, "else" + self.O() + ":")
            return lines
        if r < 0.58:
            lines = self.suite(d, "while" + S() + self.expr(d, 0 if self.p(0.1) else 1) + self.O() + ":")
            if self.p(0.3):
                lines += self.suite(d, "else:")
            return lines
        if r < 0.65:
            pre = "async" + S() if self.p(0.2) else ""
            lines = self.suite(d, pre + "for" + S() + self.target_list(d) + S() + "in" + S() + self.exprlist(d, star=True) + self.O() + ":")
            if self.p(0.3):
                lines += self.suite(d, "else:")
            return lines
        if r < 0.72:
            lines = self.suite(d, "try" + self.O() + ":")
            star = self.p(0.25)
            nh = self.ch([0, 1, 1, 2, 3])
            for k in range(nh):
                h = "except" + ("*" if star and self.p(0.5) else (" *" if star else ""))
                if star or k < nh - 1 or self.p(0.7):
                    h += S() + self.expr(d, 1)
                    if self.p(0.5):
                        h += S() + "as" + S() + self.name()
                lines += self.suite(d, h + self.O() + ":")
            if nh and self.p(0.3):
                lines += self.suite(d, "else:")
            if nh == 0 or self.p(0.3):
                lines += self.suite(d, "finally" + self.O() + ":")
            return lines
        if r < 0.79:
            pre = "async" + S() if self.p(0.2) else ""
            n = self.ch([1, 1, 2, 3])
            items = []
            for _ in range(n):
                it = self.expr(d, 1)
                if self.p(0.5):
                    it += S() + "as" + S() + self.target(d, star_ok=False)
                items.append(it)
            s = (self.O() + "," + self.O()).join(items)
            if self.p(0.25):
                with self.inbr():
                    s = "(" + self.O() + s + (self.O() + "," if self.p(0.4) else "") + self.O() + ")"
            return self.suite(d, pre + "with" + S() + s + self.O() + ":")
        if r < 0.88:
            lines = []
            for _ in range(self.ch([0, 0, 0, 1, 2])):
                dec = "@" + self.ch(["", " "]) + self.expr(d, 0 if self.p(0.05) else 1)
                if softkw_colon_shape(dec[1:].lstrip()):
                    dec = "@dec"
                lines.append((dec, dec))
            pre = "async" + S() if self.p(0.2) else ""
            nm = self.uid("fn") if self.p(0.7) else self.name()
            tp_t, pat = "", None
            if self.pep695 and self.p(0.2):
                nm = self.uid("G")
                tp_t, pat = self.type_params(d)
                self.patches.append({"kind": "params", "defname": nm, "params": pat})
            with self.inbr():
                ps = self.params(d - 1)
            ret = (self.O() + "->" + self.O() + self.expr(d, 1)) if self.p(0.3) else ""
            head = pre + "def" + S() + nm
            tail = "(" + ps + ")" + ret + self.O() + ":"
            return lines + self.suite(d, head + tp_t + tail, head + tail)
        if r < 0.94:
            lines = []
            for _ in range(self.ch([0, 0, 0, 1])):
                dec = "@" + self.expr(d, 1)
                if softkw_colon_shape(dec[1:].lstrip()):
                    dec = "@dec"
                lines.append((dec, dec))
            nm = self.uid("Cls") if self.p(0.7) else self.name()
            tp_t = ""
            if self.pep695 and self.p(0.2):
                nm = self.uid("G")
                tp_t, pat = self.type_params(d)
                self.patches.append({"kind": "params", "defname": nm, "params": pat})
            args = ""
            if self.p(0.6):
                with self.inbr():
                    args = "(" + self.arglist(d - 1, allow_genexp=False) + ")"
            head = "class" + S() + nm
            return lines + self.suite(d, head + tp_t + args + self.O() + ":", head + args + ":")
        # match
        n = self.ch([1, 1, 1, 2, 3])
        if n == 1:
            subj = self.expr(d, 0 if self.p(0.1) else 1)
            if self.p(0.15) and not self.range_clean:
                subj += self.O() + ","      # `match x,:` — the subject is the tuple of one element
        else:
            items = [("*" + self.expr(d, 6)) if self.p(0.15) else self.expr(d, 1) for _ in range(n)]
            subj = ", ".join(items) + ("," if self.p(0.3) else "")
        lines = [("match" + S() + subj + self.O() + ":",) * 2]
        ind = self.indent
        for _ in range(self.ch([1, 1, 2, 3])):
            was = self.layout
            self.layout = False
            pat = self.pattern(d, top=True)
            self.layout = was
            h = "case" + S() + pat
            if self.p(0.25):
                h += S() + "if" + S() + self.expr(d, 0 if self.p(0.2) else 1)
            for t, w in self.suite(d, h + self.O() + ":"):
                lines.append((ind + t, ind + w))
        return lines

    # ------------------------------------------------------------- programs
    def _setup(self):
        self.patches = []
        self.counter = 0
        self.br = 0
        self.indent = self.ch(["    ", "    ", "    ", " ", "  ", "\t", "        ", "   "])
        self.nl = self.ch(["\n"] * 8 + ["\r\n", "\r"]) if self.layout else "\n"

    def program(self, mode="m"):
        self._setup()
        lines = []
        lo, hi = self.nstmts
        for _ in range(self.r.randint(lo, hi)):
            if self.layout and self.p(0.08):
                lines.append((self.ch(["", "# comment", "   ", "#!shebang-like", "\t", "    # indented comment"]),) * 2)
            if self.p(0.12):
                # a directed shape (tools/shapes.py): parameter-list sections, with-items of every expression kind, rare
                # productions — grammar regions random generation seldom reaches (found with tools/covmap.py)
                sh = self.ch(_shape_pool())
                lines.extend((l, l) for l in sh.rstrip("\n").split("\n"))
                continue
            lines.extend(self.statement(self.depth))
        text = self.nl.join(t for t, _ in lines)
        twin = self.nl.join(w for _, w in lines)
        text = text.replace("\n", self.nl) if self.nl != "\n" else text
        twin = twin.replace("\n", self.nl) if self.nl != "\n" else twin
        if self.nl != "\n":
            # a CR LF produced from an LF that was already preceded by CR
            text = text.replace("\r\r\n", "\r\n")
            twin = twin.replace("\r\r\n", "\r\n")
        end = self.ch([self.nl, self.nl, self.nl, "", self.nl + self.nl, self.nl + "  " + self.nl]) if self.layout else "\n"
        # a compound statement at the end needs a newline in this parser's and CPython's grammar alike
        text += end
        twin += end
        if self.layout and self.p(0.04):
            text, twin = "﻿" + text, "﻿" + twin
        return Program(text, twin, list(self.patches), mode)

    def expression_program(self):
        self._setup()
        self.nl = "\n"
        k = self.r.random()
        if k < 0.7:
            s = self.expr(self.depth, 1)
        else:
            s = self.exprlist(self.depth, star=False)
        if self.layout:
            s = s + self.ch(["", "", " ", "\n", "\n\n", "  # c", " \n"])
        return Program(s, s, [], "e")


# ---------------------------------------------------------------------------------------------------------
# known-finding shape predicates (shared by the generator, which avoids them, and by classify())

_SHAPES = []


def _shape_pool():
    """shapes valid for CPython 3.11 (PEP 695 ones need a twin text and are left to the generator's own type_params)"""
    if not _SHAPES:
        import ast as _ast
        import warnings as _w
        import shapes as _sh
        with _w.catch_warnings():
            _w.simplefilter("ignore")
            for t in _sh.all_shapes():
                if "x[*a" in t or "a[*b]" in t or " as *" in t or "as (*x" in t or "as [*x" in t or "as *x" in t:
                    continue        # listed findings of C01 (single starred subscript, starred with-target): probed elsewhere
                try:
                    _ast.parse(t)
                except SyntaxError:
                    continue
                _SHAPES.append(t)
    return _SHAPES


def _is_fpiece(lit):
    k = 0
    while k < len(lit) and lit[k] not in "'\"":
        k += 1
    return "f" in lit[:k].lower()


def _is_empty_plain(lit):
    """a non-f string literal token with empty body"""
    k = 0
    while k < len(lit) and lit[k] not in "'\"":
        k += 1
    if "f" in lit[:k].lower():
        return False
    body = lit[k:]
    return body in ("''", '""', "'" * 6, '"' * 6)


def _tokens(line):
    import io
    import tokenize
    out = []
    try:
        for t in tokenize.generate_tokens(io.StringIO(line).readline):
            out.append(t)
    except (tokenize.TokenError, IndentationError, SyntaxError):
        pass
    return out


def softkw_colon_shape(line):
    """True when the logical line starts with the NAME `match`/`case` used as an ordinary identifier and the
    transformer's heuristic would still take it for the keyword: a top-level colon that is not the token right
    after it and is not consumed by a top-level `lambda`.  (Callers pass lines that are NOT match/case
    statements.)"""
    import tokenize
    toks = [t for t in _tokens(line) if t.type not in (tokenize.NL, tokenize.COMMENT, tokenize.INDENT, tokenize.DEDENT)]
    if not toks or toks[0].type != tokenize.NAME or toks[0].string not in ("match", "case"):
        return False
    nesting = 0
    first = True
    seen_lambda = False
    for t in toks[1:]:
        if t.type in (tokenize.NEWLINE, tokenize.ENDMARKER):
            break
        s = t.string
        if t.type == tokenize.OP:
            if s in "([{":
                nesting += 1
            elif s in ")]}":
                nesting -= 1
            elif s == ":" and nesting == 0:
                if seen_lambda:
                    seen_lambda = False
                elif not first:
                    return True
        elif t.type == tokenize.NAME and s == "lambda" and nesting == 0:
            seen_lambda = True
        first = False
    return False


def apply_patches(ref_text, patches, ref_expr):
    """CPython's canonical tree of the twin -> ground-truth tree of the PEP 695 text.
    ref_expr(text) must give the canonical tree text of an expression (CPython, Load context)."""
    import pyref
    if not patches:
        return ref_text
    tree = pyref.sexp(ref_text)
    hexn = lambda s: "s:" + (s.encode().hex() or "-")

    def tparams(ps):
        out = []
        for p in ps:
            if p[0] == "TypeVar":
                b = "None" if p[2] is None else pyref.sexp(ref_expr(p[2]))
                out.append(("TypeParamTypeVar", None, [("name", hexn(p[1])), ("bound", b)]))
            elif p[0] == "TypeVarTuple":
                out.append(("TypeParamTypeVarTuple", None, [("name", hexn(p[1]))]))
            else:
                out.append(("TypeParamParamSpec", None, [("name", hexn(p[1]))]))
        return out
    aliases = {hexn(p["marker"]): p for p in patches if p["kind"] == "alias"}
    defs = {hexn(p["defname"]): p for p in patches if p["kind"] == "params"}

    def walk(t):
        if isinstance(t, str):
            return t
        if isinstance(t, list):
            return [walk(x) for x in t]
        kind, rng, fields = t
        fields = [(f, walk(v)) for f, v in fields]
        if kind == "StmtAssign":
            fd = dict(fields)
            tg = fd["targets"]
            if len(tg) == 1 and not isinstance(tg[0], (str, list)) and tg[0][0] == "ExprName":
                nm = dict(tg[0][2])["id"]
                if nm in aliases:
                    p = aliases[nm]
                    name = ("ExprName", None, [("id", hexn(p["name"])), ("ctx", "Store")])
                    return ("StmtTypeAlias", None, [("name", name), ("type_params", tparams(p["params"])), ("value", fd["value"])])
        if kind in ("StmtFunctionDef", "StmtAsyncFunctionDef", "StmtClassDef"):
            fd = dict(fields)
            if fd["name"] in defs:
                fields = [(f, (tparams(defs[fd["name"]]["params"]) if f == "type_params" else v)) for f, v in fields]
        return (kind, rng, fields)
    return pyref.unsexp(walk(tree))
