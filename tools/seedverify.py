#!/usr/bin/env python3
"""tools/seedverify.py <seed-out-dir> [--keep-as <name>]

Independently confirm a seeded breaking change written by a sub-agent (patch.diff, demo, meta.json):
  1. in a fresh scratch worktree of /repo: apply the patch, run the pinned baseline test suite
     (must still be 146 passed / 0 failed);
  2. the demonstration FAILS with the patch and PASSES without it;
  3. run the property's check against the patched copy (tools/mutant) and record what it reported.
On success the change is stored as /verif/seeded/<name>/ (patch.diff, demo, meta.json with what was run).
Everything scratch (worktree, target dir) is removed afterwards.
"""
import json
import os
import re
import shutil
import subprocess
import sys
import time

VERIF = os.path.dirname(os.path.dirname(os.path.abspath(__file__)))


def sh(cmd, cwd=None, env=None, timeout=3600):
    e = dict(os.environ)
    e["CARGO_NET_OFFLINE"] = "true"
    if env:
        e.update(env)
    p = subprocess.run(cmd, cwd=cwd, env=e, shell=isinstance(cmd, str), stdout=subprocess.PIPE,
                       stderr=subprocess.STDOUT, text=True, errors="replace", timeout=timeout)
    return p.returncode, p.stdout


def test_summary(out):
    passed = sum(int(x) for x in re.findall(r"test result: \w+\. (\d+) passed", out))
    failed = sum(int(x) for x in re.findall(r"test result: \w+\. \d+ passed; (\d+) failed", out))
    return passed, failed


def main():
    src = os.path.abspath(sys.argv[1])
    name = None
    if "--keep-as" in sys.argv:
        name = sys.argv[sys.argv.index("--keep-as") + 1]
    meta = json.load(open(os.path.join(src, "meta.json")))
    pid = meta["property"]
    patch = os.path.join(src, "patch.diff")
    d = f"/tmp/scratch/sv-{os.getpid()}"
    wt = os.path.join(d, "repo")
    os.makedirs(d, exist_ok=True)
    tgt = os.path.join(d, "target")      # private: concurrent verifications must not share build output
    env = {"CARGO_TARGET_DIR": tgt}
    report = {"verified_at": time.strftime("%Y-%m-%dT%H:%M:%S"), "steps": [],
              "repo_head": subprocess.run(["git", "-C", "/repo", "rev-parse", "--short", "HEAD"],
                                          stdout=subprocess.PIPE, text=True).stdout.strip()}
    ok = True
    try:
        sh(["git", "-C", "/repo", "worktree", "add", "--detach", wt, "HEAD"])
        rc, out = sh(["git", "-C", wt, "apply", patch])
        report["steps"].append({"step": "git apply patch.diff", "rc": rc})
        if rc != 0:
            print("patch does not apply:", out)
            return 2
        # demo files
        demo_crate = (meta.get("demo_crate") or "").split()[0] if meta.get("demo_crate") else None
        crate_dirs = {"rustpython-literal": "literal", "rustpython-parser": "parser", "rustpython-format": "format",
                      "rustpython-ast": "ast", "rustpython-parser-core": "core",
                      "rustpython-parser-vendored": "vendored"}
        if demo_crate:
            demo_crate = crate_dirs.get(demo_crate.strip("`'\","), demo_crate.strip("`'\",").rstrip("/"))
        demo_files = [f for f in os.listdir(src) if f not in ("patch.diff", "meta.json") and not f.startswith(".")]
        demo_cmd = meta.get("demo_cmd", "")
        # 1. baseline with patch
        rc, out = sh("cargo test --workspace --no-fail-fast --offline 2>&1", cwd=wt, env=env)
        p, f = test_summary(out)
        report["steps"].append({"step": "baseline tests with patch", "passed": p, "failed": f, "rc": rc})
        print(f"baseline with patch: {p} passed, {f} failed")
        if f != 0 or p < 146:
            ok = False

        def place_demo():
            for fn in demo_files:
                s = os.path.join(src, fn)
                if os.path.isdir(s):
                    shutil.copytree(s, os.path.join(wt, fn), dirs_exist_ok=True)
                elif demo_crate:
                    os.makedirs(os.path.join(wt, demo_crate, "tests"), exist_ok=True)
                    shutil.copy(s, os.path.join(wt, demo_crate, "tests", fn))

        def run_demo():
            cmd = demo_cmd
            cmd = re.sub(r"cd\s+\S+\s*&&\s*", "", cmd)      # the agent's own worktree path
            if "--offline" not in cmd and cmd.startswith("cargo"):
                cmd += " --offline"
            return sh(cmd + " 2>&1", cwd=wt, env=env)

        place_demo()
        rc1, out1 = run_demo()
        report["steps"].append({"step": "demo with patch", "cmd": demo_cmd, "rc": rc1, "tail": out1[-600:]})
        print("demo with patch   : rc", rc1)
        sh(["git", "-C", wt, "apply", "-R", patch])
        rc2, out2 = run_demo()
        report["steps"].append({"step": "demo without patch", "cmd": demo_cmd, "rc": rc2, "tail": out2[-600:]})
        print("demo without patch: rc", rc2)
        if rc1 == 0 or rc2 != 0:
            ok = False
    finally:
        sh(["git", "-C", "/repo", "worktree", "remove", "--force", wt])
        shutil.rmtree(d, ignore_errors=True)
    # 3. our check against the mutant
    t0 = time.time()
    for attempt in range(3):
        rc, out = sh([os.path.join(VERIF, "tools", "mutant"), pid, patch], cwd=VERIF, timeout=7200)
        if "mutant-run exit=" in out:
            break
        print("tools/mutant infrastructure failure, retrying:", out[-300:])
    viol = [l for l in out.splitlines() if l.startswith("VIOLATION")]
    report["check"] = {"cmd": f"tools/mutant {pid} patch.diff", "exit": rc, "violation_lines": viol[:5],
                       "wall_s": round(time.time() - t0, 1),
                       "infrastructure_error": "mutant-run exit=" not in out,
                       "caught": bool(viol) and rc != 0,
                       "with_input": bool(viol) and not all("no-failing-input-found" in v for v in viol)}
    print("check:", "CAUGHT" if report["check"]["caught"] else "MISSED", viol[:2])
    report["confirmed"] = ok
    if name and ok:
        dst = os.path.join(VERIF, "seeded", name)
        os.makedirs(dst, exist_ok=True)
        for fn in os.listdir(src):
            s = os.path.join(src, fn)
            if os.path.isdir(s):
                shutil.copytree(s, os.path.join(dst, fn), dirs_exist_ok=True)
            else:
                shutil.copy(s, os.path.join(dst, fn))
        meta["lead_verification"] = report
        json.dump(meta, open(os.path.join(dst, "meta.json"), "w"), indent=1)
    print(json.dumps(report, indent=1)[:3000])
    return 0 if ok else 1


if __name__ == "__main__":
    sys.exit(main())
