#!/usr/bin/env python3
"""C08 — layout-only rewrites of Python source text, each validated against CPython.

The property quantifies over "all valid programs x all layout-only rewrites (and compositions)".
This module produces the second factor.  Every rewrite works on source TEXT; Python's own `tokenize`
(and `ast` for the parenthesis rule) is only used to find out where tokens, strings, brackets,
logical lines and expression extents are.  Every step is validated against the reference:

    ast.dump(ast.parse(variant)) == ast.dump(ast.parse(original))     (AnnAssign.simple masked)

A step that changes CPython's tree (or makes CPython reject) is a bug of THIS rewriter: the step is
dropped and counted (`stats['dropped:<rule>']`), never sent to the parser under test.

Rules (names are the ones reported in the evidence):
  eol        LF -> CRLF / CR / random mix per line break (also inside strings and after a backslash)
  trail      add / strip trailing spaces, tabs, form feeds before a line break (never after `\\`)
  blank      insert blank lines and comment-only lines with arbitrary indentation
  comment    append a comment after code
  reindent   new indentation string per block (width, tabs, tab+spaces), consistent = child extends parent
  formfeed   form feed (optionally preceded by whitespace) in front of a line's indentation
  bom        leading U+FEFF
  bsjoin     backslash-newline at a token gap outside brackets / remove an existing one
  brk        line break (+ indentation, blank lines, comments) at a token gap inside brackets / join them
  parens     redundant parentheses around expressions and patterns
  finalnl    add / remove the final line break

Deliberately OUTSIDE the domain (documented in design/C08.md): whitespace at the start of a line at
bracket depth 0 in which a tab follows a space (lexer.rs rejects it on purpose: TabsAfterSpaces), and
block indentation that does not extend the enclosing block's indentation string (lexer.rs
compare_strict is on purpose stricter than CPython there).  Originals that already contain such
lines are not used (counted as `skipped:tab-after-space` / `skipped:inconsistent-indent`).
"""
import ast
import bisect
import io
import re
import sys
import token as T
import tokenize

SIG = (T.NAME, T.NUMBER, T.STRING, T.OP)
COMMENTS = ["#", "# c08", "#!x", "# é日本", '#"""', "#'", "#\\", "# ([{", "# )]}", "#\tx", "# a # b",
            "#:", "# if x:", "#\x0cff", "# else:", "#\\\\", "#match x:", "# \U0001F600"]
RULES = ["trail", "blank", "comment", "reindent", "formfeed", "bsjoin", "brk", "parens", "finalnl"]


class Unsupported(Exception):
    pass


def normalise(text):
    """LF line ends, no BOM (itself a layout rewrite; validated like every other step)."""
    if text.startswith("\ufeff"):
        text = text[1:]
    return text.replace("\r\n", "\n").replace("\r", "\n")


def mask_dump(tree):
    for n in ast.walk(tree):
        if isinstance(n, ast.AnnAssign):
            n.simple = 0
    return ast.dump(tree)


def ref_sig(text, mode="exec"):
    """CPython's range-free tree of `text` (bytes or str) or None if CPython rejects it."""
    if isinstance(text, str) and text.startswith("\ufeff"):
        text = text.encode("utf-8")      # CPython accepts a BOM only in byte input (a file)
    try:
        import warnings
        with warnings.catch_warnings():
            warnings.simplefilter("ignore")
            return mask_dump(ast.parse(text, mode=mode))
    except (SyntaxError, ValueError, RecursionError, MemoryError):
        return None


# ------------------------------------------------------------------ whitespace material

def ws_any(rng, lo=0, hi=5):
    n = rng.randrange(lo, hi + 1)
    return "".join(rng.choice("   \t\t\x0c" if rng.random() < 0.3 else "  \t ") for _ in range(n))


def _seg(rng, hi):
    return "\t" * rng.choice([0, 0, 0, 1, 2]) + " " * rng.randrange(0, hi + 1)


def ws_bol(rng, hi=9):
    """whitespace that is safe at the start of a line at depth 0: tabs then spaces, optional FF resets"""
    s = ""
    if rng.random() < 0.12:
        s = _seg(rng, 3) + "\x0c"
    return s + _seg(rng, hi)


def comment(rng):
    return rng.choice(COMMENTS)


# ------------------------------------------------------------------ token view of a text

class Src:
    def __init__(self, text):
        self.text = text
        ls = [0]
        for m in re.finditer("\n", text):
            ls.append(m.end())
        self.ls = ls
        n = len(text)

        def off(pos):
            r, c = pos
            if r - 1 >= len(ls):
                return n
            return min(ls[r - 1] + c, n)
        try:
            raw = list(tokenize.generate_tokens(io.StringIO(text).readline))
        except (tokenize.TokenError, IndentationError, SyntaxError) as e:
            raise Unsupported(repr(e))
        toks = []
        for t in raw:
            so, eo = off(t.start), off(t.end)
            if t.type == T.ERRORTOKEN:
                raise Unsupported("errortoken")
            if t.type in SIG and text[so:eo] != t.string:
                raise Unsupported("token text mismatch")
            toks.append((t.type, t.string, so, eo))
        self.toks = toks
        # bracket depth
        self.br_off, self.br_depth = [], []
        d = 0
        self.depth_after = []
        for (ty, s, so, eo) in toks:
            if ty == T.OP and s in "([{":
                d += 1
                self.br_off.append(eo)
                self.br_depth.append(d)
            elif ty == T.OP and s in ")]}":
                d -= 1
                self.br_off.append(eo)
                self.br_depth.append(d)
            self.depth_after.append(d)
        self.strings = [(so, eo) for (ty, s, so, eo) in toks if ty == T.STRING]
        self.str_starts = [a for a, _ in self.strings]
        self.comments = [(so, eo) for (ty, s, so, eo) in toks if ty == T.COMMENT]
        # classification of every line break
        tokn = {}
        for i, (ty, s, so, eo) in enumerate(toks):
            if ty in (T.NEWLINE, T.NL) and s == "\n":
                tokn[so] = ty
        self.nl = {}        # offset of "\n" -> "NEWLINE" | "NL" | "str" | "cont"
        for p in ls[1:]:
            q = p - 1
            if q in tokn:
                self.nl[q] = "NEWLINE" if tokn[q] == T.NEWLINE else "NL"
            elif self.in_string(q):
                self.nl[q] = "str"
            elif q > 0 and text[q - 1] == "\\":
                self.nl[q] = "cont"
            else:
                raise Unsupported("unclassified line break")
        self.ends_with_nl = text.endswith("\n")

    def depth_at(self, off):
        k = bisect.bisect_right(self.br_off, off)
        return self.br_depth[k - 1] if k else 0

    def in_string(self, off):
        """strictly inside a string token (so < off < eo)"""
        k = bisect.bisect_left(self.str_starts, off)
        if k == 0:
            return False
        a, b = self.strings[k - 1]
        return a < off < b

    def in_comment(self, off):
        for a, b in self.comments:      # few per call site; used rarely
            if a <= off < b:
                return True
        return False

    def free_line_starts(self):
        """offsets L of physical line starts that are not inside a string and not after a backslash
        continuation, with bracket depth.  Includes the EOF position when the text ends with a break."""
        out = []
        for i, L in enumerate(self.ls):
            if L == len(self.text) and not (self.ends_with_nl or L == 0):
                continue
            if i > 0 and self.nl.get(L - 1) in ("str", "cont"):
                continue
            if self.in_string(L):
                continue
            out.append((L, self.depth_at(L)))
        return out

    def line_ends(self):
        """offsets of tokenised line breaks (NEWLINE / NL) plus EOF when the text does not end with one"""
        out = [(p, k) for p, k in sorted(self.nl.items()) if k in ("NEWLINE", "NL")]
        if not self.ends_with_nl and self.text and not self.in_string(len(self.text)):
            # EOF directly after a backslash is an error anyway
            out.append((len(self.text), "EOF"))
        return out

    def sig_pairs(self):
        """consecutive significant tokens (i, j) with the gap between them"""
        idx = [i for i, t in enumerate(self.toks) if t[0] in SIG]
        return list(zip(idx, idx[1:]))

    def blocks(self):
        """logical lines and block structure: returns (lines, parents) where lines = list of
        (first_tok_index, block_id, line_start_offset) and parents[block_id] = parent id (-1 root)"""
        lines, parents = [], [-1]
        self.block_header = {0: None}      # block id -> index (into lines) of the logical line that opens it
        stack = [0]
        bol = True
        for i, (ty, s, so, eo) in enumerate(self.toks):
            if ty == T.INDENT:
                parents.append(stack[-1])
                stack.append(len(parents) - 1)
                self.block_header[len(parents) - 1] = len(lines) - 1 if lines else None
            elif ty == T.DEDENT:
                stack.pop()
            elif ty == T.NEWLINE:
                bol = True
            elif ty in SIG:
                if bol:
                    k = bisect.bisect_right(self.ls, so) - 1
                    lines.append((i, stack[-1], self.ls[k]))
                    bol = False
        return lines, parents


_BOL_OK = re.compile(r"\t* *\Z")


def _lead(text, L):
    m = re.compile(r"[ \t\x0c]*").match(text, L)
    return m.group(0)


def domain_problem(S):
    """None if the text is inside the quantifier domain w.r.t. tab handling (see module docstring)"""
    for L, d in S.free_line_starts():
        if d != 0:
            continue
        lead = _lead(S.text, L).rsplit("\x0c", 1)[-1]
        if not _BOL_OK.match(lead):
            return "tab-after-space"
    lines, parents = S.blocks()
    ind = {}
    for (ti, b, L) in lines:
        s = S.text[L:S.toks[ti][2]].rsplit("\x0c", 1)[-1]
        if b in ind and ind[b] != s:
            return "inconsistent-indent"
        ind.setdefault(b, s)
    for b, s in ind.items():
        p = parents[b]
        if p >= 0 and p in ind and not (s.startswith(ind[p]) and len(s) > len(ind[p])):
            return "inconsistent-indent"
    return None


def softkw_shape(text):
    """Known-finding shape (root cause shared with C01, soft_keywords.rs): a logical line that starts with the
    NAME `match` / `case` used as an ordinary identifier and has a later top-level colon that the transformer's
    heuristic takes for the colon of a match/case statement.  The parser rejects such a line; putting the name
    in parentheses (a layout-only rewrite) makes it accept."""
    try:
        S = Src(normalise(text))
        tree = ast.parse(normalise(text))
    except (Unsupported, SyntaxError, ValueError, RecursionError):
        return False
    match_rows = {n.lineno for n in ast.walk(tree) if isinstance(n, ast.Match)}
    lines, parents = S.blocks()
    row_of = lambda ti: bisect.bisect_right(S.ls, S.toks[ti][2])
    genuine = {}
    for k, (ti, b, L) in enumerate(lines):
        ty, s0 = S.toks[ti][0], S.toks[ti][1]
        if ty != T.NAME or s0 not in ("match", "case"):
            continue
        if s0 == "match" and row_of(ti) in match_rows:
            genuine[k] = True
            continue
        if s0 == "case":
            h = S.block_header.get(b)
            if h is not None and genuine.get(h):
                continue
        # the heuristic of soft_keywords.rs on this logical line
        nesting, first, seen_lambda = 0, True, False
        for (ty2, s2, so, eo) in S.toks[ti + 1:]:
            if ty2 == T.NEWLINE or ty2 == T.ENDMARKER:
                break
            if ty2 in (T.NL, T.COMMENT):
                continue
            if ty2 == T.OP and s2 in "([{":
                nesting += 1
            elif ty2 == T.OP and s2 in ")]}":
                nesting -= 1
            elif ty2 == T.OP and s2 == ":" and nesting == 0:
                if seen_lambda:
                    seen_lambda = False
                elif not first:
                    return True
            elif ty2 == T.NAME and s2 == "lambda" and nesting == 0:
                seen_lambda = True
            first = False
    return False


def apply_edits(text, edits):
    """edits: (pos, dellen, ins, prio) — non-overlapping deletions; ties ordered by prio"""
    edits = sorted(edits, key=lambda e: (e[0], e[3]))
    out = []
    cur = 0
    for pos, dl, ins, _ in edits:
        if pos < cur:
            raise Unsupported("overlapping edits")
        out.append(text[cur:pos])
        out.append(ins)
        cur = pos + dl
    out.append(text[cur:])
    return "".join(out)


def pick(rng, sites, cap=400):
    """a random subset: one / a few / many / all (capped for big files)"""
    if not sites:
        return []
    m = rng.random()
    if m < 0.25:
        return [rng.choice(sites)]
    if m < 0.55:
        return rng.sample(sites, min(len(sites), rng.randrange(2, 6)))
    if m < 0.9:
        p = rng.choice([0.1, 0.3, 0.6])
        sel = [s for s in sites if rng.random() < p]
    else:
        sel = list(sites)
    if len(sel) > cap:
        sel = rng.sample(sel, cap)
    return sel or [rng.choice(sites)]


# ------------------------------------------------------------------ the rules (text -> text)

def r_trail(S, rng):
    text = S.text
    edits = []
    strip = rng.random() < 0.3
    for p, kind in pick(rng, S.line_ends()):
        # existing run of whitespace before the break
        q = p
        while q > 0 and text[q - 1] in " \t\x0c":
            q -= 1
        k = bisect.bisect_right(S.ls, p) - 1
        L = S.ls[k]
        whole_line_ws = q <= L
        if strip:
            if q < p and not (q > 0 and text[q - 1] == "\\") and not S.in_string(q):
                edits.append((q, p - q, "", 1))
            continue
        if q > 0 and text[q - 1] == "\\" and not S.in_comment(q - 1):
            continue
        if whole_line_ws and S.depth_at(L) == 0:
            if k > 0 and S.nl.get(L - 1) in ("str", "cont"):
                continue
            edits.append((L, p - L, ws_bol(rng), 1))
        else:
            edits.append((p, 0, ws_any(rng, 1, 6), 1))
    return edits


def _filler_lines(rng, depth, n=None):
    """blank / comment-only lines (each ends with LF)"""
    out = []
    for _ in range(n if n is not None else rng.choice([1, 1, 1, 2, 3])):
        w = ws_bol(rng, 12) if depth == 0 else ws_any(rng, 0, 8)
        if rng.random() < 0.55:
            out.append(w + comment(rng) + "\n")
        else:
            out.append(w + "\n")
    return "".join(out)


def r_blank(S, rng):
    edits = []
    n = len(S.text)
    for L, d in pick(rng, S.free_line_starts()):
        ins = _filler_lines(rng, d)
        if L == n and rng.random() < 0.4:
            ins = ins[:-1]          # last inserted line without a line break, at EOF
        edits.append((L, 0, ins, 1))
    return edits


def r_comment(S, rng):
    text = S.text
    edits = []
    for p, kind in pick(rng, S.line_ends()):
        q = p
        while q > 0 and text[q - 1] in " \t\x0c":
            q -= 1
        if q > 0 and text[q - 1] == "\\" and not S.in_comment(q - 1):
            continue
        k = bisect.bisect_right(S.ls, p) - 1
        L = S.ls[k]
        if q <= L:
            continue        # blank line: handled by r_blank / r_trail
        edits.append((p, 0, ws_any(rng, 0, 4) + comment(rng), 1))
    return edits


def r_reindent(S, rng):
    lines, parents = S.blocks()
    if len(parents) <= 1:
        return []
    style = rng.choice(["spaces", "tabs", "mixed", "mixed", "wide"])
    new = {0: ""}

    def unit(parent):
        if " " in parent:
            return " " * rng.randrange(1, 9)
        if style == "spaces":
            return " " * rng.choice([1, 2, 3, 4, 8, rng.randrange(1, 12)])
        if style == "tabs":
            return "\t" * rng.choice([1, 1, 1, 2])
        if style == "wide":
            return rng.choice(["\t\t\t", " " * 17, "\t" + " " * 9])
        return rng.choice(["\t", " ", "  ", "\t ", "\t\t", "    ", "\t   ", "        "])
    for b in range(1, len(parents)):
        new[b] = new[parents[b]] + unit(new[parents[b]])
    edits = []
    for (ti, b, L) in lines:
        so = S.toks[ti][2]
        if S.text[L:so] != new[b]:
            edits.append((L, so - L, new[b], 1))
    return edits


def r_formfeed(S, rng):
    edits = []
    for L, d in pick(rng, S.free_line_starts(), cap=60):
        if L == len(S.text):
            continue
        pre = _seg(rng, 4) if d == 0 else ws_any(rng, 0, 3)
        if rng.random() < 0.6:
            pre = ""
        edits.append((L, 0, pre + "\x0c" * rng.choice([1, 1, 2]), 0))
    return edits


def r_bsjoin(S, rng):
    text = S.text
    edits = []
    if rng.random() < 0.2:
        # remove existing continuations: `\`+LF (+ surrounding blanks) -> one space
        sites = [p for p, k in S.nl.items() if k == "cont"]
        for p in pick(rng, sites):
            a = p - 1
            b = p + 1
            while b < len(text) and text[b] in " \t\x0c":
                b += 1
            if b < len(text) and text[b] in "\\\n#":
                continue
            edits.append((a, b - a, " ", 1))
        return edits
    sites = []
    for i, j in S.sig_pairs():
        if S.depth_after[i] != 0:
            continue
        a, b = S.toks[i][3], S.toks[j][2]
        gap = text[a:b]
        if "\n" in gap or "#" in gap or "\\" in gap:
            continue
        sites.append((a, b))
    # a continuation directly before a tokenised NEWLINE that is followed by more text
    for p, k in S.line_ends():
        if k == "NEWLINE" and rng.random() < 0.05 and p + 1 < len(text):
            q = p
            while q > 0 and text[q - 1] in " \t\x0c":
                q -= 1
            if q > 0 and text[q - 1] not in "\\\n" and not S.in_comment(q - 1) and S.depth_at(p) == 0:
                sites.append((p, p))
    for a, b in pick(rng, sites, cap=150):
        pos = rng.randrange(a, b + 1)
        ins = "\\\n"
        if rng.random() < 0.15:
            ins += ws_any(rng, 0, 3) + "\\\n"
        ins += ws_any(rng, 0, 6)
        if rng.random() < 0.5:
            ins = ws_any(rng, 0, 2) + ins
        edits.append((pos, 0, ins, 1))
    return edits


def r_brk(S, rng):
    text = S.text
    edits = []
    pairs = [(i, j) for i, j in S.sig_pairs() if S.depth_after[i] > 0]
    if rng.random() < 0.25:
        # join: a gap inside brackets made of blanks and line breaks only -> one space
        sites = []
        for i, j in pairs:
            a, b = S.toks[i][3], S.toks[j][2]
            gap = text[a:b]
            if "\n" in gap and "#" not in gap and "\\" not in gap:
                sites.append((a, b))
        for a, b in pick(rng, sites):
            edits.append((a, b - a, " ", 1))
        return edits
    for i, j in pick(rng, pairs, cap=200):
        b = S.toks[j][2]
        ins = ws_any(rng, 0, 2)
        if rng.random() < 0.3:
            ins += comment(rng)
        ins += "\n"
        if rng.random() < 0.3:
            ins += _filler_lines(rng, 1)
        ins += ws_any(rng, 0, 10)
        edits.append((b, 0, ins, 1))
    return edits


def r_finalnl(S, rng):
    text = S.text
    if not text:
        return []
    if text.endswith("\n"):
        if S.nl.get(len(text) - 1) in ("NEWLINE", "NL"):
            return [(len(text) - 1, 1, "", 1)]
        return []
    if S.in_string(len(text)) or text.endswith("\\"):
        return []
    return [(len(text), 0, "\n", 1)]


_PAT_SKIP = (ast.MatchStar,)


def _paren_sites(text, S, mode):
    try:
        tree = ast.parse(text, mode=mode)
    except (SyntaxError, ValueError, RecursionError):
        return []
    lines_b = {}

    def off(lineno, col):
        L = S.ls[lineno - 1]
        if lineno not in lines_b:
            end = S.ls[lineno] if lineno < len(S.ls) else len(text)
            lines_b[lineno] = text[L:end].encode("utf-8")
        return L + len(lines_b[lineno][:col].decode("utf-8", "replace"))
    sites = []
    forbidden = set()
    for n in ast.walk(tree):
        if isinstance(n, ast.NamedExpr):
            forbidden.add(id(n.target))          # `(x) := 1` is not Python
        elif isinstance(n, ast.AnnAssign) and isinstance(n.target, (ast.Attribute, ast.Subscript)):
            forbidden.add(id(n.target.value))    # `(x).y: int` is rejected by CPython's grammar

    def visit(node, in_pattern):
        for child in ast.iter_child_nodes(node):
            if isinstance(child, ast.JoinedStr):
                # the f-string as a whole is an expression; its inside is not token-addressable
                if not in_pattern:
                    add(child)
                continue
            if isinstance(child, ast.pattern):
                if not isinstance(child, _PAT_SKIP):
                    add(child)
                visit(child, True)
                continue
            if isinstance(child, ast.expr):
                ok = not in_pattern and not isinstance(child, (ast.Starred, ast.Slice)) and id(child) not in forbidden
                if isinstance(child, ast.Tuple) and any(isinstance(e, ast.Slice) for e in child.elts):
                    ok = False
                if ok:
                    add(child)
                visit(child, in_pattern)
                continue
            visit(child, in_pattern and not isinstance(child, ast.match_case))

    def add(n):
        if getattr(n, "end_lineno", None) is None:
            return
        a = off(n.lineno, n.col_offset)
        b = off(n.end_lineno, n.end_col_offset)
        if a < b:
            sites.append((a, b))
    # guards and subjects are ordinary expressions: match_case resets in_pattern for `guard`/`body`
    def visit_top(node):
        visit(node, False)
    visit_top(tree)
    return sites


def r_parens(S, rng, mode="exec"):
    sites = _paren_sites(S.text, S, mode)
    edits = []
    for a, b in pick(rng, sites, cap=120):
        k = 1 if rng.random() < 0.85 else 2
        edits.append((a, 0, "(" * k, 2))
        edits.append((b, 0, ")" * k, 0))
    return edits


def r_eol(text, rng):
    style = rng.choice(["crlf", "cr", "mix", "mix"])
    out = []
    prev_cr_at = -2
    pos = 0
    for m in re.finditer("\n", text):
        out.append(text[pos:m.start()])
        if style == "crlf":
            e = "\r\n"
        elif style == "cr":
            e = "\r"
        else:
            e = rng.choice(["\n", "\r\n", "\r"])
            if e == "\n" and prev_cr_at == m.start() - 1:
                e = rng.choice(["\r\n", "\r"])   # a lone CR directly followed by LF would fuse
        if e == "\r":
            prev_cr_at = m.start()
        out.append(e)
        pos = m.end()
    out.append(text[pos:])
    return "".join(out)


RULE_FN = {"trail": r_trail, "blank": r_blank, "comment": r_comment, "reindent": r_reindent,
           "formfeed": r_formfeed, "bsjoin": r_bsjoin, "brk": r_brk, "finalnl": r_finalnl}


def step(text, rule, rng, mode="exec"):
    """apply one rule to LF-normalised text; returns new text or None"""
    S = Src(text)
    if rule == "parens":
        edits = r_parens(S, rng, mode)
    else:
        edits = RULE_FN[rule](S, rng)
    if not edits:
        return None
    new = apply_edits(text, edits)
    return new if new != text else None


def variant(original, rng, stats, mode="exec", max_steps=6, rules=None, want_sig=None):
    """Compose up to `max_steps` random rewrites of `original` (arbitrary line ends / BOM allowed in the
    original).  Returns (variant_text, [rule names applied]) or None.  Every step is validated against CPython."""
    sig0 = want_sig if want_sig is not None else ref_sig(original, mode)
    if sig0 is None:
        stats["skipped:not-python"] = stats.get("skipped:not-python", 0) + 1
        return None
    cur = normalise(original)
    if cur != original and ref_sig(cur, mode) != sig0:
        stats["dropped:normalise"] = stats.get("dropped:normalise", 0) + 1
        return None
    rules = rules or RULES
    applied = []
    k = rng.randrange(1, max_steps + 1)
    for _ in range(k):
        rule = rng.choice(rules)
        try:
            new = step(cur, rule, rng, mode)
        except Unsupported:
            stats["unsupported:" + rule] = stats.get("unsupported:" + rule, 0) + 1
            continue
        if new is None:
            continue
        if ref_sig(new, mode) != sig0:
            stats["dropped:" + rule] = stats.get("dropped:" + rule, 0) + 1
            continue
        cur = new
        applied.append(rule)
    # line ends and BOM last (they commute with everything above)
    if rng.random() < 0.55 and "\n" in cur:
        new = r_eol(cur, rng)
        if ref_sig(new, mode) == sig0:
            cur = new
            applied.append("eol")
        else:
            stats["dropped:eol"] = stats.get("dropped:eol", 0) + 1
    if rng.random() < 0.2:
        new = "\ufeff" + cur
        if ref_sig(new, mode) == sig0:
            cur = new
            applied.append("bom")
        else:
            stats["dropped:bom"] = stats.get("dropped:bom", 0) + 1
    if not applied or cur == original:
        return None
    for r in applied:
        stats["applied:" + r] = stats.get("applied:" + r, 0) + 1
    return cur, applied


def single_site_variants(text, mode="exec"):
    """Exhaustive small scope: EVERY site of every rule, one at a time, with a small fixed palette of fillers
    (plus the whole-text rewrites).  `text` is LF-normalised.  Returns [(rule, variant)], not yet validated."""
    S = Src(text)
    out = []

    def one(rule, pos, dl, ins):
        out.append((rule, text[:pos] + ins + text[pos + dl:]))
    n = len(text)
    # line ends: every line break of the text individually and all together
    brks = [m.start() for m in re.finditer("\n", text)]
    for p in brks:
        one("eol", p, 1, "\r\n")
        if not text.startswith("\n", p + 1):
            one("eol", p, 1, "\r")
    if brks:
        out.append(("eol", text.replace("\n", "\r\n")))
        out.append(("eol", text.replace("\n", "\r")))
    for p, kind in S.line_ends():
        q = p
        while q > 0 and text[q - 1] in " \t\x0c":
            q -= 1
        k = bisect.bisect_right(S.ls, p) - 1
        L = S.ls[k]
        after_bs = q > 0 and text[q - 1] == "\\" and not S.in_comment(q - 1)
        blank0 = q <= L and S.depth_at(L) == 0
        if not after_bs:
            for w in ([" ", "\t", "\t  ", "\x0c"] if blank0 else [" ", "\t", " \t", "\x0c", "   \t \x0c"]):
                if blank0 and (k > 0 and S.nl.get(L - 1) in ("str", "cont")):
                    continue
                if blank0 and q > L:
                    continue        # keep the existing blank line's own whitespace out of it
                one("trail", p, 0, w)
            if q > L:
                for c in [" # c", "#", "\t#\\", " #'\"(["]:
                    one("comment", p, 0, c)
        if q < p and not after_bs:
            one("trail", q, p - q, "")
    for L, d in S.free_line_starts():
        fills = ["\n", "   \n", "\t\n", "# c\n", "        # deep\n", "\t \t#\n" if d else "\t  #\n", "\x0c\n", "#\\\n",
                 "\n\n# c\n\n"]
        for f in fills:
            one("blank", L, 0, f)
            if L == n:
                one("blank", L, 0, f[:-1])
        if L < n:
            one("formfeed", L, 0, "\x0c")
            one("formfeed", L, 0, "  \x0c")
            one("formfeed", L, 0, "\t\x0c\x0c")
    for i, j in S.sig_pairs():
        a, b = S.toks[i][3], S.toks[j][2]
        gap = text[a:b]
        if S.depth_after[i] == 0:
            if "\n" in gap or "#" in gap or "\\" in gap:
                continue
            for ins in ["\\\n", " \\\n \t ", "\\\n\\\n", "\t\\\n\x0c"]:
                one("bsjoin", b, 0, ins)
            if a < b:
                one("bsjoin", a, 0, "\\\n")
        else:
            for ins in ["\n", "\n        ", " # c\n\t", "\n\n", "\n \t#\n \t", "\x0c\n\x0c"]:
                one("brk", b, 0, ins)
            if "\n" in gap and "#" not in gap and "\\" not in gap:
                one("brk", a, b - a, " ")
    for p, k in S.nl.items():
        if k == "cont":
            b = p + 1
            while b < n and text[b] in " \t\x0c":
                b += 1
            if not (b < n and text[b] in "\\\n#"):
                one("bsjoin", p - 1, b - (p - 1), " ")
    for a, b in _paren_sites(text, S, mode):
        out.append(("parens", text[:a] + "(" + text[a:b] + ")" + text[b:]))
    lines, parents = S.blocks()
    if len(parents) > 1:
        for unit in [" ", "  ", "        ", "\t", "\t ", "\t\t"]:
            new = {0: ""}
            for bk in range(1, len(parents)):
                par = new[parents[bk]]
                new[bk] = par + (unit if " " not in par else " " * max(1, unit.count(" ") + unit.count("\t")))
            eds = [(L, S.toks[ti][2] - L, new[b], 1) for (ti, b, L) in lines if text[L:S.toks[ti][2]] != new[b]]
            if eds:
                out.append(("reindent", apply_edits(text, eds)))
    out.append(("bom", "\ufeff" + text))
    for e in r_finalnl(S, None):
        out.append(("finalnl", apply_edits(text, [e])))
    return [(r, v) for r, v in out if v != text]


def py_tokens(text):
    """Python's own significant tokens of a text (line ends normalised), or None"""
    try:
        S = Src(normalise(text))
    except Unsupported:
        return None
    return [(ty, s) for (ty, s, so, eo) in S.toks if ty in SIG]


def usable_original(text, stats, mode="exec"):
    """inside the quantifier: CPython accepts, valid UTF-8 text, tab handling inside the domain"""
    sig = ref_sig(text, mode)
    if sig is None:
        stats["skipped:not-python"] = stats.get("skipped:not-python", 0) + 1
        return None
    try:
        S = Src(normalise(text))
    except Unsupported:
        stats["skipped:untokenisable"] = stats.get("skipped:untokenisable", 0) + 1
        return None
    pb = domain_problem(S)
    if pb:
        stats["skipped:" + pb] = stats.get("skipped:" + pb, 0) + 1
        return None
    if mode == "exec" and re.search(r"^[ \t\x0c]*(match|case)\b", text, re.M) and softkw_shape(text):
        stats["skipped:known-softkw-shape"] = stats.get("skipped:known-softkw-shape", 0) + 1
        return None
    return sig


if __name__ == "__main__":
    import random
    path = sys.argv[1]
    seed = int(sys.argv[2]) if len(sys.argv) > 2 else 0
    src = open(path, encoding="utf-8", newline="").read()
    st = {}
    r = variant(src, random.Random(seed), st)
    if r:
        sys.stdout.write(r[0])
        sys.stderr.write(repr(r[1]) + "\n")
    sys.stderr.write(repr(st) + "\n")
