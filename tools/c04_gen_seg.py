"""generates lean/PV/C04/ProgSeg.lean (see the header it writes).  Run by hand when PV.Prog.Parse / PV.C11.Spec change:
   python3 tools/c04_gen_seg.py lean/PV/C04/ProgSeg.lean"""
import re, sys
sys.path.insert(0, "/verif/tools/proggen")
from gen_suf import FUNS as C11FUNS          # (name, binders, application, result pattern)
from gen_mono2 import FUNS as PROGFUNS0      # (name, binders, application)

def names(b):
    out = []
    for grp in re.findall(r"\(([^:]+):", b):
        out += grp.split()
    return out
def vars_of(pat):
    return pat.strip("()").replace(",", " ")

def callees(path, allnames):
    src = open(path).read()
    blocks = re.split(r"\n(?=(?:def|theorem|mutual|end|/--|/-!) ?)", src)
    out = {}
    for b in blocks:
        m = re.match(r"def (\w+)", b)
        if not m or m.group(1) not in allnames:
            continue
        body = b[m.end():]
        out[m.group(1)] = body
    return out

HEADER = open("/verif/tools/c04_seg_header.lean").read()

def emit_c11():
    global C11FUNS
    C11FUNS = [(n, (b + " (hcl : cl = .rsqb ∨ cl = .rpar ∨ cl = .rbrace)") if n == "parseElems" else b, a, p) for n, b, a, p in C11FUNS]
    allnames = [n for n, _, _, _ in C11FUNS]
    bodies = callees("/verif/lean/PV/C11/Spec.lean", allnames)
    CAL = {n: [m for m in allnames if re.search(r"\b" + m + r"\b", bodies[n])] for n in allnames}
    o = []
    o.append("/-- every function of the expression parser consumes a good segment, at fuel `f` -/")
    o.append("structure C11Seg (f : Nat) : Prop where")
    for n, b, app, pat in C11FUNS:
        o.append(f"  {n} : ∀ {b} {vars_of(pat)}, {app.format(F='f')} = some {pat} → SegE ts r")
    o.append("")
    o.append("theorem c11Seg_zero : C11Seg 0 := by")
    o.append("  constructor <;> intros <;> simp_all [" + ", ".join(allnames) + "]")
    o.append("")
    SPECIAL = {
        "parseBin": "  by_cases hl : lvl ≥ 5 <;> simp only [hl, if_true, if_false] at h <;> seg_step h",
        "parseBinLoop": "  by_cases hl : lvl ≥ 5 <;> simp only [hl, if_true, if_false] at h <;> seg_step h",
    }
    for n, b, app, pat in C11FUNS:
        o.append(f"theorem c11Seg_step_{n} (f : Nat) (ih : C11Seg f) : ∀ {b} {vars_of(pat)}, {app.format(F='(f + 1)')} = some {pat} → SegE ts r := by")
        o.append(f"  intro {' '.join(names(b))} {vars_of(pat)} h")
        for c in CAL[n]:
            o.append(f"  have ih_{c} := ih.{c}")
        o.append("  clear ih")
        o.append(f"  unfold {n} at h")
        o.append(SPECIAL.get(n, "  seg_step h"))
        o.append("")
    o.append("/-- **every function of the expression parser consumes a good segment** -/")
    o.append("theorem c11Seg : ∀ f, C11Seg f")
    o.append("  | 0 => c11Seg_zero")
    o.append("  | f + 1 => ⟨" + ", ".join(f"c11Seg_step_{n} f (c11Seg f)" for n in allnames) + "⟩")
    o.append("")
    return o

def main(path, only_c11=False):
    o = [HEADER]
    o += emit_c11()
    if not only_c11:
        from c04_gen_seg_prog import emit_prog, emit_pat
        o += emit_prog()
        o += emit_pat()
    o.append("end PV.C04.PR")
    open(path, "w").write("\n".join(o) + "\n")

if __name__ == "__main__":
    main(sys.argv[1], only_c11=(len(sys.argv) > 2 and sys.argv[2] == "c11"))
