#!/usr/bin/env python3
"""Generator of lean/PV/C13/POrdProgNodes.lean (C13, `ordM` for the ranged program parser): one lemma per statement /
pattern constructor (and for handlers, match cases, with-items, type variables) — a node ranged `(S σ j, E σ k)`
whose children lie, IN FOLD ORDER, in token windows inside `j … k`, each child ordered itself, is ordered (`OSL` /
`OP` / …) — and the `grind` patterns that make the parser induction instantiate them.  Every side condition is
linear arithmetic over token counts (enclosure of every child, `j_next < k_prev` for neighbours).  The output is an
ordinary Lean file, checked by Lean like any other; run by hand when POrd.lean / RProgSyntax.lean change:

    python3 tools/c13_gen_ordnodes.py > lean/PV/C13/POrdProgNodes.lean
"""
import itertools

# kind -> (window predicate, ord structure, empty value, present-constructor pattern for `cases`)
KIND = {
    "E": dict(win="Win", o="OE"),
    "ARGS": dict(win="WArgs", o="OArgs"),
    "P": dict(win="WP", o="OP"),
    "O": dict(win="WO", o="OO", empty="none"),
    "PO": dict(win="WPO", o="OPO", empty="none"),
    "L": dict(win="SeqI", o="OL", empty="[]"),
    "SS": dict(win="SeqS", o="OSeqL", empty="[]"),
    "TP": dict(win="SeqTP", o="OTPs", empty="[]"),
    "WI": dict(win="SeqWI", o="OWIs", empty="[]"),
    "AL": dict(win="SeqAl", o=None, empty="[]"),
    "HS": dict(win="SeqH", o="OHs", empty="[]"),
    "CS": dict(win="SeqCs", o="OCs", empty="[]"),
    "PL": dict(win="SeqPt", o="OPs", empty="[]"),
}
OPTION = ("O", "PO")


class Child:
    def __init__(self, x, kind, mandatory):
        self.x, self.kind, self.mand = x, kind, mandatory
        self.j, self.k = f"j{x}", f"k{x}"
        self.K = KIND[kind]

    def win(self):
        return f"{self.K['win']} src σ {self.j} {self.k} {self.x}"

    def encl(self):
        e = [f"k ≤ {self.k}", f"{self.j} ≤ j", f"1 ≤ {self.j}", f"{self.k} ≤ N"]
        if self.mand and self.kind in ("L", "TP", "WI", "AL", "HS", "CS", "PL"):
            e.append(f"{self.k} ≤ {self.j}")
        return e

    def emp(self):
        """proof of `xs = [] → S σ j ≤ E σ k` for the chain of a list"""
        if self.mand:
            return "(fun _ => tSE T (by omega) (by omega) (by omega))"
        return "(by simp)"

    def ohyp(self):
        """the ord fact, as a proposition"""
        if self.kind == "SS":
            return f"OSeqL σ {self.j} {self.x}"
        if self.K["o"] is None:
            return None
        return f"{self.K['o']} {self.x}"


def pairs(children):
    """(i, i') with every child strictly between optional: they can be neighbours among the present children"""
    out = []
    for a in range(len(children)):
        for b in range(a + 1, len(children)):
            if all(not children[m].mand for m in range(a + 1, b)):
                out.append((a, b))
    return out


def conj_pattern(names):
    if len(names) == 1:
        return names[0]
    return "⟨" + ", ".join(names) + "⟩"


def left_nested(names):
    pat = names[0]
    for n in names[1:]:
        pat = f"⟨{pat}, {n}⟩"
    return pat


def lemma(name, concl, pat_concl, data, children, plainfn, plain_order, ordfn, ord_order, extra_hyps="", extra_binders="",
          tail=None, lo_part=False, unfold_extra="", deco=False, special=None, extra_pats=None, extra_wins=""):
    """children: list of Child in FOLD order; plain_order: variables in the order of the `plain…` definition;
    ord_order: variables in the order of the `&&` of the `ord…` definition after the chain (None = tail)"""
    ch = children
    prs = pairs(ch)
    # hypotheses
    hyps = []
    for i, c in enumerate(ch):
        conds_pairs = []
        top_pairs = []
        for (a, b) in prs:
            if b != i:
                continue
            e = ch[a]
            atom = f"{c.j} < {e.k}"
            if not e.mand:
                atom = f"({e.x} = {e.K['empty']} ∨ {atom})"
            conds_pairs.append(atom)
        oh = c.ohyp()
        if c.mand:
            hyps.append(f"(h{c.x} : {c.win()})" + (f" (o{c.x} : {oh})" if oh else "") +
                        (f" (e{c.x} : lastEnd {c.x} = E σ {c.k})" if c.kind == "SS" else "") +
                        " " + " ".join(f"({c.x}{n + 1} : {t})" for n, t in enumerate(c.encl())) +
                        "".join(f" (c{c.x}{n} : {t})" for n, t in enumerate(conds_pairs)))
        else:
            inner = []
            if c.kind == "SS":
                inner += [oh, f"lastEnd {c.x} = E σ {c.k}"]
            inner += c.encl() + conds_pairs
            outer = f"(o{c.x} : {oh}) " if (oh and c.kind != "SS") else ""
            hyps.append(f"(h{c.x} : {c.win()}) {outer}({c.x}0 : {c.x} = {c.K['empty']} ∨ ({' ∧ '.join(inner)}))")
    wins = " ".join(f"{c.j} {c.k}" for c in ch)
    binders = " ".join(data)
    out = []
    J = " J" if lo_part else ""
    out.append(f"theorem {name} {{j k{J} {wins}{extra_wins} : Nat}}" + (f" {{{binders}}}" if binders else "") + extra_binders +
               " (h1 : 1 ≤ k) (h3 : k ≤ j) (h5 : j ≤ N)" + (" (h6 : j ≤ J) (h7 : J ≤ N)" if lo_part else "") +
               "".join("\n    " + h for h in hyps) + (("\n    " + extra_hyps) if extra_hyps else "") + " :\n    " + concl + " := by")
    out.append("  constructor")
    out.append("  intro hp")
    plains = list(plain_order) + (["ptail"] if tail else [])
    if plains:
        out.append(f"  simp only [{plainfn}, Bool.and_eq_true] at hp")
        if len(plains) >= 2:
            out.append(f"  obtain {left_nested(['p' + x if x != 'ptail' else x for x in plains])} := hp")
        else:
            out.append(f"  have p{plains[0]} := hp")
    # case analysis over the optional children
    opt = [c for c in ch if not c.mand]

    def leaf(present, ind):
        """present: set of optional variables that are present"""
        L = []
        pres = [c for c in ch if c.mand or c.x in present]
        # hypotheses of the present optional children
        for c in opt:
            if c.x not in present:
                continue
            names = []
            if c.kind == "SS":
                names += [f"o{c.x}", f"e{c.x}"]
            names += [f"{c.x}{n + 1}" for n in range(len(c.encl()))]
            pn = []
            for (a, b) in prs:
                if ch[b] is c:
                    pn.append((f"q{c.x}{ch[a].x}", ch[a]))
            names += [n for n, _ in pn]
            L.append(f"obtain {conj_pattern(names)} := {c.x}0.resolve_left (by simp)")
            for n, e in pn:
                if not e.mand and e.x in present:
                    L.append(f"have {n} := {n}.resolve_left (by simp)")
        # mandatory children: pair conditions with optional predecessors
        for i, c in enumerate(ch):
            if not c.mand:
                continue
            n = 0
            for (a, b) in prs:
                if b != i:
                    continue
                e = ch[a]
                if not e.mand and e.x in present:
                    L.append(f"have c{c.x}{n} := c{c.x}{n}.resolve_left (by simp)")
                n += 1
        # numeric facts of the children
        for c in pres:
            x = c.x
            if c.kind == "E":
                L.append(f"have w{x} := win_rg h{x} p{x}")
            elif c.kind == "ARGS":
                L.append(f"have w{x} := wargs_rg h{x} p{x}")
            elif c.kind == "P":
                L.append(f"have w{x} := wp_rg h{x} p{x}")
            elif c.kind == "O":
                L.append(f"have w{x} := win_rg (h{x} _ rfl) p{x}")
            elif c.kind == "PO":
                L.append(f"have w{x} := wp_rg (h{x} _ rfl) p{x}")
            elif c.kind == "L":
                L.append(f"have b{x} := chain_seqI h{x} p{x} (Nat.le_refl _) (Nat.le_refl _) {c.emp()}")
            elif c.kind == "SS":
                L.append(f"have b{x} := (o{x}.h p{x}).2")
                L.append(f"rw [e{x}] at b{x}")
            elif c.kind == "TP":
                L.append(f"have b{x} := chain_seqX trg_tparam h{x} p{x} (Nat.le_refl _) (Nat.le_refl _) {c.emp()}")
            elif c.kind == "WI":
                L.append(f"have b{x} := chain_seqX trg_item h{x} p{x} (Nat.le_refl _) (Nat.le_refl _) {c.emp()}")
            elif c.kind == "AL":
                L.append(f"have b{x} := chain_seqX (pl := fun _ => true) trg_alias h{x} (by simp) (Nat.le_refl _) (Nat.le_refl _) {c.emp()}")
            elif c.kind == "HS":
                L.append(f"have b{x} := chain_seqX trg_handler h{x} (by rw [← plainHs_eq]; exact p{x}) (Nat.le_refl _) (Nat.le_refl _) {c.emp()}")
            elif c.kind == "CS":
                L.append(f"have b{x} := chain_seqX trg_case h{x} (by rw [← plainCs_eq]; exact p{x}) (Nat.le_refl _) (Nat.le_refl _) {c.emp()}")
            elif c.kind == "PL":
                L.append(f"have b{x} := chain_seqX trg_pat h{x} (by rw [← plainPs_eq]; exact p{x}) (Nat.le_refl _) (Nat.le_refl _) {c.emp()}")
        # token order
        if not pres:
            L.append("have t0 := tSE T h1 h3 h5")
        for c in pres:
            L.append(f"have s{c.x} := tSS T (by omega) (show {c.j} ≤ j by omega) h5")
            L.append(f"have f{c.x} := tEE T h1 (show k ≤ {c.k} by omega) (by omega)")
        for a, b in zip(pres, pres[1:]):
            L.append(f"have t{a.x}{b.x} := tES T (by omega) (show {b.j} < {a.k} by omega) (by omega)")
        # the goal
        ords = []
        for x in ord_order:
            if x is None:
                ords.append("otail.h ptail")
                continue
            if special and x in special:
                ords.append(special[x](present))
                continue
            c = next(c for c in ch if c.x == x)
            if c.kind == "SS":
                ords.append(f"(o{x}.h p{x}).1" if (c.mand or x in present) else "rfl")
            elif c.kind == "AL":
                ords.append(f"List.all_eq_true.mpr (fun a ha => by simp only [ordAlias, decide_eq_true_eq]; exact le_seqX (pl := fun _ => true) trg_alias h{x} (by simp) a ha)")
            else:
                ords.append(f"o{x}.h p{x}")
        goal = "?_"
        if deco:
            goal = "⟨d0.elim (fun h => by subst h; rfl) (fun q => decoChain_seqI hd pd (tES T (by omega) q.1 q.2.1)), ?_⟩"
        for o in ords:
            goal = f"⟨{goal}, {o}⟩"
        if lo_part and deco:
            L.append("refine ⟨?_, by rw [stmtLo_eq]; simp only [stmtDecos, RStmt.range]; exact decoLo_ge hd pd "
                     "(d0.imp id (fun c => tSS T c.2.2.1 c.2.2.2 h7)) (tSS T (by omega) h6 h7)⟩")
        elif lo_part:
            L.append("refine ⟨?_, by simp only [stmtLo, stmtDecos, RStmt.range]; exact tSS T (by omega) h6 h7⟩")
        L.append(f"simp only [{ordfn}, Bool.and_eq_true{unfold_extra}]")
        if ords:
            L.append(f"refine {goal}")
        L.append("try simp only [optRg, patOptSeg, List.map_nil, List.nil_append, List.append_nil, List.cons_append]")
        L.append("repeat chain_step")
        return [ind + l for l in L]

    def split(i, present, ind):
        if i == len(opt):
            return leaf(present, ind)
        c = opt[i]
        L = []
        if c.kind in OPTION:
            L.append(f"{ind}cases {c.x} with")
            L.append(f"{ind}| none =>")
            L += split(i + 1, present, ind + "  ")
            L.append(f"{ind}| some {c.x}' =>")
            L += split(i + 1, present | {c.x}, ind + "  ")
        else:
            L.append(f"{ind}cases {c.x} with")
            L.append(f"{ind}| nil =>")
            L += split(i + 1, present, ind + "  ")
            L.append(f"{ind}| cons {c.x}_h {c.x}_t =>")
            L += split(i + 1, present | {c.x}, ind + "  ")
        return L

    out += split(0, frozenset(), "  ")
    out.append("")
    pats = ", ".join(["TiledTab src σ N"] + [c.win() for c in ch] + (extra_pats or []) + [pat_concl])
    return "\n".join(out), f"grind_pattern {name} => {pats}"


def C(x, kind, mand):
    return Child(x, kind, mand)


def stmt(ctor, fields, plain_order, ord_order):
    """fields: constructor arguments in order: (var, kind or 'D', mandatory); fold: variables in fold order"""
    return (ctor, fields, plain_order, ord_order)


LOOPF = [("t", "E", 1), ("i", "E", 1), ("b", "SS", 1), ("o", "SS", 0)]
CONDF = [("t", "E", 1), ("b", "SS", 1), ("o", "SS", 0)]
WITHF = [("ws", "WI", 1), ("b", "SS", 1)]
TRYF = [("b", "SS", 1), ("hs", "HS", 0), ("o", "SS", 0), ("f", "SS", 0)]
# (constructor, args in constructor order, fold order, plain order, ord order)
STMTS = [
    ("return", [("v", "O", 0)], "v", "v", "v"),
    ("delete", [("ts", "L", 0)], ["ts"], ["ts"], ["ts"]),
    ("typeAlias", [("n", "E", 1), ("tp", "TP", 0), ("v", "E", 1)], ["n", "tp", "v"], ["n", "tp", "v"], ["n", "tp", "v"]),
    ("augAssign", [("t", "E", 1), ("op", "D", 0), ("v", "E", 1)], "tv", "tv", "tv"),
    ("annAssign", [("t", "E", 1), ("a", "E", 1), ("v", "O", 0), ("sm", "D", 0)], "tav", "tav", "tav"),
    ("for", LOOPF, "tibo", "tibo", "tibo"), ("asyncFor", LOOPF, "tibo", "tibo", "tibo"),
    ("while", CONDF, "tbo", "tbo", "tbo"), ("if", CONDF, "tbo", "tbo", "tbo"),
    ("with", WITHF, ["ws", "b"], ["ws", "b"], ["ws", "b"]), ("asyncWith", WITHF, ["ws", "b"], ["ws", "b"], ["ws", "b"]),
    ("match", [("s", "E", 1), ("cs", "CS", 1)], ["s", "cs"], ["s", "cs"], ["s", "cs"]),
    ("raise", [("e", "O", 0), ("c", "O", 0)], "ec", "ec", "ec"),
    ("try", TRYF, ["b", "hs", "o", "f"], ["b", "hs", "o", "f"], ["b", "hs", "o", "f"]),
    ("tryStar", TRYF, ["b", "hs", "o", "f"], ["b", "hs", "o", "f"], ["b", "hs", "o", "f"]),
    ("assert", [("t", "E", 1), ("m", "O", 0)], "tm", "tm", "tm"),
    ("import", [("ns", "AL", 1)], ["ns"], [], ["ns"]),
    ("importFrom", [("m", "D", 0), ("ns", "AL", 1), ("l", "D", 0)], ["ns"], [], ["ns"]),
    ("global", [("ns", "D", 0)], [], [], []), ("nonlocal", [("ns", "D", 0)], [], [], []),
    ("expr", [("e", "E", 1)], "e", "e", "e"),
    ("pass", [], [], [], []), ("break", [], [], [], []), ("continue", [], [], [], []),
]
PATS = [
    ("matchValue", [("v", "E", 1)], "v", "v", "v"),
    ("matchSingleton", [("c", "D", 0)], [], [], []),
    ("matchSequence", [("ps", "PL", 0)], ["ps"], ["ps"], ["ps"]),
    ("matchClass", [("c", "E", 1), ("ps", "PL", 0), ("ka", "D", 0), ("qs", "PL", 0)], ["c", "ps", "qs"], ["c", "ps", "qs"],
     ["c", "ps", "qs"]),
    ("matchStar", [("n", "D", 0)], [], [], []),
    ("matchAs", [("q", "PO", 0), ("n", "D", 0)], "q", "q", "q"),
    ("matchOr", [("ps", "PL", 0)], ["ps"], ["ps"], ["ps"]),
]


def mk(fields, fold):
    d = {x: Child(x, k, m) for x, k, m in fields if k != "D"}
    return [d[x] for x in fold]


def main():
    print("""import PV.C13.POrdProg1
/-
  PV.C13.POrdProgNodes — GENERATED by tools/c13_gen_ordnodes.py (do not edit by hand; the file is checked by Lean like
  any other).  One lemma per statement / pattern constructor (and for handlers, match cases, with-items, type
  variables): a node ranged `(S σ j, E σ k)` whose children lie, in FOLD order, in token windows inside `j … k`
  (neighbours: the next one starts at a later token than the previous one ends), every child ordered itself, is
  ordered (`ordS` … of the node is `true`, if it is plain).  Every side condition is linear arithmetic over token
  counts; the lemmas are registered as `grind` patterns on the constructor term.
-/
set_option linter.unusedSimpArgs false
set_option linter.unusedVariables false
set_option linter.unusedSectionVars false
namespace PV.C13
open PV.Expr PV.C11 PV.Prog
open PV.C02

variable {src : List Nat} {σ : SpanTab} {N : Nat}

section nodes
variable (T : TiledTab src σ N)
include T
""")
    pats = []
    for ctor, fields, fold, po, oo in STMTS:
        args = " ".join(x for x, _, _ in fields)
        term = f"(S σ j, E σ k)" + ((" " + args) if args else "")
        text, pat = lemma(f"osl_{ctor}", f"OSL σ J (.{ctor} {term})", f"OSL σ J (RStmt.{ctor} {term})",
                          [x for x, _, _ in fields], mk(fields, fold), "plainS", list(po), "ordS", list(oo), lo_part=True)
        print(text)
        pats.append(pat)
    for ctor, fields, fold, po, oo in PATS:
        args = " ".join(x for x, _, _ in fields)
        term = f"(S σ j, E σ k)" + ((" " + args) if args else "")
        text, pat = lemma(f"op_{ctor}", f"OP (.{ctor} {term})", f"OP (RPattern.{ctor} {term})",
                          [x for x, _, _ in fields], mk(fields, fold), "plainP", list(po), "ordP", list(oo))
        print(text)
        pats.append(pat)
    # definitions: decorators in front of the node
    DECO = "(hd : SeqI src σ jd kd d) (od : OL d) (d0 : d = [] ∨ (j < kd ∧ kd ≤ N ∧ 1 ≤ jd ∧ jd ≤ J))"
    deff = [("n", "D", 0), ("a", "ARGS", 1), ("b", "SS", 1), ("d", "D", 0), ("r", "O", 0), ("tp", "TP", 0)]
    for ctor in ("functionDef", "asyncFunctionDef"):
        term = "(S σ j, E σ k) n a b d r tp"
        text, pat = lemma(f"osl_{ctor}", f"OSL σ J (.{ctor} {term})", f"OSL σ J (RStmt.{ctor} {term})",
                          ["n", "a", "b", "d", "r", "tp"], mk(deff, ["tp", "a", "r", "b"]), "plainS", ["a", "b", "d", "r", "tp"],
                          "ordS", ["d", "tp", "a", "r", "b"], lo_part=True, deco=True, extra_hyps=DECO,
                          special={"d": lambda pres: "od.h pd"}, extra_pats=["SeqI src σ jd kd d"], extra_wins=" jd kd")
        print(text)
        pats.append(pat)
    clsf = [("n", "D", 0), ("bs", "L", 0), ("ks", "D", 0), ("b", "SS", 1), ("d", "D", 0), ("tp", "TP", 0)]
    KWS = ("(hks : SeqK src σ jks kks ks) (oks : OKs ks) "
           "(ks0 : ks = [] ∨ (1 ≤ jks ∧ jks ≤ j ∧ (tp = [] ∨ (jks < ktp ∧ ktp ≤ N))))")

    def kws(pres):
        if "tp" in pres:
            le = ("(Nat.le_trans (kwLo_le htp ptp (by simp)) (tES T q.1 (q.2.2.resolve_left (by simp)).1 "
                  "(q.2.2.resolve_left (by simp)).2))")
        else:
            le = "(by simp only [kwLo, List.getLast?_nil]; exact tSS T q.1 q.2.1 h5)"
        return f"(ks0.elim (fun h => by subst h; rfl) (fun q => ordKws_lo hks pks (oks.h pks) {le}))"
    term = "(S σ j, E σ k) n bs ks b d tp"
    text, pat = lemma("osl_classDef", f"OSL σ J (.classDef {term})", f"OSL σ J (RStmt.classDef {term})",
                      ["n", "bs", "ks", "b", "d", "tp"], mk(clsf, ["tp", "bs", "b"]), "plainS", ["bs", "ks", "b", "d", "tp"],
                      "ordS", ["d", "tp", "bs", "ks", "b"], lo_part=True, deco=True, extra_hyps=DECO + "\n    " + KWS,
                      special={"d": lambda pres: "od.h pd", "ks": kws},
                      extra_pats=["SeqI src σ jd kd d", "SeqK src σ jks kks ks"], extra_wins=" jd kd jks kks")
    print(text)
    pats.append(pat)
    # handlers, cases (consed onto an ordered tail), with-items, type variables
    hf = [("ty", "O", 0), ("nm", "D", 0), ("b", "SS", 1)]
    text, pat = lemma("ohs_cons", "OHs (.mk (S σ j, E σ k) ty nm b :: hs)", "OHs (RHandler.mk (S σ j, E σ k) ty nm b :: hs)",
                      ["ty", "nm", "b", "hs"], mk(hf, ["ty", "b"]), "plainHs", ["ty", "b"], "ordHs", ["ty", "b", None],
                      extra_hyps="(otail : OHs hs)", tail=True)
    print(text)
    pats.append(pat)
    cf = [("p", "P", 1), ("g", "O", 0), ("b", "SS", 1)]
    text, pat = lemma("ocs_cons", "OCs (.mk (S σ j, E σ k) p g b :: cs)", "OCs (RCase.mk (S σ j, E σ k) p g b :: cs)",
                      ["p", "g", "b", "cs"], mk(cf, ["p", "g", "b"]), "plainCs", ["p", "g", "b"], "ordCs", ["p", "g", "b", None],
                      extra_hyps="(otail : OCs cs)", tail=True)
    print(text)
    pats.append(pat)
    wf = [("e", "E", 1), ("v", "O", 0)]
    text, pat = lemma("owi_mk", "OWI ⟨(S σ j, E σ k), e, v⟩", "OWI (RWithItem.mk (S σ j, E σ k) e v)",
                      ["e", "v"], mk(wf, ["e", "v"]), "RWithItem.plain", ["e", "v"], "ordWI", ["e", "v"])
    print(text)
    pats.append(pat)
    tf = [("n", "D", 0), ("b", "O", 0)]
    text, pat = lemma("otp_typeVar", "OTP (.typeVar (S σ j, E σ k) n b)", "OTP (RTypeParam.typeVar (S σ j, E σ k) n b)",
                      ["n", "b"], mk(tf, ["b"]), "RTypeParam.plain", ["b"], "ordTP", ["b"])
    print(text)
    pats.append(pat)
    print("end nodes\n")
    for p in pats:
        print(p)
    print("\nend PV.C13")


if __name__ == "__main__":
    main()
