"""C08 — compact random program generator biased towards layout-sensitive constructs.

Programs are emitted in a plain layout (4 spaces, LF); tools/c08_layout.py supplies the layout
variation.  Every program is checked with CPython (`ast.parse`) by the caller; invalid ones are dropped.
Kept out on purpose (they are C01 findings, not layout findings): soft keywords as the target of an
annotated assignment / subscript at the start of a line (`match[0]: int`), `1.else`.
"""

NAMES = ["a", "b", "c", "x", "y", "foo", "bar_1", "_", "é", "match", "case", "type", "print", "self", "__x__", "日本"]
SAFE_NAMES = ["a", "b", "c", "x", "y", "foo", "bar_1", "é", "self", "v1"]
NUMS = ["0", "1", "42", "1_000", "0x1F", "0o17", "0b101", "1.5", "1e10", "1.", ".5", "3j", "1_0.0_1e-1_0", "0xdead_beef"]
STRS = ["'s'", '"d"', "''", '""', "'''t'''", '"""a\nb"""', "'''x\n  y\n'''", "r'\\n'", "b'by'", "rb'\\x'", "u'u'",
        "'a' 'b'", "'it\\'s'", '"q\\"q"', "'\\\n'", "'a\\\nb'", '"""\\\n"""', "f'{x}'", "f'{x!r:>{y}}'", "f\"{a['k']}\"",
        "f'''{\nx\n}'''", "f'{{}}'", "f'{x:{y}{z}}'", "'#'", "'(['", '""" # not a comment\n)]}"""', "'\\\\'", "b'''\n'''",
        "'\t'", "'é日本'", "f'{x=}'", "f'{(lambda: 1)()}'"]
BINOPS = ["+", "-", "*", "/", "//", "%", "**", "@", "<<", ">>", "&", "|", "^"]
CMPOPS = ["<", ">", "==", "!=", "<=", ">=", "in", "not in", "is", "is not"]
AUG = ["+=", "-=", "*=", "/=", "//=", "%=", "**=", "@=", "<<=", ">>=", "&=", "|=", "^="]


class Gen:
    def __init__(self, rng):
        self.r = rng

    # ---------------------------------------------------------------- expressions
    def name(self):
        return self.r.choice(NAMES)

    def atom(self):
        r = self.r
        k = r.random()
        if k < 0.35:
            return self.name()
        if k < 0.55:
            return r.choice(NUMS)
        if k < 0.75:
            return r.choice(STRS)
        return r.choice(["None", "True", "False", "...", "()", "[]", "{}"])

    def expr(self, d=0):
        return self._expr(d)[0]

    def operand(self, d):
        """sub-expression in an operator position: parenthesise lambda / ternary / not"""
        s, low = self._expr(d)
        return f"({s})" if low else s

    def _expr(self, d):
        r = self.r
        if d > 3 or r.random() < 0.3:
            return self.atom(), False
        k = r.randrange(22)
        e = lambda: self.expr(d + 1)
        o = lambda: self.operand(d + 1)
        if k == 0:
            return f"{o()} {r.choice(BINOPS)} {o()}", False
        if k == 1:
            return f"{o()} {r.choice(CMPOPS)} {o()}" + (f" {r.choice(CMPOPS)} {o()}" if r.random() < 0.3 else ""), False
        if k == 2:
            return f"{o()} {r.choice(['and', 'or'])} {o()}", False
        if k == 3:
            op = r.choice(['not ', '-', '+', '~'])
            return f"{op}{o()}", op == 'not '
        if k == 4:
            return f"({e()})", False
        if k == 5:
            return ("(" + ", ".join(e() for _ in range(r.randrange(1, 4))) + ("," if r.random() < 0.5 else "") + ")"
                    if r.random() < 0.8 else "(" + e() + ",)"), False
        if k == 6:
            return "[" + ", ".join(self.star_or(d) for _ in range(r.randrange(0, 4))) + "]", False
        if k == 7:
            return "{" + ", ".join((f"{e()}: {e()}" if r.random() < 0.85 else f"**{self.prim(d)}") for _ in range(r.randrange(1, 4))) + "}", False
        if k == 8:
            return "{" + ", ".join(e() for _ in range(r.randrange(1, 4))) + "}", False
        if k == 9:
            return f"{self.prim(d)}({self.args(d)})", False
        if k == 10:
            return f"{self.prim(d)}.{r.choice(SAFE_NAMES)}", False
        if k == 11:
            return f"{self.prim(d)}[{self.subscript(d)}]", False
        if k == 12:
            return f"({o()} if {o()} else {e()})", False
        if k == 13:
            return f"(lambda {self.lam_params()}: {e()})", False
        if k == 14:
            return f"[{e()} {self.comp(d)}]", False
        if k == 15:
            return r.choice([f"{{{e()} {self.comp(d)}}}", f"{{{e()}: {e()} {self.comp(d)}}}", f"({e()} {self.comp(d)})"]), False
        if k == 16:
            return f"({r.choice(SAFE_NAMES)} := {e()})", False
        if k == 17:
            return f"{self.prim(d)}({e()} {self.comp(d)})", False
        if k == 18:
            return f"{o()} if {o()} else {e()}", True
        if k == 19:
            return f"lambda: {e()}", True
        return self.atom(), False

    def prim(self, d):
        r = self.r
        k = r.random()
        if k < 0.6:
            return self.name()
        if k < 0.7:
            return f"({self.expr(d + 1)})"
        if k < 0.8:
            return r.choice(["'s'", '"d"', "[]", "{}", "(1)", "x.y", "f()", "a[0]", "1 .real", "1.5.real"])
        return r.choice(SAFE_NAMES)

    def star_or(self, d):
        return ("*" + self.prim(d)) if self.r.random() < 0.15 else self.expr(d + 1)

    def args(self, d):
        r = self.r
        out = [self.star_or(d) for _ in range(r.randrange(0, 3))]
        out += [f"{r.choice(SAFE_NAMES)}={self.expr(d + 1)}" for _ in range(r.randrange(0, 2))]
        if r.random() < 0.15:
            out.append("**" + self.prim(d))
        s = ", ".join(out)
        if out and r.random() < 0.2:
            s += ","
        return s

    def subscript(self, d):
        r = self.r
        k = r.random()
        e = lambda: self.expr(d + 1)
        if k < 0.4:
            return e()
        if k < 0.7:
            return r.choice([":", f"{e()}:", f":{e()}", f"{e()}:{e()}", f"{e()}:{e()}:{e()}", "::", f"::{e()}"])
        if k < 0.9:
            return f"{e()}, {e()}"
        return f"{e()}:{e()}, ..."

    def comp(self, d):
        r = self.r
        s = f"for {self.target()} in {self.operand(d + 2)}"
        if r.random() < 0.4:
            s += f" if {self.operand(d + 2)}"
        if r.random() < 0.2:
            s += f" for {r.choice(SAFE_NAMES)} in {self.prim(d)}"
        return s

    def lam_params(self):
        r = self.r
        return r.choice(["", "a", "a, b", "a=1", "*a", "**k", "a, *b, c=2", "a, /, b", "*, a"])

    def target(self):
        r = self.r
        return r.choice(["x", "a, b", "(a, b)", "[a, b]", "a, *b", "x.y", "x[0]", "i", "(i)", "a, (b, c)"])

    # ---------------------------------------------------------------- statements
    def simple(self, ctx):
        r = self.r
        k = r.randrange(20)
        e = self.expr
        if k == 0:
            return f"{self.target()} = {e()}"
        if k == 1:
            return f"{r.choice(SAFE_NAMES)} = {r.choice(SAFE_NAMES)} = {e()}"
        if k == 2:
            return f"{r.choice(['x', 'x.y', 'x[0]'])} {r.choice(AUG)} {e()}"
        if k == 3:
            return r.choice([f"x: {e(2)} = {e()}", f"x: {e(2)}", f"(x): int = {e()}", f"x.y: int", f"x[0]: {e(2)} = 1"])
        if k == 4:
            return e()
        if k == 5:
            return f"{self.prim(0)}({self.args(0)})"
        if k == 6:
            return "pass"
        if k == 7:
            return r.choice(["break", "continue"]) if ctx.get("loop") else "pass"
        if k == 8:
            return (r.choice(["return", f"return {e()}", f"return {e()}, {e()}", f"return {e()}, *{self.prim(0)}"])
                    if ctx.get("func") else "pass")
        if k == 9:
            return f"del {r.choice(['x', 'x, y', 'x.y', 'x[0]', '(x)', '(x, y)', '[x]'])}"
        if k == 10:
            return f"assert {e()}" + (f", {e()}" if r.random() < 0.5 else "")
        if k == 11:
            return r.choice(["raise", f"raise {e()}", f"raise {e()} from {e()}"])
        if k == 12:
            return r.choice(["import os", "import os.path as p, sys", "from . import x", "from .. import (x, y)",
                             "from a.b import (c as d,\n    e,\n)", "from x import *", "from .m import y as z",
                             "from ...m import (\n    y\n)"])
        if k == 13:
            return (r.choice([f"x = yield {e()}", "yield", f"yield {e()}", f"yield {e()}, {e()}", f"x = yield", f"yield from {e()}",
                              f"x = (yield)", f"await {e()}" if ctx.get("async") else "yield"])
                    if ctx.get("func") else e())
        if k == 14:
            return "global g1" if ctx.get("func") else "pass"
        if k == 15:
            return r.choice(STRS)
        if k == 16:
            return f"{r.choice(['match', 'case', 'type', 'print'])}({self.args(0)})"
        if k == 17:
            return r.choice([f"match = {e()}", f"case = {e()}", f"type = {e()}", f"match.x = {e()}", f"type(x).y = 1",
                             f"match, case = 1, 2", "match * case", "match - 1", "-match", "match in x"])
        if k == 18:
            return f"x = {e()}, {e()}"
        return f"{e()}; {e()}"

    def simple_line(self, ctx):
        r = self.r
        n = 1 if r.random() < 0.8 else r.randrange(2, 4)
        parts = [self.simple(ctx) for _ in range(n)]
        s = "; ".join(parts)
        if n > 1 and r.random() < 0.3:
            s += ";"
        return s

    def ind(self, lines):
        out = []
        for block in lines:
            for l in block.split("\n"):
                out.append(l)
        return out

    def suite(self, ctx, d):
        """list of physical lines (unindented); multi-line tokens keep their own continuation text"""
        r = self.r
        n = r.choice([1, 1, 2, 2, 3])
        out = []
        for _ in range(n):
            out += self.stmt(ctx, d)
        return out

    def body(self, ctx, d, header):
        """header + indented suite, or a one-line suite"""
        r = self.r
        if r.random() < 0.2:
            s = self.simple_line(ctx)
            if "\n" not in s:
                return [header + " " + s]
        lines = self.suite(ctx, d + 1)
        return [header] + self.indent(lines)

    def indent(self, lines):
        # physical lines that continue a multi-line string token must not be re-indented
        out = []
        for l in lines:
            if isinstance(l, tuple):
                out.append(l)
            else:
                out.append("    " + l)
        return out

    def stmt(self, ctx, d):
        r = self.r
        if d >= 3 or r.random() < 0.45:
            s = self.simple_line(ctx)
            # a multi-line token: first physical line is indentable, the rest is verbatim
            parts = s.split("\n")
            return [parts[0]] + [(p,) for p in parts[1:]]
        k = r.randrange(14)
        e = lambda: self.flat(self.expr(1))
        if k == 0:
            out = self.body(ctx, d, f"if {e()}:")
            for _ in range(r.randrange(0, 3)):
                out += self.body(ctx, d, f"elif {e()}:")
            if r.random() < 0.5:
                out += self.body(ctx, d, "else:")
            return out
        if k == 1:
            c2 = dict(ctx, loop=True)
            out = self.body(c2, d, f"while {e()}:")
            if r.random() < 0.3:
                out += self.body(ctx, d, "else:")
            return out
        if k == 2:
            c2 = dict(ctx, loop=True)
            pre = "async " if ctx.get("async") and r.random() < 0.6 else ""
            out = self.body(c2, d, f"{pre}for {self.target()} in {e()}:")
            if r.random() < 0.3:
                out += self.body(ctx, d, "else:")
            return out
        if k == 3:
            out = self.body(ctx, d, "try:")
            star = r.random() < 0.15
            kind = r.randrange(3)
            if kind != 2:
                for _ in range(r.randrange(1, 3)):
                    h = r.choice(["except E:", "except (A, B) as e:", "except E as e:", "except a.b:"])
                    if star:
                        h = h.replace("except", "except*")
                    out += self.body(ctx, d, h)
                if not star and r.random() < 0.3:
                    out += self.body(ctx, d, "except:")
                if r.random() < 0.3:
                    out += self.body(ctx, d, "else:")
            if kind != 0:
                out += self.body(ctx, d, "finally:")
            return out
        if k == 4:
            pre = "async " if ctx.get("async") and r.random() < 0.6 else ""
            items = r.choice([f"{e()}", f"{e()} as x", f"{e()} as x, {e()} as y", f"({e()} as x, {e()})", f"({e()}) as x",
                              f"({e()}), {e()}", f"({e()} as x,)", f"{e()} as (a, b)", "(a, b)", "(a, b) as c", "(a), (b)",
                              f"({e()},\n      {e()} as z)"])
            parts = (f"{pre}with {items}:").split("\n")
            out = self.body(ctx, d, parts[-1])
            return parts[:-1] + [(p,) for p in out[:1]] + out[1:] if len(parts) > 1 else out
        if k in (5, 6):
            asy = r.random() < 0.4
            c2 = {"func": True, "async": asy}
            decos = ["@" + r.choice(["d", "a.b", "d(1)", "(d)", "x[0]", "d(a,\n   b)"]) for _ in range(r.choice([0, 0, 1, 2]))]
            params = r.choice(["", "a", "self, a, b=1", "*a, **k", "a: int, b: str = 's'", "a, /, b, *, c", "*, a=1",
                               "a=(1,\n  2)", "a,\n    b,\n", "a: 'T' = None, *args: int, **kw: str"])
            ret = r.choice(["", "", " -> int", " -> 'T'", " -> (int)"])
            h = f"{'async ' if asy else ''}def {r.choice(SAFE_NAMES + ['match', 'type', 'case'])}({params}){ret}:"
            hp = h.split("\n")
            out = self.body(c2, d, hp[-1])
            pre = []
            for dd in decos:
                q = dd.split("\n")
                pre += [q[0]] + [(p,) for p in q[1:]]
            return pre + hp[:1] * (len(hp) > 1) + [(p,) for p in hp[1:-1]] + ([(out[0],)] if len(hp) > 1 else [out[0]]) + out[1:]
        if k == 7:
            bases = r.choice(["", "", "()", "(B)", "(B, C)", "(B, metaclass=M)", "(*bases)", "(B, **kw)"])
            return self.body({}, d, f"class {r.choice(['A', 'B_1', 'type', 'match'])}{bases}:")
        if k == 8:
            subj = r.choice([e(), "x", "(x)", "x, y", "(x, y)", "[x]", "match", "case", "-x", "x.y", "f(x)", "*a, b", "{}", "(yield)"]
                            if ctx.get("func") else [e(), "x", "(x)", "x, y", "(x, y)", "[x]", "match", "case", "-x", "x.y", "f(x)", "{}"])
            out = [f"match {subj}:"]
            for _ in range(r.randrange(1, 4)):
                pat = r.choice(["1", "-1", "1+2j", "'s'", "'a' 'b'", "None", "x", "_", "a.b", "[a, b]", "[a, *_]", "(a, b)", "(a)",
                                "a, b", "{'k': v}", "{'k': v, **rest}", "{}", "C()", "C(a, b=1)", "a.B(x=2)", "1 | 2", "x as y",
                                "(1 | 2) as z", "[1, [2, _]]", "*a, b", "C(a, (b | c))", "{1: _, 'x': [q]}", "True", "()", "[]",
                                "match", "case", "type()", "(\n    1 |\n    2\n)"])
                guard = f" if {e()}" if r.random() < 0.3 else ""
                hp = f"case {pat}{guard}:".split("\n")
                b = self.body(ctx, d + 1, hp[-1])
                blk = hp[:1] * (len(hp) > 1) + [(p,) for p in hp[1:-1]] + ([(b[0],)] if len(hp) > 1 else [b[0]]) + b[1:]
                out += self.indent(blk)
            return out
        if k == 9:
            return [f"if {e()}: {self.flat(self.simple(ctx))}"]
        if k == 10:
            # bracketed multi-line statement
            return ["x = [", ("    1,",), ("        2,  # c",), ("]",)]
        if k == 11:
            return [f"x = {e()} \\", ("    + 1",)]
        if k == 12:
            return ["class K: pass", "def g(): return 1"]
        return ["pass"]

    def flat(self, s):
        """expressions used in headers: keep them on one physical line unless inside their own brackets"""
        if "\n" in s:
            return "(" + s + ")" if not s.startswith("(") else s
        return s

    def program(self):
        r = self.r
        lines = []
        if r.random() < 0.2:
            lines.append(r.choice(['"""doc"""', "'''doc\n   more\n'''", "# leading comment", "#!/usr/bin/python"]))
        for _ in range(r.randrange(1, 6)):
            lines += self.stmt({}, 0)
        return self.render(lines)

    def render(self, lines, prefix=""):
        out = []
        for l in lines:
            # tuples mark physical lines that continue a multi-line token: emitted verbatim (no extra indent),
            # possibly nested in tuples by several indent() passes
            while isinstance(l, tuple):
                l = l[0]
            out.append(l)
        return "\n".join(out) + ("\n" if self.r.random() < 0.9 else "")

    def expression(self):
        return self.expr(0)
