#!/usr/bin/env python3
"""tools/seedrebase.py <seed-name>...
Rebase a stored seeded change whose ONLY conflict with the current /repo is the `// sha3:` header line of
parser/src/python.rs (every `fix:` commit that touches python.lalrpop changes that line).  The hunks are applied with
`git apply --reject` in a scratch worktree, the header is recomputed from the patched python.lalrpop, the original patch is
kept as patch.orig-<head>.diff and patch.diff is replaced.  Any other rejected hunk aborts (the seed stays stale)."""
import glob, hashlib, os, re, shutil, subprocess, sys
V = os.path.dirname(os.path.dirname(os.path.abspath(__file__)))
head = subprocess.run(["git", "-C", "/repo", "rev-parse", "--short", "HEAD"], stdout=subprocess.PIPE, text=True).stdout.strip()
for n in sys.argv[1:]:
    d = os.path.join(V, "seeded", n)
    wt = f"/tmp/scratch/rebase-{n}"
    subprocess.run(["git", "-C", "/repo", "worktree", "remove", "--force", wt], stderr=subprocess.DEVNULL)
    subprocess.run(["git", "-C", "/repo", "worktree", "add", "--detach", wt, "HEAD"], stdout=subprocess.DEVNULL, stderr=subprocess.DEVNULL)
    try:
        subprocess.run(["git", "-C", wt, "apply", "--reject", os.path.join(d, "patch.diff")], stdout=subprocess.DEVNULL, stderr=subprocess.DEVNULL)
        rej = [os.path.relpath(p, wt) for p in glob.glob(wt + "/**/*.rej", recursive=True)]
        ok = rej in ([], ["parser/src/python.rs.rej"])
        if ok and rej:
            txt = open(os.path.join(wt, rej[0])).read()
            ok = txt.count("@@") == 2 and "// sha3:" in txt
        if not ok:
            print(n, "NOT rebased: rejected hunks", rej)
            continue
        for r in rej:
            os.remove(os.path.join(wt, r))
        h = hashlib.sha3_256(open(wt + "/parser/src/python.lalrpop", "rb").read()).hexdigest()
        p = wt + "/parser/src/python.rs"
        s = open(p).read()
        s = re.sub(r"^// sha3: [0-9a-f]+$", "// sha3: " + h, s, count=1, flags=re.M)
        open(p, "w").write(s)
        diff = subprocess.run(["git", "-C", wt, "diff"], stdout=subprocess.PIPE, text=True).stdout
        shutil.copy(os.path.join(d, "patch.diff"), os.path.join(d, f"patch.orig-before-{head}.diff"))
        open(os.path.join(d, "patch.diff"), "w").write(diff)
        print(n, "rebased onto", head)
    finally:
        subprocess.run(["git", "-C", "/repo", "worktree", "remove", "--force", wt], stderr=subprocess.DEVNULL)
        shutil.rmtree(wt, ignore_errors=True)
