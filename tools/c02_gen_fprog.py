#!/usr/bin/env python3
"""Generate lean/PV/C02/FProg*.lean: the program-level soundness proof (RProgPlain, RProgSoundBase, RProgSoundSeq,
RProgSoundNodes, RProgSoundItems, RProgSound1-4) re-run in the namespace PV.C02.F over `F.soundAt`, i.e. with `plain`
admitting f-string literals one level deep and the tie `FTie` carried by every function of the program parser.

Part 1 (mechanical): every file is copied into `namespace PV.C02.F`; definitions that do not depend (transitively) on a
name redefined in `PV.C02.F` are NOT copied (the originals are reused, so that dot notation on `RStmt`, `TF`, … keeps
meaning the same constant); `x.plain` dot notation on parameter types is rewritten to the `F` functions; the macros are
renamed (`sgpF`, `rstepF1`, `rstepF`); every statement `parseRX σ … = some (…, rest) →` becomes
`… → FTie src σ ts → FTie src σ rest ∧` and the automation gets `ftie_tails`.
Part 2: exact text replacements for the hand-written steps (each asserts that its anchor is present).
Usage: python3 tools/c02_gen_fprog.py"""
import re, os, sys
ROOT = os.path.dirname(os.path.dirname(os.path.abspath(__file__)))
D = os.path.join(ROOT, "lean", "PV", "C02")

FILES = ["RProgPlain", "RProgSoundBase", "RProgSoundSeq", "RProgSoundNodes", "RProgSoundItems",
         "RProgSound1", "RProgSound2", "RProgSound3", "RProgSound4"]
OUT = {f: "FProg" + f[len("RProg"):] for f in FILES}          # RProgSound1 -> FProgSound1
IMPORTS = {"RProgPlain": ["PV.C02.FProgTie"]}

DECL = re.compile(r"^(theorem|def|structure|inductive|abbrev|instance|macro|open Lean in|grind_pattern|attribute|@\[|/--|/-!|"
                  r"section|end|variable|include|namespace|mutual|set_option|omit|private|local)\b|^(@\[|/--|/-!)")
NAME = re.compile(r"^(?:@\[[^\]]*\]\s*)?(?:private\s+)?(theorem|def|structure|inductive|abbrev)\s+([^\s(:{\[]+)")
TOKEN = re.compile(r"[A-Za-z_][\w.']*")

def declared(path):
    out = set()
    for line in open(path):
        m = NAME.match(line)
        if m: out.add(m.group(2))
    return out

def chunks(body):
    """split the text of a namespace body into top-level chunks; doc comments / attributes / `omit … in` / `open Lean in`
    stay with the declaration that follows; `mutual … end` is one chunk"""
    lines = body.split("\n")
    res, cur, in_mutual, in_comment = [], [], False, False
    def glue(c):  # chunk consists only of a prefix (doc comment, attribute line, omit/open-in)
        t = "\n".join(c).strip()
        if not t: return True
        first = t.split("\n")[0]
        if t.startswith("/--") and t.rstrip().endswith("-/") : return True
        if re.match(r"^@\[[^\]]*\]\s*$", t): return True
        if re.match(r"^(omit \w+ in|open Lean in)\s*$", t): return True
        return False
    for ln in lines:
        if in_comment:
            cur.append(ln)
            if "-/" in ln: in_comment = False
            continue
        starts = bool(DECL.match(ln))
        if in_mutual:
            cur.append(ln)
            if ln.strip() == "end": in_mutual = False
            continue
        if starts and cur and not glue(cur):
            res.append("\n".join(cur)); cur = []
        cur.append(ln)
        if ln.startswith("mutual"): in_mutual = True
        if (ln.startswith("/--") or ln.startswith("/-!") or ln.startswith("/-")) and "-/" not in ln: in_comment = True
    if cur: res.append("\n".join(cur))
    return res

def decl_names(chunk):
    names = []
    for ln in chunk.split("\n"):
        m = NAME.match(ln.strip()) if ln.startswith((" ", "\t")) is False else None
        if m: names.append((m.group(1), m.group(2)))
    return names

def tainted_chunk(chunk, tainted):
    for tok in TOKEN.findall(chunk):
        if tok in tainted: return True
        if tok.endswith(".plain"): return True
        for part in tok.split("."):
            if part in tainted: return True
    return False

def thread(body):
    def f(m):
        return m.group(0) + " FTie src σ ts → FTie src σ rest ∧"
    return re.sub(r"\b[a-zA-Z]\w* σ[^\n]*? = some \([^\n]*?, rest\) →", f, body)

def gen():
    tainted = set()
    for f in ["FSoundNodes.lean", "FSoundIdx.lean", "FSoundSteps.lean"]:
        tainted |= {n.split(".")[-1] if n.count(".") == 0 else n for n in declared(os.path.join(D, f))}
    tainted |= {"soundAt", "SoundAt", "FTie"}
    for f in FILES:
        s = open(os.path.join(D, f + ".lean")).read()
        a = s.index("namespace PV.C02\n") + len("namespace PV.C02\n")
        b = s.rindex("end PV.C02")
        body = s[a:b]
        # dot notation on parameter types
        body = body.replace("p.arg.plain", "(RArg.plain p.arg)")
        body = body.replace("| some a => a.plain", "| some a => RArg.plain a")
        body = body.replace("→ p.plain = (plainO an", "→ RArgD.plain p = (plainO an")
        body = re.sub(r"\b(a|ps)\.plain\b", r"(RArguments.plain \1)", body)
        body = body.replace("PV.C02.plain", "PV.C02.F.plain")
        # macros
        body = body.replace('macro "sgp" : tactic', 'macro "sgpF" : tactic')
        body = re.sub(r"(\s)sgp\)\)\)", r"\1ftie_tails; ftie_tails; ftie_tails\n      sgpF)))", body)
        body = body.replace('macro "rstep1" sg', 'macro "rstepF1" sg').replace('macro "rstep" sg', 'macro "rstepF" sg')
        body = body.replace("all_goals rstep1 $sg", "all_goals rstepF1 $sg")
        body = re.sub(r"\brstep1 σ \[", "rstepF1 σ [", body)
        body = re.sub(r"\brstep σ \[", "rstepF σ [", body)
        if f == "RProgSound1":
            body = body.replace("    intro h\n    try simp only [PostE,", "    intro h\n    try intro hT\n    try simp only [PostE,", 1)
            body = body.replace("      clear hS hE hSp\n      $[$round:tactic]*",
                                "      clear hS hE hSp\n      ftie_tails; ftie_tails; ftie_tails\n      $[$round:tactic]*", 1)
            body = body.replace("      try simp only [List.length_cons] at *\n      $[$round:tactic]*",
                                "      try simp only [List.length_cons] at *\n      ftie_tails; ftie_tails; ftie_tails\n      $[$round:tactic]*")
            body = body.replace("RCase.range, RCase.body, RHandler.body, derivedEnd])",
                                "RCase.range, RCase.body, RHandler.body, derivedEnd, FTie, ftie_dottedTail, ftie_parseAsOpt])")
        if f.startswith("RProgSound") and f[-1].isdigit():
            body = thread(body)
            body = body.replace("@dottedTail_len", "@dottedTail_len, @ftie_dottedTail")
            body = body.replace("@parseAsOpt_len", "@parseAsOpt_len, @ftie_parseAsOpt")
            body = body.replace("parseIdents_len _,", "parseIdents_len _, ftie_parseIdents _,")
            body = body.replace("  have hd := importDots_len ts\n",
                                "  have hd := importDots_len ts\n  have hdT : ∀ lvl n r, importDots ts = (lvl, n, r) → FTie src σ ts → FTie src σ r :=\n"
                                "    fun lvl n r h hT => by have := ftie_importDots ts hT; rw [h] at this; exact this\n")
        out = []
        for c in chunks(body):
            names = decl_names(c)
            kinds = {k for k, _ in names}
            if names and kinds <= {"def", "abbrev", "structure", "inductive"}:
                if tainted_chunk(c, tainted):
                    for _, n in names: tainted.add(n); tainted.add(n.split(".")[-1]) if False else None
                    out.append(c)
                else:
                    out.append("-- (reused from PV.C02: " + ", ".join(n for _, n in names) + ")")
            else:
                for k, n in names:
                    pass
                out.append(c)
        body = "\n".join(out)
        body = PATCH.get(f, lambda x: x)(body)
        imps = IMPORTS.get(f)
        if imps is None:
            prev = FILES[FILES.index(f) - 1]
            imps = ["PV.C02." + OUT[prev]]
        hdr = "".join("import %s\n" % i for i in imps) + (
            "/-\n  GENERATED by tools/c02_gen_fprog.py from %s.lean — do not edit.  The same proof in the namespace `PV.C02.F`\n"
            "  (`plain` admits f-string literals one level deep; the tie `FTie` is carried by every parser function).\n-/\n"
            "set_option linter.unusedSimpArgs false\nset_option linter.unusedVariables false\nnamespace PV.C02.F\n" % f)
        open(os.path.join(D, OUT[f] + ".lean"), "w").write(hdr + body + "end PV.C02.F\n")

# ---------------- part 2: hand-written steps (filled in below)
def rep(s, old, new, cnt=1):
    assert s.count(old) >= 1, old[:80]
    return s.replace(old, new, cnt)

def patch1(s):
    s = rep(s, """  fun_cases parseRImportFrom σ f ts
""", """  fun_cases parseRImportFrom σ f ts
  all_goals (try (have hdT' := fun hT => hdT _ _ _ ‹importDots ts = _› hT))
  all_goals (try (have hdT2 := fun hT => ftie_dottedTail (src := src) (σ := σ) ‹dottedTail _ _ = some _› hT))
""")
    s = rep(s, """    (h : parseRElem σ ek f ts = some (e, rest)) : PostE src σ ts e rest := by""",
            """    (h : parseRElem σ ek f ts = some (e, rest)) (hT : FTie src σ ts) : FTie src σ rest ∧ PostE src σ ts e rest := by""")
    for fn in ["testOrStar", "exprOrStar", "starOrNamed", "test"]:
        s = rep(s, "  · exact S.%s _ _ _ hN h\n" % fn, "  · exact S.%s _ _ _ hN h hT\n" % fn)
    s = rep(s, """  intro ts e rest hN h
  unfold parseRTestListS at h""", """  intro ts e rest hN h hT
  unfold parseRTestListS at h""")
    s = rep(s, """    exact genericListR_sound T hN (commaList_sound T f _ _ _ _ _ hN hc)""",
            """    obtain ⟨t1, c⟩ := commaList_sound T f _ _ _ _ _ hN hc hT
    exact ⟨t1, genericListR_sound T hN c⟩""")
    s = rep(s, """  fun ek ts es tc rest hN h => genericListR_sound T hN (commaList_sound T f _ _ _ _ _ hN h)""",
            """  fun ek ts es tc rest hN h hT =>
    ⟨(commaList_sound T f _ _ _ _ _ hN h hT).1, genericListR_sound T hN (commaList_sound T f _ _ _ _ _ hN h hT).2⟩""")
    return s

def patch2(s):
    s = rep(s, """  · rename_i acc d n r ih
    intro h
    simp only [List.length_cons] at h1 h3""", """  · rename_i acc d n r ih
    intro h hT
    simp only [List.length_cons] at h1 h3""")
    s = rep(s, """    obtain ⟨g1, g2, g3⟩ := ih e d' rest rfl (by omega) h2 hw h
    simp only [List.length_cons]
    refine ⟨by omega, g2, Or.inr ?_⟩""", """    obtain ⟨t1, g1, g2, g3⟩ := ih e d' rest rfl (by omega) h2 hw h hT.2.2
    simp only [List.length_cons]
    refine ⟨t1, by omega, g2, Or.inr ?_⟩""")
    s = rep(s, """  · intro h
    simp only [Option.some.injEq, Prod.mk.injEq] at h
    obtain ⟨rfl, rfl, rfl⟩ := h
    exact ⟨Nat.le_refl _, h3, Or.inl ⟨rfl, rfl, rfl⟩⟩""", """  · intro h hT
    simp only [Option.some.injEq, Prod.mk.injEq] at h
    obtain ⟨rfl, rfl, rfl⟩ := h
    exact ⟨hT, Nat.le_refl _, h3, Or.inl ⟨rfl, rfl, rfl⟩⟩""")
    s = rep(s, """  intro ts p rest hN h
  unfold parseRPatterns at h""", """  intro ts p rest hN h hT
  unfold parseRPatterns at h""")
    s = rep(s, """    obtain ⟨g1, _, _, g4⟩ := (patSAt T f).patternList _ _ _ _ hN hl
    exact ⟨g1, g4 _ rfl rfl⟩""", """    obtain ⟨t1, g1, _, _, g4⟩ := (patSAt T f).patternList _ _ _ _ hN hl hT
    exact ⟨t1, g1, g4 _ rfl rfl⟩""")
    s = rep(s, """    obtain ⟨g1, _, g3, _⟩ := (patSAt T f).patternList _ _ _ _ hN hl
    exact ⟨g1, wp_matchSequence""", """    obtain ⟨t1, g1, _, g3, _⟩ := (patSAt T f).patternList _ _ _ _ hN hl hT
    exact ⟨t1, g1, wp_matchSequence""")
    return s

def patch3(s):
    s = rep(s, """    (h : typedItemR σ f ts ps ph = some (ps', ph', r)) :
    r.length < ts.length ∧ AInv src σ j0 (r.length + 1) ph' ps' := by""",
            """    (h : typedItemR σ f ts ps ph = some (ps', ph', r)) (hT : FTie src σ ts) :
    r.length < ts.length ∧ AInv src σ j0 (r.length + 1) ph' ps' := by""")
    s = rep(s, """        obtain ⟨a1, a2, a3⟩ := annOpt_sound T f _ _ _ _ (by omega) han""",
            """        obtain ⟨at1, a1, a2, a3⟩ := annOpt_sound T f _ _ _ _ (by omega) han (by first | exact hT.2 | exact hT.2.2)""", 3)
    s = rep(s, """          obtain ⟨d1, d2, d3⟩ := defaultOpt_sound T f _ _ _ (by omega) hd""",
            """          obtain ⟨dt1, d1, d2, d3⟩ := defaultOpt_sound T f _ _ _ (by omega) hd at1""")
    s = rep(s, """def TypedParamsSpec""", """theorem typedItemR_tie (T : TiledTab src σ N) {f ts ps ph ps' ph' r j0} (hj : ts.length ≤ j0) (hN : j0 + 1 ≤ N)
    (h : typedItemR σ f ts ps ph = some (ps', ph', r)) (hT : FTie src σ ts) : FTie src σ r := by
  unfold typedItemR at h
  repeat' split at h
  all_goals (try (cases h; done))
  all_goals (simp only [Option.some.injEq, Prod.mk.injEq] at h; obtain ⟨_, _, rfl⟩ := h)
  all_goals (try simp only [List.length_cons] at hj)
  all_goals (first
    | exact hT.2
    | exact hT.2.2
    | exact (annOpt_sound T f _ _ _ _ (by omega) (by assumption) hT.2.2).1
    | (obtain ⟨a0, a1, _⟩ := annOpt_sound T f _ _ _ _ (by omega) ‹parseRAnnOpt _ _ _ _ = some _› hT.2
       exact (defaultOpt_sound T f _ _ _ (by omega) ‹parseRDefaultOpt _ _ _ = some _› a0).1))

def TypedParamsSpec""")
    s = rep(s, """  intro ts ps ph ps' rest j0 hP hj hN h
  cases n with
  | zero => simp [parseRTypedParams] at h""", """  intro ts ps ph ps' rest j0 hP hj hN h hT
  cases n with
  | zero => simp [parseRTypedParams] at h""")
    s = rep(s, """      obtain ⟨hl, hP1⟩ := typedItemR_sound T hP hj hN hi
""", """      obtain ⟨hl, hP1⟩ := typedItemR_sound T hP hj hN hi hT
      have hTr := typedItemR_tie T hj hN hi hT
""")
    s = rep(s, """          exact ⟨by omega, ph1, ainv_mono T hP1 (by omega) (by omega) (by omega)⟩""",
            """          exact ⟨hTr.2.2, by omega, ph1, ainv_mono T hP1 (by omega) (by omega) (by omega)⟩""")
    s = rep(s, """        obtain ⟨g1, ph', g2⟩ := ih _ _ _ _ _ j0 (ainv_mono T hP1 (by omega) (by omega) (by omega)) (by omega) hN h
        exact ⟨by omega, ph', g2⟩""", """        obtain ⟨t1, g1, ph', g2⟩ := ih _ _ _ _ _ j0 (ainv_mono T hP1 (by omega) (by omega) (by omega)) (by omega) hN h hTr.2
        exact ⟨t1, by omega, ph', g2⟩""")
    s = rep(s, """          exact ⟨by omega, ph1, hP1⟩""", """          exact ⟨hTr.2, by omega, ph1, hP1⟩""")
    s = rep(s, """  intro ts a rest hN h
  cases f with
  | zero => simp [parseRParameters] at h""", """  intro ts a rest hN h hT
  cases f with
  | zero => simp [parseRParameters] at h""")
    s = rep(s, """      simp only [List.length_cons] at hN ⊢
      refine ⟨by omega, ?_⟩
      have := wargs_mk""", """      simp only [List.length_cons] at hN ⊢
      refine ⟨hT.2, by omega, ?_⟩
      have := wargs_mk""")
    s = rep(s, """          obtain ⟨g1, ph', g2⟩ := typedParams_sound T f _ _ _ _ _ ts0.length (ainv_empty src σ _ _ _) (Nat.le_refl _) hN hp
          refine ⟨by omega, ?_⟩""", """          obtain ⟨t1, g1, ph', g2⟩ := typedParams_sound T f _ _ _ _ _ ts0.length (ainv_empty src σ _ _ _) (Nat.le_refl _) hN hp hT
          refine ⟨t1, by omega, ?_⟩""")
    s = rep(s, """    | (intro h
       rename_i hel hit""", """    | (intro h hT
       rename_i hel hit""")
    s = rep(s, """       obtain ⟨g1, g2, g3⟩ := withParenElems_sound T _ _ _ _ _ (by omega) hel""",
            """       obtain ⟨t1, g1, g2, g3⟩ := withParenElems_sound T _ _ _ _ _ (by omega) hel hT""")
    s = rep(s, """       exact ⟨by omega, this.1, this.2⟩)""",
            """       first | exact ⟨t1, by omega, this.1, this.2⟩ | exact ⟨t1.2, by omega, this.1, this.2⟩)""")
    return s

def patch4(s):
    # firstR
    s = rep(s, """    · rename_i s r hc
      intro h
      simp only [Option.some.injEq, Prod.mk.injEq] at h
      obtain ⟨rfl, rfl⟩ := h
      obtain ⟨g1, j, k, g2, g3, g4, g5, g6, _⟩ := ih.compound _ _ _ hN hc
      exact ⟨g1, by simp,""", """    · rename_i s r hc
      intro h hT
      simp only [Option.some.injEq, Prod.mk.injEq] at h
      obtain ⟨rfl, rfl⟩ := h
      obtain ⟨t1, g1, j, k, g2, g3, g4, g5, g6, _⟩ := ih.compound _ _ _ hN hc hT
      exact ⟨t1, g1, by simp,""")
    # elifs
    s = rep(s, """  intro ts cs rest hN h
  cases n with
  | zero => simp [parseRElifs] at h""", """  intro ts cs rest hN h hT
  cases n with
  | zero => simp [parseRElifs] at h""")
    s = rep(s, """      exact ⟨Nat.le_refl _, Or.inl ⟨rfl, rfl⟩⟩""", """      exact ⟨hT, Nat.le_refl _, Or.inl ⟨rfl, rfl⟩⟩""")
    s = rep(s, """        exact ⟨Nat.le_refl _, Or.inl ⟨rfl, rfl⟩⟩""", """        exact ⟨hT, Nat.le_refl _, Or.inl ⟨rfl, rfl⟩⟩""")
    s = rep(s, """              obtain ⟨t1, t2, _⟩ := (soundAt T _).namedTest _ _ _ (by omega) ht
              simp only [List.length_cons] at t1 t2
              obtain ⟨b1, b2, kb, b3, b4, b5, b6⟩ := ih.suite _ _ _ (by omega) hb
              obtain ⟨c1, c2⟩ := ih.elifs _ _ _ (by omega) hc
              refine ⟨by omega, Or.inr""", """              obtain ⟨tt, t1, t2, _⟩ := (soundAt T _).namedTest _ _ _ (by omega) ht hT.2
              simp only [List.length_cons] at t1 t2
              obtain ⟨bt, b1, b2, kb, b3, b4, b5, b6⟩ := ih.suite _ _ _ (by omega) hb tt.2
              obtain ⟨ct, c1, c2⟩ := ih.elifs _ _ _ (by omega) hc bt
              refine ⟨ct, by omega, Or.inr""")
    # match subject
    s = rep(s, """  intro ek ts es tc rest hN h
  obtain ⟨g1, g2, g3, g4⟩ := commaList_sound T f _ _ _ _ _ hN h
  exact ⟨g1, matchSubjectR_sound""", """  intro ek ts es tc rest hN h hT
  obtain ⟨t1, g1, g2, g3, g4⟩ := commaList_sound T f _ _ _ _ _ hN h hT
  exact ⟨t1, g1, matchSubjectR_sound""")
    # if … elif … else
    s = rep(s, """       rename_i _ _ _ _ ht _ _ hb _ _ hc _ _ he
       intro h""", """       rename_i _ _ _ _ ht _ _ hb _ _ hc _ _ he
       intro h hT""")
    s = rep(s, """       obtain ⟨t1, t2, _⟩ := (soundAt T _).namedTest _ _ _ (by omega) ht
       simp only [List.length_cons] at t1 t2
       obtain ⟨b1, b2, kb, b3, b4, b5, b6⟩ := ih.suite _ _ _ (by omega) hb
       have c := ih.elifs _ _ _ (by omega) hc
       have e := ih.else_ _ _ _ (by omega) he""", """       obtain ⟨tt, t1, t2, _⟩ := (soundAt T _).namedTest _ _ _ (by omega) ht hT.2
       simp only [List.length_cons] at t1 t2
       obtain ⟨bt, b1, b2, kb, b3, b4, b5, b6⟩ := ih.suite _ _ _ (by omega) hb tt.2
       obtain ⟨ct, c⟩ := ih.elifs _ _ _ (by omega) hc bt
       obtain ⟨et, e⟩ := ih.else_ _ _ _ (by omega) he ct""")
    s = rep(s, """       exact ⟨by omega, _, k, g1, g2, Nat.le_refl _, g3, g4, fun _ => rfl, g5⟩)""",
            """       exact ⟨et, by omega, _, k, g1, g2, Nat.le_refl _, g3, g4, fun _ => rfl, g5⟩)""")
    s = rep(s, """parseRProgramBody σ f ts = some ss → SeqS""", """parseRProgramBody σ f ts = some ss → FTie src σ ts → SeqS""")
    return s

PATCH = {"RProgSound1": patch1, "RProgSound2": patch2, "RProgSound3": patch3, "RProgSound4": patch4}

if __name__ == "__main__":
    gen()
