"""C12 translator: ast/src/gen/{generic,fold,visitor}.rs  ->  lean/PV/Gen/C12{Schema,FoldProg,VisitProg}.lean

Strict scanner (stdlib only).  Every construct is matched against an exact shape; anything else raises
TranslateError — the translator never guesses.  `translate()` returns the parsed data (used by
tools/props/c12.py to encode trees) and `emit()` writes the Lean files (only when their content changed).
"""
import os
import re

import core


class TranslateError(Exception):
    pass


def _fail(msg):
    raise TranslateError(msg)


LEAF_TYPES = {"Identifier", "String", "Int", "bool", "Constant", "ConversionFlag"}
INTERESTING_SUMS = ["Stmt", "Expr", "Pattern", "ExceptHandler"]


def _strip_comments(src):
    out = []
    for line in src.split("\n"):
        s = line.strip()
        if s.startswith("//"):
            continue
        out.append(line)
    return "\n".join(out)


# ------------------------------------------------------------------ generic.rs

def parse_type(t):
    """-> nested tuple: ('leaf', name) | ('node', name) | ('box', T) | ('vec', T) | ('opt', T)"""
    t = t.strip()
    for pre, tag in (("Box<", "box"), ("Vec<", "vec"), ("Option<", "opt")):
        if t.startswith(pre):
            if not t.endswith(">"):
                _fail(f"type {t!r}")
            return (tag, parse_type(t[len(pre):-1]))
    m = re.fullmatch(r"([A-Z][A-Za-z0-9]*)<R>", t)
    if m:
        return ("node", m.group(1))
    m = re.fullmatch(r"[A-Za-z][A-Za-z0-9]*", t)
    if m:
        return ("leaf", t)
    _fail(f"unrecognised field type {t!r}")


def parse_generic(src):
    src = _strip_comments(src)
    sums = {}      # name -> [(variant, struct)]
    simple = {}    # name -> [variant]
    structs = {}   # name -> {"range": 1|2, "fields": [(fname, type)]}
    order = []
    pos = 0
    item = re.compile(r"^pub (enum|struct) ([A-Za-z0-9]+)(<R = TextRange>)? \{\n(.*?)^\}\n", re.M | re.S)
    # every `pub enum` / `pub struct` with a body must be matched by `item`
    n_decl = len(re.findall(r"^pub (?:enum|struct) [A-Za-z0-9]+(?:<R = TextRange>)? \{", src, re.M))
    found = 0
    for m in item.finditer(src):
        found += 1
        what, name, generic, body = m.groups()
        lines = [l.strip() for l in body.split("\n") if l.strip()]
        if what == "enum":
            if generic:
                vs = []
                for l in lines:
                    if re.fullmatch(r'#\[is\(name = "[a-z_]+"\)\]', l):
                        continue
                    mm = re.fullmatch(r"([A-Za-z0-9]+)\(([A-Za-z0-9]+)<R>\),", l)
                    if not mm:
                        _fail(f"enum {name}: unrecognised variant line {l!r}")
                    vs.append((mm.group(1), mm.group(2)))
                sums[name] = vs
            else:
                vs = []
                for l in lines:
                    mm = re.fullmatch(r"([A-Za-z0-9]+),", l)
                    if not mm:
                        _fail(f"simple enum {name}: unrecognised variant line {l!r}")
                    vs.append(mm.group(1))
                simple[name] = vs
        else:
            if not generic:
                _fail(f"struct {name} without <R = TextRange>")
            fields = []
            rng = None
            for l in lines:
                mm = re.fullmatch(r"pub ([a-z_][a-z0-9_]*): (.+),", l)
                if not mm:
                    _fail(f"struct {name}: unrecognised field line {l!r}")
                fn, ft = mm.groups()
                if fn == "range":
                    if ft == "R":
                        rng = 1
                    elif ft == "OptionalRange<R>":
                        rng = 2
                    else:
                        _fail(f"struct {name}: range field of type {ft!r}")
                    if fields:
                        _fail(f"struct {name}: range is not the first field")
                else:
                    fields.append((fn, parse_type(ft)))
            if rng is None:
                _fail(f"struct {name}: no range field")
            structs[name] = {"range": rng, "fields": fields}
            order.append(name)
    if found != n_decl:
        _fail(f"generic.rs: {n_decl} enum/struct declarations but {found} matched the strict shape")
    # unit structs such as `pub struct ExprContextLoad;` are marker types, not nodes
    sums.pop("Ast", None)
    if "Ast" in simple:
        _fail("Ast became a simple enum")
    return sums, simple, structs, order


class Schema:
    pass


def build_schema(sums, simple, structs, order):
    sc = Schema()
    leaf_types = set(LEAF_TYPES) | set(simple)
    # variant structs
    parent = {}
    variant_name = {}
    for s, vs in sums.items():
        for v, st in vs:
            if st not in structs:
                _fail(f"sum {s}: variant {v} names unknown struct {st}")
            if st != s + v:
                _fail(f"sum {s}: variant {v} wraps {st}, expected {s + v}")
            if st in parent:
                _fail(f"struct {st} is a variant of two sums")
            parent[st] = s
            variant_name[st] = v
    referenced = set()

    def chk(t, ctx):
        tag, x = t
        if tag == "leaf":
            if x not in leaf_types:
                _fail(f"{ctx}: unknown leaf type {x}")
        elif tag == "node":
            if x not in structs and x not in sums:
                _fail(f"{ctx}: unknown node type {x}")
            if x in parent:
                _fail(f"{ctx}: field refers to variant struct {x} directly")
            referenced.add(x)
        else:
            chk(x, ctx)
    for n in order:
        for fn, ft in structs[n]["fields"]:
            chk(ft, f"{n}.{fn}")
    orphans = [n for n in order if n not in parent and n not in referenced]
    kinds = [n for n in order if n not in orphans]
    sc.orphans = orphans
    sc.kinds = kinds
    sc.kind_id = {n: i for i, n in enumerate(kinds)}
    sc.sums = list(sums)
    sc.sum_id = {n: i for i, n in enumerate(sc.sums)}
    sc.sum_variants = sums
    sc.parent = parent
    sc.variant_name = variant_name
    sc.structs = structs
    sc.simple = simple
    for s in INTERESTING_SUMS:
        if s not in sums:
            _fail(f"sum type {s} (named by the property) not found in generic.rs")
    sc.interesting = [sc.sum_id[s] for s in INTERESTING_SUMS]
    return sc


def kinds_under(sc, target):
    """kind names a child field of node type `target` can hold"""
    if target in sc.sum_variants:
        return [st for _, st in sc.sum_variants[target]]
    return [target]


def strip_box(t):
    tag, x = t
    if tag == "box":
        return strip_box(x)
    if tag in ("vec", "opt"):
        return (tag, strip_box(x))
    return t


def child_target(t):
    """node type name at the bottom of a field type, or None for leaf fields"""
    tag, x = t
    if tag == "leaf":
        return None
    if tag == "node":
        return x
    return child_target(x)


def carrying(sc):
    """least set of kinds whose subtrees can contain a stmt/expr/pattern/excepthandler node"""
    carry = {k for k in sc.kinds if sc.parent.get(k) in INTERESTING_SUMS}
    changed = True
    while changed:
        changed = False
        for k in sc.kinds:
            if k in carry:
                continue
            for fn, ft in sc.structs[k]["fields"]:
                tg = child_target(ft)
                if tg and any(u in carry for u in kinds_under(sc, tg)):
                    carry.add(k)
                    changed = True
                    break
    return carry


def needed(sc, carry):
    """carrying kinds reachable from a stmt/expr/pattern/excepthandler node"""
    need = {k for k in sc.kinds if sc.parent.get(k) in INTERESTING_SUMS}
    todo = list(need)
    while todo:
        k = todo.pop()
        for fn, ft in sc.structs[k]["fields"]:
            tg = child_target(ft)
            if not tg:
                continue
            for u in kinds_under(sc, tg):
                if u in carry and u not in need:
                    need.add(u)
                    todo.append(u)
    return need
