"""C12 translator: ast/src/gen/{generic,fold,visitor}.rs  ->  lean/PV/Gen/C12{Schema,FoldProg,VisitProg}.lean

Strict scanner (stdlib only).  Every construct is matched against an exact shape; anything else raises
TranslateError — the translator never guesses.  `translate()` returns the parsed data (used by
tools/props/c12.py to encode trees) and `emit()` writes the Lean files (only when their content changed).
"""
import os
import re

import core


class TranslateError(Exception):
    pass


def _fail(msg):
    raise TranslateError(msg)


LEAF_TYPES = {"Identifier", "String", "Int", "bool", "Constant", "ConversionFlag"}
INTERESTING_SUMS = ["Stmt", "Expr", "Pattern", "ExceptHandler"]


def _strip_comments(src):
    out = []
    for line in src.split("\n"):
        s = line.strip()
        if s.startswith("//"):
            continue
        out.append(line)
    return "\n".join(out)


# ------------------------------------------------------------------ generic.rs

def parse_type(t):
    """-> nested tuple: ('leaf', name) | ('node', name) | ('box', T) | ('vec', T) | ('opt', T)"""
    t = t.strip()
    for pre, tag in (("Box<", "box"), ("Vec<", "vec"), ("Option<", "opt")):
        if t.startswith(pre):
            if not t.endswith(">"):
                _fail(f"type {t!r}")
            return (tag, parse_type(t[len(pre):-1]))
    m = re.fullmatch(r"([A-Z][A-Za-z0-9]*)<R>", t)
    if m:
        return ("node", m.group(1))
    m = re.fullmatch(r"[A-Za-z][A-Za-z0-9]*", t)
    if m:
        return ("leaf", t)
    _fail(f"unrecognised field type {t!r}")


def parse_generic(src):
    src = _strip_comments(src)
    sums = {}      # name -> [(variant, struct)]
    simple = {}    # name -> [variant]
    structs = {}   # name -> {"range": 1|2, "fields": [(fname, type)]}
    order = []
    pos = 0
    item = re.compile(r"^pub (enum|struct) ([A-Za-z0-9]+)(<R = TextRange>)? \{\n(.*?)^\}\n", re.M | re.S)
    # every `pub enum` / `pub struct` with a body must be matched by `item`
    n_decl = len(re.findall(r"^pub (?:enum|struct) [A-Za-z0-9]+(?:<R = TextRange>)? \{", src, re.M))
    found = 0
    for m in item.finditer(src):
        found += 1
        what, name, generic, body = m.groups()
        lines = [l.strip() for l in body.split("\n") if l.strip()]
        if what == "enum" and name == "Ast":
            continue        # umbrella enum over all node types; not a node kind itself
        if what == "enum":
            if generic:
                vs = []
                for l in lines:
                    if re.fullmatch(r'#\[is\(name = "[a-z_]+"\)\]', l):
                        continue
                    mm = re.fullmatch(r"([A-Za-z0-9]+)\(([A-Za-z0-9]+)<R>\),", l)
                    if not mm:
                        _fail(f"enum {name}: unrecognised variant line {l!r}")
                    vs.append((mm.group(1), mm.group(2)))
                sums[name] = vs
            else:
                vs = []
                for l in lines:
                    mm = re.fullmatch(r"([A-Za-z0-9]+),", l)
                    if not mm:
                        _fail(f"simple enum {name}: unrecognised variant line {l!r}")
                    vs.append(mm.group(1))
                simple[name] = vs
        else:
            if not generic:
                _fail(f"struct {name} without <R = TextRange>")
            fields = []
            rng = None
            for l in lines:
                mm = re.fullmatch(r"pub ([a-z_][a-z0-9_]*): (.+),", l)
                if not mm:
                    _fail(f"struct {name}: unrecognised field line {l!r}")
                fn, ft = mm.groups()
                if fn == "range":
                    if ft == "R":
                        rng = 1
                    elif ft == "OptionalRange<R>":
                        rng = 2
                    else:
                        _fail(f"struct {name}: range field of type {ft!r}")
                    if fields:
                        _fail(f"struct {name}: range is not the first field")
                else:
                    fields.append((fn, parse_type(ft)))
            if rng is None:
                _fail(f"struct {name}: no range field")
            structs[name] = {"range": rng, "fields": fields}
            order.append(name)
    if found != n_decl:
        _fail(f"generic.rs: {n_decl} enum/struct declarations but {found} matched the strict shape")
    # unit structs such as `pub struct ExprContextLoad;` are marker types, not nodes
    sums.pop("Ast", None)
    if "Ast" in simple:
        _fail("Ast became a simple enum")
    return sums, simple, structs, order


class Schema:
    pass


def build_schema(sums, simple, structs, order):
    sc = Schema()
    leaf_types = set(LEAF_TYPES) | set(simple)
    # variant structs
    parent = {}
    variant_name = {}
    for s, vs in sums.items():
        for v, st in vs:
            if st not in structs:
                _fail(f"sum {s}: variant {v} names unknown struct {st}")
            if st != s + v:
                _fail(f"sum {s}: variant {v} wraps {st}, expected {s + v}")
            if st in parent:
                _fail(f"struct {st} is a variant of two sums")
            parent[st] = s
            variant_name[st] = v
    referenced = set()

    def chk(t, ctx):
        tag, x = t
        if tag == "leaf":
            if x not in leaf_types:
                _fail(f"{ctx}: unknown leaf type {x}")
        elif tag == "node":
            if x not in structs and x not in sums:
                _fail(f"{ctx}: unknown node type {x}")
            if x in parent:
                _fail(f"{ctx}: field refers to variant struct {x} directly")
            referenced.add(x)
        else:
            chk(x, ctx)
    for n in order:
        for fn, ft in structs[n]["fields"]:
            chk(ft, f"{n}.{fn}")
    orphans = [n for n in order if n not in parent and n not in referenced]
    kinds = [n for n in order if n not in orphans]
    sc.orphans = orphans
    sc.kinds = kinds
    sc.kind_id = {n: i for i, n in enumerate(kinds)}
    sc.sums = list(sums)
    sc.sum_id = {n: i for i, n in enumerate(sc.sums)}
    sc.sum_variants = sums
    sc.parent = parent
    sc.variant_name = variant_name
    sc.structs = structs
    sc.simple = simple
    for s in INTERESTING_SUMS:
        if s not in sums:
            _fail(f"sum type {s} (named by the property) not found in generic.rs")
    sc.interesting = [sc.sum_id[s] for s in INTERESTING_SUMS]
    return sc


def kinds_under(sc, target):
    """kind names a child field of node type `target` can hold"""
    if target in sc.sum_variants:
        return [st for _, st in sc.sum_variants[target]]
    return [target]


def strip_box(t):
    tag, x = t
    if tag == "box":
        return strip_box(x)
    if tag in ("vec", "opt"):
        return (tag, strip_box(x))
    return t


def child_target(t):
    """node type name at the bottom of a field type, or None for leaf fields"""
    tag, x = t
    if tag == "leaf":
        return None
    if tag == "node":
        return x
    return child_target(x)


def carrying(sc):
    """least set of kinds whose subtrees can contain a stmt/expr/pattern/excepthandler node"""
    carry = {k for k in sc.kinds if sc.parent.get(k) in INTERESTING_SUMS}
    changed = True
    while changed:
        changed = False
        for k in sc.kinds:
            if k in carry:
                continue
            for fn, ft in sc.structs[k]["fields"]:
                tg = child_target(ft)
                if tg and any(u in carry for u in kinds_under(sc, tg)):
                    carry.add(k)
                    changed = True
                    break
    return carry


def needed(sc, carry):
    """carrying kinds reachable from a stmt/expr/pattern/excepthandler node"""
    need = {k for k in sc.kinds if sc.parent.get(k) in INTERESTING_SUMS}
    todo = list(need)
    while todo:
        k = todo.pop()
        for fn, ft in sc.structs[k]["fields"]:
            tg = child_target(ft)
            if not tg:
                continue
            for u in kinds_under(sc, tg):
                if u in carry and u not in need:
                    need.add(u)
                    todo.append(u)
    return need


# ------------------------------------------------------------------ canonical token text

_TOK = re.compile(r"[A-Za-z_][A-Za-z0-9_]*|\d+|::|->|=>|\"[^\"]*\"|[{}()\[\]<>,;:&*?=.!#+'|-]|\S")


def canon(src):
    """token stream joined by single blanks; commas directly before a closing bracket dropped"""
    toks = _TOK.findall(_strip_comments(src))
    out = []
    for i, t in enumerate(toks):
        if t == "," and i + 1 < len(toks) and toks[i + 1] in ("}", ")", "]"):
            continue
        out.append(t)
    return " ".join(out)


def C(s):
    """regex for a canonical-token-text template: literal parts are escaped verbatim (blanks included),
    «…» parts are raw regex"""
    parts = re.split(r"(«[^»]*»)", s)
    out = []
    for p in parts:
        if p.startswith("«"):
            out.append(p[1:-1])
        else:
            out.append(re.escape(p))
    return "".join(out)


ID = r"[A-Za-z_][A-Za-z0-9_]*"

FOLD_PRELUDE = canon("""
pub trait Fold<U> {
    type TargetU;
    type Error;
    type UserContext;

    fn will_map_user(&mut self, user: &U) -> Self::UserContext;
    #[cfg(feature = "all-nodes-with-ranges")]
    fn will_map_user_cfg(&mut self, user: &U) -> Self::UserContext {
        self.will_map_user(user)
    }
    #[cfg(not(feature = "all-nodes-with-ranges"))]
    fn will_map_user_cfg(
        &mut self,
        _user: &crate::EmptyRange<U>,
    ) -> crate::EmptyRange<Self::TargetU> {
        crate::EmptyRange::default()
    }
    fn map_user(
        &mut self,
        user: U,
        context: Self::UserContext,
    ) -> Result<Self::TargetU, Self::Error>;
    #[cfg(feature = "all-nodes-with-ranges")]
    fn map_user_cfg(
        &mut self,
        user: U,
        context: Self::UserContext,
    ) -> Result<Self::TargetU, Self::Error> {
        self.map_user(user, context)
    }
    #[cfg(not(feature = "all-nodes-with-ranges"))]
    fn map_user_cfg(
        &mut self,
        _user: crate::EmptyRange<U>,
        _context: crate::EmptyRange<Self::TargetU>,
    ) -> Result<crate::EmptyRange<Self::TargetU>, Self::Error> {
        Ok(crate::EmptyRange::default())
    }

    fn fold<X: Foldable<U, Self::TargetU>>(&mut self, node: X) -> Result<X::Mapped, Self::Error> {
        node.fold(self)
    }
""")

FOLD_GLUE = canon("""
use super::generic::*;
use crate::{builtin, ConversionFlag};
pub trait Foldable<T, U> {
    type Mapped;
    fn fold<F: Fold<T, TargetU = U> + ?Sized>(self, folder: &mut F) -> Result<Self::Mapped, F::Error>;
}
impl<T, U, X> Foldable<T, U> for Vec<X> where X: Foldable<T, U>, {
    type Mapped = Vec<X::Mapped>;
    fn fold<F: Fold<T, TargetU = U> + ?Sized>(self, folder: &mut F) -> Result<Self::Mapped, F::Error> {
        self.into_iter().map(|x| x.fold(folder)).collect()
    }
}
impl<T, U, X> Foldable<T, U> for Option<X> where X: Foldable<T, U>, {
    type Mapped = Option<X::Mapped>;
    fn fold<F: Fold<T, TargetU = U> + ?Sized>(self, folder: &mut F) -> Result<Self::Mapped, F::Error> {
        self.map(|x| x.fold(folder)).transpose()
    }
}
impl<T, U, X> Foldable<T, U> for Box<X> where X: Foldable<T, U>, {
    type Mapped = Box<X::Mapped>;
    fn fold<F: Fold<T, TargetU = U> + ?Sized>(self, folder: &mut F) -> Result<Self::Mapped, F::Error> {
        (*self).fold(folder).map(Box::new)
    }
}
macro_rules! simple_fold {
    ($($t:ty),+$(,)?) => {
        $(impl<T, U> $crate::fold::Foldable<T, U> for $t {
            type Mapped = Self;
            #[inline]
            fn fold<F: Fold<T, TargetU = U> + ?Sized>(self, _folder: &mut F) -> Result<Self::Mapped, F::Error> {
                Ok(self)
            }
        })+
    };
}
simple_fold!(builtin::Int, builtin::String, builtin::Identifier, bool, ConversionFlag, builtin::Constant);
include!("gen/fold.rs");
""")


class Cursor:
    def __init__(self, text, what):
        self.t = text
        self.p = 0
        self.what = what

    def take(self, pattern, desc):
        """match regex at the cursor (after one optional blank)"""
        if self.t.startswith(" ", self.p):
            self.p += 1
        m = re.compile(pattern).match(self.t, self.p)
        if not m:
            _fail(f"{self.what}: expected {desc} at …{self.t[self.p:self.p + 160]!r}")
        self.p = m.end()
        return m

    def peek(self, pattern):
        p = self.p + 1 if self.t.startswith(" ", self.p) else self.p
        return re.compile(pattern).match(self.t, p)

    def done(self):
        return self.p >= len(self.t.rstrip())


def parse_fold(src, glue_src, sc):
    if canon(glue_src) != FOLD_GLUE:
        _fail("ast/src/fold.rs (Foldable impls for Vec/Option/Box/leaf types) differs from the shape the "
              "generic interpreter models")
    text = canon(src)
    if not text.startswith(FOLD_PRELUDE):
        _fail("gen/fold.rs: trait Fold prelude (will_map_user/map_user and _cfg variants) has an unrecognised shape")
    cur = Cursor(text, "gen/fold.rs")
    cur.p = len(FOLD_PRELUDE)
    # trait methods
    trait_methods = {}
    pat = C("fn «(?P<f>fold_[a-z_]+)» ( & mut self , node : «(?P<t>" + ID + ")»«(?P<g> < U >)?» ) -> Result < "
            "«(?P<t2>" + ID + ")»«(?P<g2> < Self :: TargetU >)?» , Self :: Error > { «(?P<f2>" + ID + ")» ( self , node ) }")
    while not cur.peek(re.escape("}")):
        m = cur.take(pat, "trait method `fn fold_x(&mut self, node: X<U>) -> … { fold_x(self, node) }`")
        if m.group("t") != m.group("t2") or m.group("f") != m.group("f2") or bool(m.group("g")) != bool(m.group("g2")):
            _fail(f"gen/fold.rs: trait method {m.group('f')} is not the plain delegation")
        if m.group("t") in trait_methods:
            _fail(f"gen/fold.rs: two trait methods for {m.group('t')}")
        trait_methods[m.group("t")] = m.group("f")
    cur.take(re.escape("}"), "end of trait")
    impl_pat = C("impl < T , U > Foldable < T , U > for «(?P<t>" + ID + ")»«(?P<g> < T >)?» { type Mapped = "
                 "«(?P<t2>" + ID + ")»«(?P<g2> < U >)?» ; fn fold < F : Fold < T , TargetU = U > + ? Sized > ( self , "
                 "folder : & mut F ) -> Result < Self :: Mapped , F :: Error > { folder . «(?P<f>" + ID + ")» ( self ) } }")
    fn_pat = C("pub fn «(?P<f>" + ID + ")» < U , F : Fold < U > + ? Sized > ( # [ allow ( unused ) ] folder : & mut F , "
               "node : «(?P<t>" + ID + ")»«(?P<g> < U >)?» ) -> Result < «(?P<t2>" + ID + ")»«(?P<g2> < F :: TargetU >)?» , "
               "F :: Error > {")
    entries = {}
    dispatch = {}
    simple_seen = set()
    while not cur.done():
        m = cur.take(impl_pat, "`impl Foldable for X`")
        t = m.group("t")
        if t != m.group("t2") or bool(m.group("g")) != bool(m.group("g2")):
            _fail(f"gen/fold.rs: impl Foldable for {t}: Mapped type differs")
        if trait_methods.get(t) != m.group("f"):
            _fail(f"gen/fold.rs: impl Foldable for {t} calls folder.{m.group('f')}, trait has {trait_methods.get(t)}")
        m2 = cur.take(fn_pat, f"`pub fn {m.group('f')}`")
        if m2.group("f") != m.group("f") or m2.group("t") != t or m2.group("t2") != t:
            _fail(f"gen/fold.rs: free function after impl for {t} is {m2.group('f')} on {m2.group('t')}")
        generic = bool(m2.group("g"))
        if generic != bool(m2.group("g2")) or generic != bool(m.group("g")):
            _fail(f"gen/fold.rs: {m.group('f')}: generic parameters inconsistent")
        if t in sc.simple:
            if generic:
                _fail(f"{t}: simple enum with type parameter")
            cur.take(C("Ok ( node ) }"), f"`Ok(node)` body of {m.group('f')}")
            simple_seen.add(t)
        elif t in sc.sum_variants:
            cur.take(C("let folded = match node {"), f"match in {m.group('f')}")
            arms = []
            while not cur.peek(re.escape("}")):
                a = cur.take(C("«(?P<s>" + ID + ")» :: «(?P<v>" + ID + ")» ( cons ) => «(?P<b>\\{ )?»"
                               "«(?P<s2>" + ID + ")» :: «(?P<v2>" + ID + ")» ( Foldable :: fold ( cons , folder ) ? )"
                               "«(?(b) \\})»«(?: ,)?»"), f"dispatch arm in {m.group('f')}")
                if a.group("s") != t or a.group("s2") != t or a.group("v") != a.group("v2"):
                    _fail(f"gen/fold.rs: {m.group('f')}: arm {a.group(0)!r} does not rebuild the same variant")
                arms.append(a.group("v"))
            cur.take(C("} ; Ok ( folded ) }"), f"end of {m.group('f')}")
            want = [v for v, _ in sc.sum_variants[t]]
            if sorted(arms) != sorted(want):
                _fail(f"gen/fold.rs: {m.group('f')}: arms {arms} do not cover variants {want} exactly once")
            dispatch[t] = arms
        elif t in sc.kind_id:
            entries[t] = _parse_fold_product(cur, t, m.group("f"), sc)
        else:
            _fail(f"gen/fold.rs: fold function for unknown type {t}")
    for k in sc.kinds:
        if k not in entries:
            _fail(f"gen/fold.rs: no fold function for node kind {k}")
    for s in sc.sum_variants:
        if s not in dispatch:
            _fail(f"gen/fold.rs: no fold dispatcher for sum type {s}")
    for s in sc.simple:
        if s not in simple_seen:
            _fail(f"gen/fold.rs: no fold function for simple enum {s}")
    return entries, dispatch


def _parse_fold_product(cur, t, fname, sc):
    fields = [f for f, _ in sc.structs[t]["fields"]]
    idx = {f: i for i, f in enumerate(fields)}
    m = cur.take(C("let «(?P<t>" + ID + ")» { «(?P<body>[a-z0-9_ ,]*)» } = node ;"), f"destructuring in {fname}")
    if m.group("t") != t:
        _fail(f"{fname}: destructures {m.group('t')}")
    names = [x.strip() for x in m.group("body").split(",") if x.strip()]
    e = {"destruct": [], "destructRange": False, "will": 0, "calls": [], "map": 0, "rebuild": None, "rebuildRange": False}
    for n in names:
        if n == "range":
            if e["destructRange"]:
                _fail(f"{fname}: range destructured twice")
            e["destructRange"] = True
        elif n in idx:
            if idx[n] in e["destruct"]:
                _fail(f"{fname}: field {n} destructured twice")
            e["destruct"].append(idx[n])
        else:
            _fail(f"{fname}: destructured name {n} is not a field of {t}")
    w = cur.peek(C("let context = folder . «(?P<w>will_map_user(?:_cfg)?)» ( & range ) ;"))
    if w:
        cur.take(C("let context = folder . «(?P<w>will_map_user(?:_cfg)?)» ( & range ) ;"), "will_map_user")
        e["will"] = 1 if w.group("w") == "will_map_user" else 2
    rebound = set()
    call_pat = C("let «(?P<d>" + ID + ")» = Foldable :: fold ( «(?P<s>" + ID + ")» , folder ) ? ;")
    while cur.peek(call_pat):
        c = cur.take(call_pat, "fold call")
        d, s = c.group("d"), c.group("s")
        if d not in idx or s not in idx:
            _fail(f"{fname}: fold call {c.group(0)!r} uses a name that is not a field of {t}")
        if s in rebound:
            _fail(f"{fname}: {s} is folded after having been rebound (shape not modelled)")
        if idx[s] not in e["destruct"]:
            _fail(f"{fname}: {s} folded but not destructured")
        rebound.add(d)
        e["calls"].append((idx[d], idx[s]))
    mp = cur.peek(C("let range = folder . «(?P<w>map_user(?:_cfg)?)» ( range , context ) ? ;"))
    if mp:
        cur.take(C("let range = folder . «(?P<w>map_user(?:_cfg)?)» ( range , context ) ? ;"), "map_user")
        e["map"] = 1 if mp.group("w") == "map_user" else 2
        if not e["will"]:
            _fail(f"{fname}: map_user without will_map_user")
    r = cur.take(C("Ok ( «(?P<t>" + ID + ")» { «(?P<body>[a-z0-9_ ,:]*)» } ) }"), f"rebuild literal in {fname}")
    if r.group("t") != t:
        _fail(f"{fname}: rebuilds {r.group('t')}")
    reb = {}
    for part in [x.strip() for x in r.group("body").split(",") if x.strip()]:
        if ":" in part:
            a, b = [x.strip() for x in part.split(":")]
        else:
            a = b = part
        if a == "range":
            if b != "range":
                _fail(f"{fname}: range rebuilt from {b}")
            e["rebuildRange"] = True
            continue
        if a not in idx or b not in idx:
            _fail(f"{fname}: rebuild item {part!r} uses a name that is not a field of {t}")
        if a in reb:
            _fail(f"{fname}: field {a} given twice")
        reb[a] = idx[b]
    if sorted(reb) != sorted(fields) or not e["rebuildRange"]:
        _fail(f"{fname}: rebuild literal does not list every field of {t}")
    e["rebuild"] = [reb[f] for f in fields]
    return e


# ------------------------------------------------------------------ gen/visitor.rs

def parse_visitor(src, sc):
    text = canon(src)
    cur = Cursor(text, "gen/visitor.rs")
    cur.take(C("# [ allow ( unused_variables ) ] pub trait Visitor < R = crate :: text_size :: TextRange > {"),
             "trait Visitor header")
    sig = C("fn «(?P<f>" + ID + ")» ( & mut self , node : «(?P<t>" + ID + ")»«(?P<g> < R >)?» ) {")
    methods = []       # (name, type, body-kind, payload)
    while not cur.peek(re.escape("}") + r"\s*$"):
        m = cur.take(sig, "method signature `fn name(&mut self, node: T<R>) {`")
        name, t = m.group("f"), m.group("t")
        if cur.peek(re.escape("}")):
            cur.take(re.escape("}"), "}")
            methods.append((name, t, "empty", None))
            continue
        d = cur.peek(C("self . «(?P<g>generic_" + ID + ")» ( node ) }"))
        if d:
            cur.take(C("self . «(?P<g>generic_" + ID + ")» ( node ) }"), "delegation")
            methods.append((name, t, "delegate", d.group("g")))
            continue
        if cur.peek(C("match node {")):
            cur.take(C("match node {"), "match")
            arms = []
            while not cur.peek(re.escape("}")):
                a = cur.take(C("«(?P<s>" + ID + ")» :: «(?P<v>" + ID + ")» ( data ) => self . «(?P<m>" + ID + ")» ( data )«(?: ,)?»"),
                             f"dispatch arm in {name}")
                arms.append((a.group("s"), a.group("v"), a.group("m")))
            cur.take(C("} }"), f"end of {name}")
            methods.append((name, t, "match", arms))
            continue
        blocks = []
        while not cur.peek(re.escape("}")):
            b = cur.peek(C("{ let value = node . «(?P<f>" + ID + ")» ; self . «(?P<m>" + ID + ")» ( «(?P<star>\\* )?»value ) ; }"))
            if b:
                cur.take(C("{ let value = node . «(?P<f>" + ID + ")» ; self . «(?P<m>" + ID + ")» ( «(?P<star>\\* )?»value ) ; }"), "direct block")
                blocks.append(("direct", b.group("f"), b.group("m"), bool(b.group("star"))))
                continue
            b = cur.peek(C("for value in node . «(?P<f>" + ID + ")»«(?P<fl> \\. into_iter \\( \\) \\. flatten \\( \\))?» { self . «(?P<m>" + ID + ")» ( value ) ; }"))
            if b:
                cur.take(C("for value in node . «(?P<f>" + ID + ")»«(?P<fl> \\. into_iter \\( \\) \\. flatten \\( \\))?» { self . «(?P<m>" + ID + ")» ( value ) ; }"), "for block")
                blocks.append(("flatten" if b.group("fl") else "for", b.group("f"), b.group("m"), False))
                continue
            b = cur.take(C("if let Some ( value ) = node . «(?P<f>" + ID + ")» { self . «(?P<m>" + ID + ")» ( «(?P<star>\\* )?»value ) ; }"),
                         f"field block (direct / for / if let) in {name}")
            blocks.append(("opt", b.group("f"), b.group("m"), bool(b.group("star"))))
        cur.take(re.escape("}"), f"end of {name}")
        methods.append((name, t, "blocks", blocks))
    cur.take(re.escape("}"), "end of trait Visitor")
    if not cur.done():
        _fail("gen/visitor.rs: text after trait Visitor")

    by_name = {}
    for name, t, kind, payload in methods:
        if name in by_name:
            _fail(f"gen/visitor.rs: method {name} defined twice")
        by_name[name] = (t, kind, payload)
    # visit method per type
    visit_of = {}
    for name, (t, kind, payload) in by_name.items():
        if name.startswith("generic_visit_"):
            continue
        if not name.startswith("visit_"):
            _fail(f"gen/visitor.rs: unexpected method {name}")
        if t in visit_of:
            _fail(f"gen/visitor.rs: two visit methods take {t}")
        visit_of[t] = name
    body_of = {}      # type -> (kind, payload) of the code run by the visit method
    for t, name in visit_of.items():
        _, kind, payload = by_name[name]
        if kind == "empty":
            if "generic_" + name in by_name:
                _fail(f"gen/visitor.rs: {name} is empty although generic_{name} exists")
            body_of[t] = ("blocks", [])
        elif kind == "delegate":
            if payload != "generic_" + name:
                _fail(f"gen/visitor.rs: {name} delegates to {payload}")
            gt, gk, gp = by_name.get(payload, (None, None, None))
            if gt != t or gk not in ("empty", "match", "blocks"):
                _fail(f"gen/visitor.rs: {payload} missing or of another type/shape")
            body_of[t] = ("blocks", []) if gk == "empty" else (gk, gp)
        else:
            _fail(f"gen/visitor.rs: {name} neither delegates to generic_{name} nor is empty")
    for name in by_name:
        if name.startswith("generic_") and name[len("generic_"):] not in by_name:
            _fail(f"gen/visitor.rs: {name} without {name[len('generic_'):]}")
    entries = {}       # kind name -> [local field index]   (kinds with a visit method)
    dispatch = {}      # sum name -> [(variant struct, target struct)]
    for t, (kind, payload) in body_of.items():
        if t in sc.simple:
            if kind != "blocks" or payload:
                _fail(f"gen/visitor.rs: visit of simple enum {t} has a body")
        elif t in sc.sum_variants:
            if kind != "match":
                _fail(f"gen/visitor.rs: generic visit of sum type {t} is not a match")
            tab = []
            for s, v, mname in payload:
                if s != t or (v, t + v) not in sc.sum_variants[t]:
                    _fail(f"gen/visitor.rs: arm {s}::{v} in visit of {t}")
                tgt = [tt for tt, nn in visit_of.items() if nn == mname]
                if not tgt or tgt[0] not in sc.kind_id:
                    _fail(f"gen/visitor.rs: arm {s}::{v} calls unknown method {mname}")
                if tgt[0] != t + v:
                    _fail(f"gen/visitor.rs: arm {s}::{v} calls {mname} which takes {tgt[0]} (would not type-check)")
                tab.append((t + v, tgt[0]))
            if sorted(x for x, _ in tab) != sorted(st for _, st in sc.sum_variants[t]):
                _fail(f"gen/visitor.rs: visit of {t} does not cover every variant exactly once")
            dispatch[t] = tab
        elif t in sc.kind_id:
            if kind != "blocks":
                _fail(f"gen/visitor.rs: generic visit of product {t} is a match")
            ftypes = dict(sc.structs[t]["fields"])
            fidx = {f: i for i, (f, _) in enumerate(sc.structs[t]["fields"])}
            calls = []
            for mode, f, mname, star in payload:
                if f not in ftypes:
                    _fail(f"gen/visitor.rs: visit of {t} reads unknown field {f}")
                ft = ftypes[f]
                want = {"direct": None, "for": "vec", "flatten": "vec", "opt": "opt"}[mode]
                inner = ft
                if want:
                    if inner[0] != want:
                        _fail(f"gen/visitor.rs: {t}.{f}: `{mode}` access on type {ft}")
                    inner = inner[1]
                if mode == "flatten":
                    if inner[0] != "opt":
                        _fail(f"gen/visitor.rs: {t}.{f}: flatten on {ft}")
                    inner = inner[1]
                boxed = inner[0] == "box"
                if boxed:
                    inner = inner[1]
                if inner[0] != "node":
                    _fail(f"gen/visitor.rs: {t}.{f}: visited field of type {ft} is not a node field")
                if boxed != star:
                    _fail(f"gen/visitor.rs: {t}.{f}: deref does not match the field type {ft}")
                if visit_of.get(inner[1]) != mname:
                    _fail(f"gen/visitor.rs: {t}.{f}: calls {mname}, the visit method for {inner[1]} is {visit_of.get(inner[1])}")
                calls.append(fidx[f])
            entries[t] = calls
        elif t in sc.orphans:
            _fail(f"gen/visitor.rs: visit method for orphan type {t}")
        else:
            _fail(f"gen/visitor.rs: visit method for unknown type {t}")
    # every variant of a visited sum must have its own visit method (checked above through dispatch)
    return entries, dispatch, visit_of


# ------------------------------------------------------------------ translate + emit

class Result:
    pass


def translate(repo=None):
    repo = repo or core.REPO
    base = os.path.join(repo, "ast", "src")

    def rd(*p):
        with open(os.path.join(base, *p), encoding="utf-8") as f:
            return f.read()
    sums, simple, structs, order = parse_generic(rd("gen", "generic.rs"))
    sc = build_schema(sums, simple, structs, order)
    res = Result()
    res.schema = sc
    res.fold_entries, res.fold_dispatch = parse_fold(rd("gen", "fold.rs"), rd("fold.rs"), sc)
    res.visit_entries, res.visit_dispatch, res.visit_of = parse_visitor(rd("gen", "visitor.rs"), sc)
    res.carry = carrying(sc)
    res.need = needed(sc, res.carry)
    # optimiser anchors
    for k, want in (("ExprTuple", ["elts", "ctx"]), ("ExprConstant", ["value", "kind"])):
        if k not in sc.kind_id or [f for f, _ in sc.structs[k]["fields"]] != want:
            _fail(f"{k}: fields are not {want} (ConstantOptimizer model)")
    # visitor analysis (Python mirror of visitWFb; Lean re-proves it by `decide`).
    # Walk from the stmt/expr/pattern/excepthandler kinds; a kind whose visit method exists but has an
    # empty body although it has carrying fields goes to `skip` and is not expanded.
    def carrying_fields(k):
        return [i for i, (fn, ft) in enumerate(sc.structs[k]["fields"])
                if child_target(ft) and any(u in res.carry for u in kinds_under(sc, child_target(ft)))]
    skip, problems = [], []
    seen = set()
    todo = [k for k in sc.kinds if sc.parent.get(k) in INTERESTING_SUMS]
    while todo:
        k = todo.pop(0)
        if k in seen:
            continue
        seen.add(k)
        fields = sc.structs[k]["fields"]
        car = carrying_fields(k)
        par = sc.parent.get(k)
        if k not in res.visit_entries or (par and par not in res.visit_dispatch):
            problems.append(f"{k}: no visit method")
            continue
        calls = res.visit_entries[k]
        if not calls and car:
            skip.append(k)
            continue
        for i in car:
            if calls.count(i) != 1:
                problems.append(f"{k}.{fields[i][0]}: visited {calls.count(i)} times")
        for c in calls:
            if not 0 <= c < len(fields):
                problems.append(f"{k}: call on field {c}")
        for i, (fn, ft) in enumerate(fields):
            tg = child_target(ft)
            if tg:
                todo.extend(u for u in kinds_under(sc, tg) if u in res.carry and u not in seen)
    res.need_partial = seen
    skip = [k for k in sc.kinds if k in skip]
    res.visit_skip = skip
    res.visit_problems = problems
    return res


def translate_schema_only(repo=None):
    """fallback used by the oracle when fold.rs / visitor.rs are not recognised: node kinds only"""
    repo = repo or core.REPO
    with open(os.path.join(repo, "ast", "src", "gen", "generic.rs"), encoding="utf-8") as f:
        sums, simple, structs, order = parse_generic(f.read())
    res = Result()
    res.schema = build_schema(sums, simple, structs, order)
    return res


def shape_lean(sc, t):
    tag, x = t
    if tag == "leaf":
        return ".leaf"
    if tag == "node":
        if x in sc.sum_id:
            return f".sum {sc.sum_id[x]}"
        return f".kind {sc.kind_id[x]}"
    if tag == "box":
        return shape_lean(sc, x)
    inner = shape_lean(sc, x)
    return f".{'list' if tag == 'vec' else 'opt'} ({inner})"


def _lst(xs):
    return "[" + ", ".join(str(x) for x in xs) + "]"


def _strs(xs):
    return "[" + ", ".join('"' + x + '"' for x in xs) + "]"


HEADER = "/- GENERATED by tools/c12_translate.py from {src} — do not edit. -/\n"


def lean_files(res):
    sc = res.schema
    out = {}
    lines = [HEADER.format(src="ast/src/gen/generic.rs"), "import PV.C12.Model", "namespace PV.C12.Gen", "open PV.C12", ""]
    lines.append("def schema : Schema := {")
    lines.append("  kinds := [")
    rows = []
    for k in sc.kinds:
        par = sc.parent.get(k)
        ps = f"some {sc.sum_id[par]}" if par else "none"
        shapes = ", ".join(shape_lean(sc, ft) for _, ft in sc.structs[k]["fields"])
        rows.append(f"    ⟨{ps}, {sc.structs[k]['range']}, [{shapes}]⟩  /- {sc.kind_id[k]} {k} -/")
    lines.append(",\n".join(rows))
    lines.append("  ],")
    lines.append(f"  interesting := {_lst(sc.interesting)} }}")
    lines.append("")
    lines.append(f"def kindNames : List String := {_strs(sc.kinds)}")
    lines.append(f"def variantNames : List String := {_strs([sc.variant_name.get(k, '') for k in sc.kinds])}")
    lines.append(f"def sumNames : List String := {_strs(sc.sums)}")
    lines.append("def fieldNames : List (List String) := [")
    lines.append(",\n".join("  " + _strs([f for f, _ in sc.structs[k]["fields"]]) for k in sc.kinds))
    lines.append("]")
    lines.append(f"def optCfg : OptCfg := ⟨{sc.kind_id['ExprTuple']}, {sc.kind_id['ExprConstant']}⟩")
    lines.append("/-- kinds whose subtrees can contain a stmt/expr/pattern/excepthandler node (certificate, checked by `carryClosed`) -/")
    lines.append(f"def carry : List Nat := {_lst(sc.kind_id[k] for k in sc.kinds if k in res.carry)}")
    lines.append("/-- carrying kinds reachable from a stmt/expr/pattern/excepthandler node (certificate, checked by `neededClosed`) -/")
    lines.append(f"def need : List Nat := {_lst(sc.kind_id[k] for k in sc.kinds if k in res.need)}")
    lines.append("end PV.C12.Gen")
    out["C12Schema.lean"] = "\n".join(lines) + "\n"

    lines = [HEADER.format(src="ast/src/gen/fold.rs"), "import PV.C12.Model", "namespace PV.C12.Gen", "open PV.C12", ""]
    lines.append("def foldProg : FoldProg := ⟨[")
    rows = []
    for k in sc.kinds:
        e = res.fold_entries[k]
        calls = "[" + ", ".join(f"({d}, {s})" for d, s in e["calls"]) + "]"
        rows.append(f"  ⟨{_lst(e['destruct'])}, {e['will']}, {calls}, {e['map']}, {_lst(e['rebuild'])}⟩  /- {sc.kind_id[k]} {k} -/")
    lines.append(",\n".join(rows))
    lines.append("]⟩")
    lines.append("end PV.C12.Gen")
    out["C12FoldProg.lean"] = "\n".join(lines) + "\n"

    lines = [HEADER.format(src="ast/src/gen/visitor.rs"), "import PV.C12.Model", "namespace PV.C12.Gen", "open PV.C12", ""]
    lines.append("def visitProg : VisitProg := {")
    lines.append("  entries := [")
    rows = []
    for k in sc.kinds:
        if k in res.visit_entries:
            rows.append(f"    some {_lst(res.visit_entries[k])}  /- {sc.kind_id[k]} {k} -/")
        else:
            rows.append(f"    none  /- {sc.kind_id[k]} {k} -/")
    lines.append(",\n".join(rows))
    lines.append("  ],")
    lines.append(f"  sums := {_lst(sc.sum_id[s] for s in sc.sums if s in res.visit_dispatch)},")
    disp = []
    for s in sc.sums:
        for a, b in res.visit_dispatch.get(s, []):
            disp.append(f"({sc.kind_id[a]}, {sc.kind_id[b]})")
    lines.append("  dispatch := [" + ", ".join(disp) + "] }")
    lines.append("")
    lines.append("/-- needed kinds whose `generic_visit_*` body is empty although they have carrying fields -/")
    lines.append(f"def visitSkip : List Nat := {_lst(sc.kind_id[k] for k in res.visit_skip)}")
    lines.append("/-- carrying kinds reachable from a stmt/expr/pattern/excepthandler node without passing through a `visitSkip` kind -/")
    lines.append(f"def needPartial : List Nat := {_lst(sc.kind_id[k] for k in sc.kinds if k in res.need_partial)}")
    full = not res.visit_skip and not res.visit_problems
    lines.append("/-- truth value of `VisitWF visitProg schema carry need` as computed by the translator; re-proved in `PV/C12/Thm.lean` by `decide` -/")
    lines.append(f"def visitWFExpected : Bool := {'true' if full else 'false'}")
    lines.append("end PV.C12.Gen")
    out["C12VisitProg.lean"] = "\n".join(lines) + "\n"
    return out


# ------------------------------------------------------------------ witnesses / examples (generated theorems)

class _Min:
    """smallest conforming trees, as Lean `Tree` terms"""

    def __init__(self, res):
        self.res = res
        self.sc = res.schema
        INF = 10 ** 9
        cost = {k: INF for k in self.sc.kinds}
        changed = True
        while changed:
            changed = False
            for k in self.sc.kinds:
                c = 1 + sum(self._shape_cost(ft, cost) for _, ft in self.sc.structs[k]["fields"])
                if c < cost[k]:
                    cost[k] = c
                    changed = True
        self.cost = cost

    def _shape_cost(self, t, cost):
        tag, x = t
        if tag in ("leaf", "vec", "opt"):
            return 1
        if tag == "box":
            return self._shape_cost(x, cost)
        return min(cost[u] for u in kinds_under(self.sc, x))

    def rng(self, k):
        return "(some (0, 1))" if self.sc.structs[k]["range"] == 1 else "none"

    def node(self, k, override=None):
        override = override or {}
        fs = []
        for i, (_, ft) in enumerate(self.sc.structs[k]["fields"]):
            fs.append(override[i] if i in override else self.shape(ft))
        return f"(.node {self.sc.kind_id[k]} {self.rng(k)} [{', '.join(fs)}])"

    def shape(self, t):
        tag, x = t
        if tag == "leaf":
            return "(.leaf [])"
        if tag == "opt":
            return ".none"
        if tag == "vec":
            return "(.list [])"
        if tag == "box":
            return self.shape(x)
        best = min(kinds_under(self.sc, x), key=lambda u: self.cost[u])
        return self.node(best)

    def wrap(self, t, inner):
        """value of a field of type t holding exactly the node term `inner`"""
        tag, x = t
        if tag == "node":
            return inner
        if tag == "box":
            return self.wrap(x, inner)
        if tag == "vec":
            return f"(.list [{self.wrap(x, inner)}])"
        if tag == "opt":
            return f"(.some {self.wrap(x, inner)})"
        _fail("wrap on leaf")

    def carrying_tree(self, k, seen=()):
        """smallest-effort node of kind k that contains an interesting node strictly inside, or is one"""
        sc = self.sc
        if sc.parent.get(k) in INTERESTING_SUMS and seen:
            return self.node(k)
        for i, (_, ft) in enumerate(sc.structs[k]["fields"]):
            tg = child_target(ft)
            if not tg:
                continue
            cands = [u for u in kinds_under(sc, tg) if u in self.res.carry and u not in seen]
            if not cands:
                continue
            cands.sort(key=lambda u: (sc.parent.get(u) not in INTERESTING_SUMS, self.cost[u]))
            inner = self.carrying_tree(cands[0], seen + (k,))
            if inner:
                return self.node(k, {i: self.wrap(ft, inner)})
        return None


def witness_file(res):
    sc = res.schema
    mn = _Min(res)
    L = [HEADER.format(src="ast/src/gen/{generic,fold,visitor}.rs (witness trees and example theorems)"),
         "import PV.C12.Thm", "namespace PV.C12.Gen", "open PV.C12", ""]
    theorems = []
    first = None
    def holder(K):
        """an interesting parent node holding a K node that contains an interesting node"""
        best = None
        for P in sc.kinds:
            if sc.parent.get(P) not in INTERESTING_SUMS:
                continue
            for i, (_, ft) in enumerate(sc.structs[P]["fields"]):
                tg = child_target(ft)
                if tg and K in kinds_under(sc, tg):
                    if best is None or mn.cost[P] < mn.cost[best[0]]:
                        best = (P, i, ft)
        inner = mn.carrying_tree(K, ("root",))
        if best is None or inner is None:
            return None, None
        P, i, ft = best
        return P, mn.node(P, {i: mn.wrap(ft, inner)})

    for K in res.visit_skip:
        P, w = holder(K)
        if w is None:
            _fail(f"no witness tree for skipped kind {K}")
        name = "visitWitness_" + K
        L.append(f"/-- a {P} node holding a {K} node that contains a stmt/expr/pattern/excepthandler node -/")
        L.append(f"def {name} : Tree :=\n  {w[1:-1]}")
        L.append(f"theorem {name}_conforms : Conforms schema {name} := by decide")
        L.append(f"/-- the default Visitor does not reach what lies below the {K} node -/")
        L.append(f"theorem visit_misses_below_{K} :\n    ¬ (interestingEvents schema (visitWith visitProg schema {name})).Perm "
                 f"(interestingNodes schema {name}) := by decide")
        L.append("")
        theorems += [f"PV.C12.Gen.{name}_conforms", f"PV.C12.Gen.visit_misses_below_{K}"]
        if first is None:
            first = (name, K)
    if first:
        name, K = first
        L.append("/-- the full Visitor statement is false for the code as it is -/")
        L.append("theorem visit_complete_fails : ¬ visit_complete_full := by")
        L.append("  intro h")
        L.append(f"  exact visit_misses_below_{K} (h _ _ _ {name}_conforms (by decide))")
        theorems.append("PV.C12.Gen.visit_complete_fails")
    elif not res.visit_problems:
        L.append("/-- the full Visitor statement holds for the regenerated visitor program -/")
        L.append("theorem visit_complete_holds : visit_complete_full := visit_complete_gen rfl")
        theorems.append("PV.C12.Gen.visit_complete_holds")
    # non-vacuity example: a module with one statement that has something inside
    stmt = None
    for P in sc.kinds:
        if sc.parent.get(P) == "Stmt":
            t = mn.carrying_tree(P, ("root",))
            if t and (stmt is None or len(t) < len(stmt)):
                stmt = t
    mod = [k for k in sc.kinds if sc.parent.get(k) == "Mod"]
    L.append("")
    L.append("/-- non-vacuity: a conforming tree on which the hypotheses of the generic theorems hold -/")
    if mod and stmt:
        M = mod[0]
        fld = [i for i, (_, ft) in enumerate(sc.structs[M]["fields"]) if child_target(ft) == "Stmt"]
        ex = mn.node(M, {fld[0]: mn.wrap(sc.structs[M]["fields"][fld[0]][1], stmt)}) if fld else stmt
    else:
        ex = stmt or mn.node(sc.kinds[0])
    L.append(f"def exTree : Tree :=\n  {ex[1:-1]}")
    L.append("example : Conforms schema exTree := by decide")
    L.append("example : (foldWith foldProg id exTree).1.beq exTree = true := by decide")
    L.append("example : mapCalls (foldWith foldProg id exTree).2 ≠ [] := by decide")
    # visitor non-vacuity: trees passing through each needed product kind
    for K in [k for k in sc.kinds if k in res.need_partial and sc.parent.get(k) not in INTERESTING_SUMS
              and k not in res.visit_skip]:
        P, w = holder(K)
        if w is None:
            continue
        L.append(f"/-- a {P} node holding a {K} node with a stmt/expr/pattern/excepthandler node inside: all of them are reached -/")
        L.append(f"def exVisit_{K} : Tree :=\n  {w[1:-1]}")
        L.append(f"example : Conforms schema exVisit_{K} := by decide")
        L.append(f"example : (interestingEvents schema (visitWith visitProg schema exVisit_{K})).Perm "
                 f"(interestingNodes schema exVisit_{K}) ∧ 2 ≤ (interestingNodes schema exVisit_{K}).length := by decide")
    L.append("end PV.C12.Gen")
    return "\n".join(L) + "\n", theorems


def emit(res, lean_dir=None):
    lean_dir = lean_dir or core.LEAN
    d = os.path.join(lean_dir, "PV", "Gen")
    os.makedirs(d, exist_ok=True)
    changed = []
    files = lean_files(res)
    files["C12Witness.lean"], res.witness_theorems = witness_file(res)
    for name, content in files.items():
        p = os.path.join(d, name)
        old = None
        if os.path.exists(p):
            with open(p, encoding="utf-8") as f:
                old = f.read()
        if old != content:
            with open(p, "w", encoding="utf-8") as f:
                f.write(content)
            changed.append(name)
    return changed


if __name__ == "__main__":
    r = translate()
    print("kinds", len(r.schema.kinds), "orphans", r.schema.orphans)
    print("visit skip", r.visit_skip, "problems", r.visit_problems)
    print("changed", emit(r))
