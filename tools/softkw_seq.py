"""Short token sequences that drive the state of `SoftKeywordTransformer` (parser/src/soft_keywords.rs):
`start_of_line`, `start_of_statement` and `nesting`.

A `type` alias is a simple statement: the `type` look-ahead runs at the start of a logical line, after `;` and
after a `:` outside brackets (the end of a one-line compound header), never after the `:` of a lambda / slice /
dict entry / annotation inside brackets.  `texts(n)` enumerates EVERY sequence of at most `n` pieces over
`PIECES`; `texts_ext(n)` does the same over `PIECES_EXT` (adds comments, indented lines, continuation lines and
the line-initial soft keywords, so that INDENT / DEDENT / trivia tokens meet the new flag as well).

Used by tools/props/c05.py (both lexer builds) and tools/props/c03.py (lexmodel streams).
"""
import itertools

PIECES = ["type X = 1", "type", ";", ":", "if a", "lambda", "(", ")", "[", "]", "{", "}", "\n", "x"]

PIECES_EXT = PIECES + ["# c", "\n  ", "\n ", "\\\n", "match x", "case", "type Y[T] =", "="]


def join(seq):
    """pieces separated by one blank; nothing is inserted after a piece that ends a line (the piece decides the
    indentation of the next line itself)"""
    out = []
    for k, p in enumerate(seq):
        if k and not out[-1].endswith("\n") and not out[-1].endswith("\n ") and not out[-1].endswith("\n  "):
            out.append(" ")
        out.append(p)
    return "".join(out)


def _all(pieces, n, exact=False):
    for k in range(n if exact else 0, n + 1):
        for seq in itertools.product(pieces, repeat=k):
            yield join(seq)


def texts(n, exact=False):
    return _all(PIECES, n, exact)


def texts_ext(n, exact=False):
    return _all(PIECES_EXT, n, exact)


# valid programs whose `type` alias is not at the start of a logical line (regression corpus of the former
# finding C01 `type-alias-not-at-line-start`) and near misses where `type` must stay a name
CORPUS = [
    "pass; type X = int\n", "if x: type X = int\n", "x = 1; type X = 2; type Y[T] = T\n", "for x in y: type X = int\n",
    "while x: type X = int\n", "class C: type X = int\n", "if x: pass\nelse: type X = int\n",
    "try: type X = int\nfinally: pass\n", "try: pass\nexcept E: type X = int\n", "with a as b: type X = int\n",
    "match x:\n  case y: type X = int\n", "def f(): type X = int\n", "if x: y; type X = int\n",
    "if x:\n  pass; type X = int\n", "print(1); type X = int\n", "pass; type match = int\n", "pass; type type = int\n",
    "if x: type X[T] = T\n", "x = [1]; type X = int\n", "x = {1: 2}; type X = int\n", "x = d[1:2]; type X = int\n",
    "x = (lambda: 1); type X = int\n", "if d[1:2]: type X = int\n", "if {1: 2}: type X = int\n",
    "if x: # c\n  type X = 1\n", "if x: type X = ( # c\n int)\n", "pass; type X \\\n = int\n", "# c\ntype X = 1\n",
    "pass; # c\n\n# d\ntype X = 1\n", "if x: type X = int; type Y = str\n", "async def f(): type X = int\n",
    # `type` stays a name
    "x = 1; type = 2\n", "lambda: type\n", "f = lambda: type\n", "d = {a: type}\n", "x[a: type]\n",
    "def f(a: type = 1): pass\n", "x: type = int\n", "x: type\n", "if (lambda: type): pass\n", "if x: type = 1\n",
    "if x: type(y)\n", "if x: type[T] = 1\n", "pass; type(x)\n", "pass; type\n", "pass; type = type\n",
    # rejected either way (the flag decides only which token the error is reported at)
    "d = {a: type X = 1}\n", "x[a: type X = 1]\n", "def f(a: type X = 1): pass\n", "x: type X = int\n",
    "lambda: type X = 1\n", "pass; type X\n", "(pass; type X = int)\n", "f(x; type X = 1)\n", "{a: type # c\n X = 1}\n",
    "[a; type X = 1]\n", "{a: type\n X = 1}\n", "(a): type X = 1\n", "x[a]: type X = 1\n", ") : type X = 1\n",
    "( ; type X = 1 )\n", "[ : type X = 1\n", "( ) : type X = 1\n", "{ } ; type X = 1\n",
    # the bracket counter of the pass over NESTED brackets: one closer must not cancel two openers (found with tools/automut.py:
    # `saturating_sub(2)` survived the quick tier)
    "[(a); type X = 1]\n", "f((a): type X = 1)\n", "{(a); type X = 1}\n", "[[a]; type X = 1]\n", "(((a)) ; type X = 1)\n",
    "((a)); type X = 1\n", "[[a]]; type X = 1\n", "{(a): [b]}; type X = 1\n", "f(g(h(a))); type X = int\n", "x = ((a), (b)); type X = int\n",
    "((a) ; type X = 1\n", "[(a] ; type X = 1\n", "(a)) ; type X = 1\n", "((a))) ; type X = 1\n",
]
