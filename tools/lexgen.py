"""Source-text generators for the lexer family (C05 and friends): programs in every layout, token soup,
random edits.  All randomness comes from the `rng` argument (derived from VERIF_SEED by core.Ctx.rng)."""
import keyword
import token as pytoken

KEYWORDS = list(keyword.kwlist) + ["match", "case", "type"]
OPERATORS = sorted(pytoken.EXACT_TOKEN_TYPES)
BINOPS = ["+", "-", "*", "/", "//", "%", "**", "@", "<<", ">>", "&", "|", "^", "<", ">", "<=", ">=", "==", "!=",
          " and ", " or ", " in ", " not in ", " is ", " is not ", ":="]
AUGOPS = ["+=", "-=", "*=", "/=", "//=", "%=", "**=", "@=", "<<=", ">>=", "&=", "|=", "^="]
NAMES = ["x", "y", "foo", "_", "__init__", "a1", "é", "日本", "match", "case", "type", "print", "self",
         "λ", "x_1", "rb", "f", "br", "u", "e", "j", "E1", "_0", "µ", "Δx"]
PREFIXES = ["", "", "", "r", "R", "b", "B", "u", "U", "f", "F", "rb", "bR", "Rb", "BR", "br", "rf", "fR", "Fr", "RF", "fr"]


def number(rng):
    k = rng.randrange(14)
    d = lambda n=3: "".join(rng.choice("0123456789") for _ in range(rng.randrange(1, n + 1)))
    if k == 0:
        return rng.choice(["0", "00", "0_0", "000", "7", "10", "123", "1_000", "9_9_9"])
    if k == 1:
        return rng.choice(["0x", "0X"]) + rng.choice(["", "_"]) + "".join(rng.choice("0123456789abcdefABCDEF") for _ in range(rng.randrange(1, 9)))
    if k == 2:
        return rng.choice(["0o", "0O"]) + rng.choice(["", "_"]) + "".join(rng.choice("01234567") for _ in range(rng.randrange(1, 6)))
    if k == 3:
        return rng.choice(["0b", "0B"]) + rng.choice(["", "_"]) + "".join(rng.choice("01") for _ in range(rng.randrange(1, 9)))
    if k == 4:
        return str(rng.randrange(1, 10)) + d(40)
    if k == 5:
        return d() + "." + d()
    if k == 6:
        return d() + "."
    if k == 7:
        return "." + d()
    if k == 8:
        return str(rng.randrange(1, 10)) + d(2) + rng.choice("eE") + rng.choice(["", "+", "-"]) + d(2)
    if k == 9:
        return d() + "." + d() + rng.choice("eE") + rng.choice(["", "+", "-"]) + d(3)
    if k == 10:
        return rng.choice([d(), d() + "." + d(), d() + "e" + d(1), "." + d(), d() + "."]) + rng.choice("jJ")
    if k == 11:
        return rng.choice(["1_0.0_1", "1_0e1_0", "0.1", "0.30000000000000004", "1e308", "1e309", "5e-324", "2e-324",
                           "1.7976931348623157e308", "4.9406564584124654e-324", "9007199254740993.0", "1e23", "8.5e-1"])
    if k == 12:
        return rng.choice(["0" + d() + ".5", "0" + d() + "j", "0" + d() + "e1", "0e0", "0.0", "00.00"])
    return str(rng.randrange(0, 2 ** rng.randrange(1, 200)))


def string(rng, allow_newline=True):
    p = rng.choice(PREFIXES)
    q = rng.choice("'\"")
    triple = rng.random() < 0.25
    other = "'" if q == '"' else '"'
    body = []
    for _ in range(rng.randrange(0, 6)):
        k = rng.randrange(12)
        if k == 0:
            body.append("\\" + q)
        elif k == 1:
            body.append("\\\\")
        elif k == 2:
            body.append(rng.choice(["\\n", "\\x41", "\\N{DASH}", "\\u00e9", "\\0", "\\'", '\\"']))
        elif k == 3:
            body.append(other)
        elif k == 4:
            body.append(rng.choice(["é", "日本", "\U0001F600", " "]))
        elif k == 5 and triple and allow_newline:
            body.append("\n")
        elif k == 6 and triple:
            body.append(rng.choice([q, q + q]) + " ")
        elif k == 7 and allow_newline:
            body.append("\\\n")
        elif k == 8 and "f" in p.lower():
            body.append(rng.choice(["{x}", "{x!r:>{w}}", "{{", "}}", "{a+b}"]))
        elif k == 9:
            body.append(rng.choice(["#", " # x", "\t", "  "]))
        else:
            body.append(rng.choice(["a", "bc", "x y", "0", "%s", "if"]))
    qq = q * 3 if triple else q
    return p + qq + "".join(body) + qq


def atom(rng):
    k = rng.randrange(10)
    if k < 4:
        return rng.choice(NAMES)
    if k < 7:
        return number(rng)
    if k < 9:
        return string(rng)
    return rng.choice(["None", "True", "False", "...", "\U0001F600"])


def expr(rng, depth=0):
    if depth > 3 or rng.random() < 0.3:
        return atom(rng)
    k = rng.randrange(14)
    sp = rng.choice(["", " ", "  ", "\t"])
    e = lambda: expr(rng, depth + 1)
    if k < 4:
        op = rng.choice(BINOPS)
        if op.strip() != op:
            return e() + op + e()
        return e() + sp + op + sp + e()
    if k == 4:
        return rng.choice(["-", "+", "~", "not ", "await ", "*", "**"]) + e()
    if k == 5:
        nl = brk(rng)
        return rng.choice(NAMES) + "(" + nl + e() + "," + nl + rng.choice(NAMES) + "=" + e() + nl + ")"
    if k == 6:
        return e() + "[" + e() + rng.choice(["", ":", ":" + e(), "::2", ", " + e()]) + "]"
    if k == 7:
        nl = brk(rng)
        return "(" + nl + e() + nl + ")"
    if k == 8:
        nl = brk(rng)
        return "[" + nl + e() + "," + nl + e() + rng.choice(["", ","]) + nl + "]"
    if k == 9:
        nl = brk(rng)
        return "{" + nl + e() + ":" + sp + e() + "," + nl + "**" + rng.choice(NAMES) + nl + "}"
    if k == 10:
        return "lambda " + rng.choice(["", "x", "x, y=1", "*a, **k"]) + ":" + sp + e()
    if k == 11:
        return e() + " if " + e() + " else " + e()
    if k == 12:
        return e() + "." + rng.choice(NAMES)
    return "[" + e() + " for " + rng.choice(NAMES) + " in " + e() + rng.choice(["", " if " + e()]) + "]"


def brk(rng):
    """what may stand between tokens inside brackets"""
    k = rng.randrange(8)
    if k < 4:
        return ""
    if k == 4:
        return "\n" + " " * rng.randrange(0, 9)
    if k == 5:
        return " # c " + rng.choice(["", "'", "(", "é"]) + "\n" + "\t" * rng.randrange(0, 3)
    if k == 6:
        return "\n\n   \n" + " " * rng.randrange(0, 5)
    return " "


def simple_stmt(rng):
    k = rng.randrange(20)
    n = lambda: rng.choice(NAMES)
    e = lambda: expr(rng, 1)
    if k == 0:
        return n() + " = " + e()
    if k == 1:
        return n() + rng.choice(["=", " =", "= "]) + e()
    if k == 2:
        return n() + " " + rng.choice(AUGOPS) + " " + e()
    if k == 3:
        return n() + rng.choice(AUGOPS) + e()
    if k == 4:
        return "return " + e()
    if k == 5:
        return rng.choice(["pass", "break", "continue", "return", "raise", "..."])
    if k == 6:
        return "import " + n() + "." + n() + " as " + n()
    if k == 7:
        return "from " + rng.choice([".", "..", "...", ". ", ""]) + n() + " import (" + brk(rng) + n() + "," + brk(rng) + n() + ")"
    if k == 8:
        return "assert " + e() + ", " + e()
    if k == 9:
        return rng.choice(["del ", "global ", "nonlocal "]) + n() + ", " + n()
    if k == 10:
        return n() + ": " + n() + " = " + e()
    if k == 11:
        return e()
    if k == 12:
        return simple_stmt(rng) + rng.choice([";", "; ", " ;"]) + simple_stmt(rng)
    if k == 13:
        o = rng.choice([" = ", "(", "[", ".", ": int = ", " ", ", ", " -", " *"])
        return rng.choice(["match", "case", "type"]) + o + e() + {"(": ")", "[": "]"}.get(o, "") + rng.choice(["", "", ": pass", " = 1"])
    if k == 14:
        return "type " + n() + rng.choice(["", "[T]", "[T, *Ts, **P]"]) + " = " + e()
    if k == 15:
        return "raise " + e() + " from " + e()
    if k == 16:
        return rng.choice(["yield ", "yield from ", "await "]) + e()
    if k == 17:
        return "print(" + e() + ", end=" + string(rng, False) + ")"
    if k == 18:
        return n() + " = " + n() + " = " + e()
    return "@" + n() + "." + n()


def block(rng, depth, small):
    """list of (indent depth, logical line text)"""
    out = []
    for _ in range(rng.randrange(1, 3 if small else 4)):
        k = rng.randrange(12)
        n = lambda: rng.choice(NAMES)
        e = lambda: expr(rng, 2)
        if k < 6 or depth > (2 if small else 4) or (depth > 1 and rng.random() < 0.4):
            out.append((depth, simple_stmt(rng)))
            continue
        if k == 6:
            head = [rng.choice(["if ", "while "]) + e() + ":"]
        elif k == 7:
            head = [rng.choice(["for ", "async for "]) + n() + " in " + e() + ":"]
        elif k == 8:
            head = [rng.choice(["def ", "async def "]) + n() + "(" + rng.choice(["", "a", "a, b=1", "self, *a, k: int = 3, **kw", "a, /, b, *, c"]) + ")" + rng.choice(["", " -> " + n(), "->" + n()]) + ":"]
        elif k == 9:
            head = ["class " + n() + rng.choice(["", "()", "(" + n() + ")", "(" + n() + ", metaclass=" + n() + ")"]) + ":"]
        elif k == 10:
            head = [rng.choice(["with ", "async with "]) + e() + " as " + n() + ":"]
        else:
            head = ["match " + e() + ":"]
        if head[0].startswith("match "):
            out.append((depth, head[0]))
            for _ in range(rng.randrange(1, 3)):
                out.append((depth + 1, "case " + rng.choice(["1", "_", "[a, *b]", "{'k': v}", "A(x=1)", "1 | 2", "x if x > 0", "(a, b)"]) + ":"))
                out += block(rng, depth + 2, small)
            continue
        if rng.random() < 0.2:
            out.append((depth, head[0] + " " + simple_stmt(rng)))
            continue
        out.append((depth, head[0]))
        out += block(rng, depth + 1, small)
        if head[0].startswith(("if ", "while ", "for ")) and rng.random() < 0.4:
            if head[0].startswith("if ") and rng.random() < 0.5:
                out.append((depth, "elif " + e() + ":"))
                out += block(rng, depth + 1, small)
            out.append((depth, "else:"))
            out += block(rng, depth + 1, small)
        if rng.random() < 0.1:
            out.append((depth, "try:"))
            out += block(rng, depth + 1, small)
            out.append((depth, rng.choice(["except:", "except " + n() + ":", "except (" + n() + ", " + n() + ") as " + n() + ":", "except* " + n() + ":"])))
            out += block(rng, depth + 1, small)
            if rng.random() < 0.5:
                out.append((depth, "finally:"))
                out += block(rng, depth + 1, small)
    return out


def layout(rng, lines):
    """render logical lines with a random but consistent layout"""
    unit = rng.choice([" ", "  ", "    ", "    ", "\t", "\t\t", "        ", " \t"[:1]])
    mixed = rng.random() < 0.08          # occasionally tabs then spaces (still consistent per level)
    eol_mode = rng.choice(["\n", "\n", "\n", "\r\n", "\r", "mixed"])
    parts = []
    if rng.random() < 0.15:
        parts.append("\ufeff")

    def eol():
        return rng.choice(["\n", "\r\n", "\r"]) if eol_mode == "mixed" else eol_mode
    for (d, text) in lines:
        ind = unit * d
        if mixed and d > 0 and "\t" not in unit:
            ind = "\t" * d + unit * d
        # blank / comment lines before
        while rng.random() < 0.18:
            k = rng.randrange(6)
            if k == 0:
                parts.append(eol())
            elif k == 1:
                parts.append(" " * rng.randrange(0, 7) + eol())
            elif k == 2:
                parts.append(rng.choice(["", ind, " ", "\t", "      "]) + "#" + rng.choice(["", " c", "!é", " '", " \\"]) + eol())
            elif k == 3:
                parts.append("\x0c" + eol())
            elif k == 4:
                parts.append(rng.choice([" ", "\t", ""]) + "\x0c")        # form feed, then the line itself
            else:
                parts.append("\t" + eol())
        # continuation lines at depth 0 of the logical line
        if rng.random() < 0.12 and " " in text and "\n" not in text and "#" not in text and "'" not in text and '"' not in text:
            i = rng.choice([j for j, c in enumerate(text) if c == " "])
            text = text[:i] + " \\\n" + " " * rng.randrange(0, 6) + text[i + 1:]
        trail = ""
        if rng.random() < 0.15:
            trail = rng.choice(["  # trailing", " #", "\t#é", " ", "\t", " \x0c"])
        line = ind + text + trail
        if eol_mode != "\n":
            nl = eol_mode if eol_mode != "mixed" else None
            line = "".join((nl or eol()) if c == "\n" else c for c in line)
        parts.append(line + eol())
    s = "".join(parts)
    k = rng.randrange(10)
    if k == 0 and s:
        s = s.rstrip("\r\n")                    # no newline at end of file
    elif k == 1:
        s += "  "
    elif k == 2:
        s += "# eof"
    elif k == 3:
        s += eol() + eol()
    elif k == 4:
        s += "\x0c"
    return s


def program(rng, small=False):
    return layout(rng, block(rng, 0, small))


SEPS = ["", "", " ", " ", "\t", "\n", "\r\n", "\r", "\x0c", " \\\n", "#c\n", "  ", "\n  ", "\n\t", "\n    "]


def soup(rng):
    parts = []
    for _ in range(rng.randrange(1, 14)):
        k = rng.randrange(12)
        if k < 3:
            parts.append(rng.choice(OPERATORS))
        elif k < 5:
            parts.append(rng.choice(KEYWORDS))
        elif k < 7:
            parts.append(rng.choice(NAMES))
        elif k < 9:
            parts.append(number(rng))
        elif k == 9:
            parts.append(string(rng))
        elif k == 10:
            parts.append(rng.choice(["(", ")", "[", "]", "{", "}", "!", "\\", "$", "?", "'", '"', "'''", "\ufeff", "\U0001F600", " ", "_", "."]))
        else:
            parts.append(rng.choice(["0x", "1e", "1.e", "1_", "0b2", "1__2", "e5", "1.5.5", "1..2", "1...", "..", "....", "->>", "<<<", "**=*", "//=/", "!==", ":=="]))
        parts.append(rng.choice(SEPS))
    return "".join(parts)


EDIT_CHARS = list(" \t\n\r\x0c#\\\"'()[]{}:=!.,;01_eEjxX+-*/<>@~%^&|`$?") + ["é", "\ufeff", "\U0001F600", " ", "'''", '"""', "\r\n"]


def mutate(rng, text):
    for _ in range(rng.randrange(1, 5)):
        if not text:
            text = rng.choice(EDIT_CHARS)
            continue
        i = rng.randrange(len(text) + 1)
        k = rng.randrange(6)
        if k == 0:
            text = text[:i] + rng.choice(EDIT_CHARS) + text[i:]
        elif k == 1 and i < len(text):
            text = text[:i] + text[i + 1:]
        elif k == 2 and i < len(text):
            text = text[:i] + rng.choice(EDIT_CHARS) + text[i + 1:]
        elif k == 3:
            text = text[:i]
        elif k == 4:
            j = rng.randrange(len(text) + 1)
            a, b = min(i, j), max(i, j)
            text = text[:a] + text[b:]
        else:
            j = rng.randrange(len(text) + 1)
            a, b = min(i, j), max(i, j)
            text = text[:b] + text[a:b] + text[b:]
    return text


def retab(text):
    """replace each run of 4 leading blanks by a tab (keeps relative indentation consistent)"""
    out = []
    for line in text.split("\n"):
        i = 0
        while line.startswith("    ", i):
            i += 4
        out.append("\t" * (i // 4) + line[i:])
    return "\n".join(out)
