
/-! ## patterns: a consumed `as` is never followed by `_` -/

/-- `as` is not followed by the name `_` -/
def AsGood (t : Tok) (s : List Tok) : Prop := tk t = .hk .as → ∀ r, s = .name [95] :: r → False

/-- `ts = pre ++ r` and no `as` token of `pre` is followed by `_` -/
def SegA (ts r : List Tok) : Prop := ∃ pre, ts = pre ++ r ∧ ∀ p t q, pre = p ++ t :: q → AsGood t (q ++ r)

theorem SegA.refl (ts : List Tok) : SegA ts ts := ⟨[], rfl, by simp⟩

theorem SegA.trans {a b c : List Tok} (h1 : SegA a b) (h2 : SegA b c) : SegA a c := by
  obtain ⟨p1, rfl, g1⟩ := h1
  obtain ⟨p2, rfl, g2⟩ := h2
  refine ⟨p1 ++ p2, by simp, ?_⟩
  intro p t q h
  rcases List.append_eq_append_iff.mp h with ⟨a', ha, hb⟩ | ⟨c', ha, hb⟩
  · exact g2 a' t q hb
  · cases c' with
    | nil => simp at hb; exact g2 [] t q (by simp [hb])
    | cons x c'' =>
      simp at hb
      obtain ⟨rfl, rfl⟩ := hb
      have := g1 p t c'' (by simp [ha])
      simpa using this

theorem SegA.cons {t : Tok} {r : List Tok} (h : AsGood t r) : SegA (t :: r) r :=
  ⟨[t], rfl, by
    intro p t' q h'
    cases p with
    | nil => simp at h'; obtain ⟨rfl, rfl⟩ := h'; simpa using h
    | cons x p' => simp at h'⟩

theorem SegA.snoc {t : Tok} {ts r : List Tok} (h : SegA ts (t :: r)) (g : AsGood t r) : SegA ts r :=
  SegA.trans h (SegA.cons g)
theorem SegA.cons' {t : Tok} {r' r : List Tok} (h : AsGood t r') (h2 : SegA r' r) : SegA (t :: r') r :=
  SegA.trans (SegA.cons h) h2
grind_pattern SegA.snoc => SegA ts (t :: r)
grind_pattern SegA.trans => SegA a b, SegA b c

/-- the consumed part, position by position -/
theorem SegA.at {ts r : List Tok} (h : SegA ts r) {p : List Tok} {t : Tok} {q : List Tok}
    (hts : ts = p ++ t :: q) (hlen : r.length ≤ q.length) : AsGood t q := by
  obtain ⟨pre, rfl, g⟩ := h
  have h1 : (p ++ [t]) ++ q = pre ++ r := by simp [← hts]
  rcases List.append_eq_append_iff.mp h1 with ⟨a', ha, hb⟩ | ⟨c', ha, hb⟩
  · have := g p t a' (by simp [ha])
    rwa [← hb] at this
  · have : c' = [] := by
      have hl := congrArg List.length hb
      simp at hl
      cases c' with
      | nil => rfl
      | cons x c'' => simp at hl; omega
    subst this
    simp at ha hb
    have := g p t [] (by simp [ha])
    simpa [hb] using this

theorem asGood_of_tk {t : Tok} {x : TK} (s : List Tok) (h : tk t = x) (hx : x ≠ .hk .as) : AsGood t s := by
  intro hc; rw [h] at hc; exact absurd hc hx

theorem asGood_op (o : Op) (s : List Tok) : AsGood (.op o) s := fun h => absurd h (tk_op_ne_hk o _)
theorem asGood_name (n) (s : List Tok) : AsGood (.name n) s := by simp [AsGood, tk]
theorem asGood_kw_none (s : List Tok) : AsGood (.kw .none) s := by simp [AsGood, tk]
theorem asGood_kw_true (s : List Tok) : AsGood (.kw .true) s := by simp [AsGood, tk]
theorem asGood_kw_false (s : List Tok) : AsGood (.kw .false) s := by simp [AsGood, tk]
theorem asGood_as_name {t : Tok} {n : Ident} (r : List Tok) (hn : ¬ n = [95]) : AsGood t (.name n :: r) := by
  intro _ r' h; simp at h; exact hn h.1
grind_pattern asGood_as_name => AsGood t (.name n :: r)

theorem isString_asGood {t : Tok} (h : isStringTok t = true) (s : List Tok) : AsGood t s := by
  cases t <;> simp_all [isStringTok, AsGood, tk]

theorem segA_dropWhile_str (ts : List Tok) : SegA ts (ts.dropWhile isStringTok) := by
  induction ts with
  | nil => exact SegA.refl _
  | cons t r ih =>
    by_cases h : isStringTok t = true
    · simp only [List.dropWhile_cons, h, if_true]
      exact SegA.cons' (isString_asGood h _) ih
    · simp [List.dropWhile_cons, h]; exact SegA.refl _

/-- `parse_strings` consumes exactly the adjacent string tokens -/
theorem parseStrings_segA {f : Nat} {ts : List Tok} {e : Expr} {r : List Tok} (h : parseStrings f ts = some (e, r)) :
    SegA ts r := by
  cases f with
  | zero => simp [parseStrings] at h
  | succ f =>
    unfold parseStrings at h
    simp only [] at h
    repeat' split at h
    all_goals (try (simp at h; done))
    all_goals (simp only [Option.some.injEq, Prod.mk.injEq] at h; obtain ⟨_, rfl⟩ := h; exact segA_dropWhile_str ts)
grind_pattern parseStrings_segA => parseStrings f ts, some (e, r)

theorem constAtom_asGood {t : Tok} {c : Expr} (h : constAtom t = some c) (s : List Tok) : AsGood t s := by
  cases t <;> simp_all [constAtom, AsGood, tk]

theorem attrChain_segA {ts : List Tok} {acc e : Expr} {d d' : Bool} {r : List Tok} (h : attrChain acc d ts = some (e, d', r)) : SegA ts r := by
  fun_induction attrChain acc d ts with
  | case1 acc x n r' ih => exact SegA.cons' (asGood_op _ _) (SegA.cons' (asGood_name _ _) (ih h))
  | case2 => simp at h
  | case3 => simp at h; obtain ⟨_, _, rfl⟩ := h; exact SegA.refl _
grind_pattern attrChain_segA => attrChain acc d ts, some (e, d', r)

theorem addTail_segA {ts : List Tok} {l e : Expr} {r : List Tok} (h : addTail l ts = some (e, r)) : SegA ts r := by
  unfold addTail at h
  split at h
  · split at h
    · rename_i hc; simp at h; obtain ⟨_, rfl⟩ := h
      exact SegA.cons' (asGood_op _ _) (SegA.cons (constAtom_asGood hc _))
    · simp at h
  · split at h
    · rename_i hc; simp at h; obtain ⟨_, rfl⟩ := h
      exact SegA.cons' (asGood_op _ _) (SegA.cons (constAtom_asGood hc _))
    · simp at h
  · simp at h
  · simp at h
  · simp at h; obtain ⟨_, rfl⟩ := h; exact SegA.refl _

theorem parseConstExpr_segA {ts : List Tok} {e : Expr} {r : List Tok} (h : parseConstExpr ts = some (e, r)) : SegA ts r := by
  unfold parseConstExpr at h
  split at h
  · split at h
    · rename_i hc
      exact SegA.cons' (asGood_op _ _) (SegA.cons' (constAtom_asGood hc _) (addTail_segA h))
    · simp at h
  · split at h
    · rename_i hc
      exact SegA.cons' (constAtom_asGood hc _) (addTail_segA h)
    · simp at h
  · simp at h
grind_pattern parseConstExpr_segA => parseConstExpr ts, some (e, r)

/-- split the unfolded hypothesis completely, then chain the induction hypotheses -/
macro "segA_step" h:ident : tactic => `(tactic|
  (repeat' (first | split_any | (simp only [] at $h:ident))
   all_goals (try (simp only [Nat.succ_eq_add_one, Nat.add_right_cancel_iff] at *))
   all_goals (try subst_vars)
   all_goals (first
     | (simp_all [-Bool.forall_bool]; done)
     | ((try simp only [Option.some.injEq, Prod.mk.injEq] at $h:ident);
        grind [SegA.refl, SegA.cons', asGood_op, asGood_name, asGood_kw_none, asGood_kw_true, asGood_kw_false]))))
