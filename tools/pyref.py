"""Reference tooling: CPython 3.11 `ast` -> the canonical S-expression of harness/src/astdump.rs.

See /verif/design/REFTOOLS.md for the format.  Public API:

  schema()                      -> Schema parsed from /repo/ast/src/gen/generic.rs (struct field order and types)
  ref_tree(source, mode, ranges=False) -> canonical text of ast.parse(source) ('m' | 'i' | 'e'; 'i' uses the
                                   module grammar and is printed as ModInteractive), raises SyntaxError
  sexp(text)                    -> parsed canonical text:  node = (kind, range|None, [(field, value)…]),
                                   list = [..], atoms are str
  unsexp(tree)                  -> canonical text again
  first_diff(a, b)              -> (path, a_sub, b_sub) of the first structural difference of two parsed trees
  strip_ranges(tree, kinds=None)-> copy without ranges (only of the given kinds when kinds is a set)
  line_starts(bytes)            -> byte offsets of line starts (LF, CRLF, CR)
  read_source(path)             -> text of a Python file decoded as CPython would (no newline translation)

The two documented representation differences of property C01 are applied HERE (reference side):
  * CPython's arguments(posonlyargs,args,vararg,kwonlyargs,kw_defaults,kwarg,defaults) is re-shaped into
    this parser's Arguments{posonlyargs,args: [ArgWithDefault{def,default}], vararg, kwonlyargs, kwarg};
  * lone surrogates in str constants are replaced by U+FFFD.
"""
import ast
import os
import re
import struct
import sys
import tokenize
import io

REPO = os.environ.get("PV_REPO", "/repo")

# ------------------------------------------------------------------ schema

_STRUCT = re.compile(r"pub struct (\w+)(?:<R = TextRange>)? \{\n(.*?)\n\}", re.S)
_FIELD = re.compile(r"^\s*pub (\w+): (.+?),\s*$", re.M)
_ENUM = re.compile(r"pub enum (\w+)(?:<R = TextRange>)? \{\n(.*?)\n\}", re.S)


class Schema:
    """structs: name -> [(field, rusttype)] without `range`; range_kind: name -> 'R' | 'OptionalRange' | None;
    enums: name -> [variants]"""

    def __init__(self, text):
        self.structs = {}
        self.range_kind = {}
        self.enums = {}
        for m in _STRUCT.finditer(text):
            name, body = m.group(1), m.group(2)
            fs = []
            rk = None
            for fm in _FIELD.finditer(body):
                f, t = fm.group(1), fm.group(2).strip()
                if f == "range":
                    rk = "OptionalRange" if t.startswith("OptionalRange") else "R"
                    continue
                fs.append((f, t.replace("<R>", "")))
            if fs or rk:
                self.structs[name] = fs
                self.range_kind[name] = rk
        for m in _ENUM.finditer(text):
            name, body = m.group(1), m.group(2)
            vs = re.findall(r"^\s*(\w+)(?:\((\w+)(?:<R>)?\))?,\s*$", body, re.M)
            self.enums[name] = vs


_schema = None


def schema():
    global _schema
    if _schema is None:
        _schema = Schema(open(os.path.join(REPO, "ast/src/gen/generic.rs"), encoding="utf-8").read())
    return _schema


# kinds that CPython gives lineno/col_offset/end_* for (everything under these base classes)
POSITIONED_BASES = (ast.stmt, ast.expr, ast.pattern, ast.arg, ast.keyword, ast.alias, ast.excepthandler)
# struct kinds with a range in this parser that CPython does not position
UNPOSITIONED_KINDS = {"ModModule", "ModInteractive", "ModExpression", "ModFunctionType", "Arguments",
                      "ArgWithDefault", "Comprehension", "WithItem", "MatchCase", "TypeIgnoreTypeIgnore",
                      "TypeParamTypeVar", "TypeParamParamSpec", "TypeParamTypeVarTuple"}


def _category(n):
    if isinstance(n, ast.expr):
        return "Expr"
    if isinstance(n, ast.stmt):
        return "Stmt"
    if isinstance(n, ast.pattern):
        return "Pattern"
    if isinstance(n, ast.mod):
        return "Mod"
    if isinstance(n, ast.excepthandler):
        return "ExceptHandler"
    if isinstance(n, ast.type_ignore):
        return "TypeIgnore"
    return ""


_SPECIAL = {"arguments": "Arguments", "arg": "Arg", "keyword": "Keyword", "alias": "Alias",
            "withitem": "WithItem", "match_case": "MatchCase", "comprehension": "Comprehension"}


def hexs(b):
    return b.hex() if b else "-"


def _fix_surrogates(s):
    # second documented representation difference: lone surrogate -> U+FFFD
    try:
        return s.encode("utf-8")
    except UnicodeEncodeError:
        return "".join("�" if 0xD800 <= ord(c) <= 0xDFFF else c for c in s).encode("utf-8")


def _str(s):
    return "s:" + hexs(_fix_surrogates(s))


def _float(f):
    if f != f:
        return "f:7ff8000000000000"
    return "f:%016x" % struct.unpack(">Q", struct.pack(">d", f))[0]


def _constant(v):
    if v is None:
        return "None"
    if v is True:
        return "(Bool true)"
    if v is False:
        return "(Bool false)"
    if v is Ellipsis:
        return "Ellipsis"
    if isinstance(v, str):
        return "(Str " + _str(v) + ")"
    if isinstance(v, bytes):
        return "(Bytes b:" + hexs(v) + ")"
    if isinstance(v, int):
        return "(Int i:%d)" % v
    if isinstance(v, float):
        return "(Float " + _float(v) + ")"
    if isinstance(v, complex):
        return "(Complex (real " + _float(v.real) + ") (imag " + _float(v.imag) + "))"
    if isinstance(v, tuple):
        return "(Tuple [" + " ".join(_constant(x) for x in v) + "])"
    raise TypeError(type(v))


_LEAF_TYPES = {"Identifier", "String", "Int", "bool", "Constant", "ConversionFlag", "ExprContext", "Operator",
               "BoolOp", "UnaryOp", "CmpOp"}


class Dumper:
    def __init__(self, source_bytes=None, ranges=False):
        self.sc = schema()
        self.ranges = ranges
        self.starts = line_starts(source_bytes) if (ranges and source_bytes is not None) else None
        self.bom = 3 if (source_bytes or b"")[:3] == b"\xef\xbb\xbf" else 0

    def off(self, line, col):
        o = self.starts[line - 1] + col
        if line == 1:
            o += self.bom       # CPython drops a leading BOM before counting columns on line 1
        return o

    def rng(self, n):
        if not self.ranges or not isinstance(n, POSITIONED_BASES):
            return ""
        return " @%d..%d" % (self.off(n.lineno, n.col_offset), self.off(n.end_lineno, n.end_col_offset))

    def leaf(self, t, v):
        if t == "Identifier" or t == "String":
            return _str(v)
        if t == "Int":
            return "(Int i:%d)" % v
        if t == "bool":
            return "true" if v else "false"
        if t == "Constant":
            return _constant(v)
        if t == "ConversionFlag":
            return "i:%d" % v
        if t in ("ExprContext", "Operator", "BoolOp", "UnaryOp", "CmpOp"):
            return type(v).__name__
        raise TypeError("leaf type " + t)

    def value(self, t, v):
        if t.startswith("Option<"):
            if v is None:
                return "None"
            return self.value(t[7:-1], v)
        if t.startswith("Box<"):
            return self.value(t[4:-1], v)
        if t.startswith("Vec<"):
            inner = t[4:-1]
            return "[" + " ".join(self.value(inner, x) for x in (v or [])) + "]"
        if t in _LEAF_TYPES:
            return self.leaf(t, v)
        return self.node(v)

    def arguments(self, a):
        pos = list(a.posonlyargs) + list(a.args)
        nd = len(a.defaults)
        defaults = [None] * (len(pos) - nd) + list(a.defaults)

        def awd(arg, d):
            return "(ArgWithDefault (def " + self.node(arg) + ") (default " + (self.node(d) if d is not None else "None") + "))"
        po = [awd(x, d) for x, d in zip(pos[:len(a.posonlyargs)], defaults[:len(a.posonlyargs)])]
        ar = [awd(x, d) for x, d in zip(pos[len(a.posonlyargs):], defaults[len(a.posonlyargs):])]
        kw = [awd(x, d) for x, d in zip(a.kwonlyargs, a.kw_defaults)]
        return ("(Arguments (posonlyargs [" + " ".join(po) + "]) (args [" + " ".join(ar) + "]) (vararg " +
                (self.node(a.vararg) if a.vararg else "None") + ") (kwonlyargs [" + " ".join(kw) + "]) (kwarg " +
                (self.node(a.kwarg) if a.kwarg else "None") + "))")

    def node(self, n):
        cls = type(n).__name__
        if cls == "arguments":
            return self.arguments(n)
        kind = _SPECIAL.get(cls) or (_category(n) + cls)
        fields = self.sc.structs.get(kind)
        if fields is None:
            raise TypeError("no struct for " + kind)
        parts = ["(", kind, self.rng(n)]
        for f, t in fields:
            v = getattr(n, f.rstrip("_"), None)
            parts.append(" (" + f + " " + self.value(t, v) + ")")
        parts.append(")")
        return "".join(parts)


def line_starts(b):
    """byte offsets at which lines start; LF, CRLF and a lone CR all end a line (CPython translates
    CRLF and CR to LF before tokenising, so lineno counts all three)"""
    out = [0]
    i, n = 0, len(b)
    while i < n:
        c = b[i]
        if c == 10:
            out.append(i + 1)
        elif c == 13:
            if i + 1 < n and b[i + 1] == 10:
                i += 1
            out.append(i + 1)
        i += 1
    return out


def ref_tree(source, mode="m", ranges=False):
    """canonical reference tree; `source` is a str.  Raises SyntaxError/ValueError when CPython rejects."""
    pm = "eval" if mode == "e" else "exec"
    if source[:1] == "\ufeff":
        # CPython only skips a BOM in *bytes* input (a str starting with U+FEFF is rejected as a
        # non-printable character); files are bytes, so the reference for BOM texts is the bytes parse
        tree = ast.parse(source.encode("utf-8"), mode=pm)
    else:
        tree = ast.parse(source, mode=pm)
    d = Dumper(source.encode("utf-8", "surrogatepass") if ranges else None, ranges)
    s = d.node(tree)
    if mode == "i":
        # the reference for interactive mode is the module-mode tree (property text)
        assert s.startswith("(ModModule")
        s = "(ModInteractive" + s[len("(ModModule"):]
        k = s.rfind(" (type_ignores [])")
        s = s[:k] + s[k + len(" (type_ignores [])"):]
    return s


# ------------------------------------------------------------------ reading canonical text back

_TOK = re.compile(r"[()\[\]]|[^\s()\[\]]+")


def sexp(text):
    """node = (kind, range or None, [(field, value)...]);  list = python list;  atom = str;
    `(Variant v...)` non-struct tuples are ('Variant', None, [(None, v)...])"""
    toks = _TOK.findall(text)
    pos = 0

    def val():
        nonlocal pos
        t = toks[pos]
        pos += 1
        if t == "[":
            out = []
            while toks[pos] != "]":
                out.append(val())
            pos += 1
            return out
        if t == "(":
            kind = toks[pos]
            pos += 1
            rng = None
            fields = []
            if toks[pos].startswith("@"):
                a, b = toks[pos][1:].split("..")
                rng = (int(a), int(b))
                pos += 1
            while toks[pos] != ")":
                if toks[pos] == "(" and pos + 1 < len(toks) and re.match(r"[a-z_]+$", toks[pos + 1]):
                    # (field value)
                    f = toks[pos + 1]
                    pos += 2
                    v = val()
                    assert toks[pos] == ")", (f, toks[pos])
                    pos += 1
                    fields.append((f, v))
                else:
                    fields.append((None, val()))
            pos += 1
            return (kind, rng, fields)
        return t
    v = val()
    assert pos == len(toks), "trailing tokens"
    return v


def unsexp(t):
    if isinstance(t, str):
        return t
    if isinstance(t, list):
        return "[" + " ".join(unsexp(x) for x in t) + "]"
    kind, rng, fields = t
    parts = ["(" + kind]
    if rng is not None:
        parts.append(" @%d..%d" % rng)
    for f, v in fields:
        parts.append((" (" + f + " " + unsexp(v) + ")") if f is not None else (" " + unsexp(v)))
    parts.append(")")
    return "".join(parts)


def strip_ranges(t, kinds=None):
    if isinstance(t, str):
        return t
    if isinstance(t, list):
        return [strip_ranges(x, kinds) for x in t]
    kind, rng, fields = t
    if kinds is None or kind in kinds:
        rng = None
    return (kind, rng, [(f, strip_ranges(v, kinds)) for f, v in fields])


def first_diff(a, b, path=""):
    """first difference in a pre-order walk, or None"""
    if isinstance(a, str) or isinstance(b, str):
        return None if a == b else (path, a, b)
    if isinstance(a, list) != isinstance(b, list):
        return (path, a, b)
    if isinstance(a, list):
        for k, (x, y) in enumerate(zip(a, b)):
            d = first_diff(x, y, f"{path}[{k}]")
            if d:
                return d
        if len(a) != len(b):
            return (path + ".len", str(len(a)), str(len(b)))
        return None
    if a[0] != b[0]:
        return (path + ".kind", a[0], b[0])
    if a[1] != b[1]:
        return (path + ".range", str(a[1]), str(b[1]))
    for (fa, va), (fb, vb) in zip(a[2], b[2]):
        if fa != fb:
            return (path + ".field", str(fa), str(fb))
        d = first_diff(va, vb, f"{path}.{fa if fa is not None else '_'}")
        if d:
            return d
    if len(a[2]) != len(b[2]):
        return (path + ".nfields", str(len(a[2])), str(len(b[2])))
    return None


def short(t, n=160):
    s = unsexp(t) if not isinstance(t, str) else t
    return s if len(s) <= n else s[:n] + "…"


def read_source(path):
    """decode a Python file the way CPython does (PEP 263 cookie / BOM), WITHOUT newline translation;
    a leading BOM is kept in the text (both parsers skip it)"""
    raw = open(path, "rb").read()
    enc, _ = tokenize.detect_encoding(io.BytesIO(raw).readline)
    if enc == "utf-8-sig":
        enc = "utf-8"
    return raw.decode(enc)


def stdlib_files():
    root = os.path.dirname(os.__file__)
    out = []
    for d, dirs, files in os.walk(root):
        dirs.sort()
        if "site-packages" in d:
            continue
        for f in sorted(files):
            if f.endswith(".py"):
                out.append(os.path.join(d, f))
    return out


if __name__ == "__main__":
    src = sys.argv[2] if len(sys.argv) > 2 else sys.stdin.read()
    print(ref_tree(src, sys.argv[1] if len(sys.argv) > 1 else "m", ranges="-r" in sys.argv))
