#!/usr/bin/env python3
"""C09 translator: parser/src/gen/parse.rs (+ the Stmt/Expr enum definitions of ast/src/gen/generic.rs)
-> lean/PV/Gen/C09TypedParsers.lean.

Strict: every `impl Parse for ast::X` block must match ONE exact shape (modulo whitespace); anything
else raises TranslateError, and the check then reports the obligation as unchecked.  The scanner never
guesses: identifiers it cannot resolve against the enum definitions are errors too.

For each impl it records
  typeEnum/typeIdx   which variant of which enum carries the implementing type (from generic.rs)
  lexVia             the type whose lex_starts_at is delegated to      (ast::Stmt | ast::Expr)
  parseVia           the type whose parse_tokens is delegated to       (ast::Stmt | ast::Expr)
  matchEnum/matchIdx the enum and variant named in the Ok arm
  errInvalidToken    the error arm builds ParseErrorType::InvalidToken
  errOff             class of the offset expression: node.range().start() | node.range().end() | zero
"""
import os
import re
import sys

sys.path.insert(0, os.path.dirname(os.path.abspath(__file__)))
import core  # noqa: E402


class TranslateError(Exception):
    pass


def _enum_variants(generic_src, enum):
    m = re.search(r"^pub enum " + enum + r"<R = TextRange> \{\n(.*?)^\}", generic_src, re.S | re.M)
    if not m:
        raise TranslateError(f"enum {enum} not found in generic.rs")
    out = []
    for line in m.group(1).split("\n"):
        line = line.strip()
        if not line or line.startswith("#[") or line.startswith("//"):
            continue
        mm = re.fullmatch(r"([A-Za-z0-9_]+)\(([A-Za-z0-9_]+)<R>\),", line)
        if not mm:
            raise TranslateError(f"enum {enum}: unrecognised variant line {line!r}")
        out.append((mm.group(1), mm.group(2)))
    if not out:
        raise TranslateError(f"enum {enum} has no variants")
    return out


_WS = re.compile(r"\s+")

_SHAPE = re.compile(
    r"impl Parse for ast::(?P<ty>\w+) \{ "
    r"fn lex_starts_at\( source: &str, offset: TextSize, \) -> SoftKeywordTransformer<Lexer<std::str::Chars>> \{ "
    r"ast::(?P<lexvia>\w+)::lex_starts_at\(source, offset\) \} "
    r"fn parse_tokens\( lxr: impl IntoIterator<Item = LexResult>, source_path: &str, \) -> Result<Self, ParseError> \{ "
    r"let node = ast::(?P<parsevia>\w+)::parse_tokens\(lxr, source_path\)\?; "
    r"match node \{ "
    r"ast::(?P<menum>\w+)::(?P<mvar>\w+)\(node\) => Ok\(node\), "
    r"node => Err\(ParseError \{ "
    r"error: ParseErrorType::(?P<ekind>\w+), "
    r"offset: (?P<eoff>[^,]+), "
    r"source_path: source_path\.to_owned\(\), "
    r"\}\), \} \} \}")

_OFFS = {
    "node.range().start()": "nodeStart",
    "node.range().end()": "nodeEnd",
    "TextSize::default()": "zero",
    "Default::default()": "zero",
    "TextSize::new(0)": "zero",
    "TextSize::from(0)": "zero",
    "0.into()": "zero",
}
_PARENT = {"Stmt": "stmt", "Expr": "expr"}


def translate(repo=None):
    repo = repo or core.REPO
    parse_src = open(os.path.join(repo, "parser", "src", "gen", "parse.rs"), encoding="utf-8").read()
    generic_src = open(os.path.join(repo, "ast", "src", "gen", "generic.rs"), encoding="utf-8").read()
    enums = {e: _enum_variants(generic_src, e) for e in ("Stmt", "Expr")}
    owner = {}
    for e, vs in enums.items():
        for i, (v, payload) in enumerate(vs):
            if payload in owner:
                raise TranslateError(f"payload type {payload} carried by two variants")
            owner[payload] = (e, i)
    # strip the header comment, split into impl blocks
    body = re.sub(r"^//[^\n]*\n", "", parse_src, flags=re.M)
    blocks = [b for b in re.split(r"(?=^impl )", body, flags=re.M) if b.strip()]
    rows = []
    seen = set()
    for b in blocks:
        flat = _WS.sub(" ", b).strip()
        m = _SHAPE.fullmatch(flat)
        if not m:
            raise TranslateError("unrecognised impl shape: " + flat[:160])
        ty = m.group("ty")
        if ty in seen:
            raise TranslateError(f"two impls for {ty}")
        seen.add(ty)
        if ty not in owner:
            raise TranslateError(f"implementing type {ty} is not the payload of a Stmt/Expr variant")
        for g in ("lexvia", "parsevia", "menum"):
            if m.group(g) not in _PARENT:
                raise TranslateError(f"{ty}: {g} = ast::{m.group(g)} is neither Stmt nor Expr")
        menum = m.group("menum")
        names = [v for v, _ in enums[menum]]
        if m.group("mvar") not in names:
            raise TranslateError(f"{ty}: ast::{menum}::{m.group('mvar')} is not a variant")
        eoff = m.group("eoff").strip()
        if eoff not in _OFFS:
            raise TranslateError(f"{ty}: unrecognised error offset expression {eoff!r}")
        te, ti = owner[ty]
        rows.append({
            "type": ty, "typeEnum": _PARENT[te], "typeIdx": ti,
            "lexVia": _PARENT[m.group("lexvia")], "parseVia": _PARENT[m.group("parsevia")],
            "matchEnum": _PARENT[menum], "matchIdx": names.index(m.group("mvar")),
            "errInvalidToken": m.group("ekind") == "InvalidToken", "errOff": _OFFS[eoff],
        })
    if not rows:
        raise TranslateError("no impl blocks found")
    # canonical order (Stmt variants, then Expr variants, in enum order): the order of the impl blocks in the
    # file carries no meaning
    rows.sort(key=lambda r: (0 if r["typeEnum"] == "stmt" else 1, r["typeIdx"]))
    return enums, rows


def render(enums, rows):
    def strs(xs):
        return "[" + ", ".join('"%s"' % x for x in xs) + "]"
    o = []
    o.append("import PV.C09.Types")
    o.append("/-! REGENERATED by tools/c09_translate.py from parser/src/gen/parse.rs and ast/src/gen/generic.rs — do not edit. -/")
    o.append("namespace PV.C09.Gen")
    o.append("open PV.C09")
    o.append("")
    o.append("/-- variant names of `enum Stmt`, in definition order (printing only) -/")
    o.append("def stmtVariants : List String := " + strs(v for v, _ in enums["Stmt"]))
    o.append("/-- payload type names of `enum Stmt` -/")
    o.append("def stmtPayloads : List String := " + strs(p for _, p in enums["Stmt"]))
    o.append("def exprVariants : List String := " + strs(v for v, _ in enums["Expr"]))
    o.append("def exprPayloads : List String := " + strs(p for _, p in enums["Expr"]))
    o.append("")
    o.append("/-- implementing type names of the generated parsers, in enum order (printing only) -/")
    o.append("def typedNames : List String := " + strs(r["type"] for r in rows))
    o.append("")
    o.append("def typedParsers : List TypedParser := [")
    for i, r in enumerate(rows):
        o.append("  { typeEnum := .%s, typeIdx := %d, lexVia := .%s, parseVia := .%s, matchEnum := .%s, matchIdx := %d, "
                 "errInvalidToken := %s, errOff := .%s }%s  -- %s" % (
                     r["typeEnum"], r["typeIdx"], r["lexVia"], r["parseVia"], r["matchEnum"], r["matchIdx"],
                     "true" if r["errInvalidToken"] else "false", r["errOff"],
                     "," if i + 1 < len(rows) else "", r["type"]))
    o.append("]")
    o.append("")
    o.append("def stmtVariantCount : Nat := %d" % len(enums["Stmt"]))
    o.append("def exprVariantCount : Nat := %d" % len(enums["Expr"]))
    o.append("")
    o.append("end PV.C09.Gen")
    return "\n".join(o) + "\n"


def write_if_changed(path, text):
    os.makedirs(os.path.dirname(path), exist_ok=True)
    if os.path.exists(path) and open(path, encoding="utf-8").read() == text:
        return False
    with open(path, "w", encoding="utf-8") as f:
        f.write(text)
    return True


def main():
    enums, rows = translate()
    path = os.path.join(core.LEAN, "PV", "Gen", "C09TypedParsers.lean")
    ch = write_if_changed(path, render(enums, rows))
    print(f"{len(rows)} generated parsers -> {path} ({'rewritten' if ch else 'unchanged'})")


if __name__ == "__main__":
    try:
        main()
    except TranslateError as e:
        print("c09_translate: " + str(e), file=sys.stderr)
        sys.exit(2)
