#!/usr/bin/env python3
"""tools/automut.py <n-workers> <n-mutants> [seed]   — automatic hole finder (exploration only; no verdict depends on it)

Generates simple syntactic mutants of the hand-written source files the properties are anchored in (relational / boolean
operator swaps, off-by-one constants, negation removal, range-bound changes), keeps those that still COMPILE and still pass
the crate's own unit tests (= "a change that compiles and passes the existing tests"), and runs the quick tier of the
checks anchored in that file against an isolated patched copy of /repo (same isolation as tools/mutant, but with a
persistent per-worker target directory so that only the changed crate is rebuilt).  A mutant that survives every check is
either an equivalent mutant or a blind spot of the generators/oracles: survivors are written to design/AUTOMUT.md with
their diff for triage.  Deterministic in the seed."""
import json, os, random, re, shutil, subprocess, sys, time
from concurrent.futures import ThreadPoolExecutor

V = os.path.dirname(os.path.dirname(os.path.abspath(__file__)))
ROOT = "/tmp/scratch/am"
TARGETS = {      # file -> (crate dir, cargo package, checks in the order they are tried)
    "parser/src/lexer.rs": ("parser", "rustpython-parser", ["C05", "C03", "C06", "C08", "C04", "C01"]),
    "parser/src/string.rs": ("parser", "rustpython-parser", ["C07", "C06", "C03", "C04", "C02"]),
    "parser/src/soft_keywords.rs": ("parser", "rustpython-parser", ["C05", "C01", "C08", "C10"]),
    "parser/src/function.rs": ("parser", "rustpython-parser", ["C04", "C01", "C02"]),
    "parser/src/context.rs": ("parser", "rustpython-parser", ["C01"]),
    "parser/src/parser.rs": ("parser", "rustpython-parser", ["C09", "C03"]),
    "ast/src/unparse.rs": ("ast", "rustpython-ast", ["C11"]),
    "ast/src/optimizer.rs": ("ast", "rustpython-ast", ["C12"]),
    "ast/src/source_locator.rs": ("ast", "rustpython-ast", ["C13"]),
    "ast/src/generic.rs": ("ast", "rustpython-ast", ["C14"]),
    "core/src/source_code.rs": ("core", "rustpython-parser-core", ["C13"]),
    "vendored/src/source_location/line_index.rs": ("vendored", "rustpython-parser-vendored", ["C15", "C13"]),
    "vendored/src/source_location/newlines.rs": ("vendored", "rustpython-parser-vendored", ["C15", "C13"]),
    "vendored/src/text_size/range.rs": ("vendored", "rustpython-parser-vendored", ["C15"]),
    "literal/src/escape.rs": ("literal", "rustpython-literal", ["C16", "C11"]),
    "literal/src/float.rs": ("literal", "rustpython-literal", ["C17", "C18", "C19"]),
    "format/src/format.rs": ("format", "rustpython-format", ["C18", "C20"]),
    "format/src/cformat.rs": ("format", "rustpython-format", ["C19"]),
}
OPS = [
    (r"<=", "<"), (r">=", ">"), (r"(?<= )<(?= )", "<="), (r"(?<= )>(?= )", ">="), (r"==", "!="), (r"!=", "=="),
    (r"&&", "||"), (r"\|\|", "&&"), (r"\btrue\b", "false"), (r"\bfalse\b", "true"), (r"\.is_some\(\)", ".is_none()"),
    (r"\.is_none\(\)", ".is_some()"), (r"\bif !", "if "), (r"\+= 1\b", "+= 2"), (r" \+ 1\b", " + 2"), (r" - 1\b", " - 0"),
    (r"\.\.=", ".."), (r"\bSome\((\w+)\) =>", r"Some(\1) if false =>"), (r"\.min\(", ".max("), (r"\.max\(", ".min("),
    (r"\b0\b(?!\.)", "1"), (r"\b1\b(?!\.)", "2"), (r"\b2\b(?!\.)", "3"), (r"\b3\b(?!\.)", "4"), (r"\b4\b(?!\.)", "5"), (r"\b8\b", "7"), (r"\b10\b", "11"),
    (r"\b16\b", "15"), (r"0x7f", "0x7e"), (r"0x80", "0x81"), (r"0xff", "0xfe"), (r"0x10ffff", "0x10fffe"), (r"\.saturating_sub\(", ".wrapping_sub("),
    (r"\.checked_add\(", ".checked_sub("), (r"\.checked_sub\(", ".checked_add("), (r"\.to_ascii_lowercase\(\)", ".to_ascii_uppercase()"),
    (r"\.start\(\)", ".end()"), (r"\.end\(\)", ".start()"), (r"\.first\(\)", ".last()"), (r"\.last\(\)", ".first()"), (r"\.any\(", ".all("),
    (r"\.all\(", ".any("), (r"\.take_while\(", ".skip_while("), (r"\.push\(", ".insert(0, "), (r"\bcontinue;", "break;"), (r"\bbreak;", "continue;"),
]


def sh(cmd, cwd=None, env=None, timeout=3600):
    e = dict(os.environ, CARGO_NET_OFFLINE="true")
    if env:
        e.update(env)
    try:
        p = subprocess.run(cmd, cwd=cwd, env=e, shell=isinstance(cmd, str), stdout=subprocess.PIPE, stderr=subprocess.STDOUT, text=True,
                           errors="replace", timeout=timeout)
        return p.returncode, p.stdout
    except subprocess.TimeoutExpired:
        return 124, "timeout"


def candidates(rng, n):
    out = []
    files = list(TARGETS)
    for fn in files:
        src = open("/repo/" + fn, encoding="utf-8").read().split("\n")
        cut = next((i for i, l in enumerate(src) if re.match(r"\s*(#\[cfg\(test\)\]|mod tests)", l)), len(src))
        for i, line in enumerate(src[:cut]):
            st = line.strip()
            if not st or st.startswith("//") or st.startswith("#[") or st.startswith("use ") or "unreachable" in st or "panic!" in st \
                    or "fmt::" in st or "write!(" in st or "debug_assert" in st or "=> write" in st:
                continue
            for k, (pat, rep) in enumerate(OPS):
                for m in re.finditer(pat, line):
                    # not inside a string literal or a trailing comment
                    pre = line[:m.start()]
                    if pre.count('"') % 2 == 1 or "//" in pre:
                        continue
                    out.append((fn, i, k, m.start()))
    rng.shuffle(out)
    # spread over files: at most n * 3 / len(files) per file
    per = {}
    sel = []
    cap = max(3, n * 3 // len(files))
    for c in out:
        if per.get(c[0], 0) < cap:
            per[c[0]] = per.get(c[0], 0) + 1
            sel.append(c)
        if len(sel) >= n:
            break
    return sel


def setup_worker(i):
    w = f"{ROOT}/w{i}"
    if os.path.isdir(w + "/repo"):
        sh(["git", "-C", "/repo", "worktree", "remove", "--force", w + "/repo"])
    shutil.rmtree(w, ignore_errors=True)
    os.makedirs(w)
    sh(["git", "-C", "/repo", "worktree", "add", "--detach", w + "/repo", "HEAD"])
    sh(f"rsync -a --exclude target /verif/harness/ {w}/harness/")
    sh(f"sed -i 's#\"/repo/#\"{w}/repo/#g' {w}/harness/Cargo.toml")
    sh(f"rsync -a /verif/lean/ {w}/lean/")
    return w


def run_one(w, cand):
    fn, ln, k, pos = cand
    crate, pkg, checks = TARGETS[fn]
    path = f"{w}/repo/{fn}"
    src = open(path, encoding="utf-8").read().split("\n")
    pat, rep = OPS[k]
    line = src[ln]
    m = re.compile(pat).search(line, pos)
    if not m or m.start() != pos:
        return None
    new = line[:m.start()] + m.expand(rep) + line[m.end():]
    src2 = list(src)
    src2[ln] = new
    open(path, "w", encoding="utf-8").write("\n".join(src2))
    res = {"file": fn, "line": ln + 1, "old": line.strip(), "new": new.strip(), "status": None, "by": None}
    try:
        env = {"CARGO_TARGET_DIR": f"{w}/target"}
        rc, out = sh(f"cargo test -p {pkg} --offline 2>&1", cwd=f"{w}/repo", env=env, timeout=1500)
        if "error[" in out or "error:" in out and "could not compile" in out:
            res["status"] = "nocompile"
            return res
        if rc != 0:
            res["status"] = "killed-by-existing-tests"
            return res
        penv = {"PV_REPO": f"{w}/repo", "PV_HARNESS": f"{w}/harness", "PV_LEAN": f"{w}/lean", "PV_WORK": f"{w}/work", "PV_EVID": f"{w}/evid"}
        for c in checks:
            rc, out = sh([f"{V}/check", c, "--tier", "quick"], cwd=V, env=penv, timeout=2400)
            if rc != 0 or "VIOLATION" in out:
                res["status"] = "killed"
                res["by"] = c
                res["input"] = "no-failing-input-found" not in out
                return res
        # a survivor must also pass the PINNED suite (workspace-wide, feature-unified), not only its crate's own tests
        rc, out = sh("cargo test --workspace --no-fail-fast --offline 2>&1", cwd=f"{w}/repo", env=env, timeout=2400)
        if rc != 0:
            res["status"] = "killed-by-existing-tests"
            res["by"] = "workspace suite"
            return res
        res["status"] = "SURVIVED"
        return res
    finally:
        open(path, "w", encoding="utf-8").write("\n".join(src))


def main():
    nw, n = int(sys.argv[1]), int(sys.argv[2])
    seed = int(sys.argv[3]) if len(sys.argv) > 3 else 1
    rng = random.Random(seed)
    cands = candidates(rng, n)
    os.makedirs(ROOT, exist_ok=True)
    workers = [setup_worker(i) for i in range(nw)]
    results = []
    logp = f"{ROOT}/results-{seed}.jsonl"
    import queue, threading
    q = queue.Queue()
    for c in cands:
        q.put(c)
    lock = threading.Lock()

    def loop(w):
        while True:
            try:
                c = q.get_nowait()
            except queue.Empty:
                return
            t0 = time.time()
            r = run_one(w, c)
            if r:
                r["wall_s"] = round(time.time() - t0, 1)
                with lock:
                    results.append(r)
                    open(logp, "a").write(json.dumps(r) + "\n")
                    print(r["status"], r.get("by") or "", r["file"], r["line"], "|", r["old"][:60], "=>", r["new"][:60], flush=True)
    ts = [threading.Thread(target=loop, args=(w,)) for w in workers]
    for t in ts:
        t.start()
    for t in ts:
        t.join()
    for i in range(nw):
        sh(["git", "-C", "/repo", "worktree", "remove", "--force", f"{ROOT}/w{i}/repo"])
        shutil.rmtree(f"{ROOT}/w{i}", ignore_errors=True)
    cnt = {}
    for r in results:
        cnt[r["status"]] = cnt.get(r["status"], 0) + 1
    print(cnt)


if __name__ == "__main__":
    main()
