"""Directed program shapes for the grammar regions that random generation rarely reaches (found with tools/covmap.py:
grammar actions of parser/src/python.rs that no quick-tier stream executed).

  param_shapes()      every combination of parameter-list sections for `def`, `async def` and `lambda`
                      (positional-only with `/`, positional, `*` / `*args`, keyword-only, `**kw`, defaults, annotations,
                      trailing comma) — LALRPOP expands the optional sections into ~150 separate productions/actions
  with_item_shapes()  `with` statements whose items are unparenthesised / parenthesised expressions of every kind: the grammar
                      keeps a second copy ("no-withitems") of the whole expression chain for this position
  misc_shapes()       other rarely generated productions (star-expression statements, decorators of every expression
                      kind, class argument lists, subscript forms, global/nonlocal lists, import forms, chained compound
                      statements on one line, match subjects / patterns of every kind)

All texts are valid for CPython 3.11 unless stated; callers filter with ast.parse where they need the reference tree."""
import itertools


def _plist(kind, npos, slash, nargs, defpat, star, nkw, kwdef, kwarg, comma, ann):
    """one parameter list (without the parentheses) or None if the combination is not a legal shape"""
    parts = []
    names = iter("abcdefghij")
    total_pos = npos + nargs
    # defaults pattern over the positional parameters: 0 none, 1 last only, 2 all
    ndef = {0: 0, 1: min(1, total_pos), 2: total_pos}[defpat]
    first_def = total_pos - ndef

    def one(i, nm):
        t = nm
        if ann and kind != "lambda":
            t += ": int"
        if i >= first_def:
            t += ("=" if not (ann and kind != "lambda") else " = ") + str(i)
        return t
    idx = 0
    for _ in range(npos):
        parts.append(one(idx, next(names)))
        idx += 1
    if slash:
        if npos == 0:
            return None
        parts.append("/")
    for _ in range(nargs):
        parts.append(one(idx, next(names)))
        idx += 1
    if star == 1:
        if nkw == 0:
            return None          # a bare * needs a keyword-only parameter after it
        parts.append("*")
    elif star == 2:
        parts.append("*args" + (": int" if ann and kind != "lambda" else ""))
    if nkw and star == 0:
        return None
    for k in range(nkw):
        nm = next(names)
        t = nm + (": int" if ann and kind != "lambda" else "")
        # kwdef: 0 none, 1 first only (a default BEFORE a required one is legal for keyword-only), 2 all
        if kwdef == 2 or (kwdef == 1 and k == 0):
            t += "=None" if not (ann and kind != "lambda") else " = None"
        parts.append(t)
    if kwarg:
        parts.append("**kw" + (": int" if ann and kind != "lambda" else ""))
    if not parts:
        return "" if not comma else None
    s = ", ".join(parts)
    if comma:
        s += ","
    return s


def param_shapes():
    out = []
    seen = set()
    for kind in ("def", "lambda", "async def"):
        for npos, slash, nargs, defpat, star, nkw, kwdef, kwarg, comma, ann in itertools.product(
                (0, 1, 2), (0, 1), (0, 1, 2), (0, 1, 2), (0, 1, 2), (0, 1, 2), (0, 1, 2), (0, 1), (0, 1), (0, 1)):
            if kind == "async def" and (ann or comma or npos == 2 or nargs == 2):
                continue            # the async variant shares the parameter productions: a thinner sample
            if kind == "lambda" and ann:
                continue
            if kwdef and not nkw:
                continue
            if defpat and npos + nargs == 0:
                continue
            p = _plist(kind, npos, slash, nargs, defpat, star, nkw, kwdef, kwarg, comma, ann)
            if p is None:
                continue
            if kind == "lambda":
                src = "f = lambda" + (" " + p if p else "") + ": 0\n"
            else:
                src = f"{kind} f({p}): pass\n"
            if src not in seen:
                seen.add(src)
                out.append(src)
    return out


EXPR_KINDS = [
    "a", "a.b", "a[0]", "a()", "a(b, c=1)", "a | b", "a ^ b", "a & b", "a << b", "a >> 1", "a + b", "a - b", "a * b", "a / b", "a // b",
    "a % b", "a @ b", "a ** b", "-a", "+a", "~a", "not a", "a and b", "a or b", "a < b", "a == b", "a in b", "a not in b", "a is b", "a is not b",
    "a < b < c", "a if b else c", "lambda: a", "lambda x: x", "await a", "True", "False", "None", "...", "1", "1.5", "1j", "'s'", "b's'",
    "f'{a}'", "'a' 'b'", "[a, b]", "[]", "[x for x in a]", "{a, b}", "{x for x in a}", "{a: b}", "{}", "{k: v for k, v in a}", "{**a}",
    "(a, b)", "(a,)", "()", "(x for x in a)", "(a)", "((a))", "(yield)", "(yield a)", "(yield from a)", "(a := b)", "(a if b else c)",
    "(lambda: a)", "(a or b)", "(not a)", "(a, *b)", "[*a, b]", "a[b:c]", "a[b:c:d]", "a[::2]", "a[b, c]", "a[b:c, d]", "a[*b]", "a[*b, c]",
    "a.b.c(d)[e]", "a if b else c if d else e", "a or b and not c", "-a ** -b", "await a ** b", "a < b > c != d",
    # constant tuples (the optimiser folds exactly the load-context ones), nested and as subscripts
    "(1, 2)", "((1, 2), (3, 'k'))", "(1,)", "a[1, 2]", "a[(1, 2)]", "f((1, b'x'), k=(None, ...))", "(1, (2, 3), a)", "(1.5, 1j, True)",
]


def with_item_shapes():
    out = []
    for e in EXPR_KINDS:
        out.append(f"with {e}: pass\n")
        out.append(f"with {e} as x: pass\n")
        out.append(f"with {e}, {e} as y: pass\n")
        out.append(f"with ({e}): pass\n")
        out.append(f"with ({e}) as x: pass\n")
        out.append(f"with ({e} as x): pass\n")
        out.append(f"with ({e}, {e}): pass\n")
        out.append(f"with ({e} as x, {e}): pass\n")
        out.append(f"with ({e}, {e} as y,): pass\n")
        out.append(f"async def f():\n    async with {e} as x, {e}: pass\n")
    # parenthesised heads that continue as an expression (the with-item / parenthesised-with ambiguity)
    out += ["with (a, b) as c: pass\n", "with (a), (b): pass\n", "with (a) as b, (c) as d: pass\n", "with ((a, b)): pass\n",
            "with (a)(b): pass\n", "with (a).b: pass\n", "with (a)[0]: pass\n", "with (a) + b: pass\n", "with (a, b)[0]: pass\n",
            "with (a := 1), b: pass\n", "with (a := 1): pass\n", "with (yield): pass\n", "with (a for a in b): pass\n",
            "with (a if b else c) as d: pass\n", "with (lambda: a)(): pass\n", "with (a, b), c: pass\n", "with (a) if b else c: pass\n"]
    for t in ("x", "x.y", "x[0]", "(x, y)", "[x, y]", "(x)", "x, y", "*x, y", "(*x, y)", "[*x]"):
        out.append(f"with a as {t}: pass\n")
        out.append(f"with (a as {t}): pass\n")
        out.append(f"with (a as {t}, b as {t}): pass\n")
    return out


def misc_shapes():
    out = []
    for e in EXPR_KINDS:
        out.append(f"{e}\n")                          # expression statement of every kind
        out.append(f"x = {e}\n")
        out.append(f"x: int = {e}\n")
        out.append(f"x += {e}\n")
        out.append(f"return_value = [{e}]\n")
        out.append(f"@{e}\ndef f(): pass\n")          # PEP 614: any expression is a decorator
        out.append(f"@{e}\nclass C: pass\n")
        out.append(f"class C({e}): pass\n")
        out.append(f"class C(B, m={e}): pass\n")
        out.append(f"def f(a={e}, *, b={e}) -> {e}: pass\n")
        out.append(f"f({e})\n")
        out.append(f"f(k={e}, *{e}, **{e})\n" if not e.startswith(("(yield", "lambda", "a if", "a or", "a and", "not ")) else f"f(k=({e}))\n")
        out.append(f"del_target = {e}\nassert {e}, {e}\n")
        out.append(f"del x[{e}], y[{e}].z, w[{e}:{e}]\n")      # load-context parts of del / store targets
        out.append(f"x[{e}] = y[{e}].z = 0\nfor x[{e}] in y: pass\n")
        out.append(f"if {e}: pass\nelif {e}: pass\nelse: pass\n")
        out.append(f"while {e}: pass\n")
        out.append(f"for x in {e}: pass\n")
        out.append(f"raise E from {e}\n" if True else "")
        out.append(f"match {e}:\n    case _: pass\n")
        out.append(f"match x:\n    case _ if {e}: pass\n")
        out.append(f"type X = {e}\n")
        out.append(f"def f[T: {e}](): pass\n")
        out.append(f"def g():\n    return {e}\n")
        out.append(f"def g():\n    yield {e}\n")
        out.append(f"try: pass\nexcept {e}: pass\n")
        out.append(f"try: pass\nexcept* {e} as err: pass\n")
    out += [
        "*a, b = c\n", "a, *b = c\n", "*a, = b\n", "[*a, b] = c\n", "(*a, b) = c\n", "for *a, b in c: pass\n", "for a, in b: pass\n",
        "x = *a, b\n", "x = *a,\n", "return_ = 1\n", "def f():\n    return *a, b\n", "def f():\n    yield *a, b\n", "del a, b\n", "del (a), [b], c.d, e[0]\n",
        "del (a, b), [c, d]\n", "del a,\n", "global a\n", "global a, b, c\n", "def f():\n    nonlocal a, b\n", "import a\n", "import a.b.c\n",
        "import a as b, c.d as e\n", "from a import b\n", "from a import b as c, d\n", "from a import (b, c as d,)\n", "from a import *\n",
        "from . import a\n", "from .. import a\n", "from ... import a\n", "from .... import a\n", "from .a import b\n", "from ..a.b import c\n",
        "from ...a import b\n", "from . import (a, b)\n", "pass; pass\n", "pass; pass;\n", "x = 1; y = 2; z = 3\n", "if a: b; c\n",
        "if a: pass\nelif b: pass\n", "while a: b\nelse: c\n", "for a in b: c\nelse: d\n", "try: a\nfinally: b\n", "try: a\nexcept: b\nelse: c\nfinally: d\n",
        "try: a\nexcept A: b\nexcept (B, C) as e: c\nexcept: d\n", "try: a\nexcept* A: b\nexcept* (B, C) as e: c\n", "class A: pass\n", "class A(): pass\n",
        "class A(B, C): pass\n", "class A(*b, **c): pass\n", "class A(B, *c, k=1, **d): pass\n", "class A[T]: pass\n", "class A[T, *Ts, **P](B): pass\n",
        "def f[T](): pass\n", "def f[T: int, U: (int, str), *Ts, **P](a: T, *b: *Ts) -> U: pass\n", "type X[T] = list[T]\n", "type X[*Ts, **P] = int\n",
        "async def f():\n    async for a in b: pass\n    else: pass\n", "async def f():\n    await a\n    return [x async for x in y]\n",
        "def f():\n    x = yield\n    y = yield a\n    z = yield from b\n    await_ = 1\n", "lambda: (yield)\n", "assert a\n", "assert a, b\n", "raise\n", "raise A\n",
        "raise A from B\n", "break_ = 1\nfor a in b:\n    break\n    continue\n", "x: int\n", "x: int = 1\n", "x.y: int\n", "x[0]: int = 1\n", "(x): int\n",
        "x = y = z = 1\n", "x, y = y, x = 1, 2\n", "x += 1; x -= 1; x *= 1; x /= 1; x //= 1; x %= 1; x **= 1; x @= 1; x <<= 1; x >>= 1; x &= 1; x |= 1; x ^= 1\n",
        "print(*a, sep='')\n", "f(a)(b)(c)\n", "f(a for a in b)\n", "f(a, (b for b in c))\n", "f(*a, *b, **c, **d)\n", "f(a, *b, c, k=1, *d, **e)\n", "f(a=1, **b, c=2)\n",
    ]
    pats = ["1", "-1", "1.5", "-1.5", "1j", "1 + 2j", "1 - 2j", "-1 + 2j", "'s'", "'a' 'b'", "b's'", "f", "None", "True", "False", "x", "_", "a.b", "a.b.c",
            "[a, b]", "[a, *b]", "[*a]", "[*_]", "[]", "(a, b)", "(a,)", "()", "(a)", "a, b", "a, *b", "*a, b", "a,", "{'k': v}", "{'k': v, **r}", "{**r}", "{}",
            "{1: a, 'b': c}", "{a.b: c}", "C()", "C(a)", "C(a, b)", "C(k=a)", "C(a, k=b)", "C(a, k=b,)", "a.B(c)", "a | b", "a | b | c", "1 | 2", "a as b",
            "(a | b) as c", "[a, b] as c", "C(a) as d", "[a, [b, c], {'k': [d]}]", "{'a': {'b': c}}", "C(D(e))"]
    for p in pats:
        out.append(f"match x:\n    case {p}: pass\n")
        out.append(f"match x:\n    case {p} if g: pass\n    case _: pass\n")
        out.append(f"match x, y:\n    case {p}:\n        pass\n")
    for subj in ("x", "x, y", "x,", "*x, y", "(x, y)", "[x, y]", "x if a else b", "lambda: x", "x := 1", "(x := 1)", "await_", "-x", "not x", "x.y", "x[0]", "x()", "{}", "[]",
                 "()", "'s'", "1", "...", "None"):
        out.append(f"match {subj}:\n    case _: pass\n")
    return [s for s in dict.fromkeys(out) if s]


def all_shapes():
    return param_shapes() + with_item_shapes() + misc_shapes() + literal_spellings()


def rule_violations():
    """texts that break one rule the parser itself enforces (property C04's catalogue), in compact and spaced spellings,
    for def / async def / lambda / calls / class argument lists / decorators — used by checks that compare BUILDS or entry
    points on invalid input (the error must be the same everywhere)"""
    out = []
    plists = ["a,a", "a, a", "_,_", "ab,ab", "a,*a", "a,/,a", "a, /, a", "*,a,a", "*, a, a", "a,**a", "*a,**a", "a,b,a", "a,*,a",
              "a=1,b", "a=1, b", "a=1,/,b", "a,b=1,c", "*", "*,", "*,**k", "a,*", "a=1,a"]
    for p in plists:
        out += [f"def f({p}): pass\n", f"async def f({p}): pass\n", f"lambda {p}: 0\n", f"lambda {p}:0\n", f"x = [lambda {p}: 0]\n",
                f"class C:\n    def m({p}): pass\n", f"@d\ndef f({p}): pass\n"]
    alists = ["a=1,b", "a=1, b", "**a,b", "**a,*b", "**a, *b", "a=1,a=2", "a=1, a=2", "k=1,**d,k=2", "**a,b=1,*c", "*a,b=1,c"]
    for a in alists:
        out += [f"f({a})\n", f"f( {a} )\n", f"class C({a}): pass\n", f"@f({a})\ndef g(): pass\n", f"x = f(g({a}))\n", f"f({a},)\n"]
    out += ["with (**a): pass\n", "with (a, **b): pass\n", "x = (**a)\n", "with (**a) as b: pass\n"]
    out += ["(*a)\n", "( *a )\n", "(**a)\n", "x = (*a)\n", "f((*a))\n", "[(*a)]\n", "match x:\n    case 1 as _: pass\n",
            "match x:\n    case [a, b as _]: pass\n", "match x:\n    case (1|2) as _: pass\n"]
    return list(dict.fromkeys(out))


def literal_spellings():
    """every family of numeric / string literal SPELLING (not value): leading zeros where Python allows them, underscores,
    exponent forms, imaginary suffix in both cases, radix prefixes in both cases, string prefixes in every case and order"""
    ints = ["0", "00", "000", "0_0", "1", "10", "1_0", "123_456", "9" * 25, "0x1f", "0X1F", "0x_1f", "0XdeadBEEF", "0o17", "0O_17", "0b101", "0B_1_0"]
    floats = ["0.", "1.", ".5", "0.5", "1.5", "00.5", "01.5", "1e5", "1E5", "1e+5", "1e-5", "01e1", "1_0.0_1", "1_0e1_0", "1.e5", ".5e-3", "0e0",
              "007.", "09.5", "0_9.0", "1e308", "1e-400", "1.7976931348623157e308"]
    imags = [d + j for d in ["0", "00", "01", "007", "09", "0_9", "1", "10", "1_0", "0.", "1.", ".5", "01.5", "1e5", "01e1", "1_0.0_1e1_0", "00.0"] for j in "jJ"]
    out = []
    for n in ints + floats + imags:
        out += [f"x = {n}\n", f"x = -{n}\n", f"x = [{n}, {n}]\n", f"f({n})\n", f"x = {n} + {n}\n", f"x = {n} if {n} else {n}\n"]
    for n in ints[:8] + floats[:6]:
        out.append(f"x = {n} .real\n")
        out.append(f"x = ({n}).real\n")
    prefixes = ["", "r", "R", "u", "U", "b", "B", "br", "Br", "bR", "BR", "rb", "rB", "Rb", "RB", "f", "F", "fr", "Fr", "fR", "FR", "rf", "rF", "Rf", "RF"]
    for p in prefixes:
        for q in ("'", '"', "'''", '"""'):
            out.append(f"x = {p}{q}a{q}\n")
            out.append(f"x = {p}{q}{q}\n")
    return out
