"""C19 — printf-style (%) templates: splitting and formatting equal Python's.

Request lines (see harness/src/bin/pvh_c19.rs): csplit, cspec, cfmt, crender answered by the real crate
and by the Lean model; pysplit, pyfmt, pyrender answered by the Lean *reference* (Spec.lean) and
compared with CPython only (spec validation, in pre_build).  The oracle is CPython's `%` operator."""
import itertools
import math
import re
import struct

import core
from core import Stream, hexs, unhex

ID = "C19"
DESIGN_REF = "DESIGN.md section 5, C19"
LEAN_TARGETS = ["PV.C19.Thm"]
DRIVER = "drv_c19"
HARNESS = {"bin": "pvh_c19", "features": "default"}
THEOREMS = [
    "PV.C19.split_eq",
    "PV.C19.split_eq_bytes",
    "PV.C19.split_eq_text",
    "PV.C19.text_b_repaired",
    "PV.C19.width_over_i32_repaired",
    "PV.C19.reject_same_index",
    "PV.C19.parts_wf",
    "PV.C19.checkSpecifiers_spec",
    "PV.C19.number_eq",
    "PV.C19.string_eq",
    "PV.C19.char_eq",
    "PV.C19.bytes_eq",
    "PV.C19.float_layout_eq",
    "PV.C19.float_eq",
    "PV.C19.float_precision_over_u16_repaired",
    "PV.C19.no_panic_partial",
]
TRUSTED = [
    "Lean 4.33.0 kernel; axioms limited to propext, Classical.choice, Quot.sound",
    "hand-written model lean/PV/C19/Model.lean of format/src/cformat.rs (+ the float helpers of literal/src/float.rs), "
    "tied to the code by the correspondence streams of this run",
    "lean/PV/C19/Spec.lean as the meaning of Python's % operator, validated against CPython 3.11 on every run "
    "(spec-validation obligations: same request sets as the correspondence streams)",
    "BigInt::to_str_radix modelled as positional notation (Types.toRadix); Rust float formatting "
    "{:.N} / {:.Ne} modelled by PV.Dec.toFixedL / toExpL (exact decimal arithmetic, owned by C17)",
    "str::chars().count() = number of scalar values; u8 -> char is Latin-1",
    "tools/props/c19.py (generators, CPython oracle), harness/src/bin/pvh_c19.rs, lean/Drv/C19.lean",
]
PARTIAL = [
    "split_eq holds for text and bytes templates on the whole domain; InDomain is a length bound only (templates "
    "of 2^31-1 or more characters: the parenthesis counter of the key scanner is an i32, modelled as a panic)",
    "floats: float_eq proves format_float = the C-printf reference over the exact digits of PV.Dec for every spec "
    "of float type, every precision and every double (no hypothesis left since the format! precision fix: the "
    "digit clamp of float.rs is proved exact in PV.C17.Clamp, the %g mantissa length is a theorem); that "
    "PV.Dec's digits are Rust's {:.N}/{:.Ne} digits and CPython's is sampled by correspondence / spec "
    "validation, not proved",
    "'*' quantities are left to the caller by the library: formatting theorems are stated for resolved specs",
    "no known finding is left for this property: the four former ones were repaired in /repo (86620af, 1c70d07, "
    "4850e50, d7ac332) and their inputs are regression requests",
]
READY = True
TECHNIQUE = ("Lean 4 theorems over a hand-written model of the %-template parser and formatters + exhaustive/random "
             "correspondence with the real crate, CPython's % operator as oracle")
LEVEL_TEXT = ("Machine-checked Lean 4 theorems, for templates and arguments of every size: the modelled template "
              "splitter returns exactly the literal pieces, conversion specifiers, rejections and error index of the "
              "reference definition of Python's % splitting (text and bytes templates, every template shorter than "
              "2^31-1 characters); integer, string, character and bytes formatting equal "
              "the reference layout (zero padding after sign and prefix, '-' over '0', precision as minimum digits / "
              "truncation) for every spec and argument (bytes formatting since fix 86620af); floats equal the "
              "C-printf reference for every precision and double (since the format! precision fix); no modelled path panics inside the stated domain. The model is tied to the Rust code, and the reference to "
              "CPython, by exhaustive short templates and random longer ones on every run.")
LEVEL_NOTE = ("Trusted: Lean kernel, model fidelity as sampled by correspondence (all templates of <= 4/5 symbols over a "
              "27-symbol alphabet, text and bytes), bigint and float digit generation (modelled by positional "
              "notation / PV.Dec), CPython 3.11 as the meaning of Python, harness and generators. Float digit text "
              "is compared, not proved.")
RULE = ("request lines (template x mode, or spec x value) sent to both the real format crate and the Lean model and "
        "judged against CPython's % operator; distinct = distinct request line; non-trivial = contains a '%'")

ALPHABET = ['%', '(', ')', '-', '+', ' ', '#', '0', '1', '5', '*', '.', 'h', 'l', 'd', 'i', 'o', 'x', 'X',
            'e', 'g', 's', 'r', 'c', 'b', 'a', 'é']

I32_MAX = 2**31 - 1
ISIZE_MAX = 2**63 - 1


# ------------------------------------------------------------------ CPython side

class U(int):
    """One value with independent int / float / str / repr / bytes views; works for every conversion type
    and as a '*' argument."""

    def __new__(cls, n, f, s, r, y):
        o = int.__new__(cls, n)
        o.f, o.s, o.r, o.y = f, s, r, y
        return o

    def __str__(self):
        return self.s

    def __repr__(self):
        return self.r

    def __float__(self):
        return self.f

    def __bytes__(self):
        return self.y


class _Stop(Exception):
    pass


class Boom:
    """A value that can never be formatted: used to learn the accept/reject decision of templates
    whose fields would be gigabytes wide."""

    def __str__(self):
        raise _Stop()

    __repr__ = __str__

    def __bytes__(self):
        raise _Stop()


class M:
    """mapping that answers every key with the same value and records the keys asked for"""

    def __init__(self, u):
        self.u = u
        self.keys = []

    def __getitem__(self, k):
        self.keys.append(k)
        return self.u


PROBE = U(3, 2.5, 'ab', 'cd', b'ef')
_IDX = re.compile(r"at index (\d+)$")


def _verr(e):
    m = _IDX.search(str(e))
    return ('err', int(m.group(1)) if m else None, str(e))


def py_format(tmpl, u):
    """CPython's verdict on `tmpl % (u, u, ...)` / `tmpl % mapping`:
    ('ok', result, nargs|None, keys|None) | ('err', index|None, message) | ('other', what)"""
    n = 0
    while True:
        try:
            return ('ok', tmpl % ((u,) * n), n, None)
        except TypeError as e:
            m = str(e)
            if m == 'not enough arguments for format string':
                n += 1
                if n > len(tmpl) + 2:
                    return ('other', 'loop')
                continue
            if m == 'format requires a mapping':
                break
            return ('other', 'TypeError:' + m)
        except ValueError as e:
            return _verr(e)
        except OverflowError as e:
            # bytes templates: CPython fails to build the "unsupported format character" message for a
            # non-ASCII byte and raises OverflowError instead; still a rejection, without an index
            if isinstance(tmpl, bytes) and 'character argument not in range' in str(e):
                return ('err', None, 'unsupported (bytes >= 0x80)')
            return ('other', 'OverflowError')
        except Exception as e:  # noqa
            return ('other', type(e).__name__)
    mp = M(u)
    try:
        return ('ok', tmpl % mp, None, mp.keys)
    except ValueError as e:
        return _verr(e)
    except OverflowError as e:
        if isinstance(tmpl, bytes) and 'character argument not in range' in str(e):
            return ('err', None, 'unsupported (bytes >= 0x80)')
        return ('other', 'OverflowError')
    except Exception as e:  # noqa
        return ('other', type(e).__name__ + ':' + str(e))


def py_decide_boom(tmpl):
    """accept/reject only, never formats anything (single-specifier templates with huge numerals)"""
    try:
        tmpl % (Boom(),)
        return ('ok', None, None, None)
    except ValueError as e:
        return _verr(e)
    except Exception:  # noqa  TypeError from the value, _Stop from __str__: the template was accepted
        return ('ok', None, None, None)


_DIGITS = re.compile(rb"\d{6,}")


def _tmpl_of(mode, h):
    b = unhex(h)
    return b.decode('utf-8') if mode == 't' else b


def _enc(mode, r):
    return r.encode('utf-8') if mode == 't' else r


def _latin(k):
    """Rust keeps a bytes-template key as a String of Latin-1 characters"""
    return k.decode('latin-1').encode('utf-8')


# ------------------------------------------------------------------ a rough specifier finder
# Used ONLY to recognise known-finding shapes and to keep them out of random streams; never to judge.
_SPEC = re.compile(rb"(?P<flags>[-+ #0]*)(?P<width>\*|\d+)?"
                   rb"(?P<dot>\.)?(?P<prec>\*|\d+)?[hlL]?(?P<type>[\x00-\xff])", re.S)


def find_specs(b):
    """[match] for each conversion specifier of a bytes template (Latin-1 view of a text one); the match
    starts after the optional (nested) mapping key"""
    out, i = [], 0
    while True:
        i = b.find(b'%', i)
        if i < 0:
            return out
        if b[i + 1:i + 2] == b'%':
            i += 2
            continue
        j = i + 1
        if b[j:j + 1] == b'(':
            depth, j = 1, j + 1
            while j < len(b) and depth:
                depth += (b[j] == 40) - (b[j] == 41)
                j += 1
            if depth:
                return out
        m = _SPEC.match(b, j)
        if not m or (m.group('prec') and not m.group('dot')):
            return out
        out.append(m)
        i = m.end()


def _lat(mode, tmpl):
    try:
        return tmpl.encode('latin-1') if mode == 't' else tmpl
    except UnicodeEncodeError:
        return None


def _views_of(ws):
    """views of a crender request"""
    n = int(ws[3])
    f = struct.unpack('>d', bytes.fromhex(ws[4]))[0]
    return U(n, f, unhex(ws[5]).decode(), unhex(ws[6]).decode(), unhex(ws[8])), unhex(ws[7]).decode()


# ------------------------------------------------------------------ oracle

def _judge_split(mode, tmpl, out):
    """csplit / pysplit answer against CPython: decision, error index, argument count, keys"""
    big = _DIGITS.search(_lat(mode, tmpl) or b'')
    py = py_decide_boom(tmpl) if big else py_format(tmpl, PROBE)
    w = out.split()
    if not w or w[0] not in ('ok', 'err'):
        return "implementation " + out[:40]
    if py[0] == 'other':
        return None
    if w[0] == 'err':
        if py[0] == 'ok':
            return f"rejected ({w[1]} at {w[2]}) but Python accepts the template"
        if py[1] is not None and w[2] != str(py[1]):
            return f"error index {w[2]}, Python reports index {py[1]}"
        return None
    if py[0] == 'err':
        return f"accepted but Python rejects: {py[2]}"
    if big:
        return None
    parts = w[1].split(';') if len(w) > 1 and not w[1].startswith('chk=') else []
    specs = [p for p in parts if p.startswith('S')]
    keys = []
    stars = 0
    for s in specs:
        f = s.split(':')
        if f[1] != '~':
            keys.append(unhex(f[1][1:]))
        stars += (f[3] == '*') + (f[4] == '*')
    if py[3] is None:
        if keys:
            return "specifier with a mapping key although Python needs no mapping"
        if py[2] != len(specs) + stars:
            return f"{len(specs)} specifiers + {stars} stars, Python consumes {py[2]} arguments"
    else:
        pk = [k.encode('utf-8') if mode == 't' else _latin(k) for k in py[3]]
        if len(keys) == len(specs) and keys != pk:
            return f"mapping keys {keys} != Python's {pk}"
    return None


def _judge_render(mode, tmpl, u, out):
    py = py_format(tmpl, u)
    w = out.split()
    if not w:
        return "implementation gave no answer"
    if w[0] == 'panic' or w[0].startswith('('):
        return "implementation panicked" + ("" if py[0] != 'ok' else f" (Python gives {py[1]!r:.60})")
    if py[0] == 'other':
        return None
    if w[0] == 'skip':
        if py[0] == 'err':
            return f"accepted but Python rejects: {py[2]}"
        return None
    if w[0] == 'err':
        if py[0] == 'ok':
            return f"rejected ({w[1]} at {w[2]}) but Python accepts the template"
        if py[1] is not None and w[2] != str(py[1]):
            return f"error index {w[2]}, Python reports index {py[1]}"
        return None
    if w[0] != 'ok':
        return "implementation " + out[:40]
    if py[0] == 'err':
        return f"accepted but Python rejects: {py[2]}"
    got = unhex(w[1])
    exp = _enc(mode, py[1])
    if got != exp:
        return f"formatted {got!r:.80}, Python gives {exp!r:.80}"
    if py[3] is not None:
        ks = [unhex(k) for k in w[2][5:].split(',')] if w[2] != 'keys=' else []
        pk = [k.encode('utf-8') if mode == 't' else _latin(k) for k in py[3]]
        if ks != pk:
            return f"mapping keys {ks} != Python's {pk}"
    return None


class _R:
    def __init__(self, t):
        self.t = t

    def __repr__(self):
        return self.t


def _py_cfmt(spec, kind, v):
    """expected bytes of `cfmt` or None when CPython does not take the question"""
    try:
        if kind == 'i':
            return ('ok', (spec % int(v)).encode())
        if kind == 'f':
            return ('ok', (spec % struct.unpack('>d', bytes.fromhex(v))[0]).encode())
        if kind == 's':
            t = unhex(v).decode()
            c = spec[-1]
            if c == 's':
                return ('ok', (spec % t).encode())
            if c == 'r' or (c == 'a' and t.isascii()):
                return ('ok', (spec % _R(t)).encode())
            return None
        if kind == 'c':
            return ('ok', (spec % chr(int(v))).encode())
        if kind == 'y':
            return ('ok', spec.encode('latin-1') % unhex(v))
    except ValueError as e:
        return _verr(e)
    except Exception:  # noqa
        return None
    return None


def _judge_cfmt(spec, kind, v, out):
    w = out.split()
    if not w:
        return "implementation gave no answer"
    if w[0] == 'panic' or w[0].startswith('('):
        return "implementation panicked"
    if w[0] in ('mismatch', 'bad-request'):
        return None
    py = _py_cfmt(spec, kind, v)
    if py is None:
        return None
    if w[0] == 'err':
        return None if py[0] == 'err' else f"specifier rejected ({w[1]}) but Python accepts it"
    if py[0] == 'err':
        return f"accepted but Python rejects: {py[2]}"
    got = unhex(w[1])
    if got != py[1]:
        return f"formatted {got!r:.80}, Python gives {py[1]!r:.80}"
    return None


def oracle(req, out):
    ws = req.split()
    op = ws[0]
    if op in ('csplit', 'pysplit'):
        return _judge_split(ws[1], _tmpl_of(ws[1], ws[2]), out)
    if op in ('crender', 'pyrender'):
        u, _ = _views_of(ws)
        return _judge_render(ws[1], _tmpl_of(ws[1], ws[2]), u, out)
    if op in ('cfmt', 'pyfmt'):
        return _judge_cfmt(unhex(ws[1]).decode(), ws[2], ws[3], out)
    return None


# ------------------------------------------------------------------ known findings

def classify(req, impl_out, model_out, failure):
    """No known finding is left for C19 (text-percent-b-accepted and width-over-i32-rejected were repaired in
    /repo by d7ac332 and 4850e50): every oracle failure is a violation."""
    return None


# ------------------------------------------------------------------ generators

def fbits(f):
    return '%016x' % struct.unpack('>Q', struct.pack('>d', f))[0]


def _render_req(mode, tmpl, u, op='crender'):
    b = tmpl.encode('utf-8') if isinstance(tmpl, str) else tmpl
    return (f"{op} {mode} {hexs(b)} {int(u)} {fbits(u.f)} {hexs(u.s)} {hexs(u.r)} {hexs(ascii(u))} {hexs(u.y)}")


def _split_req(mode, tmpl, op='csplit'):
    b = tmpl.encode('utf-8') if isinstance(tmpl, str) else tmpl
    return f"{op} {mode} {hexs(b)}"


def templates(maxlen, need_percent=True):
    """all templates over the alphabet, as text; bytes mode encodes them Latin-1"""
    for n in range(maxlen + 1):
        for tup in itertools.product(ALPHABET, repeat=n):
            if need_percent and '%' not in tup:
                continue
            yield ''.join(tup)


VALUES = [
    U(0, 0.0, '', '', b''),
    U(1, 1.5, 'ab', "'ab'", b'ab'),
    U(-1, -2.25, 'héllo', "'héllo'", 'héllo'.encode()),
    U(255, 1e10, 'abcdefgh', 'R', b'abcdefgh'),
    U(-255, 123456.789, 'x', 'yy', b'\xff\x00'),
    U(10 ** 30, 1e-7, 'é', 'é', b'z'),
    U(65, float('inf'), 'q', 'q', b'q'),
    U(200, float('nan'), 'q', 'q', b'q'),
    U(97, struct.unpack('>d', bytes.fromhex('fff8000000000000'))[0], 'q', 'q', b'q'),
    U(7, -0.0, 'q', 'q', b'q'),
    U(7, 0.0001, 'q', 'q', b'q'),
    U(7, 999999.5, 'q', 'q', b'q'),
    U(7, 2.5, 'q', 'q', b'q'),
]

FLOATS = [0.0, -0.0, float('inf'), float('-inf'), float('nan'), struct.unpack('>d', bytes.fromhex('fff8000000000001'))[0], 1.0, -1.0, 0.5, 1.5, 2.5, 1e16, 1e-5, 9.999999e-5,
          0.0001, 0.00001234, 123456.5, 999999.5, 9999995.0, 9.5, 0.15, 2.675, 1e21, 1e22, 1e23, 5e-324,
          2.2250738585072014e-308, 1.7976931348623157e308, 123456789.0, 1e100, 0.1, 1 / 3, 100.0, 99.5, 0.95,
          0.00095, 1e-4, 9.9995e-5, 12345.678]
INTS = [0, 1, -1, 7, 8, 9, 10, 15, 16, 255, -255, 256, 2 ** 31, -2 ** 63, 10 ** 30, -10 ** 30, 2 ** 100 + 1]
TEXTS = ['', 'a', 'ab', 'héllo', 'abcdefghijkl', '😀x', ' ', '%']
BYTESV = [b'', b'a', b'ab', b'h\xc3\xa9llo', b'abcdefgh', b'\xff\x00', b'%']


def _rand_spec(rng, types, star=False, key=None, wmax=None):
    fl = ''.join(rng.choice('-+ #0') for _ in range(rng.choice([0, 0, 1, 1, 2, 3])))
    ws = ['', '', '1', '2', '5', '8', '12', '20', '03']
    ps = ['', '', '.', '.0', '.1', '.2', '.3', '.5', '.10', '.17', '.20', '.40']
    if star:
        ws.append('*')
        ps.append('.*')
    w = rng.choice(ws)
    p = rng.choice(ps)
    ln = rng.choice(['', '', '', 'h', 'l', 'L'])
    k = '' if key is None else '(' + key + ')'
    return '%' + k + fl + w + p + ln + rng.choice(types)


def _rand_float(rng):
    k = rng.randrange(10)
    if k == 0:
        return rng.choice(FLOATS)
    if k < 4:
        return struct.unpack('>d', struct.pack('>Q', rng.getrandbits(64)))[0]
    if k < 7:
        return rng.choice([1, -1]) * rng.randrange(0, 10 ** 6) / rng.choice([1, 2, 4, 8, 10, 100, 1000, 3, 7])
    return rng.choice([1, -1]) * rng.random() * 10 ** rng.randrange(-8, 20)


def _fmt_requests(rng, n, op='cfmt'):
    reqs = []
    for _ in range(n):
        k = rng.choice('iiffsscy')
        if k == 'i':
            sp = _rand_spec(rng, 'diuoxX')
            v = rng.choice(INTS + [rng.randrange(-10 ** 6, 10 ** 6), rng.getrandbits(100), -rng.getrandbits(70)])
            reqs.append(f"{op} {hexs(sp)} i {v}")
        elif k == 'f':
            sp = _rand_spec(rng, 'eEfFgG')
            reqs.append(f"{op} {hexs(sp)} f {fbits(_rand_float(rng))}")
        elif k == 's':
            sp = _rand_spec(rng, 'sra')
            reqs.append(f"{op} {hexs(sp)} s {hexs(rng.choice(TEXTS))}")
        elif k == 'c':
            sp = _rand_spec(rng, 'c')
            reqs.append(f"{op} {hexs(sp)} c {rng.choice([0, 65, 97, 233, 0x20ac, 0x1f600, 0x10ffff])}")
        else:
            sp = _rand_spec(rng, 'sb')
            v = rng.choice(BYTESV)
            reqs.append(f"{op} {hexs(sp)} y {hexs(v)}")
    return reqs


def _rand_key(rng):
    k = rng.choice(['a', 'key', '', 'é', 'a b', 'x(y)z', '((n))', 'k%d', '1'])
    return k


def _rand_template(rng, mode, values):
    """mostly valid longer template; returns (template text, value)"""
    u = rng.choice(values)
    keyed = rng.random() < 0.3
    pieces = []
    for _ in range(rng.randrange(1, 6)):
        if rng.random() < 0.55:
            pieces.append(rng.choice(['', 'abc', ' ', 'x=', '%%', 'é', '100%%', '(', ')', 'a%%b']))
        types = 'diuoxXeEfFgGcsra' + ('b' if mode == 'b' else '')
        sp = _rand_spec(rng, types, key=_rand_key(rng) if keyed else None)
        pieces.append(sp)
    if rng.random() < 0.5:
        pieces.append(rng.choice(['', 'tail', '%%', 'é']))
    return ''.join(pieces), u


def _ok_for_random(mode, tmpl, u):
    """known-finding shapes stay out of random streams"""
    lat = _lat(mode, tmpl)
    if lat is None:
        return False
    return True


def _malformed(rng, n):
    out = []
    alpha = ALPHABET + ['%', '%', '(', ')', '2', '9', 'n', 'z', 'E', 'F', 'G', 'u', 'L', '\n']
    for _ in range(n):
        k = rng.randrange(1, 12)
        out.append(''.join(rng.choice(alpha) for _ in range(k)))
    return out


CORPUS_T = [
    "%10s", "%-10s", "%#10x", "%-#10x", "%(amount)d", "%(m((u(((l((((ti))))p)))l))e)d", "%(aged", "Hello %n",
    "Hello %", "%  0   -+++###10d", "%5.4s", "%-5.4s", "%.s", "%5.s", "%.2s", "%5d", "%05d", "%.5d", "%+05d", "%-d",
    "% d", "%08x", "%#010x", "%-#010x", "%f", "%.2f", "%.f", "%+.f", "%+f", "% f",
    "Hello, my name is %s and I'm %d years old", "%%", "%%%", "%%%%", "a%%b%dc", "%d%%", "%5%", "%(a)%", "%l%",
    "%hd", "%ld", "%Ld", "%hhd", "%lld", "%*d", "%.*d", "%*.*f", "%-*d", "%()d", "%(()d", "%(a)(b)d", "%(a))d",
    "%(a", "%(", "%()", "%.", "%5", "%5.", "%5.3", "%h", "%#", "% ", "%é", "%5é", "%.3é", "é%dé", "%(é)s",
    "%0-5d", "%-05d", "%+ d", "% +d", "%#o", "%#X", "%#.3x", "%#08.3x", "%08.3d", "%.0d", "%c", "%5c", "%-5c",
    "%.0c", "%05c", "%a", "%r", "%5a", "%u", "%i", "%E", "%G", "%F", "%#g", "%#.0f", "%#.0e", "%.0g", "%#.0g",
    "%010.3e", "%-010.3e", "%+010g", "%d %d", "%s%s%s", "%(a)s%(b)s", "%(a)s%s", "%s%(a)s",
    "%2147483647d", "%00000000000000000000001d", "%.2147483647d",
]


def _corpus(ctx):
    reqs = []
    for t in CORPUS_T:
        for mode in 'tb':
            tt = t if mode == 't' else t.encode('latin-1')
            reqs.append(_split_req(mode, tt))
            if not _DIGITS.search(t.encode('latin-1')):
                for u in VALUES[:6]:
                    if _ok_for_random(mode, tt, u):
                        reqs.append(_render_req(mode, tt, u))
    # repaired by /repo 86620af (formerly known findings): width below the data length, lone '.' precision
    reqs += [f"cfmt {hexs('%5s')} y {hexs(b'abcdefgh')}", _render_req('b', b"%5s", VALUES[3]),
             f"cfmt {hexs('%-3.6b')} y {hexs(b'abcdefgh')}", f"cfmt {hexs('%.s')} y {hexs(b'ab')}",
             _render_req('b', b"%5.s", VALUES[1]), f"cfmt {hexs('%1.s')} y {hexs(b'ab')}"]
    for sp in ["d", "%d", "", "x%d", "%dtail", "%5.3ftail", "%(k)s", "%(k", "%é", "%5", "%*d", "%.*f", "%b"]:
        reqs.append(f"cspec {hexs(sp)}")
    return reqs


def _repaired_probes():
    """the probes of the former findings text-percent-b-accepted (d7ac332) and width-over-i32-rejected (4850e50):
    ordinary requests now (a recurrence is a VIOLATION)"""
    u = VALUES[3]
    reqs = [
        _split_req('t', "%b"), _split_req('t', "%b%"), _render_req('t', "%5b", u), _split_req('b', b"%b"),
        _render_req('b', b"%5b", u), _split_req('t', "a%(k)-5.2bz"), _split_req('t', "%d%b"), _split_req('t', "%%b%b"),
        _split_req('t', "%lb"), _split_req('t', "%*b"), _split_req('t', "é%bé"), _split_req('t', "%b%n"),
        _split_req('t', "%n%b"), _split_req('t', "%(b)s"), _split_req('t', "%sb"), _render_req('t', "%s%b", u),
        f"cspec {hexs('%b')}",
        _split_req('t', "%2147483648d"), _split_req('b', b"%9223372036854775807s"), _split_req('t', "%9223372036854775808d"),
        _split_req('b', b"%9223372036854775808d"), _split_req('t', "%.2147483647d"), _split_req('t', "%.2147483648d"),
        _split_req('b', b"%5.2147483648d"), _split_req('t', "%.9223372036854775808d"), _split_req('t', "%99999999999999999999.5d"),
        _split_req('t', "%4294967296.2147483647f"), _split_req('t', "%-#2147483648.2147483648s"),
        _split_req('t', "%018446744073709551616d"), _split_req('t', "%-9223372036854775807.0s"),
        _split_req('t', "x%.99999999999999999999d"), _split_req('b', b"%.4294967296b"),
    ]
    return reqs


def _float_precision_probes(ctx):
    """float-precision-over-65535-panics, fixed in /repo by 1c70d07: ordinary requests now (a panic is a
    VIOLATION).  Precisions around format!'s u16 limit, around the digit clamp of float.rs (1100) and around
    the last non-zero digit a double can have, on the doubles with the most digits."""
    reqs = [f"cfmt {hexs('%.65536f')} f {fbits(1.5)}", f"cfmt {hexs('%.65535e')} f {fbits(1.5)}",
            f"cfmt {hexs('%.65535g')} f {fbits(1e-5)}", f"cfmt {hexs('%.65533g')} f {fbits(0.0001)}",
            _render_req('t', "%.65536f|%.65536e|%#.65536g", VALUES[1]), _render_req('b', b"%070010.70000f", VALUES[2])]
    vals = [5e-324, 2.225073858507201e-308, 2.2250738585072014e-308, 1.7976931348623157e308, 0.1, 1.5, 1e-5, 0.0001,
            -123456789.0, 0.0, float('inf'), float('nan')]
    precs = [750, 751, 752, 766, 767, 768, 1073, 1074, 1075, 1099, 1100, 1101, 1102, 1103, 1500,
             65533, 65534, 65535, 65536, 65537, 70000]
    for v in (vals[:4] + vals[5:7] if ctx.quick else vals):
        for p in precs:
            for t in 'feg' if ctx.quick else 'fFeEgG':
                for fl in (('',) if (p > 2000 and ctx.quick) else ('', '#')):
                    reqs.append(f"cfmt {hexs('%' + fl + '.' + str(p) + t)} f {fbits(v)}")
    reqs += [f"cfmt {hexs('%.200000f')} f {fbits(0.1)}", f"cfmt {hexs('%.200000e')} f {fbits(0.1)}",
             f"cfmt {hexs('%#.200000g')} f {fbits(1e-9)}", f"cfmt {hexs('%-70010.70000e')} f {fbits(-2.5)}"]
    if not ctx.quick:
        reqs += [f"cfmt {hexs('%.1000000f')} f {fbits(5e-324)}", f"cfmt {hexs('%.1000000e')} f {fbits(5e-324)}"]
    return reqs


def _boundary_probes():
    """just inside the domain, next to the findings"""
    return [
        f"cfmt {hexs('%8s')} y {hexs(b'abcdefgh')}",
        f"cfmt {hexs('%9.8s')} y {hexs(b'abcdefghijk')}",
        f"cfmt {hexs('%.0s')} y {hexs(b'ab')}",
        f"cfmt {hexs('%.65535f')} f {fbits(1.5)}",
        f"cfmt {hexs('%.65534e')} f {fbits(1.5)}",
        f"cfmt {hexs('%.65535g')} f {fbits(1.5)}",
        f"cfmt {hexs('%.65534g')} f {fbits(1e-5)}",
        f"cfmt {hexs('%.65532g')} f {fbits(0.0001)}",
        f"cfmt {hexs('%70000d')} i 5",
        f"cfmt {hexs('%.70000d')} i -5",
        f"cfmt {hexs('%70000s')} s {hexs('ab')}",
        _split_req('t', "%2147483647d"),
        _split_req('t', "%.2147483648d"),
        _split_req('t', "%9223372036854775808d"),
        _split_req('b', b"%2147483647d"),
    ]


def _char_tables(op='csplit', rd='crender'):
    reqs = []
    u = VALUES[1]
    cps = list(range(0, 0x250)) + [0x3b1, 0x660, 0x966, 0xff10, 0xff44, 0x2028, 0xd7ff, 0xe000, 0xffff, 0x10000,
                                   0x1d7ce, 0x1f600, 0x10ffff]
    for cp in cps:
        c = chr(cp)
        for t in ('%' + c, '%' + c + 'd', '%5' + c + 'd', '%.' + c + 'd', '%(' + c + ')s'):
            reqs.append(_split_req('t', t, op))
            if cp < 256:
                reqs.append(_split_req('b', t.encode('latin-1'), op))
        reqs.append(_render_req('t', '%' + c, u, rd))
        if cp < 256:
            reqs.append(_render_req('b', ('%' + c).encode('latin-1'), u, rd))
    return reqs


def _request_sets(ctx, py=False):
    """[(name, kind, exhaustive, note, requests)] — with py=True the same questions for the reference (Spec.lean)"""
    sp = 'pysplit' if py else 'csplit'
    rd = 'pyrender' if py else 'crender'
    fm = 'pyfmt' if py else 'cfmt'
    quick = ctx.quick or py
    sets = []
    # exhaustive splitter
    L = 4 if quick else 5
    reqs = []
    for t in templates(L):
        reqs.append(_split_req('t', t, sp))
        reqs.append(_split_req('b', t.encode('latin-1'), sp))
    sets.append((f"split-exhaustive-len<={L}", "exhaustive", True,
                 "every template over the 27-symbol specifier alphabet containing a '%', text and bytes mode", reqs))
    # exhaustive end-to-end
    Lr = 3 if quick else 4
    reqs = []
    vals = VALUES if not py else VALUES[:8]
    for t in templates(Lr):
        for u in vals:
            reqs.append(_render_req('t', t, u, rd))
            reqs.append(_render_req('b', t.encode('latin-1'), u, rd))
    sets.append((f"render-exhaustive-len<={Lr}", "exhaustive", True,
                 f"every such template formatted end to end with {len(vals)} values (int/float/str/repr/bytes views)",
                 reqs))
    # structured specs x values
    rng = ctx.rng("fmt" + ("-py" if py else ""))
    n = 20000 if quick else 400000
    sets.append(("format-random-specs", "random", False,
                 "random flags/width/precision/length/type x integers (incl. 100-bit), doubles, texts, chars, bytes",
                 _fmt_requests(rng, n, fm)))
    # float boundaries
    reqs = []
    for f in FLOATS:
        for fl in ['', '#', '0', '-', '+', ' ', '#0', '-0', '+0']:
            for p in ['', '.', '.0', '.1', '.2', '.5', '.6', '.16', '.17', '.30']:
                for w in ['', '12']:
                    for t in 'eEfFgG':
                        if quick and (fl not in ('', '#', '0', '-+') and p not in ('', '.1')):
                            continue
                        reqs.append(f"{fm} {hexs('%' + fl + w + p + t)} f {fbits(f)}")
    sets.append(("float-boundaries", "directed", False,
                 "special values, ties, powers of ten, exponent-switch boundaries of %g x flags x precisions", reqs))
    # integer layout grid
    reqs = []
    for v in [0, 1, -1, 255, -255, 4096, 10 ** 30, -10 ** 30]:
        for fl in ['', '#', '0', '-', '+', ' ', '#0', '-0', '+0', ' 0', '-#0', '+#0', '+ ', '-+']:
            for w in ['', '1', '3', '6', '12']:
                for p in ['', '.', '.0', '.1', '.4', '.9']:
                    for t in 'dioxXu':
                        reqs.append(f"{fm} {hexs('%' + fl + w + p + t)} i {v}")
    sets.append(("int-layout-grid", "exhaustive", True,
                 "flags x width x precision x type x integers: sign/prefix/zero-padding/left-adjust interactions", reqs))
    # strings / chars / bytes grid
    reqs = []
    for fl in ['', '-', '0', '+', ' ', '#', '-0']:
        for w in ['', '0', '1', '2', '5', '9']:
            for p in ['', '.', '.0', '.1', '.2', '.5', '.9']:
                for s in TEXTS:
                    for t in 'sra':
                        reqs.append(f"{fm} {hexs('%' + fl + w + p + t)} s {hexs(s)}")
                for c in [65, 233, 0x1f600]:
                    reqs.append(f"{fm} {hexs('%' + fl + w + p + 'c')} c {c}")
                for b in BYTESV:
                    for t in 'sb':
                        reqs.append(f"{fm} {hexs('%' + fl + w + p + t)} y {hexs(b)}")
    sets.append(("string-char-bytes-grid", "exhaustive", True,
                 "width/precision relative to the data length (shorter, equal, longer), multi-byte text", reqs))
    # random longer templates
    rng = ctx.rng("templates" + ("-py" if py else ""))
    n = 6000 if quick else 150000
    reqs = []
    for _ in range(n):
        mode = rng.choice('tb')
        t, u = _rand_template(rng, mode, VALUES)
        try:
            tt = t if mode == 't' else t.encode('latin-1')
        except UnicodeEncodeError:
            continue
        if not _ok_for_random(mode, tt, u):
            continue
        reqs.append(_split_req(mode, tt, sp))
        reqs.append(_render_req(mode, tt, u, rd))
    sets.append(("random-longer-templates", "random", False,
                 "mostly valid templates: literals, %%, keyed (nested parentheses) or positional specifiers", reqs))
    # malformed
    rng = ctx.rng("malformed" + ("-py" if py else ""))
    n = 6000 if quick else 150000
    reqs = []
    for t in _malformed(rng, n):
        for mode in 'tb':
            try:
                tt = t if mode == 't' else t.encode('latin-1')
            except UnicodeEncodeError:
                continue
            reqs.append(_split_req(mode, tt, sp))
            u = rng.choice(VALUES)
            if _ok_for_random(mode, tt, u):
                reqs.append(_render_req(mode, tt, u, rd))
    sets.append(("malformed", "malformed", False, "random symbol soup over the alphabet plus unsupported letters", reqs))
    return sets


def streams(ctx):
    nt = lambda r: '25' in r.split()[1 if r.startswith(('cfmt', 'cspec')) else 2]  # noqa: E731
    out = [Stream("corpus", _corpus(ctx), kind="corpus", nontrivial=nt,
                  note="the crate's own unit-test templates and suspected problem inputs, both modes"),
           Stream("repaired-findings-regression", _repaired_probes(), kind="directed", nontrivial=nt,
                  note="inputs of the repaired findings: %b in text templates (rejected with Python's index), widths "
                       "up to isize::MAX, precisions up to i32::MAX, and just beyond"),
           Stream("finding-boundaries", _boundary_probes(), kind="directed", nontrivial=nt,
                  note="inputs just inside the domain next to each finding"),
           Stream("float-precision-clamp-and-u16-limit", _float_precision_probes(ctx), kind="directed", nontrivial=nt,
                  note="former finding float-precision-over-65535-panics (repaired): %e %f %g at precisions around "
                       "format!'s u16 limit (65533..65537, 70000, 200000), around MAX_FLOAT_DIGITS = 1100 and around "
                       "the last non-zero digit of a double (751/767 significant digits, 1074 decimals)")]
    out.append(Stream("character-tables", _char_tables(), kind="exhaustive", exhaustive=True, nontrivial=nt,
                      note="every byte and every scalar value below U+0250 (plus samples above) as conversion type "
                           "(`%c`) and in modifier position (`%cd`, `%5cd`, `%.cd`): the type, flag, digit, "
                           "length-modifier and '*'/'.'/'(' tables"))
    for name, kind, exh, note, reqs in _request_sets(ctx):
        out.append(Stream(name, reqs, kind=kind, exhaustive=exh, note=note, nontrivial=nt))
    # characters that are template syntax only to byte-level code (same low byte as % ( ) a flag, digit or type), text mode
    import lexcommon
    syn = "".join(c for c in ALPHABET if ord(c) < 0x80)
    base = list(templates(2)) + ["%(key)s", "%-5.3d", "%+08.2f", "%#x", "%5%", "%*.*f", "a%sb%rc", "%(a)d%(b)s", "100%%", "%c", "%.3s|%5s"]
    al = list(dict.fromkeys(a for t in base for a in lexcommon.trunc_aliases(t, syn)))
    u = VALUES[0]
    reqs = [_split_req('t', a) for a in al] + [_render_req('t', a, u) for a in al if _ok_for_random('t', a, u)]
    out.append(Stream("truncation-aliases", reqs, kind="directed", nontrivial=(lambda r: True),
                      note="text templates with one syntax character replaced by a letter that has the same low byte (U+01xx / U+100xx)"))
    return out


# ------------------------------------------------------------------ spec validation (Spec.lean vs CPython)

def pre_build(ctx):
    """Run the reference definitions (pysplit/pyrender/pyfmt of the driver) against CPython.
    A difference is a defect of Spec.lean, never of the code."""
    rc, out = core.lake_build([DRIVER])
    if rc != 0:
        return [("spec validation vs CPython", False, "driver does not build: " + out[-300:])]
    res = []
    total = 0
    sets = [("character-tables", "exhaustive", True, "", _char_tables('pysplit', 'pyrender'))]
    for name, kind, exh, note, reqs in sets + _request_sets(ctx, py=True):
        outs = core.run_lines([core.driver_path(DRIVER)], reqs, jobs=4)
        bad = []
        for r, o in zip(reqs, outs):
            f = oracle(r, o)
            if f:
                bad.append(f"{r} -> {o[:60]}: {f}")
        total += len(reqs)
        res.append((f"spec validation vs CPython: {name} ({len(reqs)} requests)", not bad, "; ".join(bad[:3])))
    ctx.extra["spec_validation_requests"] = total
    return res


# ------------------------------------------------------------------ violation search

def search(ctx, disagreements, bins):
    """Model and code disagree although the oracle was content with the code's answer to that request:
    format the same template / specifier with every value of the standard set and let CPython judge."""
    h = HARNESS
    hbin = bins.get((h["bin"], h.get("features", "default")))
    if not hbin:
        return None
    reqs = []
    for e in disagreements[:200]:
        ws = e["request"].split()
        if ws[0] in ("csplit", "crender"):
            mode = ws[1]
            tmpl = unhex(ws[2])
            for u in VALUES:
                reqs.append(_render_req(mode, tmpl, u))
            reqs.append(_split_req(mode, tmpl))
        elif ws[0] in ("cfmt", "cspec"):
            spec = unhex(ws[1]).decode()
            for v in INTS:
                reqs.append(f"cfmt {ws[1]} i {v}")
            for f in FLOATS:
                reqs.append(f"cfmt {ws[1]} f {fbits(f)}")
            for s in TEXTS:
                reqs.append(f"cfmt {ws[1]} s {hexs(s)}")
            for b in BYTESV:
                if spec.isascii():
                    reqs.append(f"cfmt {ws[1]} y {hexs(b)}")
            reqs.append(f"cfmt {ws[1]} c 233")
            for mode in 'tb':
                try:
                    reqs.append(_split_req(mode, spec if mode == 't' else spec.encode('latin-1')))
                except UnicodeEncodeError:
                    pass
    outs = core.run_lines([hbin], reqs, jobs=4)
    for r, o in zip(reqs, outs):
        f = oracle(r, o)
        if f and not classify(r, o, None, f):
            return {"stream": "violation-search", "request": r, "impl": o, "model": None, "failure": f}
    return None
