"""C08 — layout never changes the tree.

Two ties to /repo:
  * `layout`  (harness only, judged by the oracle): the REAL parser on (original, layout variants); acceptance and
    the range-erased tree (AnnAssign.simple masked) must be identical.  Variants come from tools/c08_layout.py and
    every one of them was validated against CPython (same `ast.dump`), so a difference is the parser's.
  * `lexpair` (harness vs Lean model drv_c08, plus oracle): the range-erased token streams of (original, variant)
    from the real lexer and from the Lean lexer model that `PV.C08.Thm` is about; ties the theorem's model to the
    code on exactly the inputs C08 cares about.
"""
import os
import sys
import warnings

from core import Stream, hexs, unhex, run_lines

sys.path.insert(0, os.path.dirname(os.path.dirname(os.path.abspath(__file__))))
import c08_layout as LAY     # noqa: E402
import c08_gen as GEN        # noqa: E402

ID = "C08"
DESIGN_REF = "DESIGN.md section 5, C08"
LEAN_TARGETS = ["PV.C08.Thm", "PV.C08.ThmTok", "PV.C08.AtAny", "PV.C08.AtComment"]
DRIVER = "drv_c08"
HARNESS = {"bin": "pvh_c08", "features": "default"}
PAREN_THEOREMS = [
    "PV.C08.Paren.paren_atom",
    "PV.C08.Paren.paren_atom_parses",
    "PV.C08.Paren.paren_operand",
    "PV.C08.Paren.paren_operand_eq",
    "PV.C08.Paren.operand_of_fragment",
    "PV.C08.Paren.eqLarge_paren_at",
    "PV.C08.Paren.paren_atom_eq",
    "PV.C08.Paren.paren_loop_eq",
    "PV.C08.Paren.paren_trail_eq",
    "PV.C08.Paren.loopOperand_of_fragment",
    "PV.C08.Paren.trailOperand_of_fragment",
    "PV.C08.Paren.paren_invariant_partial",
    "PV.C08.Paren.genexp_arg_not_namedTest",
    "PV.C08.Paren.genexp_arg_same_tree",
    "PV.C08.Paren.starred_paren_rejected",
    "PV.C08.Paren.yield_needs_parens",
    "PV.C08.Paren.tuple_parens_not_redundant",
    "PV.C08.Paren.name_positions_not_operands",
    "PV.C08.Paren.Example.composed",
]
PAREN_MISSING = ("redundant parentheses (PV.C08.Paren, on the reference parser PV.C11.parseRef): paren_atom is unconditional; "
                 "paren_operand / paren_invariant_partial assume that the parenthesised tokens are a COMPLETE OPERAND "
                 "(`Operand lvl u e`: in front of every follower that does not continue it, the level's parser function reads "
                 "exactly u as e; for left-recursive slots `LoopOperand` / `TrailOperand`) — derived for every rendering of the "
                 "C11 fragment, not derived from a single successful parse of the bare text (that needs a frame lemma over the "
                 "47 functions of the parser: the parse of u does not depend on the follower beyond the listed look-ahead); "
                 "positions without a rule: lambda parameter defaults other than the first parameter's, expression text inside "
                 "f-string replacement fields (re-lexed from characters), and everything above expressions (statement level: "
                 "with-items, targets, patterns, decorators … — differential only)")
THEOREMS = [
    "PV.C08.lex_layout_invariant",
    "PV.C08.lex_layout_invariant_runs",
    "PV.C08.layout_tree_invariant",
    "PV.C08.reindent_tree_invariant",
    "PV.C08.lex_reindent_invariant",
    "PV.C08.lex_reindent_invariant_bom",
    "PV.C08.reindent_runs",
    "PV.C08.midRuns_transfer",
    "PV.C08.dedentLoop_sim",
    "PV.C08.handleIndentations_sim_core",
    "PV.C08.handleIndentations_sim",
    "PV.C08.step_sim_bol",
    "PV.C08.step_sim_mid",
    "PV.C08.step_brk_local",
    "PV.C08.step_to_bol",
    "PV.C08.runs_bol_extend",
    "PV.C08.at_bol_extend",
    "PV.C08.at_rewritten_not_derivable",
    "PV.C08.lexNumber_lay",
    "PV.C08.consumeCharacter_lay_local",
    "PV.C08.step_lay_local",
    "PV.C08.lay_side_conditions_needed",
    "PV.C08.runs_tok_extend",
    "PV.C08.at_tok_extend",
    "PV.C08.not_behindComment_of_noHash",
    "PV.C08.not_behindComment_string",
    "PV.C08.LayoutStep'.toLayoutStep",
    "PV.C08.LayoutEq'.toLayoutEq",
    "PV.C08.lex_layout_invariant_tok",
    "PV.C08.lex_layout_invariant_runs_tok",
    "PV.C08.layout_tree_invariant_tok",
    "PV.C08.layoutEq_tok_comment_example",
    "PV.C08.layoutEq_tok_bracket_example",
    "PV.C08.lexNumber_any",
    "PV.C08.lexOp_any",
    "PV.C08.lexIdentifier_any",
    "PV.C08.lexString_any",
    "PV.C08.consumeCharacter_any",
    "PV.C08.step_any_local",
    "PV.C08.runs_any_extend",
    "PV.C08.at_any_extend",
    "PV.C08.LayoutStep''.toLayoutStep",
    "PV.C08.LayoutEq''.toLayoutEq",
    "PV.C08.LayoutStep'.toLayoutStep''",
    "PV.C08.LayoutEq'.toLayoutEq''",
    "PV.C08.lex_layout_invariant_any",
    "PV.C08.lex_layout_invariant_runs_any",
    "PV.C08.layout_tree_invariant_any",
    "PV.C08.layoutEq_any_blanks_example",
    "PV.C08.layoutEq_any_bracket_example",
    "PV.C08.layoutEq_any_eof_example",
    "PV.C08.runs_next",
    "PV.C08.not_behindComment_at_hash",
    "PV.C08.comment_grow_runs",
    "PV.C08.lex_layout_invariant_runs_all",
    "PV.C08.lex_layout_invariant_all",
    "PV.C08.layout_tree_invariant_all",
    "PV.C08.layoutEq_all_comment_example",
    "PV.C08.rule_eol_thm",
    "PV.C08.rule_blanks_thm",
    "PV.C08.rule_commentAfter_thm",
    "PV.C08.rule_backslashJoin_thm",
    "PV.C08.rule_bracketBreak_thm",
    "PV.C08.rule_blankLine_thm",
    "PV.C08.rule_formFeed_thm",
    "PV.C08.nextChar_folds",
    "PV.C08.lexCore_regular_thm",
] + PAREN_THEOREMS
TRUSTED = [
    "Lean 4.33.0 kernel; axioms limited to propext, Classical.choice, Quot.sound",
    "CPython 3.11.7 `ast.parse` as the judge of which rewrites are layout-only (every variant has the reference's tree)",
    "tools/c08_layout.py (rewriter), tools/c08_gen.py (program generator), harness/src/bin/pvh_c08.rs (range eraser over "
    "derive(Debug) output, 128-bit tree hash)",
    "the lexer model lean/PV/Lexer (b-lexer's) is tied to parser/src/lexer.rs + soft_keywords.rs by the lexpair stream of this "
    "check and by the C05 correspondence streams",
    "the expression reference parser PV.C11.parseRef (the parenthesis theorems are about it) is tied to the generated LR parser "
    "by C11's correspondence stream (parse vs parseRef on generated and unparsed expressions)",
    "the program reference parser PV.Prog.parseProgram (layout_tree_invariant / reindent_tree_invariant compose the token "
    "theorems with it) is tied to the generated LR parser by the PROG correspondence streams; the token conversion `conv` "
    "(string decoding, float numerals) is a parameter of those corollaries — they hold for every conversion",
]
PARTIAL = [
    "from tokens to trees is proved on the REFERENCE parsers only (PV.Prog.parseProgram, PV.C11.parseRef); the LALRPOP "
    "automaton itself is not modelled — its agreement with the reference parsers is the PROG / C11 correspondence, and the real "
    "parser is judged directly by the layout differential",
    "LayoutEq: `At` (the lexer-position hypothesis) is needed for the ORIGINAL text only, for every place-dependent rule: "
    "LayoutEq'' (AtAny.lean) has the three rules at the start of a line (derived: at_bol_extend, from step_brk_local) and the "
    "four rules behind a token (blanks, comment after code, backslash join, bracket break) at EVERY place — in front of a token "
    "(`x+y` ~ `x + y`, `f(a)` ~ `f(⏎a)`), in front of layout, at the end of the text, behind every token kind incl. numbers — "
    "with explicit side conditions instead of At for the rewritten text: pre does not end with a blank (blanks: insert at the "
    "front of a run), no LF directly behind a CR (bracket break), the place is not BehindComment (blanks, comment, join; "
    "witnesses at_rewritten_not_derivable, lay_side_conditions_needed). Derived by at_any_extend from step_any_local ('a step "
    "that ends inside y, whatever follows, gives the same result with a layout character behind y' — every arm incl. the number "
    "lexer). LayoutEq' (AtTok.lean, places in front of a layout character) is a sub-relation (toLayoutEq''). Text inserted BEHIND A COMMENT "
    "(`x#c` + blank / + `#d`: the comment step grows, no splice) is the extra rule of LayoutEq''' (AtComment.lean: "
    "comment_grow_runs, proved directly — the comment arm takes everything up to the line end and emits no token; hypothesis: At "
    "in front of the `#`, original text only), so LayoutEq''' (lex_layout_invariant_all, layout_tree_invariant_all) has every "
    "rule of LayoutEq with hypotheses on the original texts only; line ends (eol) "
    "and BOM are unconditional",
    "re-indentation (lex_reindent_invariant): proved for texts related by PV.C08.Reindent — logical lines are read off the "
    "lexer's run on the ORIGINAL text, the new run of blanks of every line must be free of 'tab after space' (measure = some) "
    "and stand in the same compare_strict relation to EVERY open block of its own text as the old one (SimLevel; more than the "
    "lexer looks at: levels below the matching one are compared too); a line whose CR line end would fuse with an LF at the "
    "start of the next re-indented line is excluded",
    PAREN_MISSING,
    "default build only (cfg.fullLexer = false); Unicode tables are parameters constrained by UpOk (and, for the LayoutEq' / LayoutEq'' "
    "theorems, UpLay: no layout character is XID_Continue — true of the real tables and of the drivers' ASCII instantiation: "
    "asciiUp_lay)",
]
RULE = ("request = one original program with its layout variants (layout) or one (original, variant) pair (lexpair); "
        "distinct = distinct request line; every request is non-trivial (variant text differs from the original)")
READY = True
TECHNIQUE = ("Lean 4 theorems over the lexer model (layout-equivalent and consistently re-indented texts have equal range-erased "
             "token streams) and over the reference parsers (equal tokens give equal trees; redundant parentheses around a "
             "complete operand give the same tree) + differential of the real parser on CPython-validated layout variants")
LEVEL_TEXT = ("Machine-checked Lean 4 theorems, for texts of every length. (1) Lexer model: texts related by the layout rules "
              "(LF/CRLF/CR anywhere incl. strings, BOM, blank and comment-only lines, form feeds, blanks and comments after code, "
              "backslash joins, line breaks inside brackets, and their compositions) and texts related by consistent "
              "re-indentation (other widths, tabs for spaces, per line an order-preserving change of level) lex to the same "
              "tokens incl. INDENT/DEDENT and the same kind of end (same first error kind); the line-end rule is proved globally "
              "by walking every function of the model; for rules at the start of a line, for re-indentation, and (LayoutEq') for "
              "the rules behind a token acting in front of a layout character, only the run on the ORIGINAL text is assumed. (2) Reference parsers: equal erased token streams give equal trees "
              "(layout_tree_invariant), and one redundant pair of parentheses around a complete operand gives the same tree at "
              "every level of the precedence chain and in the listed operand positions (paren_*). The lexer model is tied to the "
              "real lexer on (original, variant) pairs on every run, and the real PARSER is judged directly: every "
              "CPython-validated layout variant (incl. re-indentation and redundant parentheses) of generated programs and of "
              "the CPython standard library must give the same acceptance and the same range-erased tree.")
LEVEL_NOTE = ("Not proved: the LALRPOP automaton (reference parsers are tied to it by correspondence), redundant-"
              "parenthesis positions listed as missing. "
              "Trusted: Lean kernel, CPython 3.11.7 as judge of layout-only, the rewriter/generator/harness, the PROG and C11 "
              "correspondence for the reference parsers.")

LEX_MODEL_READY = True       # set when drv_c08 answers `lexpair` from lean/PV/Lexer


# ------------------------------------------------------------------------------------------------ oracle

def _payload(item):
    # "o=ok:<hash>" / "v=err" / "v=ok:<hash>@k:..:.."  ->  "ok:<hash>" / "err"
    v = item.split("=", 1)[1]
    return v.split("@", 1)[0]


def oracle(req, out):
    ws = req.split()
    if out in ("(panic)", "(abort)", "(timeout)", "bad-request"):
        return "implementation " + out
    if ws[0] == "layout":
        items = out.split()
        if len(items) != len(ws) - 2 or not items[0].startswith("o="):
            return "unparsable answer"
        o = _payload(items[0])
        bad = []
        for k, it in enumerate(items[1:]):
            if _payload(it) != o:
                bad.append(f"variant {k + 1}: {_payload(it)[:12]} vs original {o[:12]}")
        if bad:
            return "layout variant changes acceptance or the range-erased tree: " + "; ".join(bad[:4])
        return None
    if ws[0] == "lexpair":
        if not out.startswith("eq="):
            return "unparsable answer"
        if out.startswith("eq=1"):
            return None
        try:
            a, b = out.split(" a=", 1)[1].split(" b=", 1)
        except (IndexError, ValueError):
            return "unparsable answer"
        ea, eb = a.endswith("ERR") or a.startswith("("), b.endswith("ERR") or b.startswith("(")
        if ea and eb:
            return None         # both texts are rejected by the lexer: acceptance is the same, there is no tree
        return "layout variant changes the range-erased token stream"
    return None


_FT = None


def canon(req, out):
    """applied to both answers of a compared (lexpair) request: the model carries the cleaned numeral of a float
    (`Float:t<hex>`), the real lexer the value; convert with CPython's correctly rounded float()."""
    global _FT
    if out is None or ":t" not in out:
        return out
    import re
    import struct
    if _FT is None:
        _FT = re.compile(r"\b(Float|Complex):t([0-9a-f]+|-)")

    def rep(m):
        try:
            b = struct.pack(">d", float(unhex(m.group(2)).decode("ascii"))).hex()
        except ValueError:
            b = "invalid-numeral"
        return f"Float:{b}" if m.group(1) == "Float" else f"Complex:0000000000000000:{b}"
    return _FT.sub(rep, out)


def _failing_variants(req, out):
    ws = req.split()
    items = out.split()
    o = _payload(items[0])
    return o, [(unhex(ws[3 + k]).decode("utf-8"), _payload(it)) for k, it in enumerate(items[1:]) if _payload(it) != o]


def classify(req, impl_out, model_out, failure):
    """Known finding `softkw-ident-line-colon`: the ORIGINAL is rejected because a logical line starts with
    `match`/`case` used as an identifier and has a later top-level colon (soft_keywords.rs heuristic; same root cause
    as the C01 finding), and a variant that moves the name off the line start (redundant parentheses) is accepted."""
    if not failure or not req.startswith("layout "):
        return None
    try:
        o, bad = _failing_variants(req, impl_out)
        orig = unhex(req.split()[2]).decode("utf-8")
    except Exception:
        return None
    if o != "err" or not bad:
        return None
    if not LAY.softkw_shape(orig):
        return None
    for text, p in bad:
        if not p.startswith("ok:") or LAY.softkw_shape(text):
            return None
    return "softkw-ident-line-colon"


def search(ctx, disagreements, bins):
    """model != implementation on a lexpair request while the oracle is happy: look whether the real PARSER shows a
    layout dependence on the same pair."""
    hbin = bins.get((HARNESS["bin"], HARNESS["features"]))
    if not hbin:
        return None
    reqs = []
    for e in disagreements[:200]:
        ws = e["request"].split()
        if ws[0] == "lexpair":
            reqs.append(f"layout {ws[1]} {ws[2]} {ws[3]}")
    outs = run_lines([hbin], reqs)
    for r, o in zip(reqs, outs):
        f = oracle(r, o)
        if f:
            return {"stream": "violation-search", "request": r, "impl": o, "failure": f}
    return None


# ------------------------------------------------------------------------------------------------ corpus

CR, LF, FF, BOM = "\r", "\n", "\x0c", "﻿"

# (original, [variants]) — hand-written pairs around the places where layout handling lives.  Every variant is
# validated against CPython when the stream is built; a pair CPython does not consider layout-only is dropped
# (and listed in the evidence notes).
PAIRS = [
    # CR / CRLF inside strings, after a backslash, in comments, at EOF
    ("x = '''a\nb'''\n", ["x = '''a\r\nb'''\r\n", "x = '''a\rb'''\r", "x = '''a\r\nb'''\n", "x = '''a\rb'''"]),
    ("x = 'a\\\nb'\n", ["x = 'a\\\r\nb'\r\n", "x = 'a\\\rb'\r"]),
    ("x = r'''a\\\nb'''\n", ["x = r'''a\\\r\nb'''\n", "x = r'''a\\\rb'''\r"]),
    ("x = b'''a\n\nb'''\n", ["x = b'''a\r\n\r\nb'''\n", "x = b'''a\r\rb'''\n", "x = b'''a\r\n\rb'''\n", "x = b'''a\n\r\nb'''\n"]),
    ("x = f'''{a}\n{b}'''\n", ["x = f'''{a}\r\n{b}'''\r\n", "x = f'''{a}\r{b}'''\r"]),
    ("x = f'''{\na\n}'''\n", ["x = f'''{\r\na\r\n}'''\r\n", "x = f'''{\ra\r}'''\r"]),
    ("x = 1 + \\\n    2\n", ["x = 1 + \\\r\n    2\r\n", "x = 1 + \\\r    2\r", "x = 1 + \\\r\n2", "x = 1 + \\\r\\\r\n\\\n2\n"]),
    ("x = 1 # c\ny = 2\n", ["x = 1 # c\r\ny = 2\r\n", "x = 1 # c\ry = 2\r", "x = 1 # c\r\ny = 2", "x = 1 # c\ry = 2"]),
    ("x = 1\n\n\ny = 2\n", ["x = 1\r\r\ry = 2\r", "x = 1\r\n\r\n\r\ny = 2\r\n", "x = 1\r\r\n\ry = 2\n", "x = 1\n\r\r\ny = 2"]),
    ("if x:\n    y = 1\nz = 2\n", ["if x:\r    y = 1\rz = 2\r", "if x:\r\n    y = 1\r\nz = 2\r\n", "if x:\r\n    y = 1\rz = 2",
                                    "if x:\r\ty = 1\r\r\nz = 2"]),
    ("x = (1,\n     2)\n", ["x = (1,\r\n     2)\r\n", "x = (1,\r     2)\r", "x = (1,\r\r\n\n     2)"]),
    ("x = 'a'; y = '''\n'''\n", ["x = 'a'; y = '''\r\n'''\r\n", "x = 'a'; y = '''\r'''\r"]),
    ("x = '''\\\n'''\n", ["x = '''\\\r\n'''\n", "x = '''\\\r'''\n"]),
    ("def f():\n    '''doc\n    more'''\n    return 1\n", ["def f():\r    '''doc\r    more'''\r    return 1\r",
                                                               "def f():\r\n\t'''doc\r\n    more'''\r\n\treturn 1"]),
    # form feeds
    ("if x:\n    y\n", ["if x:\n  \x0c    y\n", "if x:\n\x0c    y\n", "\x0cif x:\n    y\n", "if x:\x0c\n    y\x0c\n", "if\x0cx\x0c:\n    y\n",
                        "if x:\n \x0c\x0c    y\n", "if x:\n\t\x0c    y\n", "  \x0cif x:\n    y\n", "if x:\n    \x0c\n    y\n",
                        "if x:\n    y\n\x0c", "if x:\n    y\n   \x0c"]),
    ("if x:\n    y\n    z\nw\n", ["if x:\n    y\n  \x0c    z\nw\n", "if x:\n    y\n    z\n\x0c\nw\n", "if x:\n    y\n    z\n    \x0cw\n",
                                   "if x:\n    y\n\x0c    z\n\x0cw\n", "if x:\n    y\n    z\n  \x0c# c\nw\n", "if x:\n\t\x0c    y\n  \x0c    z\nw\n"]),
    ("x = [1,\n  2]\n", ["x = [1,\n\x0c  2]\n", "x = [1,\x0c\n  \x0c2]\n", "x = [\x0c1,\n \t\x0c \t2]\n"]),
    # BOM
    ("match x:\n    case 1: pass\n", ["﻿match x:\n    case 1: pass\n", "﻿match x:\r\n    case 1: pass\r\n",
                                       "﻿\nmatch x:\n    case 1: pass\n", "﻿# c\nmatch x:\n    case 1: pass\n",
                                       "﻿\x0cmatch x:\n    case 1: pass\n"]),
    ("match = 1\ncase = match\ntype = 2\n", ["﻿match = 1\ncase = match\ntype = 2\n", "﻿match = 1\rcase = match\rtype = 2"]),
    ("type(x)\n", ["﻿type(x)\n", "﻿type (\nx\n)\n", "﻿\\\ntype(x)\n"]),
    ("x = 1\n", ["﻿x = 1\n", "﻿x = 1", "﻿\r\nx = 1\r\n", "﻿# é\nx = 1\n", "﻿x = 1 # c"]),
    ("'''doc'''\n", ["﻿'''doc'''\n", "﻿'''doc'''"]),
    # comment-only and blank lines with any indentation, before a dedent, between clauses, at EOF
    ("if x:\n    y\nz\n", ["if x:\n    y\n        # c\nz\n", "if x:\n    y\n  # c\nz\n", "if x:\n    y\n\t# c\nz\n", "if x:\n    y\n# c\nz\n",
                           "if x:\n        # c\n    y\nz\n", "if x:\n# c\n    y\nz\n", "if x:\n    y\n            \nz\n", "if x:\n    y\n \nz\n",
                           "if x:\n    y\nz\n        # c", "if x:\n    y\nz\n        ", "if x:\n    y\nz\n\t\t# c\n", "if x: # c\n    y # c\nz # c",
                           "if x:\n\n\n    y\n\n\n\nz\n\n\n", "if x:\n    y\n\t  # c\n\t\n  \nz\n"]),
    ("if x:\n    y\n", ["if x:\n    y\n        # c", "if x:\n    y\n        # c\n", "if x:\n    y\n  # c", "if x:\n    y\n        ",
                        "if x:\n    y\n    ", "if x:\n    y\n\t", "if x:\n    y", "if x:\n    y # c", "if x:\n    y\n#"]),
    ("if x:\n    a\nelse:\n    b\n", ["if x:\n    a\n        # c\nelse:\n    b\n", "if x:\n    a\n# c\nelse:\n    b\n",
                                     "if x:\n    a\n  # c\n\nelse: # c\n      # c\n    b\n"]),
    ("def f():\n    if x:\n        return 1\n    return 2\n", ["def f():\n    if x:\n        return 1\n            # deep\n# shallow\n      # mid\n    return 2\n",
                                                                   "def f():\n  if x:\n                return 1\n  return 2\n",
                                                                   "def f():\n\tif x:\n\t\treturn 1\n\treturn 2\n",
                                                                   "def f():\n\tif x:\n\t        return 1\n\treturn 2\n",
                                                                   "def f():\n if x:\n  return 1\n return 2\n"]),
    ("try:\n    a\nexcept E:\n    b\nfinally:\n    c\n", ["try:\n\ta\nexcept E:\n  b\nfinally:\n        c\n",
                                                           "try:\n\ta\n\t# c\n# c\nexcept E:\n  b\n      #\nfinally:\n        c\n"]),
    ("class A:\n    def f(self):\n        pass\n\n    def g(self):\n        pass\n",
     ["class A:\n\tdef f(self):\n\t\tpass\n\n\tdef g(self):\n\t\tpass\n", "class A:\n\tdef f(self):\n\t  pass\n\n\tdef g(self):\n\t\t\tpass\n",
      "class A:\n  def f(self):\n   pass\n    \n  def g(self):\n          pass\n"]),
    # backslash joins
    ("match x:\n    case 1: pass\n", ["match \\\n x:\n    case 1: pass\n", "match x \\\n:\n    case 1: pass\n", "match x:\n    case \\\n1: pass\n",
                                       "match x:\n    case 1: \\\npass\n", "match x:\n    case 1\\\n:\\\n pass\n", "match\\\n\\\nx:\n    case 1: pass\n"]),
    ("match = 1\n", ["match \\\n= 1\n", "match = \\\n1\n", "match\\\n=\\\n1\n"]),
    ("x = a.b\n", ["x = a\\\n.b\n", "x = a.\\\nb\n", "x \\\n = a.b\n"]),
    ("x = 1\ny = 2\n", ["x = 1 \\\n\ny = 2\n", "x = 1\\\n\ny = 2\n", "x = 1 \\\n  \ny = 2\n", "\\\nx = 1\ny = 2\n", "x = 1\n\\\ny = 2\n"]),
    ("if x:\n    y = 1\n", ["if x:\n    \\\n    y = 1\n", "if x:\n    \\\ny = 1\n", "if x:\n    y \\\n= 1\n", "if \\\nx:\n    y = 1\n",
                            "if x\\\n:\n    y = 1\n", "if x:\\\n\n    y = 1\n"]),
    ("x = 'a' 'b'\n", ["x = 'a' \\\n'b'\n", "x = ('a'\n'b')\n", "x = 'a'\\\n    'b'\n"]),
    ("x = [1, 2]\n", ["x = [1, \\\n2]\n", "x = [\\\n1, 2\\\n]\n"]),
    ("assert x, y\n", ["assert x, \\\n y\n", "assert \\\n x, y\n"]),
    ("from a import b, c\n", ["from a import b, \\\n c\n", "from a import (b,\n c)\n", "from a import (\n b,\n c,\n)\n", "from a \\\n import b, c\n"]),
    # line breaks inside brackets
    ("match (x):\n    case [1, 2]: pass\n", ["match (\nx\n):\n    case [1,\n2]: pass\n", "match (x # c\n):\n    case [ # c\n1, 2\n\n]: pass\n"]),
    ("f(a, b)\n", ["f(\na, b)\n", "f(a,\nb)\n", "f(a, b\n)\n", "f(\n\n# c\n   a\n # c\n,\n\tb\n  )\n", "f (a, b)\n", "f(a ,b )"]),
    ("x = {1: 2, 3: 4}\n", ["x = {\n1: 2,\n3: 4}\n", "x = {1\n:\n2, 3: 4\n}\n", "x = {1: 2, 3: 4\n    # c\n}\n"]),
    ("x = a[1:2, ::3]\n", ["x = a[\n1:2, ::3]\n", "x = a[1\n:\n2, :\n:\n3\n]\n"]),
    ("def f(a, b=1, *c, d, **e): pass\n", ["def f(\na,\nb=1,\n*c,\nd,\n**e\n): pass\n", "def f(a, b\n=\n1, *\nc, d, **\ne): pass\n"]),
    ("if (a and\n    b):\n    pass\n", ["if (a and b):\n    pass\n", "if (a and\nb):\n    pass\n", "if (a and\n        b):\n pass\n", "if (a and\n\tb\n\t):\n\tpass\n"]),
    ("with (a as b, c as d): pass\n", ["with (\na as b,\nc as d\n): pass\n", "with (a as b, c as d\n): pass\n"]),
    ("x = [i for i in y if i]\n", ["x = [i\nfor i in y\nif i]\n", "x = [\ni for\n i in\n y if\n i\n]\n"]),
    ("x = (yield)\n", ["x = (\nyield\n)\n"]),
    ("lambda: (x, y)\n", ["lambda: (x,\ny)\n"]),
    ("f'{x}' 'a'\n", ["(f'{x}'\n'a')\n", "f'{x}' \\\n 'a'\n"]),
    # redundant parentheses
    ("with a: pass\n", ["with (a): pass\n", "with ((a)): pass\n"]),
    ("with a as b: pass\n", ["with (a) as b: pass\n", "with (a as b): pass\n", "with (a as b,): pass\n", "with a as (b): pass\n"]),
    ("with a, b: pass\n", ["with (a), (b): pass\n", "with (a, b): pass\n", "with (a, b,): pass\n", "with (a), b: pass\n", "with a, (b): pass\n"]),
    ("with a as b, c as d: pass\n", ["with (a as b, c as d): pass\n", "with (a) as b, (c) as d: pass\n", "with (a) as (b), c as d: pass\n"]),
    ("with a(b) as c: pass\n", ["with (a(b)) as c: pass\n", "with (a)(b) as c: pass\n", "with (a(b) as c): pass\n"]),
    ("with a.b, c[0]: pass\n", ["with (a.b), (c[0]): pass\n", "with (a).b, (c)[0]: pass\n", "with (a.b, c[0]): pass\n"]),
    ("with (a, b) as c: pass\n", ["with ((a, b)) as c: pass\n", "with ((a), (b)) as c: pass\n"]),
    ("with (yield): pass\n", ["with ((yield)): pass\n"]),
    ("async def f():\n    async with a as b, c: pass\n", ["async def f():\n    async with (a as b, c): pass\n", "async def f():\n    async with (a) as b, (c): pass\n"]),
    ("for x in y: pass\n", ["for (x) in (y): pass\n", "for ((x)) in ((y)): pass\n"]),
    ("for x, y in z: pass\n", ["for (x, y) in z: pass\n", "for (x), (y) in (z): pass\n", "for ((x), y) in z: pass\n"]),
    ("for x in 1, 2: pass\n", ["for x in (1, 2): pass\n", "for x in (1), (2): pass\n"]),
    ("for x in *a, b: pass\n", ["for x in (*a, b): pass\n", "for x in *(a), (b): pass\n"]),
    ("del x\n", ["del (x)\n"]), ("del x, y\n", ["del (x), (y)\n"]), ("del x.y, z[0]\n", ["del (x.y), (z[0])\n", "del (x).y, (z)[0]\n"]),
    ("def f():\n    return x, y\n", ["def f():\n    return (x, y)\n", "def f():\n    return (x), (y)\n", "def f():\n    return ((x, y))\n"]),
    ("def f():\n    return *a, b\n", ["def f():\n    return (*a, b)\n"]),
    ("def f():\n    x = yield y\n", ["def f():\n    x = (yield y)\n", "def f():\n    x = (yield (y))\n", "def f():\n    x = ((yield y))\n"]),
    ("def f():\n    yield x, y\n", ["def f():\n    yield (x, y)\n", "def f():\n    (yield x, y)\n", "def f():\n    (yield (x), (y))\n"]),
    ("def f():\n    yield\n", ["def f():\n    (yield)\n"]),
    ("def f():\n    yield from x\n", ["def f():\n    (yield from x)\n", "def f():\n    yield from (x)\n"]),
    ("async def f():\n    await x\n", ["async def f():\n    (await x)\n", "async def f():\n    await (x)\n", "async def f():\n    (await (x))\n"]),
    ("x: int = 1\n", ["(x): int = 1\n", "x: (int) = (1)\n", "((x)): int = 1\n"]),
    ("x.y: int\n", ["(x.y): int\n", "x.y: (int)\n"]), ("x[0]: int = 1\n", ["(x[0]): int = 1\n"]),
    ("x = 1, 2\n", ["x = (1, 2)\n", "x = (1), (2)\n", "x = ((1, 2))\n"]),
    ("x = *a, b\n", ["x = (*a, b)\n", "x = *(a), b\n"]),
    ("x, y = z\n", ["(x, y) = z\n", "(x), (y) = (z)\n", "((x), (y)) = z\n"]),
    ("x = y = z\n", ["(x) = (y) = (z)\n"]), ("x += 1\n", ["(x) += (1)\n"]), ("x.y += 1\n", ["(x).y += 1\n", "(x.y) += 1\n"]),
    ("f(x for x in y)\n", ["f((x for x in y))\n", "f(((x for x in y)))\n", "f((x) for (x) in (y))\n"]),
    ("f(a, *b, c=d, **e)\n", ["f((a), *(b), c=(d), **(e))\n", "(f)(a, *b, c=d, **e)\n", "(f(a, *b, c=d, **e))\n"]),
    ("class A(B, metaclass=M): pass\n", ["class A((B), metaclass=(M)): pass\n"]),
    ("@d\ndef f(): pass\n", ["@(d)\ndef f(): pass\n"]), ("@a.b(c)\nclass A: pass\n", ["@(a.b(c))\nclass A: pass\n", "@(a).b((c))\nclass A: pass\n"]),
    ("x.y\n", ["(x).y\n", "(x.y)\n"]), ("1 .real\n", ["(1).real\n", "(1) .real\n"]), ("-1\n", ["-(1)\n", "(-1)\n"]),
    ("not x\n", ["not (x)\n", "(not x)\n", "not(x)\n"]), ("a if b else c\n", ["(a) if (b) else (c)\n", "(a if b else c)\n"]),
    ("x[1]\n", ["x[(1)]\n", "(x)[1]\n"]), ("x[1, 2]\n", ["x[(1, 2)]\n", "x[(1), (2)]\n"]), ("x[a:b]\n", ["x[(a):(b)]\n"]),
    ("{a: b}\n", ["{(a): (b)}\n"]), ("{a, b}\n", ["{(a), (b)}\n"]), ("[a, *b]\n", ["[(a), *(b)]\n"]), ("{**a}\n", ["{**(a)}\n"]),
    ("a < b < c\n", ["(a) < (b) < (c)\n", "(a < b < c)\n"]), ("a + b + c\n", ["(a + b) + c\n", "((a) + (b)) + (c)\n"]),
    ("a and b or c\n", ["(a and b) or c\n", "((a) and (b)) or (c)\n"]), ("a ** -b\n", ["a ** (-b)\n", "(a) ** -(b)\n"]),
    ("lambda x=1: x\n", ["lambda x=(1): (x)\n", "(lambda x=1: x)\n"]),
    ("[x for x in y if z]\n", ["[(x) for (x) in (y) if (z)]\n"]), ("{k: v for k, v in y}\n", ["{(k): (v) for (k, v) in (y)}\n", "{k: v for (k), (v) in y}\n"]),
    ("match x:\n    case 1: pass\n", ["match (x):\n    case (1): pass\n", "match(x):\n    case(1): pass\n", "match ((x)):\n    case ((1)): pass\n"]),
    ("match x:\n    case 1 | 2: pass\n", ["match x:\n    case (1 | 2): pass\n", "match x:\n    case (1) | (2): pass\n"]),
    ("match x:\n    case a, b: pass\n", ["match x:\n    case (a, b): pass\n", "match x:\n    case (a), (b): pass\n", "match x:\n    case [a, b]: pass\n"]),
    ("match x, y:\n    case _: pass\n", ["match (x, y):\n    case (_): pass\n", "match (x), (y):\n    case _: pass\n"]),
    ("match x:\n    case A(b, c=d) if e: pass\n", ["match x:\n    case (A(b, c=d)) if (e): pass\n", "match x:\n    case A((b), c=(d)) if e: pass\n"]),
    ("match x:\n    case {1: a, **r}: pass\n", ["match x:\n    case ({1: (a), **r}): pass\n"]),
    ("match x:\n    case [a, *b] as c: pass\n", ["match x:\n    case ([(a), *b] as c): pass\n", "match x:\n    case ([a, *b]) as c: pass\n"]),
    ("match -x:\n    case -1: pass\n", ["match (-x):\n    case (-1): pass\n", "match -(x):\n    case -1: pass\n"]),
    ("raise E from c\n", ["raise (E) from (c)\n"]), ("assert x, y\n", ["assert (x), (y)\n"]),
    ("print(y := 1)\n", ["print((y := 1))\n", "print((y := (1)))\n"]), ("(y := 1)\n", ["((y := 1))\n"]),
    ("if x: pass\nelif y: pass\n", ["if (x): pass\nelif (y): pass\n", "if(x): pass\nelif(y): pass\n"]),
    ("while x: pass\n", ["while (x): pass\n", "while(x):pass\n"]),
    ("try: pass\nexcept E as e: pass\n", ["try: pass\nexcept (E) as e: pass\n"]), ("try: pass\nexcept* E: pass\n", ["try: pass\nexcept* (E): pass\n", "try: pass\nexcept*(E): pass\n"]),
    ("def f(a: int = 1) -> int: pass\n", ["def f(a: (int) = (1)) -> (int): pass\n"]),
    ("'a' 'b'\n", ["('a' 'b')\n", "('a'\n 'b')\n"]), ("f'{x}'\n", ["(f'{x}')\n"]),
    ("global_x = 1\n", ["(global_x) = 1\n"]),
    ("print(x)\n", ["print((x))\n", "(print)(x)\n", "(print(x))\n", "print (x)\n"]),
    ("type(x)\nmatch(x)\ncase(x)\n", ["(type)(x)\n(match)(x)\n(case)(x)\n", "(type(x))\n(match(x))\n(case(x))\n", "type((x))\nmatch((x))\ncase((x))\n"]),
    ("import a\n", ["import a # c\n", "import a\n\n"]),
]

# known finding probe: original rejected (soft-keyword heuristic), parenthesised variant accepted
KNOWN_SOFTKW = ("match(x); y: int = 1\n", ["(match)(x); y: int = 1\n", "(match(x)); y: int = 1\n"])

# bases for the exhaustive single-site stream (every site of every rule, one at a time)
SMALL = [
    "x = 1\n",
    "x = 1",
    "if x:\n    y = 1\nz = 2\n",
    "if x:\n    if y:\n        a\n    b\nelse:\n    c\n",
    "def f(a, b=1):\n    '''doc\n    str'''\n    return (a,\n            b)\n",
    "x = [1,\n     2]  # c\n\ny = 'a\\\nb'\n",
    "x = a + \\\n    b\n",
    "match x:\n    case [1, y] if y: pass\n    case _:\n        z = 1\n",
    "match = case\nprint(type(match), case)\n",
    "class A(B):\n    x: int = 1\n\n    def f(self): return self.x; pass\n",
    "for i in a, b:\n    continue\nelse:\n    pass\n",
    "with a as b, c: d = f'''{b}\n{c!r:>{d}}'''\n",
    "try:\n    x\nexcept E as e:\n    raise\nfinally:\n    y\n",
    "while x: x -= 1; y = {x: [x, (x,)], **z}\n",
    "async def f():\n    async with a: await b\n    async for i in c: yield i\n",
    "# c\n\nx = lambda a, *b: (yield)\n",
    "from a import (b,\n    c)\nimport d.e as f, g\n",
    "x = '''\n  a\n''' \"b\" r'\\'\n",
    "@d\n@e(1)\nclass A: pass\n",
    "if x:\n\ty\n\tif z:\n\t\tw\n",
    "x = [i for i in y if i] or {j: k for j, k in z}\n",
    "assert x, y; del a, b[0]; global g\n",
    "x[1:2, ::3] = y = z\n",
    "def f(*, a: int = 1, **k) -> None: ...\n",
    "é = 'é日本'  # é\n",
]


# nested blocks x dedent patterns x indentation styles (deterministic; every style extends the enclosing block's
# indentation string, so CPython and lexer.rs agree that it is consistent)
DEPTHS = [
    [0, 1, 0], [0, 1, 1, 0], [0, 1, 2, 0], [0, 1, 2, 1, 0], [0, 1, 2, 3, 0], [0, 1, 2, 3, 1, 0], [0, 1, 2, 3, 2, 1, 0],
    [0, 1, 2, 3, 1, 2, 0], [0, 1, 2, 3, 4, 1, 0], [0, 1, 2, 3, 4, 2, 3, 1], [0, 1, 2, 1, 2, 3, 1], [0, 1, 2, 3],
    [0, 1, 2, 3, 4, 3, 2, 1, 0], [0, 1, 2, 3, 4, 1, 2, 3, 4, 2],
]
STYLES = [
    ["    ", "    ", "    ", "    "],          # the original: four spaces per level
    [" ", " ", " ", " "], ["  ", "   ", " ", "        "], ["\t", "\t", "\t", "\t"], ["\t", "\t\t", "\t", "\t\t\t"],
    ["\t", " ", "  ", " "], ["\t", "\t", "  ", "    "], ["\t ", " ", " ", " "], ["\t\t", "\t", " ", " "],
    ["\t", "\t", "\t", "   "], ["        ", "        ", " ", " "],
]


def nested_text(depths, units, eol="\n", final=True):
    ind = [""]
    for u in units:
        ind.append(ind[-1] + u)
    lines = []
    for k, d in enumerate(depths):
        deeper = k + 1 < len(depths) and depths[k + 1] > d
        lines.append(ind[d] + (f"if a{k}:" if deeper else f"b{k} = {k}"))
    return eol.join(lines) + (eol if final else "")


# ------------------------------------------------------------------------------------------------ generation

def _lexreq(mode, a, b):
    """lexpair request, or None when Python's own token sequences of the two texts differ (the token-level
    statement is only about rewrites that keep the tokens: no parentheses rule, no `case a, b` -> `case [a, b]`)"""
    import lexcommon
    ta = LAY.py_tokens(a)
    if ta is None or ta != LAY.py_tokens(b):
        return None
    return f"lexpair {mode} {hexs(a)} {hexs(b)} {lexcommon.cls_args(a + b)}"


def _req(mode, orig, variants):
    return f"layout {mode} {hexs(orig)} " + " ".join(hexs(v) for v in variants)


def _merge(a, b):
    for k, v in b.items():
        a[k] = a.get(k, 0) + v


def _variants(text, sig, seed, k, stats, mode="exec", rules=None):
    import random
    out = []
    for j in range(k):
        r = LAY.variant(text, random.Random(seed * 7919 + j), stats, mode=mode, want_sig=sig, rules=rules)
        if r and r[0] not in out and r[0] != text:
            out.append(r[0])
    return out


NOPAREN = [r for r in LAY.RULES if r != "parens"]


def _work(item):
    """one work item -> (layout request lines, lexpair request lines, stats); runs in a worker process"""
    import random
    warnings.simplefilter("ignore")
    kind = item[0]
    stats = {}
    lay, lex = [], []
    try:
        if kind in ("gen", "geni", "refgen", "expr"):
            _, seed, k = item
            rng = random.Random(seed)
            mode, m = ("eval", "e") if kind == "expr" else ("exec", "i" if kind == "geni" else "m")
            if kind in ("gen", "geni"):
                text = GEN.Gen(rng).program()
            elif kind == "expr":
                text = GEN.Gen(rng).expression()
            else:
                import gen_program
                p = gen_program.Gen(rng, pep695=False).program()
                text = p.text
            sig = LAY.usable_original(text, stats, mode)
            if sig is None:
                return lay, lex, stats
            vs = _variants(text, sig, seed, k, stats, mode)
            if vs:
                lay.append(_req(m, text, vs))
            for v in _variants(text, sig, seed + 1, 1, stats, mode, rules=NOPAREN):
                lex.append(_lexreq(m, text, v))
            lex = [r for r in lex if r]
        elif kind == "file":
            _, path, seed, k = item
            try:
                text = open(path, "rb").read().decode("utf-8")
            except (OSError, UnicodeDecodeError):
                stats["skipped:not-utf8"] = 1
                return lay, lex, stats
            sig = LAY.usable_original(text, stats)
            if sig is None:
                return lay, lex, stats
            vs = _variants(text, sig, seed, k, stats)
            if vs:
                lay.append(_req("m", text, vs))
        elif kind == "small":
            _, text, mode = item
            m = "e" if mode == "eval" else "m"
            sig = LAY.ref_sig(text, mode)
            if sig is None:
                stats["skipped:not-python"] = 1
                return lay, lex, stats
            good, goodlex = [], []
            for rule, v in LAY.single_site_variants(LAY.normalise(text), mode):
                # each single-site variant also in the other two line-end styles
                styles = {v} if "\r" in v else {v, v.replace("\n", "\r\n"), v.replace("\n", "\r")}
                for w in sorted(styles):
                    if LAY.ref_sig(w, mode) == sig:
                        good.append(w)
                        stats["applied:" + rule] = stats.get("applied:" + rule, 0) + 1
                        if rule != "parens":
                            goodlex.append(w)
                    else:
                        stats["dropped:" + rule] = stats.get("dropped:" + rule, 0) + 1
            for i in range(0, len(good), 40):
                lay.append(_req(m, text, good[i:i + 40]))
            for w in goodlex:
                lex.append(_lexreq(m, text, w))
            lex = [r for r in lex if r]
    except RecursionError:
        stats["skipped:recursion"] = 1
    return lay, lex, stats


def _pool_map(items, procs):
    if not items:
        return []
    import multiprocessing as mp
    if procs <= 1:
        return [_work(i) for i in items]
    with mp.get_context("fork").Pool(procs) as pool:
        return pool.map(_work, items, chunksize=max(1, len(items) // (procs * 8)))


def stdlib_files():
    root = os.path.dirname(os.__file__)
    out = []
    for d, ds, fs in os.walk(root):
        ds[:] = sorted(x for x in ds if x not in ("site-packages", "__pycache__"))
        for f in sorted(fs):
            if f.endswith(".py"):
                out.append(os.path.join(d, f))
    return out


def streams(ctx):
    warnings.simplefilter("ignore")
    procs = 16
    if LEX_MODEL_READY:
        import lexcommon
        lexcommon.cls_tables()       # once, before forking: the workers inherit the cached tables
    out = []
    total = {}
    notes = []

    # 1. hand-written corpus
    reqs, lexreqs = [], []
    dropped = 0
    for orig, vs in PAIRS:
        sig = LAY.ref_sig(orig)
        if sig is None:
            notes.append(f"corpus original not accepted by CPython: {orig!r}")
            continue
        good = []
        for v in vs:
            if LAY.ref_sig(v) == sig:
                good.append(v)
            else:
                dropped += 1
                notes.append(f"corpus variant dropped (CPython sees a different tree): {orig!r} -> {v!r}")
        if good:
            reqs.append(_req("m", orig, good))
            for v in good:
                r = _lexreq("m", orig, v)
                if r:
                    lexreqs.append(r)
    out.append(Stream("corpus-pairs", reqs, kind="corpus", compare=False,
                      note=f"hand-written (original, variants) around CR in strings / after backslash, form feeds, BOM + soft "
                           f"keywords, comment lines before dedents, tabs, backslash joins, bracket breaks, parentheses; "
                           f"{dropped} variants dropped by the CPython validation"))
    out.append(Stream("known-softkw-probe", [_req("m", KNOWN_SOFTKW[0], KNOWN_SOFTKW[1])], kind="directed", compare=False,
                      note="deterministic probe of the listed known finding"))

    # 1b. nested blocks: every dedent pattern x every indentation style (re-indentation, directed)
    reqs, nested_lex = [], []
    for dp in DEPTHS:
        orig = nested_text(dp, STYLES[0])
        sig = LAY.ref_sig(orig)
        good = []
        for st in STYLES[1:]:
            for eol, fin in (("\n", True), ("\r\n", True), ("\n", False)):
                v = nested_text(dp, st, eol, fin)
                if v != orig and LAY.ref_sig(v) == sig and LAY.usable_original(v, {}) is not None:
                    good.append(v)
        if sig is not None and good:
            reqs.append(_req("m", orig, good))
            for v in good:
                r = _lexreq("m", orig, v)
                if r:
                    nested_lex.append(r)
    out.append(Stream("reindent-nested", reqs, kind="exhaustive", exhaustive=True, compare=False,
                      note=f"{len(DEPTHS)} nestings (multi-level dedents to indented levels, dedent at EOF) x {len(STYLES) - 1} "
                           f"indentation styles (spaces of other widths, tabs, tab+spaces) x LF/CRLF/no final line end; the "
                           f"instances of PV.C08.lex_reindent_invariant on the real parser"))

    # 2. exhaustive single-site variants of small programs
    bases = list(SMALL)
    rng = ctx.rng("small-bases")
    import random
    nb = 25 if ctx.quick else 400
    tries = 0
    while len(bases) < len(SMALL) + nb and tries < nb * 5:
        tries += 1
        t = GEN.Gen(random.Random(rng.randrange(1 << 40))).program()
        if len(t) < (160 if ctx.quick else 260) and LAY.usable_original(t, {}) is not None and t not in bases:
            bases.append(t)
    items = [("small", t, "exec") for t in bases]
    ebases = ["x", "(1,\n 2)", "a if b else c", "[i for i in x]", "f(a, *b, k=v)", "lambda: (yield)", "x[1:2]", "'a' 'b'", "{1: 2}", "match"]
    items += [("small", t, "eval") for t in ebases]
    res = _pool_map(items, procs)
    reqs = [r for lay, lex, st in res for r in lay]
    small_lex = [r for lay, lex, st in res for r in lex]
    st_small = {}
    for lay, lex, st in res:
        _merge(st_small, st)
    out.append(Stream("single-site-exhaustive", reqs, kind="exhaustive", exhaustive=True, compare=False,
                      note=f"{len(bases)} small programs + {len(ebases)} expressions: every site of every rule, one rewrite at a "
                           f"time, each in LF/CRLF/CR; CPython-validated: "
                           + ", ".join(f"{k}={v}" for k, v in sorted(st_small.items()))))
    _merge(total, st_small)

    # 3. generated programs x random compositions (up to 6 rewrites)
    rng = ctx.rng("generated")
    n = 1500 if ctx.quick else 30000
    items = [("gen", rng.randrange(1 << 40), 3 if ctx.quick else 4) for _ in range(n)]
    res = _pool_map(items, procs)
    reqs = [r for lay, lex, st in res for r in lay]
    gen_lex = [r for lay, lex, st in res for r in lex]
    st_g = {}
    for lay, lex, st in res:
        _merge(st_g, st)
    out.append(Stream("generated-compositions", reqs, kind="random", compare=False,
                      note="tools/c08_gen.py programs x compositions of 1..6 random rewrites: "
                           + ", ".join(f"{k}={v}" for k, v in sorted(st_g.items()))))
    _merge(total, st_g)

    # 3b. the reference tooling's type-directed generator, when present
    try:
        import gen_program  # noqa: F401
        have_ref = True
    except Exception:
        have_ref = False
    if have_ref:
        rng = ctx.rng("refgen")
        n = 600 if ctx.quick else 12000
        items = [("refgen", rng.randrange(1 << 40), 3) for _ in range(n)]
        res = _pool_map(items, procs)
        reqs = [r for lay, lex, st in res for r in lay]
        st_r = {}
        for lay, lex, st in res:
            _merge(st_r, st)
        out.append(Stream("refgen-compositions", reqs, kind="random", compare=False,
                          note="tools/gen_program.py programs (no PEP 695 forms) x compositions: "
                               + ", ".join(f"{k}={v}" for k, v in sorted(st_r.items()))))
        _merge(total, st_r)

    # 4. expressions (Mode::Expression)
    rng = ctx.rng("expr")
    n = 600 if ctx.quick else 8000
    items = [("expr", rng.randrange(1 << 40), 3) for _ in range(n)]
    res = _pool_map(items, procs)
    reqs = [r for lay, lex, st in res for r in lay]
    expr_lex = [r for lay, lex, st in res for r in lex]
    st_e = {}
    for lay, lex, st in res:
        _merge(st_e, st)
    out.append(Stream("expression-mode", reqs, kind="random", compare=False,
                      note="Mode::Expression: " + ", ".join(f"{k}={v}" for k, v in sorted(st_e.items()))))
    _merge(total, st_e)

    # 4b. Mode::Interactive on module-like programs (the reference for interactive mode is the module tree)
    rng = ctx.rng("interactive")
    n = 300 if ctx.quick else 4000
    items = [("geni", rng.randrange(1 << 40), 3) for _ in range(n)]
    res = _pool_map(items, procs)
    reqs = [r for lay, lex, st in res for r in lay]
    inter_lex = [r for lay, lex, st in res for r in lex]
    st_i = {}
    for lay, lex, st in res:
        _merge(st_i, st)
    out.append(Stream("interactive-mode", reqs, kind="random", compare=False,
                      note="Mode::Interactive: " + ", ".join(f"{k}={v}" for k, v in sorted(st_i.items()))))
    _merge(total, st_i)

    # 5. real programs: the CPython standard library that ships with python3
    files = stdlib_files()
    rng = ctx.rng("stdlib")
    if ctx.quick:
        must = [f for f in files if os.path.basename(f) in ("test_grammar.py", "test_patma.py", "tokenize.py", "test_tokenize.py",
                                                            "test_named_expressions.py", "test_with.py")]
        pool = [f for f in files if os.path.getsize(f) < 40000 and f not in must]
        files = must + rng.sample(pool, 110)
    items = [("file", f, rng.randrange(1 << 40), 2 if ctx.quick else 5) for f in files]
    res = _pool_map(items, procs)
    reqs = [r for lay, lex, st in res for r in lay]
    st_f = {}
    for lay, lex, st in res:
        _merge(st_f, st)
    out.append(Stream("stdlib-compositions", reqs, kind="random", compare=False,
                      note=f"{len(files)} files under {os.path.dirname(os.__file__)} ({len(reqs)} usable): "
                           + ", ".join(f"{k}={v}" for k, v in sorted(st_f.items()))))
    _merge(total, st_f)

    # 6. token streams of (original, variant): real lexer vs Lean lexer model, and equality of the two halves
    if LEX_MODEL_READY:
        lx = lexreqs + nested_lex + small_lex + gen_lex + expr_lex + inter_lex
        out.append(Stream("lexpair-model-vs-lexer", lx, kind="random", compare=True,
                          note="range-erased token streams of original and variant (rules without parentheses) from the real "
                               "lexer and from the Lean model used by PV.C08.Thm"))

    ctx.extra["rewrite_counts"] = dict(sorted(total.items()))
    ctx.notes.extend(notes[:40])
    return out
