"""C01 — every valid Python program parses to the reference AST.

Proof-level part: Lean theorems about the hand-written mechanisms between text and tree (set_context,
parse_args, validate_*, the in-action assembly code, the soft-keyword look-ahead) tied to the real parser by
differential correspondence streams.  Exploration part (reported as such): the whole-language reference
sweep against CPython 3.11 (+ generator ground truth for PEP 695), judged by `oracle`.
"""
import os
import re
import tokenize
import sys
import unicodedata

sys.path.insert(0, os.path.dirname(os.path.dirname(os.path.abspath(__file__))))
import core
import gen_program
import pyref
import refsweep
from core import Stream, hexs, unhex

ID = "C01"
DESIGN_REF = "DESIGN.md section 5, C01; design/C01.md; design/REFTOOLS.md"
LEAN_TARGETS = ["PV.C01.Thm", "PV.Prog.Thm"]
DRIVER = "drv_c01"
HARNESS = {"bin": "pvh_c01", "features": "default"}
# the statement level of the grammar as a Lean function (design/PROG.md): its theorems and its correspondence streams
# against the real parser are part of this check
EXTRA_DRIVERS = ["drv_prog"]
EXTRA_HARNESS = [{"bin": "pvh_prog", "features": "default"}]
THEOREMS = [
    "PV.C01.setContext_spec",
    "PV.C01.setContext_shape",
    "PV.C01.parseArgs_partition",
    "PV.C01.parseArgs_ok_iff_wellOrdered",
    "PV.C01.validatePosParams_spec",
    "PV.C01.validateArguments_spec",
    "PV.C01.elifChain_spec",
    "PV.C01.importLevel_spec'",
    "PV.C01.dottedName_spec",
    "PV.C01.genericList_spec",
    "PV.C01.softKw_model",
    "PV.C01.softKw_sound_partial",
    "PV.C01.softKw_fails_subscript",
    "PV.C01.softKw_fails_nested_lambda",
    "PV.C01.softKw_fails",
    # statement level (lean/PV/Prog): the Lean reference parser for whole programs
    "PV.Prog.parseProgramFuel_mono",
    "PV.Prog.parseProgram_total",
    "PV.Prog.accepts_iff_eventually",
    "PV.Prog.parseProgram_layout_free",
    "PV.Prog.parse_expr_stmt_agree",
    "PV.Prog.interactive_module_agree",
    "PV.Prog.elif_chain_spec",
    "PV.Prog.ifAssemble_spec",
    "PV.Prog.import_level_spec",
    "PV.Prog.annassign_simple_spec",
    "PV.Prog.annassign_paren_not_simple",
    "PV.Prog.annassign_paren_name_not_simple",
    "PV.Prog.match_subject_spec",
    "PV.Prog.match_subject_trailing_comma",
    "PV.Prog.render_parse_partial",
]
TRUSTED = [
    "Lean 4.33.0 kernel; axioms limited to propext, Classical.choice, Quot.sound",
    "the LALRPOP-generated LR automaton of parser/src/python.rs (tables + action glue) is NOT modelled as an automaton; the "
    "grammar it implements IS modelled: lean/PV/Prog/Parse.lean (statements, patterns, parameters, type parameters) on top of "
    "lean/PV/C11/Spec.lean (expressions) is a Lean recursive-descent parser written from python.lalrpop, and every run diffs its "
    "range-erased trees / rejections against the real parser on corpus, generated, stdlib and mutated programs (streams prog-*)",
    "hand-written models lean/PV/C01/Model.lean (context.rs, function.rs, grammar actions) and "
    "lean/PV/Lexer/SoftKw.lean (soft_keywords.rs), tied to the code by the correspondence streams of this run",
    "CPython 3.11.7 `ast.parse` as the meaning of 'the reference'; tools/pyref.py (reference dumper, the two "
    "documented representation differences are applied there), harness/src/astdump.rs ({:?} re-printer), both "
    "cross-validated on the CPython stdlib",
    "tools/gen_program.py (generator; ground truth for PEP 695 forms), tools/refsweep.py, tools/props/c01.py, "
    "harness/src/bin/pvh_c01.rs, lean/Drv/C01.lean",
]
PARTIAL = [
    "the full statement quantifies over all texts the reference grammar accepts; the theorems cover the "
    "hand-written mechanisms (context tagging for all expression trees, argument partition, parameter "
    "validation, elif/try/import/dotted-name/tuple assembly, the match/case look-ahead on lines without nested "
    "top-level lambdas) and the Lean reference parser PV.Prog.parseProgram (total, fuel-monotone, position-independent; "
    "printer round trip render_parse_partial on a statement fragment); that parseProgram accepts exactly CPython's language "
    "with CPython's trees is NOT proved: it is tied to the real parser by correspondence and the real parser to CPython by the sweep",
    "softKw_sound_partial holds on lines with at most one free colon placed right after the head or at the "
    "end; outside it the unchanged code is wrong (softKw_fails, witnesses `match[0]: int`, nested lambda)",
    "the `type` soft keyword look-ahead is swept, not proved",
]
READY = True
TECHNIQUE = ("Lean 4 theorems over hand-written models of the parser's hand-written mechanisms and over a Lean reference parser "
             "for the whole grammar (PV.Prog on PV.C11) + differential correspondence of both with the real parser; "
             "whole-language reference sweep against CPython as exploration")
LEVEL_TEXT = ("Machine-checked Lean 4 theorems (unbounded: all expression trees, all argument/parameter lists, all "
              "elif chains, all token lines) about the hand-written mechanisms on the path from text to tree: "
              "store/del tagging equals CPython's target rule and changes nothing else, call arguments are the "
              "order-preserving partition with exactly the reference ordering rules, elif/import/dotted-name/tuple "
              "assembly equal their reference meaning, and the match/case look-ahead agrees with the reference rule "
              "on a stated domain with a proved counterexample outside it. Models are tied to the Rust code on "
              "every run by differential correspondence through the real parser. The LR automaton is not modelled; "
              "whole programs are compared with CPython 3.11 in a reference sweep reported as exploration.")
LEVEL_NOTE = ("Partial: the generated LR parser is outside the proof; only its hand-written mechanisms are. The sweep "
              "(generated programs over every statement/expression/pattern/literal form + the CPython stdlib, three "
              "modes) finds concrete violating inputs but proves nothing.")
RULE = ("mechanism streams: request lines sent to both the real parser and the Lean model; sweep streams: "
        "distinct source texts accepted by the reference and compared tree-for-tree (ranges erased)")

# ------------------------------------------------------------------------------------------------ known findings

PROBES = [
    # key, mode, source
    ("softkw-head-subscript-colon", "m", "match[0]: int\n"),
    ("softkw-head-attribute-colon", "m", "match.x: int = 1\n"),
    ("softkw-head-nested-lambda-colon", "m", "match = lambda a=lambda: 1: 2\n"),
    ("softkw-head-other-colon", "m", "case = 1; x: int = 2\n"),
    ("identifier-not-nfkc", "m", "ﬁ = 1\n"),
    ("string-prefix-uppercase-u-kind", "m", "U'a'\n"),
    ("fstring-concat-u-kind-not-in-format-spec", "m", "u'a' f'{x:>{w}}'\n"),
    ("subscript-starred-index-not-full-expression", "m", "x[*a or b]\n"),
    ("with-item-starred-target", "m", "with x as *a: pass\n"),
]

_ID_FIELDS = ("id", "name", "arg", "attr", "asname", "module", "rest", "names", "kwd_attrs")


def _line_of(src, off):
    b = src.encode("utf-8")
    s = max(b.rfind(b"\n", 0, off), b.rfind(b"\r", 0, off)) + 1
    e = len(b)
    for k in range(off, len(b)):
        if b[k] in (10, 13):
            e = k
            break
    return b[s:e].decode("utf-8", "replace")


def _logical_line_before(src, off):
    """text from the start of the physical line holding `off` back over continuation lines"""
    b = src.encode("utf-8")
    s = max(b.rfind(b"\n", 0, off), b.rfind(b"\r", 0, off)) + 1
    return b[s:].decode("utf-8", "replace")


_STAR_INDEX_STOP = re.compile(rb"(or|and|not|if|in|is|lambda)\b|[<>]=?|==|!=")


def _starred_index_shape(b, off):
    """the rejected token at `off` continues a starred element `*expr` of a subscript `[...]` with an operator of
    lower precedence than `|` (or/and/not/comparison/conditional/lambda)"""
    if not _STAR_INDEX_STOP.match(b, off):
        return False
    depth = 0
    k = off - 1
    start = None
    while k >= 0:
        c = b[k:k + 1]
        if c in (b")", b"]", b"}"):
            depth += 1
        elif c in (b"(", b"{"):
            if depth == 0:
                return False
            depth -= 1
        elif c == b"[":
            if depth == 0:
                start = k
                break
            depth -= 1
        elif c in (b"\n", b"\r") and depth == 0 and b"'" in b[k:off]:
            return False
        k -= 1
    if start is None or b"'" in b[start:off] or b'"' in b[start:off] or b"#" in b[start:off]:
        return False
    if not re.search(rb"[\w)\]}'\"]\s*$", b[:start]):
        return False            # `[` does not follow a primary: a list display, not a subscript
    seg, depth, last = b[start + 1:off], 0, 0
    for i, c in enumerate(seg):
        if c in b"([{":
            depth += 1
        elif c in b")]}":
            depth -= 1
        elif c == 44 and depth == 0:
            last = i + 1
    el = seg[last:].lstrip()
    return el.startswith(b"*") and not el.startswith(b"**")


def classify_reject(src, out):
    """known shape of a rejected valid text, or None"""
    m = re.match(r"\(err (\S+) (\d+)\)", out)
    if not m:
        return None
    kind, off = m.group(1), int(m.group(2))
    b = src.encode("utf-8")
    if kind == "UnrecognizedToken":
        line = _logical_line_before(src, off).lstrip()
        first = line.split("\n")[0]
        for cand in (first, line):
            if gen_program.softkw_colon_shape(cand):
                toks = [t for t in gen_program._tokens(cand)]
                second = toks[1].string if len(toks) > 1 else ""
                if second == "[":
                    return "softkw-head-subscript-colon"
                if second == ".":
                    return "softkw-head-attribute-colon"
                if any(t.string == "lambda" for t in toks):
                    return "softkw-head-nested-lambda-colon"
                return "softkw-head-other-colon"
        if _starred_index_shape(b, off):
            return "subscript-starred-index-not-full-expression"
        pre = b[:off].decode("utf-8", "replace")
        if b[off:off + 1] == b"*" and re.search(r"\bas[ \t]*$", pre) and re.search(r"(^|\n|\r|:|;)[ \t]*(async[ \t]+)?with\b[^\n\r]*$", pre):
            return "with-item-starred-target"
    if kind in ("Lexical.FStringError", "Lexical.Eof", "Lexical.StringError"):
        # a triple-quoted string literal inside a replacement field of an f-string, on the line of the error
        # or (triple-quoted f-string) anywhere after its opening
        line = _line_of(src, min(off, max(len(b) - 1, 0)))
        tq = "('''|" + '"""' + ")"
        if re.search(r"(?i)\b(f|rf|fr)['\"]", line) and re.search(r"\{[^{}]*?" + tq, line):
            return "fstring-triple-quote-in-field"
        if re.search(r"[fF][rR]?" + tq + r"(?:(?!\1).)*?\{[^{}]*?" + tq, src, re.S):
            return "fstring-triple-quote-in-field"
    return None


def _is_empty_str_const(t):
    return (not isinstance(t, (str, list)) and t[0] == "ExprConstant" and
            pyref.unsexp(dict(t[2])["value"]) == "(Str s:-)")


def _same_or_known(a, b):
    """a and b are equal, or differ only by listed shapes (nested occurrences)"""
    return all(classify_diff(d) is not None for d in refsweep.all_diffs(a, b))


def classify_diff(d):
    """known shape of one structural difference, or None"""
    path, x, y = d["path"], d["impl"], d["ref"]
    last = path.rsplit(".", 1)[-1]
    field = re.sub(r"\[\d+\]$", "", last)
    if isinstance(x, str) and isinstance(y, str) and x.startswith("s:") and y.startswith("s:") and field in _ID_FIELDS:
        try:
            xs = bytes.fromhex(x[2:]).decode("utf-8")
            ys = bytes.fromhex(y[2:]).decode("utf-8")
            if xs != ys and unicodedata.normalize("NFKC", xs) == ys:
                return "identifier-not-nfkc"
        except ValueError:
            pass
    if last == "kind" and x == "s:75" and y == "None" and d["pa"] and d["pa"][0] == "ExprConstant":
        return "string-prefix-uppercase-u-kind"
    if last == "kind" and x == "None" and y == "s:75" and ".format_spec." in path:
        return "fstring-concat-u-kind-not-in-format-spec"
    if d["pa"] and d["pa"][0] == "ExprJoinedStr":
        # impl keeps empty plain literals of a concatenation as empty Constants
        xa = dict(d["pa"][2])["values"]
        ya = dict(d["pb"][2])["values"]
        if [pyref.unsexp(v) for v in xa if not _is_empty_str_const(v)] == [pyref.unsexp(v) for v in ya] and len(xa) != len(ya):
            return "fstring-concat-empty-literal-kept"
    return None


_REFS = {}


def judge(src, mode, extra, out, ref=None):
    """(failure or None).  A failure string ends with `[known:k1,k2]` when every difference is a listed shape."""
    if ref is None:
        ref = refsweep.reference(src, mode, extra)
    if ref is None:
        return None                   # the reference rejects the text: outside the property's domain
    if out == ref:
        return None
    if out in ("(panic)", "(abort)", "(timeout)") or out.startswith("(dump-error"):
        return "implementation " + out + " on a text the reference accepts"
    if out.startswith("(err"):
        k = classify_reject(src, out)
        return f"valid text rejected: {out}" + (f" [known:{k}]" if k else "")
    try:
        a, b = pyref.sexp(out), pyref.sexp(ref)
    except Exception as e:      # noqa
        return f"unreadable tree: {e!r}"
    ds = refsweep.all_diffs(a, b)
    if not ds:
        return "trees differ textually but not structurally"
    keys = []
    for d in ds:
        k = classify_diff(d)
        if k is None:
            return (f"tree differs from the reference at {d['path']}: impl {pyref.short(d['impl'], 120)} "
                    f"vs reference {pyref.short(d['ref'], 120)}")
        if k not in keys:
            keys.append(k)
    d = ds[0]
    return (f"tree differs from the reference at {d['path']}: impl {pyref.short(d['impl'], 100)} vs reference "
            f"{pyref.short(d['ref'], 100)} [known:{','.join(keys)}]")


def oracle(req, out):
    ws = req.split()
    if ws[0] != "parse":
        return None
    mode, erase, src, extra = refsweep.split_request(req)
    return judge(src, mode, extra, out, _REFS.get(req))


def classify(req, impl_out, model_out, failure):
    if failure:
        m = re.search(r"\[known:([^\]]+)\]$", failure)
        if m:
            return m.group(1).split(",")[0]
    return None


# ------------------------------------------------------------------------------------------------ mechanism streams

def _mech_oracle(req, out):
    """impl subtree vs CPython's subtree at the same path (only for texts CPython accepts)"""
    ws = req.split()
    path, how, src = ws[1], ws[2], unhex(ws[3]).decode("utf-8")
    if ws[0] == "args" and ws[-1] == "nooracle":
        return None
    if how == "r":
        ref = refsweep.reference(src, "m", None, ranges=True)
        if ref is None:
            return None
        want = refsweep.nav(pyref.sexp(ref), path)
        want = "@%d..%d" % want[1]
    else:
        ref = refsweep.reference(src, "m", None)
        if ref is None:
            return None
        want = pyref.unsexp(refsweep.nav(pyref.sexp(ref), path))
        if how == "T":      # positions are judged by C02; C01 compares the structure
            out = pyref.unsexp(pyref.strip_ranges(pyref.sexp(out))) if out.startswith("(Stmt") else out
    if out != want:
        return f"subtree {path} differs from the reference: impl {out[:160]} vs {want[:160]}"
    return None


def _g(ctx, name, **kw):
    return gen_program.Gen(ctx.rng(name), layout=False, **kw)


def _top_comma(t):
    """a comma outside every bracket (brackets inside string literals do not count: token-wise)"""
    depth = 0
    try:
        toks = list(gen_program._tokens(t))
    except Exception:       # noqa
        toks = None
    if toks is None:
        return "," in t
    for tok in toks:
        if tok.type != tokenize.OP:
            continue
        c = tok.string
        if c in "([{":
            depth += 1
        elif c in ")]}":
            depth -= 1
        elif c == "," and depth == 0:
            return True
    return False


def setctx_requests(ctx, n):
    g = _g(ctx, "setctx", depth=3)
    g._setup()
    reqs = []
    corpus = ["a", "a.b", "a[b]", "a, b", "*a, b", "(a, [b, *c])", "[a.b, c[d], (e, (f,))]", "a[b:c, *d]", "f(x).y", "(a)",
              "a.b.c[d].e", "()", "[]", "(*a,)", "x[y][z]", "match", "case.type", "a[i := 1]", "(yield).x", "f(x)[lambda: 0]"]
    forms = [
        ("assign", "{T} = 1\n", "body.0.targets.0", "S", True),
        ("assign2", "q = {T} = 1\n", "body.0.targets.1", "S", True),
        ("aug", "{T} += 1\n", "body.0.target", "S", False),
        ("ann", "{T}: int\n", "body.0.target", "S", False),
        ("for", "for {T} in x: pass\n", "body.0.target", "S", True),
        ("afor", "async for {T} in x: pass\n", "body.0.target", "S", True),
        ("with", "with x as {T}: pass\n", "body.0.items.0.optional_vars", "S", False),
        ("del", "del {T}\n", "body.0.targets.0", "D", False),
        ("comp", "[0 for {T} in x]\n", "body.0.value.generators.0.target", "S", True),
        ("gen", "(0 for {T} in x if y)\n", "body.0.value.generators.0.target", "S", True),
    ]
    texts = list(corpus)
    for _ in range(n):
        texts.append(g.target_list(3) if g.p(0.5) else g.target(3, star_ok=False))
    for t in texts:
        for fname, tmpl, path, c, listok in forms:
            src = tmpl.replace("{T}", t)
            if not listok and (t.startswith(("(", "[", "*")) or _top_comma(t)):
                continue
            if gen_program.softkw_colon_shape(src):
                continue            # known-finding shape, probed separately
            try:
                load = refsweep.expr_ref("(" + t + ")")
            except (SyntaxError, ValueError):
                continue
            if refsweep.reference(src, "m") is None:
                continue            # not a valid target in that position
            reqs.append(f"setctx {path} t {hexs(src)} {c} {hexs(load)}")
    return reqs


def args_requests(ctx, n):
    rng = ctx.rng("args")
    reqs = []
    vals = ["a", "1", "x.y", "f(z)", "(p, q)", "[1][0]", "lambda: 0", "b if c else d", "'s'", "{}", "-n", "g(k=1)"]
    names = ["k", "key", "match", "case", "type", "é", "end", "sep"]
    import itertools
    shapes = []
    for L in range(0, 4):
        shapes += list(itertools.product("pskd", repeat=L))
    for _ in range(n):
        shapes.append(tuple(rng.choice("ppskkd") for _ in range(rng.randrange(4, 8))))
    for shape in shapes:
        pool = list(names)
        rng.shuffle(pool)
        dup = rng.random() < 0.15
        items, text = [], "f("
        used = []
        for k, kind in enumerate(shape):
            v = rng.choice(vals)
            start = len(text.encode())
            if kind == "p":
                piece, vstart = v, start
            elif kind == "s":
                piece, vstart = "*" + v, start
            elif kind == "k":
                nm = (rng.choice(used) if (dup and used) else pool.pop()) if pool or used else "zz%d" % k
                used.append(nm)
                piece, vstart = nm + "=" + v, start + len((nm + "=").encode())
            else:
                piece, vstart = "**" + v, start + 2
            vc = refsweep.expr_ref(v)
            if kind == "s":
                vc = "(ExprStarred (value " + vc + ") (ctx Load))"
            nmhex = hexs(used[-1]) if kind == "k" else "-"
            items.append(f"{kind}:{nmhex}:{start}:{vstart}:{hexs(vc)}")
            text += piece + (", " if k < len(shape) - 1 else "")
        if shape and rng.random() < 0.2:
            text += ","
        text += ")\n"
        f = "(ExprName (id s:66) (ctx Load))"
        kwn = [u for u in used]
        has_dup = len(set(kwn)) != len(kwn)
        tail = " nooracle" if has_dup else ""
        reqs.append(f"args body.0.value t {hexs(text)} {hexs(f)} {','.join(items) if items else '-'}{tail}")
    return reqs


def _flatten_if(node, srcb):
    """CPython's nested If -> (start, test, body, [(start, test, body)…], else or None)"""
    f = dict(node[2])
    clauses = []
    els = None
    cur = f["orelse"]
    while True:
        if len(cur) == 1 and cur[0][0] == "StmtIf" and srcb[cur[0][1][0]:cur[0][1][0] + 4] == b"elif":
            ff = dict(cur[0][2])
            clauses.append((cur[0][1][0], ff["test"], ff["body"]))
            cur = ff["orelse"]
        else:
            els = cur if cur else None
            break
    return node[1][0], f["test"], f["body"], clauses, els


def _stmts_arg(stmts):
    if not stmts:
        return "-"
    return ",".join(f"{s[1][1]}:{hexs(pyref.unsexp(s))}" for s in stmts)


def elif_requests(ctx, n):
    rng = ctx.rng("elif")
    g = gen_program.Gen(rng, layout=False, depth=2, pep695=False, range_clean=True)
    g._setup()
    reqs = []
    shapes = [(k, e) for k in range(0, 5) for e in (False, True)]
    for _ in range(n):
        shapes.append((rng.randrange(0, 7), rng.random() < 0.5))
    for nelif, has_else in shapes:
        for variant in range(2):
            def body(ind):
                k = rng.choice([1, 1, 2])
                if variant == 0:
                    return "".join(ind + rng.choice(["pass", "x = 1", "f(y)", "return z", "a; b"]) + "\n" for _ in range(k))
                out = ""
                for _ in range(k):
                    t, w = g.simple_line(2)
                    if "\n" in w or t != w:
                        w = "pass"
                    out += ind + w + "\n"
                return out
            lead = rng.choice(["", "", "x = 0\n", "# c\n\n"])
            inner = rng.random() < 0.3
            ind0 = "    " if inner else ""
            src = lead + ("def f():\n" if inner else "")
            src += ind0 + "if " + g.expr(1, 1) + ":\n" + body(ind0 + "  ")
            for _ in range(nelif):
                src += ind0 + "elif " + g.expr(1, 1) + ":\n" + body(ind0 + "  ")
            if has_else:
                src += ind0 + "else:\n" + body(ind0 + "  ")
            src += rng.choice(["", "y = 2\n"]) if not inner else ""
            ref = refsweep.reference(src, "m", None, ranges=True)
            if ref is None:
                continue
            tree = pyref.sexp(ref)
            k = 1 if lead.startswith("x") else 0
            path = f"body.{k}" + (".body.0" if inner else "")
            node = refsweep.nav(tree, path)
            if node[0] != "StmtIf":
                continue
            start, test, b0, clauses, els = _flatten_if(node, src.encode())
            cl = ";".join(f"{s}/{hexs(pyref.unsexp(t))}/{_stmts_arg(b)}" for s, t, b in clauses) or "-"
            reqs.append(f"elif {path} T {hexs(src)} {start} {hexs(pyref.unsexp(test))} {_stmts_arg(b0)} {cl} "
                        f"{'none' if els is None else _stmts_arg(els)}")
    return reqs


def tryend_requests(ctx, n):
    rng = ctx.rng("try")
    reqs = []
    shapes = [(h, e, f) for h in range(0, 3) for e in (0, 1) for f in (0, 1) if (h or f) and (h or not e)]
    for _ in range(n):
        h = rng.randrange(0, 4)
        f = rng.randrange(0, 2)
        e = rng.randrange(0, 2) if h else 0
        if h or f:
            shapes.append((h, e, f))
    for h, e, f in shapes:
        star = rng.random() < 0.3 and h > 0
        def body():
            return "".join("  " + rng.choice(["pass", "x = 1", "f(y)  # c", "a; b", "if q:\n    r\n  else:\n    s"]) + "\n"
                           for _ in range(rng.choice([1, 2])))
        src = "try:\n" + body()
        for k in range(h):
            src += ("except* E%d" % k if star else rng.choice(["except E%d" % k, "except E%d as e" % k] + (["except"] if k == h - 1 else []))) + ":\n" + body()
        if e:
            src += "else:\n" + body()
        if f:
            src += "finally:\n" + body()
        ref = refsweep.reference(src, "m", None, ranges=True)
        if ref is None:
            continue
        node = refsweep.nav(pyref.sexp(ref), "body.0")
        fd = dict(node[2])
        hs = ",".join(str(x[1][1]) for x in fd["handlers"]) or "-"
        oe = ",".join(str(x[1][1]) for x in fd["orelse"]) or "-"
        fb = ",".join(str(x[1][1]) for x in fd["finalbody"]) or "-"
        # the handler ends are themselves derived (end of the handler's last statement); what the model is
        # given is the impl-independent reference value
        reqs.append(f"tryend body.0 r {hexs(src)} {node[1][0]} {hs} {oe} {fb}")
    return reqs


def implvl_requests(ctx, n):
    rng = ctx.rng("import")
    reqs = []
    dots = ["", ".", "..", "...", "....", ".....", "......", ". .", ".. .", "... .", "... ...", ". ... .", "...  ..", ".......", ". . . ."]
    names = ["a", "pkg", "match", "case", "type", "é", "_x"]
    cases = [(d, k) for d in dots for k in range(0, 4)]
    for _ in range(n):
        d = " ".join("." * rng.randrange(1, 6) for _ in range(rng.randrange(1, 4)))
        cases.append((d, rng.randrange(0, 4)))
    for d, k in cases:
        if not d and k == 0:
            continue
        parts = [rng.choice(names) for _ in range(k)]
        imp = rng.choice(["x", "x as y", "x, match as case", "(x, y,)", "*"])
        src = "from " + d + (" " if rng.random() < 0.3 else "") + ".".join(parts) + " import " + imp + "\n"
        ref = refsweep.reference(src, "m")
        if ref is None:
            continue
        node = refsweep.nav(pyref.sexp(ref), "body.0")
        runs = ",".join(str(len(r)) for r in d.split()) or "-"
        ph = ",".join(hexs(p) for p in parts) or "-"
        reqs.append(f"implvl body.0 t {hexs(src)} {runs} {ph} {hexs(pyref.unsexp(dict(node[2])['names']))}")
    return reqs


def glist_requests(ctx, n):
    rng = ctx.rng("glist")
    g = gen_program.Gen(rng, layout=False, depth=2, pep695=False)
    g._setup()
    reqs = []
    forms = [("x = {L}\n", "body.0.value"), ("x = ({L})\n", "body.0.value"), ("return {L}\n", "body.0.value"),
             ("for i in {L}: pass\n", "body.0.iter"), ("x += {L}\n", "body.0.value"), ("del {L}\n", None),
             ("x[{L}]\n", None), ("yield {L}\n", "body.0.value.value"), ("for {L} in y: pass\n", None)]
    for _ in range(n):
        k = rng.choice([1, 1, 2, 3, 5])
        elts = [g.expr(2, 1) for _ in range(k)]
        tc = rng.random() < 0.4
        L = ", ".join(elts) + ("," if tc else "")
        for tmpl, path in forms:
            if path is None:
                continue
            src = tmpl.replace("{L}", L)
            ref = refsweep.reference(src, "m")
            if ref is None:
                continue
            try:
                ec = "[" + " ".join(refsweep.expr_ref(e) for e in elts) + "]"
            except (SyntaxError, ValueError):
                continue
            reqs.append(f"glist {path} t {hexs(src)} {1 if tc else 0} {hexs(ec)}")
    return reqs


# ------------------------------------------------------------------------------------------------ streams

def _sweep_stream(ctx, name, items, mode, note, kind="random"):
    reqs = []
    for text, extra, ref in items:
        r = refsweep.make_request(mode, 1, text, extra)
        _REFS[r] = ref
        reqs.append(r)
    return Stream(name, reqs, kind=kind, compare=False, note=note)


def streams(ctx):
    out = []
    q = ctx.quick
    # 1. deterministic probes of the listed findings + a regression corpus
    reqs = [refsweep.make_request(m, 1, s) for _, m, s in PROBES]
    corpus = ["x = f'''{\"\"\"a\"b\"\"\"}'''\n", "f'{\"x\" \"\"\"eric\"s\"\"\" \"y\"}'\n", "f'{x}' ''\n", "'' f'{x}'\n", "f'' ''\n",
              "u'a' f'{x:>3}'\n", "f'{x:\\x41}'\n", "f'{x = }'\n", "f'{x for x in y}'\n", "f'{a, b}{*a, b}{yield}{yield x}{await x}{a if b else c}'\n",
              "f'{x for x in y!r:>{w}}'\n", "f'{x:{y for y in z}}'\n",       # repaired by c09f12b, dfa74fc, 40fcb23, 897a1b6: regressions are violations
              "match(x)\n", "match (x):\n case 1: pass\n", "case = 1\n", "type = 1\n", "print(type(x))\n", "type: int = 1\n",
              "match: int\n", "match: dict[str, int] = {}\n", "match -x:\n case 1: pass\n", "match *a, b:\n case 1: pass\n",
              "type X = int\n", "type X[T: int, *Ts, **P] = dict[T, P]\n", "def f[T](a: T) -> T: pass\n",
              "class C[T](B, metaclass=M): pass\n", "type type = type\n", "type match[case] = case\n",
              "f(x for x in y)\n", "x = 1.\n", "x = 1.e3\n", "x = 0 if 1.else 2\n", "x = [1.if a else 2]\n", "x = 1 .real\n", "a = b = *c, d\n", "x = '\\ud800'\n",   # (be24063: 1.else)
              "def f(a, /, b=1, *c, d, e=2, **f): pass\n", "lambda *, a=1: 0\n", "with (a as b, c): pass\n", "with (a, b): pass\n",
              "with (a): pass\n", "try: pass\nexcept* E: pass\n", "x = yield\n", "async def f():\n await x\n", "if a:=1: pass\n",
              "[x for x in y if z if w for a in b]\n", "print >> f, x\n", "x = 0xFF + 0o7 + 0b1 + 1_0\n", "@a.b(c)\n@d\nclass E: pass\n",
              "from . import x\n", "from .... import x\n", "global a, b\n", "nonlocal a\n", "assert a, b\n", "del a, (b, c), [d]\n",
              "raise A from B\n", "a[1:2, ::3, ...]\n", "a[b:=1]\n", "{**a, 'b': c}\n", "{*a, b}\n", "f(*a, k=1, *b, **c)\n",
              "x = not a is not b\n", "x = a if b else c if d else e\n", "x = a < b <= c != d\n", "x = -1 ** -2\n", "x = (yield)\n",
"match x,:\n case _: pass\n", "match x ,  :\n case _: pass\n", "match *a,:\n case _: pass\n", "match (x),:\n case _: pass\n", "match w := x,:\n case y as v,: pass\n",
              "match x:\n case _: pass\n", "match (x,):\n case _: pass\n", "match x, y,:\n case _: pass\n",      # repaired (`match x,:` subject is Tuple([x])): regressions are violations
"x[*a]\n", "x[ *a ]\n", "x[*a,]\n", "x[*a, b]\n", "x[(*a,)]\n", "tuple[*tuple[*Ts]]\n", "def f(*args: *Ts) -> Tuple[*Ts]: ...\n", "x[*a] = 1\n", "del x[*a]\n", "x[*a | b]\n",
              "x[a]\n", "x[a:b]\n", "x[a := 1]\n",      # repaired (`x[*a]`: the slice is Tuple([Starred])): regressions are violations
              "(x): int = 1\n", "(x): int\n", "((x)): int = 1\n", "x: int = 1\n", "(x.y): int = 1\n", "if a: (x): int = 1\n", "pass; (x): int\n",   # repaired (annassign simple flag): regressions are violations
              "x = 1; type = 2\n", "lambda: type\n", "f = lambda: type\n", "d = {a: type}\n", "x[a: type]\n", "def f(a: type = 1): pass\n",
              "x: type = int\n", "x: type\n", "if (lambda: type): pass\n", "if x: type = 1\n", "if x: type(y)\n", "if x: type[T] = 1\n",
              "pass; type(x)\n", "pass; type\n", "pass; type = type\n", "if x: type\n", "pass; type.x = 1\n",   # `type` stays a NAME behind `;` / `:` (repair of type-alias-not-at-line-start)
              "﻿x = 1\n", "x = 1\r\ny = 2\r\n", "x = 1\ry = 2\r", "if x:\n\ty\n", "x = \\\n  1\n", "", "\n", "# only a comment", "pass"]
    reqs += [refsweep.make_request("m", 1, s, None) for s in corpus]
    reqs += [refsweep.make_request("i", 1, s, None) for s in corpus[:40]]
    # PEP 695 corpus entries need their ground truth: route them through the generator's patch machinery
    fixed = []
    for r in reqs:
        mode, _, src, extra = refsweep.split_request(r)
        if re.search(r"(^|\n|;|: )\s*type \w+(\[.*\])? =", src) or re.search(r"(def|class) \w+\[", src):
            continue
        fixed.append(r)
    fixed += _pep695_corpus()
    out.append(Stream("probes+corpus", fixed, kind="corpus", compare=False,
                      note="one deterministic probe per listed known finding, then regression inputs"))
    # 1b. every directed shape of tools/shapes.py, deterministically (parameter-list sections, with-items of every expression
    #     kind, rare productions: the grammar regions the coverage map showed random generation not to reach)
    import shapes
    items = []
    for t in gen_program._shape_pool():
        items.append((t, None, refsweep.reference(t, "m", None)))
    out.append(_sweep_stream(ctx, "sweep-directed-shapes", [it for it in items if it[2] is not None], "m",
                             "%d directed texts of tools/shapes.py (CPython-3.11-valid ones), Module mode" % len(items), kind="directed"))

    # 2. mechanism correspondence (real parser vs Lean model, plus CPython as oracle)
    out.append(Stream("mech-setContext", setctx_requests(ctx, 60 if q else 1500), kind="directed", oracle=_mech_oracle,
                      note="tree(parse stmt).target == setContext(CPython Load tree of the target text), 10 target positions"))
    out.append(Stream("mech-parseArgs", args_requests(ctx, 200 if q else 4000), kind="exhaustive", oracle=_mech_oracle,
                      note="all argument-kind sequences of length <= 3 over {pos,*,kw,**} plus random longer ones, "
                           "incl. the ordering errors (kind and offset only)"))
    out.append(Stream("mech-elifChain", elif_requests(ctx, 40 if q else 800), kind="directed", oracle=_mech_oracle,
                      note="if/elif*/else of generated length, with ranges (derived ends)"))
    out.append(Stream("mech-tryEnd", tryend_requests(ctx, 40 if q else 800), kind="directed", oracle=_mech_oracle,
                      note="range of try statements vs the end-selection rule"))
    out.append(Stream("mech-importLevel", implvl_requests(ctx, 60 if q else 1500), kind="directed", oracle=_mech_oracle,
                      note="from <dot runs><dotted name> import …: level and joined module name"))
    out.append(Stream("mech-genericList", glist_requests(ctx, 50 if q else 1000), kind="directed", oracle=_mech_oracle,
                      note="comma lists in 6 positions: tuple iff a comma is present"))

    # 3. reference sweep (exploration; judged by oracle only)
    nm, ni, ne = (8000, 2000, 4000) if q else (100000, 25000, 50000)
    gm, tm = refsweep.generated(ctx, "sweep-m", nm, "m", {"depth": 3})
    gi, ti = refsweep.generated(ctx, "sweep-i", ni, "i", {"depth": 3})
    ge, te = refsweep.generated(ctx, "sweep-e", ne, "e", {"depth": 4})
    gd, td = refsweep.generated(ctx, "sweep-deep", 150 if q else 8000, "m", {"depth": 5, "stmts": (1, 3)})
    ctx.extra["generator"] = {"module": {"kept": len(gm), "generated": tm}, "interactive": {"kept": len(gi), "generated": ti},
                              "expression": {"kept": len(ge), "generated": te}, "deep": {"kept": len(gd), "generated": td},
                              "note": "kept = accepted by the reference (CPython / PEP 695 ground truth)"}
    out.append(_sweep_stream(ctx, "sweep-generated-module", gm, "m", "generated programs, Module mode"))
    out.append(_sweep_stream(ctx, "sweep-generated-interactive", gi, "i", "generated programs, Interactive mode (reference = module tree)"))
    out.append(_sweep_stream(ctx, "sweep-generated-expression", ge, "e", "generated expressions, Expression mode"))
    out.append(_sweep_stream(ctx, "sweep-generated-deep", gd, "m", "deeper nesting, fewer statements"))
    files = refsweep.stdlib("m", limit=None, rng=ctx.rng("stdlib"))
    out.append(_sweep_stream(ctx, "sweep-stdlib-module", [(s, None, r) for _, s, r in files], "m",
                             f"{len(files)} CPython stdlib files accepted by ast.parse", kind="corpus"))
    if not q:
        filesi = [(s, None, "(ModInteractive" + r[len("(ModModule"):r.rfind(" (type_ignores [])")] + ")") for _, s, r in files[::3]]
        out.append(_sweep_stream(ctx, "sweep-stdlib-interactive", filesi, "i", "every third stdlib file, Interactive mode", kind="corpus"))
    # statement-level tie: the Lean reference parser PV.Prog.parseProgram against the real parser (design/PROG.md)
    import props.prog as PROG
    for st in PROG.streams(ctx):
        st.name = "prog-" + st.name
        st.harness = st.harness or PROG.HARNESS
        st.driver = st.driver or PROG.DRIVER
        out.append(st)
    return out


def _pep695_corpus():
    """hand-written PEP 695 texts with their ground truth given through the twin/patch mechanism"""
    import json
    items = [
        ("type X = int\n", "_PVTA_1 = int\n", [{"kind": "alias", "marker": "_PVTA_1", "name": "X", "params": []}]),
        ("type X[T: int, *Ts, **P] = dict[T, P]\n", "_PVTA_1 = dict[T, P]\n",
         [{"kind": "alias", "marker": "_PVTA_1", "name": "X", "params": [["TypeVar", "T", "int"], ["TypeVarTuple", "Ts"], ["ParamSpec", "P"]]}]),
        ("type type = type\n", "_PVTA_1 = type\n", [{"kind": "alias", "marker": "_PVTA_1", "name": "type", "params": []}]),
        ("type match[case] = case\n", "_PVTA_1 = case\n",
         [{"kind": "alias", "marker": "_PVTA_1", "name": "match", "params": [["TypeVar", "case", None]]}]),
        ("def G1[T](a: T) -> T: pass\n", "def G1(a: T) -> T: pass\n", [{"kind": "params", "defname": "G1", "params": [["TypeVar", "T", None]]}]),
        ("class G1[T, *U](B, metaclass=M): pass\n", "class G1(B, metaclass=M): pass\n",
         [{"kind": "params", "defname": "G1", "params": [["TypeVar", "T", None], ["TypeVarTuple", "U"]]}]),
        ("if x:\n    type X = int\n", "if x:\n    _PVTA_1 = int\n", [{"kind": "alias", "marker": "_PVTA_1", "name": "X", "params": []}]),
        # repaired (a type alias may follow `;` or a one-line compound header): regressions are violations
        ("pass; type X = int\n", "pass; _PVTA_1 = int\n", [{"kind": "alias", "marker": "_PVTA_1", "name": "X", "params": []}]),
        ("if x: type X = int\n", "if x: _PVTA_1 = int\n", [{"kind": "alias", "marker": "_PVTA_1", "name": "X", "params": []}]),
    ]
    al = lambda k, name="X", params=(): {"kind": "alias", "marker": "_PVTA_%d" % k, "name": name, "params": list(params)}
    for head in ("for x in y:", "while x:", "class C:", "if x: pass\nelse:", "try: pass\nfinally:", "try: pass\nexcept E:",
                 "with a as b:", "match x:\n  case y:", "def f():", "async def f():", "if x: y;", "if x:\n  pass;", "print(1);",
                 "x = [1];", "x = {1: 2};", "x = d[1:2];", "x = (lambda: 1);", "if d[1:2]:", "if {1: 2}:", "if (lambda: 1):",
                 "if x: # c\n ", "pass ;", "x: int = 1;", "lambda: 0;", "if lambda: 0:"):
        items.append((head + " type X = int\n", head + " _PVTA_1 = int\n", [al(1)]))
    items += [
        ("x = 1; type X = 2; type Y[T] = T\n", "x = 1; _PVTA_1 = 2; _PVTA_2 = T\n", [al(1), al(2, "Y", [["TypeVar", "T", None]])]),
        ("if x: type X[T] = T; type type = type\n", "if x: _PVTA_1 = T; _PVTA_2 = type\n", [al(1, "X", [["TypeVar", "T", None]]), al(2, "type")]),
        ("pass; type match = int\n", "pass; _PVTA_1 = int\n", [al(1, "match")]),
        ("pass; type X \\\n = int\n", "pass; _PVTA_1 \\\n = int\n", [al(1)]),
        ("if x: type X = ( # c\n int)\n", "if x: _PVTA_1 = ( # c\n int)\n", [al(1)]),
    ]
    out = []
    for text, twin, patches in items:
        out.append(refsweep.make_request("m", 1, text, json.dumps({"twin": twin, "patches": patches})))
    return out


def search(ctx, disagreements, bins):
    """disagreements of the prog-* streams (Lean reference parser vs real parser): shrink, then judge the REAL parser against
    CPython on the shrunk text — only a text CPython accepts with a different tree (or rejects/accepts differently) is a
    failing input of this property"""
    import props.prog as PROG
    pd = [dict(e, stream=e["stream"][5:]) for e in disagreements if e.get("stream", "").startswith("prog-")]
    if not pd:
        return None
    found = PROG.search(ctx, pd, bins)
    if not found:
        return None
    mode = {"Module": "m", "Interactive": "i", "Expression": "e"}.get(found.get("mode"), "m")
    try:
        req = refsweep.make_request(mode, 1, found["source"], None)
        _REFS[req] = refsweep.reference(found["source"], mode, None)
        hbin = bins.get((HARNESS["bin"], HARNESS.get("features", "default")))
        ans = core.run_lines([hbin], [req])[0]
        fail = oracle(req, ans)
    except Exception:
        req, ans, fail = None, None, None
    if fail and not classify(req, ans, None, fail):
        found["failure"] = fail
        found["request"] = req
        found["impl"] = ans
        return found
    return None
