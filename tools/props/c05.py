"""C05 — the token stream tiles the source: nothing dropped, nothing misplaced."""
import itertools
import keyword
import os
import token as pytoken

import core
from core import Stream, hexs, unhex
import lexcommon as lc
import lexgen
import softkw_seq

ID = "C05"
DESIGN_REF = "DESIGN.md section 5, C05 (+ Appendix B); design/C05.md, design/LEXER_MODEL.md"
LEAN_TARGETS = ["PV.C05.Thm", "PV.C05.Tables"]
DRIVER = "drv_c05"
HARNESS = {"bin": "pvh_c05", "features": "default"}
EXTRA_HARNESS = [lc.FULL_HARNESS]
THEOREMS = [
    "PV.Lexer.step_ok",
    "PV.Lexer.step_err",
    "PV.C05.lex_terminates",
    "PV.C05.tokens_in_bounds",
    "PV.C05.tokens_on_boundaries",
    "PV.C05.tokens_ordered_disjoint",
    "PV.C05.token_text_spells",
    "PV.C05.newline_only_at_depth0",
    "PV.C05.indents_balanced",
    "PV.C05.full_lexer_tiles",
    "PV.C05.gaps_are_trivia",
    "PV.C05.indent_dedent_at_line_start",
    "PV.C05.nonlogical_newline_placement",
    "PV.C05.spelling_table_eq",
    "PV.C05.default_gaps_line_breaks",
]
TRUSTED = [
    "Lean 4.33.0 kernel; axioms limited to propext, Classical.choice, Quot.sound",
    "hand-written model lean/PV/Lexer/{Tok,Model,SoftKw}.lean of parser/src/{lexer,token,soft_keywords}.rs and the "
    "keyword table of parser/build.rs, tied to the code on every run by the correspondence streams of this check "
    "(both lexer configurations)",
    "Unicode tables of unic-ucd-ident / unic-emoji-char are parameters of the model; the theorems assume only "
    "UParams.Sane (identifier-start characters are identifier characters; CR and LF are not), which pre_build "
    "checks on the real lexer for every scalar value",
    "f64::from_str and BigInt::from_str_radix modelled by their contract (correctly rounded value of the cleaned "
    "numeral / value of the digit string); CPython float() is the decimal->double reference in the comparison",
    "itertools::MultiPeek modelled as look-ahead on the finite token list",
    "tools/props/c05.py + tools/lexgen.py + tools/lexcommon.py (generators, independent Python oracle), "
    "harness/src/bin/pvh_c05.rs, lean/Drv/C05.lean",
]
PARTIAL = [
    "float / imaginary tokens: the theorem says the token's numeral is the literal's text with underscores removed "
    "and the exponent marker lower-cased; that f64::from_str rounds this numeral correctly is trusted "
    "(compared bit-for-bit with CPython float() on every run)",
    "default_gaps_line_breaks packages \"which line breaks the DEFAULT lexer leaves in gaps\" (combination of full_lexer_tiles, "
    "nonlogical_newline_placement, token_text_spells and PV.C10.full_lexer_filter): every line break not covered by a token is a "
    "backslash join, or stands at bracket depth > 0, or on a line without a token so far. The exemption of backslash joins is by "
    "shape (a line-break character directly behind a backslash; the LF of backslash CR LF), not by lexer state: a comment-only or "
    "bracketed line ending in a backslash is exempted although the theorem's other two alternatives would cover it",
]
READY = True
TECHNIQUE = ("Lean 4 theorems over a hand-written character-level model of the lexer + exhaustive/random/real-program "
             "correspondence with the real crate in both lexer configurations + independent Python tiling oracle")
LEVEL_TEXT = ("Machine-checked Lean 4 theorems about a character-level model of the hand-written lexer and the soft-keyword "
              "pass, for every source text, start offset, mode, both lexer configurations and any Unicode tables with "
              "XID_Start inside XID_Continue: the loop terminates with fuel length+1; token ranges are inside the input, on "
              "character boundaries (byte offsets are prefix sums of UTF-8 sizes), ordered and disjoint; the text under every "
              "token spells it (names, keywords and operators by CPython's tables, integers by value incl. radix prefixes "
              "and underscores, float/imaginary numerals, strings with prefix, quotes and CR/CRLF-normalised body, comments, "
              "line breaks, INDENT/DEDENT); NEWLINE only at bracket depth 0; INDENT/DEDENT balance never negative and zero at "
              "the end; with full-lexer the tokens tile the source with only blanks/form feeds/backslash-newline joins in "
              "between; in the default configuration the gaps are accepted by a gap scanner (blanks, joins, comments to end "
              "of line, line breaks). The model is tied to the Rust code on every run by differential correspondence in both "
              "builds (exhaustive texts of length <= 3/4 over 26 symbols, generated programs in every layout, token soup, "
              "random edits, whole CPython stdlib files), a behaviourally re-extracted spelling table proved equal to the "
              "reference, and the real token stream is judged by an independent Python tiling oracle.")
LEVEL_NOTE = ("Trusted: Lean kernel (axioms propext/Classical.choice/Quot.sound only); fidelity of the hand-written model "
              "PV/Lexer/{Tok,Model,SoftKw}.lean as sampled by the correspondence streams; unic XID / emoji tables as model "
              "parameters (sanity hypothesis checked on all scalar values each run); f64::from_str, BigInt parsing and "
              "itertools::MultiPeek by contract; generators, oracle, harness, driver.")
RULE = ("request lines (configuration x mode x start offset x source text) sent to both the real lexer and the Lean "
        "model; distinct = distinct request line; non-trivial = the source text is non-empty")

# ---------------------------------------------------------------------------------------------
# independent spelling tables (CPython's `token` and `keyword` modules)

def _op_table():
    by_name = {pytoken.tok_name[tid]: sp for sp, tid in pytoken.EXACT_TOKEN_TYPES.items()}
    return by_name


_PY_OPS = _op_table()
_RUST_TO_PY = {"MINUSEQUAL": "MINEQUAL"}        # the only variant not named like CPython's token


def op_spelling(variant):
    n = variant.upper()
    return _PY_OPS.get(_RUST_TO_PY.get(n, n))


_KW = {}
for _k in list(keyword.kwlist) + ["match", "case", "type"]:
    _KW[_k[0].upper() + _k[1:]] = _k

_STR_PREFIX = {"String": "", "FString": "f", "Bytes": "b", "RawString": "r", "RawFString": "fr",
               "RawBytes": "br", "Unicode": "u"}
_BREAKS = (b"\n", b"\r\n", b"\r")
_BOM = "\ufeff".encode()


def _is_break_at(b, i):
    return b[i:i + 1] in (b"\n", b"\r")


def _num_chars_ok(t, allowed):
    return bool(t) and all(c in allowed for c in t) and t[0] not in "+-_"


def _check_string(txt, payload):
    kind, triple, hv = payload.split(":")
    triple = triple == "1"
    value = unhex(hv).decode("utf-8")
    i = 0
    while i < len(txt) and txt[i].isalpha():
        i += 1
    prefix, rest = txt[:i], txt[i:]
    if kind not in _STR_PREFIX:
        return f"unknown string kind {kind}"
    if sorted(prefix.lower()) != sorted(_STR_PREFIX[kind]):
        return f"string prefix {prefix!r} does not spell kind {kind}"
    if not rest or rest[0] not in "'\"":
        return "string token does not start with a quote after its prefix"
    q = rest[0]
    ql = 3 if triple else 1
    if triple and not rest.startswith(q * 3):
        return "triple_quoted flag but the text does not open with three quotes"
    if not triple and rest.startswith(q * 3):
        return "text opens with three quotes but triple_quoted is false"
    if len(rest) < 2 * ql or not rest.endswith(q * ql) or not rest.startswith(q * ql):
        return "string token does not cover both quotes"
    inner = rest[ql:]                  # body + closing quotes
    body_len = len(rest) - 2 * ql
    j = 0
    while j < len(inner):
        c = inner[j]
        if c == "\\":
            j += 3 if inner.startswith("\r\n", j + 1) else 2
            continue
        if not triple and c in "\r\n":
            return "single-quoted string token spans a line break"
        if inner.startswith(q * ql, j):
            break
        j += 1
    if j != body_len:
        return "string token does not end at its first unescaped closing quote"
    body = inner[:body_len]
    if body.replace("\r\n", "\n").replace("\r", "\n") != value:
        return "string value is not the text between the quotes (line breaks normalised)"
    return None


def check_stream(text, start, full, toks):
    """Judge a successful token stream against the property. Returns None or a failure string."""
    b = text.encode("utf-8")
    n = len(b)
    pos = 0
    depth = 0
    blank = True           # no significant token since the last line break at depth 0 (or the start)
    bal = 0
    prev_sig = None        # kind of the previous token that is not Comment / NonLogicalNewline

    def boundary(i):
        return i == n or (b[i] & 0xC0) != 0x80

    def gap(lo, hi, nxt_break_or_eof):
        nonlocal blank
        i = lo
        while i < hi:
            c = b[i:i + 1]
            if c in (b" ", b"\t", b"\x0c"):
                i += 1
            elif i == 0 and b.startswith(_BOM) and hi >= 3:
                i = 3
            elif c == b"#":
                if full:
                    return f"comment at {i} is not reported as a token (full-lexer)"
                j = i
                while j < hi and not _is_break_at(b, j):
                    j += 1
                if j == hi and not nxt_break_or_eof:
                    return f"comment starting at {i} does not extend to the end of its line: a token starts inside it"
                i = j
            elif c == b"\\":
                if b[i + 1:i + 3] == b"\r\n" and i + 3 <= hi:
                    i += 3
                elif b[i + 1:i + 2] in (b"\n", b"\r") and i + 2 <= hi:
                    i += 2
                else:
                    return f"backslash at {i} between tokens is not a backslash-newline join"
                blank = False
            elif c in (b"\n", b"\r"):
                if full:
                    return f"line break at {i} is not reported as a token (full-lexer)"
                if depth == 0 and not blank:
                    return f"line break at {i} ends a non-blank line outside brackets but no NEWLINE token covers it"
                i += 2 if b[i:i + 2] == b"\r\n" and i + 2 <= hi else 1
            else:
                return f"text between tokens at {i} is not whitespace/comment/join: {b[i:i + 12]!r}"
        return None

    def line_prefix_blank(s):
        i = s
        while i > 0 and not _is_break_at(b, i - 1):
            i -= 1
        seg = b[i:s]
        if i == 0 and seg.startswith(_BOM):
            seg = seg[3:]
        # a form feed resets the column; comments cannot precede a token on its line
        return all(ch in b" \t\x0c" for ch in seg)

    for (kind, payload, s, e) in toks:
        s -= start
        e -= start
        if not (0 <= s <= e <= n):
            return f"{kind} range {s}..{e} is not inside the input (length {n})"
        if not boundary(s) or not boundary(e):
            return f"{kind} range {s}..{e} is not on character boundaries"
        if s < pos:
            return f"{kind} range {s}..{e} starts before the end {pos} of the previous token"
        r = gap(pos, s, s == n or _is_break_at(b, s))
        if r:
            return r
        raw = b[s:e]
        pos = e
        if kind == "Newline":
            if depth != 0:
                return f"NEWLINE at {s} inside brackets"
            if raw not in _BREAKS and not (raw == b"" and s == n):
                return f"NEWLINE at {s} covers {raw!r}"
            if raw == b"\r" and b[e:e + 1] == b"\n":
                return f"NEWLINE at {s} covers only the CR of a CRLF"
            blank = True
            prev_sig = kind
            continue
        if kind == "NonLogicalNewline":
            if not full:
                return "NonLogicalNewline token in the default configuration"
            if raw not in _BREAKS or (raw == b"\r" and b[e:e + 1] == b"\n"):
                return f"NonLogicalNewline at {s} covers {raw!r}"
            if depth == 0 and not blank:
                return f"NonLogicalNewline at {s} ends a non-blank line outside brackets"
            continue
        if kind == "Comment":
            if not full:
                return "Comment token in the default configuration"
            if raw != unhex(payload) or not raw.startswith(b"#") or b"\n" in raw or b"\r" in raw:
                return f"Comment token at {s} does not carry its exact text"
            if not (e == n or _is_break_at(b, e)):
                return f"Comment token at {s} does not extend to the end of its line"
            continue
        if kind == "Indent":
            if not raw or any(ch not in b" \t" for ch in raw):
                return f"INDENT at {s} covers {raw!r}"
            if prev_sig not in (None, "Newline"):
                return f"INDENT at {s} is not at the start of a logical line (after {prev_sig})"
            if not line_prefix_blank(s):
                return f"INDENT at {s} is not at the start of its line"
            if s > 0 and b[s - 1:s] in (b" ", b"\t"):
                return f"INDENT at {s} does not cover the whole indentation of its line"
            bal += 1
            prev_sig = kind
            blank = False
            continue
        if kind == "Dedent":
            if raw != b"":
                return f"DEDENT at {s} is not empty"
            if prev_sig not in ("Newline", "Dedent"):
                return f"DEDENT at {s} is not at the start of a logical line (after {prev_sig})"
            if s != n and not line_prefix_blank(s):
                return f"DEDENT at {s} is not at the start of its line"
            bal -= 1
            if bal < 0:
                return f"DEDENT at {s} without a matching INDENT"
            prev_sig = kind
            continue
        blank = False
        prev_sig = kind
        try:
            txt = raw.decode("utf-8")
        except UnicodeDecodeError:
            return f"{kind} range {s}..{e} is not valid text"
        if kind == "Name":
            if txt != unhex(payload).decode("utf-8"):
                return f"Name at {s}: value differs from its text {txt!r}"
            if not (txt.isidentifier() or len(txt) == 1) or txt == "":
                return f"Name at {s}: text {txt!r} is not one identifier"
        elif kind in _KW:
            if txt != _KW[kind]:
                return f"keyword {kind} at {s} covers {txt!r}"
        elif op_spelling(kind) is not None:
            if txt != op_spelling(kind):
                return f"operator {kind} at {s} covers {txt!r}"
            if kind in ("Lpar", "Lsqb", "Lbrace"):
                depth += 1
            elif kind in ("Rpar", "Rsqb", "Rbrace"):
                depth = max(0, depth - 1)
        elif kind == "Int":
            try:
                if not _num_chars_ok(txt, "0123456789abcdefABCDEFxXoO_"):
                    raise ValueError
                v = int(txt, 0)
            except ValueError:
                return f"Int at {s}: text {txt!r} is not an integer literal"
            if str(v) != payload:
                return f"Int at {s}: value {payload[:40]} is not the value of {txt[:40]!r}"
        elif kind == "Float":
            try:
                if not _num_chars_ok(txt, "0123456789.eE+-_") or not any(c in txt for c in ".eE"):
                    raise ValueError
                bits = lc.float_bits(txt)
            except ValueError:
                return f"Float at {s}: text {txt!r} is not a float literal"
            if bits != payload:
                return f"Float at {s}: value bits {payload} are not the value of {txt!r}"
        elif kind == "Complex":
            try:
                if txt[-1:] not in ("j", "J") or not _num_chars_ok(txt[:-1], "0123456789.eE+-_"):
                    raise ValueError
                bits = lc.float_bits(txt[:-1])
            except ValueError:
                return f"Complex at {s}: text {txt!r} is not an imaginary literal"
            if payload != "0000000000000000," + bits:
                return f"Complex at {s}: value {payload} is not the value of {txt!r}"
        elif kind == "String":
            r = _check_string(txt, payload)
            if r:
                return f"String at {s}: {r}"
        else:
            return f"unexpected token kind {kind} in a lexer stream"
    r = gap(pos, n, True)
    if r:
        return r
    if bal != 0:
        return f"{bal} INDENT(s) not matched by a DEDENT before the end of input"
    return None


def oracle(req, out):
    """Judge the implementation's answer against the property, independently of the Lean model."""
    ws = req.split()
    if ws[0] not in ("lex", "lexf"):
        return None
    if out in ("wrong-cfg", "bad-request"):
        return "harness refused the request: " + out
    toks, end = lc.parse_stream(out)
    if end[0] == "abnormal" and end[1].startswith("unparsable"):
        return end[1]
    if end[0] != "end":
        return None            # the property speaks about texts that lex without error
    f = lc.req_fields(req)
    return check_stream(f["text"], f["start"], f["full"], toks)


def canon(req, out):
    """applied to both answers before they are compared: float payloads to bit patterns; answers
    that end in an error are outside this property and collapse to `(err)`"""
    if out is None:
        return out
    return lc.mask_errors(lc.canon_floats(out))


# ---------------------------------------------------------------------------------------------
# pre_build: Unicode parameter sanity (hypothesis UParams.Sane of the theorems) on the real lexer

_OP_NAMES = ["Lpar", "Rpar", "Lsqb", "Rsqb", "Colon", "Comma", "Semi", "Plus", "Minus", "Star", "Slash", "Vbar", "Amper",
             "Less", "Greater", "Equal", "Dot", "Percent", "Lbrace", "Rbrace", "EqEqual", "NotEqual", "LessEqual",
             "GreaterEqual", "Tilde", "CircumFlex", "LeftShift", "RightShift", "DoubleStar", "DoubleStarEqual",
             "PlusEqual", "MinusEqual", "StarEqual", "SlashEqual", "PercentEqual", "AmperEqual", "VbarEqual",
             "CircumflexEqual", "LeftShiftEqual", "RightShiftEqual", "DoubleSlash", "DoubleSlashEqual",
             "ColonEqual", "At", "AtEqual", "Rarrow", "Ellipsis"]
_KW_NAMES = ["False", "None", "True", "And", "As", "Assert", "Async", "Await", "Break", "Class", "Continue", "Def", "Del",
             "Elif", "Else", "Except", "Finally", "For", "From", "Global", "If", "Import", "In", "Is", "Lambda",
             "Nonlocal", "Not", "Or", "Pass", "Raise", "Return", "Try", "While", "Match", "Type", "Case", "With", "Yield"]
_GEN_PATH = os.path.join(core.LEAN, "PV", "Gen", "C05Tables.lean")


def _spelling_table(ctx):
    """Behavioural extraction: lex every candidate lexeme with the REAL lexer and record which token
    it becomes.  Written to lean/PV/Gen/C05Tables.lean; PV/C05/Tables.lean proves (decide) that the
    table equals the reference spelling (Spec.opText / Spec.kwText) and is complete."""
    rc, out, hbin = core.cargo_build("pvh_c05", "default")
    if rc != 0:
        return [("spelling-table extraction", False, "cargo build failed")]
    # (lexeme, text to lex, index of the token to look at, its byte offset)
    cands = []
    closers = {")": "()", "]": "[]", "}": "{}"}
    openers = {"(": "()", "[": "[]", "{": "{}"}
    for sp in sorted(pytoken.EXACT_TOKEN_TYPES):
        if sp in closers:
            cands.append((sp, closers[sp], 1, 1))
        elif sp in openers:
            cands.append((sp, openers[sp], 0, 0))
        else:
            cands.append((sp, sp, 0, 0))
    for kw in list(keyword.kwlist):
        cands.append((kw, kw, 0, 0))
    cands += [("match", "match x: pass", 0, 0), ("case", "case x: pass", 0, 0), ("type", "type X = int", 0, 0)]
    # a few non-lexemes, to see that they do NOT become one operator / keyword token
    cands += [(x, x, 0, 0) for x in ("<>", "=>", "=<", "&&", "||", "++", "--", "!", "?", "$", "print", "exec",
                                     "nonlocals", "none", "NONE")]
    reqs = [lc.lexreq(c[1], full=False) for c in cands]
    outs = core.run_lines([hbin], reqs)
    ops, kws = {}, {}
    for (lexeme, ctx_text, idx, off), o in zip(cands, outs):
        toks, end = lc.parse_stream(o)
        if len(toks) <= idx:
            continue
        kind, payload, s, e = toks[idx]
        if (s, e) != (off, off + len(lexeme.encode())):
            continue
        if ctx_text == lexeme and [t[0] for t in toks[1:]] != ["Newline"]:
            continue
        if kind in _OP_NAMES:
            ops.setdefault(kind, []).append(lexeme)
        elif kind in _KW_NAMES:
            kws.setdefault(kind, []).append(lexeme)

    def codes(t):
        return "[" + ", ".join(str(ord(c)) for c in t) + "]"
    lines = ["import PV.Lexer.Tok",
             "/-! GENERATED by tools/props/c05.py (pre_build) from the behaviour of the real lexer: which single",
             "    operator / keyword token each candidate lexeme becomes.  Do not edit. -/",
             "namespace PV.Gen.C05", "open PV.Lexer", "",
             "def opTable : List (Op × List Nat) := ["]
    lines.append(",\n".join(f"  (.{k}, {codes(t)})" for k in _OP_NAMES for t in ops.get(k, [])))
    lines += ["]", "", "def kwTable : List (Kw × List Nat) := ["]
    lines.append(",\n".join(f"  (.{'Type_' if k == 'Type' else k}, {codes(t)})" for k in _KW_NAMES for t in kws.get(k, [])))
    lines += ["]", "", "end PV.Gen.C05", ""]
    text = "\n".join(lines)
    os.makedirs(os.path.dirname(_GEN_PATH), exist_ok=True)
    old = open(_GEN_PATH, encoding="utf-8").read() if os.path.exists(_GEN_PATH) else None
    if old != text:
        with open(_GEN_PATH, "w", encoding="utf-8") as f:
            f.write(text)
    n = sum(len(v) for v in ops.values()) + sum(len(v) for v in kws.values())
    return [("spelling-table extraction (lean/PV/Gen/C05Tables.lean)", True,
             f"{n} (token, lexeme) rows from {len(cands)} candidate lexemes")]


def pre_build(ctx):
    t = lc.cls_tables(refresh=True)
    res = []
    bad = sorted(t["start"] - t["continue"])[:5]
    res.append(("unicode-params: identifier-start characters are identifier characters (all scalar values)",
                not bad, f"counterexamples {bad}" if bad else f"{len(t['start'])} start / {len(t['continue'])} continue / {len(t['emoji'])} emoji"))
    forb = [c for c in (10, 13) if c in t["continue"] or c in t["start"]]
    res.append(("unicode-params: CR and LF are not identifier characters", not forb, str(forb)))
    res += _spelling_table(ctx)
    return res


# ---------------------------------------------------------------------------------------------
# streams

ALPHABET = [" ", "\t", "\n", "\r", "\x0c", "#", "\\", "\"", "'", "(", ")", "a", "_", "0", "1", ".", "e", "j",
            "x", "=", "-", ">", ":", "!", "\u00e9", "\ufeff"]

CORPUS = [
    "", "\n", "\r", "\r\n", "x", "x\n", "x\r\ny\rz\n", "\ufeffx = 1\n", "\ufeff", "\ufeff\ufeffx",
    "if x:\n  y\n", "if x:\n  y", "if x:\n\ty\n  z\n", "if x:\n  y\n z\n", "if x:\n  y\n\tz\n", " x\n", "  x\n y\n",
    "if a:\n    if b:\n        c\nd\n", "if a:\n    if b:\n        c\n", "if a:\n\tb\n        c\n",
    "x = (1,\n     2)\n", "x = [\n# c\n1]\n", "f(\n\n)\n", "x = 1 \\\n  + 2\n", "x \\\r\n y", "\\\n", "x\\", "x\\ \n",
    "\\\nx", "   \\\n  x\n",
    "# only a comment", "# c\n", "  # c\n\n  \n", "x # c\ny", "\x0c x\n", "  \x0c  x\n", "x\x0cy\n", " \t x\n", "\t x\n  y",
    "if 1:\n \x0c  x\n",
    "a=b==c!=d<=e>=f<g>h<<i>>j<<=k>>=l**m**=n//o//=p->q:=r...s.t", "a+=1;b-=2;c*=3;d/=4;e%=5;f&=6;g|=7;h^=8;i@=9;j@k~l",
    "(a)[b]{c}", ")", "(]", "((", "{\n", "!", "a!b", "$", "?", "`",
    "0 00 0_0 007 1_000 0x1F 0X_ff 0o17 0b1_01 0xg 0x 0o8 0b2 1__0 1_ 0_x",
    "1. .5 1.5 1.e5 1e5 1E-5 1e+5 1e 1e+ 1.5e 1._5 1_.5 1e_5 1e+_5 1j 1.5J 1e3j 01j 09.5 00.0 0e0 1.else 1if 1.real",
    "0.1 0.30000000000000004 1e400 5e-324 2.5e-324 123456789012345678901234567890 1.7976931348623157e308",
    "'a' \"b\" '''c''' \"\"\"d\"\"\" '' \"\" '''''' 'a\\'b' \"a\\\\\" 'a\\\nb' '''a\nb\r\nc\rd''' 'é' '''x''''y'",
    "r'a' R\"b\" b'c' B'd' u'e' U'f' f'g' F'h' rb'i' bR'j' Rb'k' BR'l' br'm' rf'n' fR'o' Fr'p' RF'q' ur'r' bu's' ff't' rr'u'",
    "'abc", "\"abc\n\"", "'''abc", "'a\\", "f'{x}' f'''{\nx}'''", "rb", "rb + 1", "b", "f\"", "r'''a\\'''b'''",
    "match x:\n  case 1: pass\n", "match = 1\n", "match(x)\n", "match[x]: int\n", "print(match)\n", "match x: pass",
    "type X = int\n", "type(x)\n", "type = 3\n", "type X[T] = list[T]\n", "type type = type\n", "x = type\n",
    # the `type` look-ahead meets Comment / NonLogicalNewline tokens (full-lexer; repaired by e335017)
    "type X[(] # c\n= int)\n", "type X[(]\n\n# c\n= int)\n", "type X[T] = (  # c\n\n  int)\n", "type X[\n# c\nT] = int\n",
    "case = 1\n", "match x:\n    case [a, b]: pass\n    case {'k': v}: pass\n", "match lambda: 1:\n  case _: pass\n",
    "match x, y:\n case 1, 2: pass\n", "match (\nx\n):\n case 1: pass\n", "if x:\n    match y:\n        case 1: pass\n",
    "# c\nmatch x:\n  case 1: pass\n", "\n\nmatch x:\n  case 1: pass\n", "class A:\n  type X = int\n  # c\n  type Y = int\n",
    "é = 1\n", "日本 = 'x'\n", "x = 😀\n", "😀😀", "a\u00a0b", "ﬁ = 1", "x\u2028y", "a\u0301",
    "def f(a, b=1, *c, d, **e) -> int:\n    return a+b\n", "class A(B, metaclass=M):\n    pass\n",
    "x = {\n  'a': 1,  # one\n  'b': [\n     2,\n  ],\n}\n", "if x:\n  pass\n# c\nelse:\n  pass\n",
    "async def f():\n    await g()\n", "lambda x: (yield)\n", "x = 1 if y else 2\n", "@dec\ndef f(): ...\n",
    "try:\n  pass\nexcept* E as e:\n  pass\nfinally:\n  pass\n", "from . import (a,\n  b)\n",
    "x\n\n\n", "x\n  \n", "x\n#c", "x #c", "if x:\n  y\n  #c\n", "if x:\n  y\n#c\n  z\n", "if x:\n  y\n\n\n", "if x:\n  y\n  ",
    "if x:\n  y\n ", "if x:\n  y\n\t", "\n  x", "\r\n\r\n  x\r\n", "a\rb\r\n\nc",
]


def _both(reqtext, **kw):
    return [lc.lexreq(reqtext, full=False, **kw), lc.lexreq(reqtext, full=True, **kw)]


def _split(reqs):
    """split a request list into (default build, full-lexer build) lists"""
    return [r for r in reqs if r.startswith("lex ")], [r for r in reqs if r.startswith("lexf ")]


def _pair(name, reqs, **kw):
    plain, full = _split(reqs)
    nt = lambda r: r.split()[3] != "-"
    return [Stream(name + " [default]", plain, harness=lc.PLAIN_HARNESS, nontrivial=nt, **kw),
            Stream(name + " [full-lexer]", full, harness=lc.FULL_HARNESS, nontrivial=nt, **kw)]


def _stdlib_files():
    root = os.path.dirname(os.__file__)
    out = []
    for d, dirs, files in os.walk(root):
        dirs.sort()
        if "site-packages" in d:
            continue
        for f in sorted(files):
            if f.endswith(".py"):
                out.append(os.path.join(d, f))
    return root, out


def _real_programs(ctx):
    rng = ctx.rng("real")
    root, files = _stdlib_files()
    fixed = ["os.py", "tokenize.py", "test/test_grammar.py", "test/test_tokenize.py", "test/test_string_literals.py",
             "test/test_unicode_identifiers.py", "test/test_patma.py", "test/test_type_aliases.py",
             "lib2to3/tests/data/py3_test_grammar.py", "test/test_eof.py", "test/test_fstring.py",
             "encodings/cp1252.py", "test/test_float.py", "test/test_long.py"]
    limit = 120_000 if ctx.quick else 2_000_000
    chosen = [os.path.join(root, f) for f in fixed if os.path.exists(os.path.join(root, f))]
    pool = [f for f in files if f not in chosen]
    rng.shuffle(pool)
    want = 110 if ctx.quick else 1200
    for f in pool:
        if len(chosen) >= want:
            break
        try:
            if os.path.getsize(f) <= limit:
                chosen.append(f)
        except OSError:
            pass
    reqs = []
    names = []
    for f in chosen:
        try:
            raw = open(f, "rb").read()
            text = raw.decode("utf-8")
        except (OSError, UnicodeDecodeError):
            continue
        if len(raw) > (200_000 if ctx.quick else limit):
            continue
        if any(0xD800 <= ord(c) <= 0xDFFF for c in text):
            continue
        names.append(os.path.relpath(f, root))
        variants = [text]
        v = rng.randrange(4)
        base = text.replace("\r\n", "\n")
        if v == 0:
            variants.append(base.replace("\n", "\r\n"))
        elif v == 1:
            variants.append(base.replace("\n", "\r"))
        elif v == 2:
            variants.append("\ufeff" + text)
        else:
            variants.append(lexgen.retab(base))
        for t in variants:
            k = rng.choice([0, 0, 0, 1, 400])
            reqs += _both(t, start=k)
    return reqs, names


def streams(ctx):
    out = []
    # 1. corpus
    reqs = ["asciicls"]
    for t in CORPUS:
        reqs += _both(t)
        reqs += [lc.lexreq(t, mode="e", full=False), lc.lexreq(t, mode="i", full=True), lc.lexreq(t, start=400, full=False)]
    rng = ctx.rng("corpus-ops")
    for sp in list(pytoken.EXACT_TOKEN_TYPES) + list(keyword.kwlist) + ["match", "case", "type", "_"]:
        for t in (sp, f"a{sp}b", f"a {sp} b", f"({sp}", f"{sp}=", f"{sp}{sp}", f"1{sp}1"):
            reqs += _both(t)
    # integer literals around machine-word boundaries in every base (a token's value is the value of its digits)
    rb = lc.radix_boundaries()
    for i in range(0, len(rb), 8):
        reqs += _both(" ".join(rb[i:i + 8]))
    plain = [r for r in reqs if not r.startswith("lexf ")]
    full = [r for r in reqs if not r.startswith("lex ")]
    out.append(Stream("corpus [default]", plain, kind="corpus", harness=lc.PLAIN_HARNESS))
    out.append(Stream("corpus [full-lexer]", full, kind="corpus", harness=lc.FULL_HARNESS))

    # 2. exhaustive small scope
    L = 3 if ctx.quick else 4
    reqs = []
    for n in range(L + 1):
        for tup in itertools.product(ALPHABET, repeat=n):
            reqs += _both("".join(tup))
    out += _pair(f"exhaustive-len<={L}", reqs, kind="exhaustive", exhaustive=True,
                 note=f"all texts of length <= {L} over {len(ALPHABET)} lexically significant characters "
                      "(blank, tab, LF, CR, FF, #, backslash, quotes, brackets, a _ 0 1 . e j x = - > : ! e-acute BOM)")

    core_alpha = [" ", "\t", "\n", "\r", "#", "\\", "'", "(", ")", "a", "1", ".", "="]
    L2 = 4 if ctx.quick else 5
    reqs = []
    for tup in itertools.product(core_alpha if ctx.quick else core_alpha[:11], repeat=L2):
        reqs += _both("".join(tup))
    out += _pair(f"exhaustive-len={L2}-core-alphabet", reqs, kind="exhaustive", exhaustive=True,
                 note=f"all texts of length exactly {L2} over the core symbols "
                      "(blank, tab, LF, CR, #, backslash, quote, brackets, a, 1" + (", ., =)" if ctx.quick else ")"))

    # 2b. the state of the soft-keyword pass (start_of_line / start_of_statement / nesting): every short sequence
    #     of statement-start pieces (`type X = 1`, `type`, `;`, `:`, `if a`, `lambda`, brackets, NEWLINE, `x`), so that
    #     the model's flags are tied to the code at every place a `type` alias may or may not start
    L3 = 4 if ctx.quick else 5
    reqs = []
    for t in softkw_seq.CORPUS:
        reqs += _both(t)
        reqs += [lc.lexreq(t, mode="e", full=False), lc.lexreq(t, mode="i", full=True), lc.lexreq(t, mode="e", full=True)]
    for t in softkw_seq.texts(L3):
        reqs += _both(t)
    out += _pair(f"softkw-statement-start-len<={L3}", reqs, kind="exhaustive", exhaustive=True,
                 note=f"every sequence of at most {L3} pieces over {len(softkw_seq.PIECES)} pieces "
                      "(type X = 1, type, ;, :, if a, lambda, ( ) [ ] { }, NEWLINE, x) + the regression corpus of the "
                      "former finding type-alias-not-at-line-start")
    L4 = 3 if ctx.quick else 4
    reqs = []
    for t in softkw_seq.texts_ext(L4):
        reqs += _both(t)
        if "\n" in t:
            reqs.append(lc.lexreq(t, mode="e", full=True))
    out += _pair(f"softkw-statement-start-ext-len<={L4}", reqs, kind="exhaustive", exhaustive=True,
                 note=f"every sequence of at most {L4} pieces over {len(softkw_seq.PIECES_EXT)} pieces (the former plus "
                      "comment, indented / dedented lines, continuation line, match x, case, type Y[T] =, =)")

    # 3. generated programs in every layout
    n = 3000 if ctx.quick else 60000
    rng = ctx.rng("programs")
    reqs = []
    for i in range(n):
        t = lexgen.program(rng)
        mode = rng.choice(["m", "m", "m", "i", "e"])
        k = rng.choice([0, 0, 0, 1, 400, 2 ** 31])
        reqs += _both(t, mode=mode, start=k)
    out += _pair("generated-programs-all-layouts", reqs, kind="random",
                 note="statement/expression generator x layout (tabs, form feeds, CR/CRLF/mixed, BOM, continuation lines, "
                      "deep indentation, comments, blank lines, every operator and keyword, number and string shapes)")

    # 4. token soup: lexemes glued without regard to grammar
    n = 8000 if ctx.quick else 60000
    rng = ctx.rng("soup")
    reqs = []
    for i in range(n):
        reqs += _both(lexgen.soup(rng))
    out += _pair("token-soup", reqs, kind="random", note="random sequences of lexemes and separators")

    # 5. real programs
    reqs, names = _real_programs(ctx)
    ctx.extra["real_program_files"] = len(names)
    out += _pair("cpython-stdlib-files", reqs, kind="directed",
                 note=f"{len(names)} whole files of the CPython 3.11 standard library, as is and in one layout variant "
                      "(CRLF / CR / BOM / re-tabbed)")

    # 6. malformed: random edits of generated programs
    n = 8000 if ctx.quick else 60000
    rng = ctx.rng("malformed")
    reqs = []
    for i in range(n):
        reqs += _both(lexgen.mutate(rng, lexgen.program(rng, small=True)))
    out += _pair("malformed-random-edits", reqs, kind="malformed",
                 note="generated programs after 1-4 random character edits (many no longer lex: only success/failure is compared there)")
    return out


# ---------------------------------------------------------------------------------------------
# violation search: look for an input near a disagreement on which the REAL lexer breaks the property

def search(ctx, disagreements, bins):
    seen = 0
    if not disagreements:
        # a proof obligation broke (e.g. the re-extracted spelling table no longer equals the reference):
        # judge the real lexer directly on the corpus and on every operator / keyword in context
        try:
            strs = [s for s in streams(ctx) if s.kind == "corpus"]
        except Exception:
            strs = []
        for s in strs:
            h = s.harness or HARNESS
            hbin = bins.get((h["bin"], h.get("features", "default")))
            if not hbin:
                continue
            outs = core.run_lines([hbin], s.requests, jobs=4)
            for r, o in zip(s.requests, outs):
                fail = oracle(r, o)
                if fail:
                    return {"stream": s.name, "request": r, "impl": o, "failure": fail}
        return None
    for e in disagreements[:40]:
        req = e["request"]
        ws = req.split()
        if ws[0] not in ("lex", "lexf"):
            continue
        f = lc.req_fields(req)
        text = f["text"]
        cands = []
        if len(text) <= 400:
            for i in range(len(text) + 1):
                cands.append(text[:i])
                cands.append(text[i:])
            for i in range(len(text)):
                cands.append(text[:i] + text[i + 1:])
        else:
            lines = text.splitlines(keepends=True)
            for i in range(0, len(lines), max(1, len(lines) // 60)):
                cands.append("".join(lines[:i]))
                cands.append("".join(lines[i:]))
        for extra in ("\n", " ", "x", "(", ")", "\n x\n"):
            cands.append(text + extra)
            cands.append(extra + text)
        reqs = list(dict.fromkeys(lc.lexreq(c, mode=f["mode"], start=f["start"], full=f["full"]) for c in cands))
        feat = "full-lexer" if f["full"] else "default"
        hbin = bins.get(("pvh_c05", feat))
        if not hbin:
            continue
        outs = core.run_lines([hbin], reqs, jobs=8)
        for r, o in zip(reqs, outs):
            fail = oracle(r, o)
            if fail:
                return {"stream": e["stream"], "request": r, "impl": o, "failure": fail,
                        "minimised_from": req[:2000]}
        seen += 1
    return None
